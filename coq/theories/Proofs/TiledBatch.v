(* Proofs about the _RunWriter model (Pure/TiledBatch.v): invariants of the handlers and the
   theorems quoted by Props/C46.v. *)
From Coq Require Import String Permutation.
From BV Require Import Base.Prelude Pure.TiledBatch.

(* ------------------------------------------------------------------ strings, dicts *)

Lemma seqb_eq a b : seqb a b = true <-> a = b.
Proof. apply String.eqb_eq. Qed.
Lemma seqb_refl a : seqb a a = true.
Proof. apply String.eqb_refl. Qed.
Lemma seqb_neq a b : seqb a b = false <-> a <> b.
Proof. apply String.eqb_neq. Qed.
Lemma seqb_sym a b : seqb a b = seqb b a.
Proof. apply String.eqb_sym. Qed.

Ltac sb :=
  repeat match goal with
  | H : seqb _ _ = true |- _ => apply seqb_eq in H; subst
  end.
Ltac sbn :=
  sb; repeat match goal with
  | H : seqb _ _ = false |- _ => apply seqb_neq in H
  end.

Lemma lookup_set {A} k k' (v : A) d :
  lookup k (dict_set k' v d) = if seqb k k' then Some v else lookup k d.
Proof.
  induction d as [|[k0 v0] d IH]; cbn.
  - destruct (seqb k k'); reflexivity.
  - destruct (seqb k' k0) eqn:E0; cbn.
    + sb. destruct (seqb k k0); reflexivity.
    + rewrite IH. destruct (seqb k k0) eqn:E1; [|reflexivity].
      sb. destruct (seqb k0 k') eqn:E2; [|reflexivity]. sb. rewrite seqb_refl in E0. discriminate.
Qed.

Lemma lookup_set_eq {A} k (v : A) d : lookup k (dict_set k v d) = Some v.
Proof. rewrite lookup_set, seqb_refl. reflexivity. Qed.

Lemma lookup_set_neq {A} k k' (v : A) d : k <> k' -> lookup k (dict_set k' v d) = lookup k d.
Proof. intros H. rewrite lookup_set. apply seqb_neq in H. rewrite H. reflexivity. Qed.

Lemma lookup_remove {A} k k' (d : list (string * A)) :
  NoDup (map fst d) ->
  lookup k (dict_remove k' d) = if seqb k k' then None else lookup k d.
Proof.
  induction d as [|[k0 v0] d IH]; cbn; intros ND.
  - destruct (seqb k k'); reflexivity.
  - inversion ND as [|? ? Hn ND']; subst.
    destruct (seqb k' k0) eqn:E0; cbn.
    + sb. destruct (seqb k k0) eqn:E1; [|reflexivity]. sb.
      clear - Hn. induction d as [|[k1 v1] d IH]; cbn in *; [reflexivity|].
      destruct (seqb k0 k1) eqn:E; sb; [tauto|]. apply IH. tauto.
    + rewrite IH by assumption. destruct (seqb k k0) eqn:E1; [|reflexivity].
      sb. rewrite seqb_sym, E0. reflexivity.
Qed.

Lemma lookup_none_notin {A} k (d : list (string * A)) : lookup k d = None <-> ~ In k (map fst d).
Proof.
  induction d as [|[k0 v0] d IH]; cbn; [tauto|].
  destruct (seqb k k0) eqn:E; sbn.
  - split; [discriminate | tauto].
  - rewrite IH. split; [intros H [H1|H1]; [congruence | tauto] | tauto].
Qed.

Lemma lookup_in {A} k (v : A) d : lookup k d = Some v -> In (k, v) d.
Proof.
  induction d as [|[k0 v0] d IH]; cbn; [discriminate|].
  destruct (seqb k k0) eqn:E; sb; [intros [= ->]; tauto | auto].
Qed.

Lemma in_lookup {A} k (v : A) d : NoDup (map fst d) -> In (k, v) d -> lookup k d = Some v.
Proof.
  induction d as [|[k0 v0] d IH]; cbn; [tauto|]. intros ND [H|H].
  - inversion H; subst. rewrite seqb_refl. reflexivity.
  - inversion ND as [|? ? Hn ND']; subst. destruct (seqb k k0) eqn:E; sb.
    + exfalso. apply Hn. apply in_map_iff. exists (k0, v). auto.
    + auto.
Qed.

Lemma NoDup_snoc {A} (l : list A) x : NoDup l -> ~ In x l -> NoDup (l ++ [x]).
Proof.
  induction l as [|y l IH]; cbn; intros ND Hn.
  - constructor; [tauto | constructor].
  - inversion ND; subst. constructor.
    + rewrite in_app_iff. cbn. intros [H|[H|[]]]; [tauto | subst; tauto].
    + apply IH; tauto.
Qed.

(* dict_set on an absent key appends *)
Lemma dict_set_absent {A} k (v : A) d : lookup k d = None -> dict_set k v d = d ++ [(k, v)].
Proof.
  induction d as [|[k0 v0] d IH]; cbn; [reflexivity|].
  destruct (seqb k k0) eqn:E; [discriminate|]. intros H. rewrite IH by assumption. reflexivity.
Qed.

Lemma dict_set_keys_present {A} k (v v0 : A) d : lookup k d = Some v0 -> map fst (dict_set k v d) = map fst d.
Proof.
  induction d as [|[k1 v1] d IH]; cbn; [discriminate|].
  destruct (seqb k k1) eqn:E; sb; cbn; [reflexivity|]. intros H. rewrite IH by assumption. reflexivity.
Qed.

Lemma dict_set_nodup {A} k (v : A) d : NoDup (map fst d) -> NoDup (map fst (dict_set k v d)).
Proof.
  intros ND. destruct (lookup k d) eqn:E.
  - erewrite dict_set_keys_present; eauto.
  - rewrite dict_set_absent by assumption. rewrite map_app. cbn.
    apply lookup_none_notin in E.
    apply NoDup_snoc; assumption.
Qed.

Lemma smem_in k l : smem k l = true <-> In k l.
Proof.
  induction l as [|x l IH]; cbn; [split; [discriminate | tauto]|].
  rewrite orb_true_iff, IH, seqb_eq. split; intros [H|H]; auto.
Qed.
Lemma smem_notin k l : smem k l = false <-> ~ In k l.
Proof. rewrite <- smem_in. destruct (smem k l); split; congruence. Qed.

(* ------------------------------------------------------------------ log projections, neutral extensions *)

Definition int_neutral (e : entry) : bool :=
  match e with LAppend _ _ | LCreateTable _ _ _ _ => false | _ => true end.
Definition ext_neutral (e : entry) : bool :=
  match e with LPut _ _ _ _ _ | LNewArray _ _ _ _ _ _ => false | _ => true end.
Definition root_neutral (e : entry) : bool :=
  match e with LCreateRoot _ _ _ | LUpdateRoot _ _ => false | _ => true end.

Lemma partitions_app n l1 l2 : partitions n (l1 ++ l2) = partitions n l1 ++ partitions n l2.
Proof. apply flat_map_app. Qed.
Lemma created_tables_app l1 l2 : created_tables (l1 ++ l2) = created_tables l1 ++ created_tables l2.
Proof. apply flat_map_app. Qed.
Lemma puts_app l1 l2 : puts (l1 ++ l2) = puts l1 ++ puts l2.
Proof. apply flat_map_app. Qed.
Lemma puts_of_app c l1 l2 : puts_of c (l1 ++ l2) = puts_of c l1 ++ puts_of c l2.
Proof. apply flat_map_app. Qed.
Lemma put_shapes_app c l1 l2 : put_shapes c (l1 ++ l2) = put_shapes c l1 ++ put_shapes c l2.
Proof. apply flat_map_app. Qed.
Lemma new_arrays_app l1 l2 : new_arrays (l1 ++ l2) = new_arrays l1 ++ new_arrays l2.
Proof. apply flat_map_app. Qed.
Lemma root_updates_app l1 l2 : root_updates (l1 ++ l2) = root_updates l1 ++ root_updates l2.
Proof. apply flat_map_app. Qed.

Lemma partitions_neutral n l : forallb int_neutral l = true -> partitions n l = [].
Proof.
  induction l as [|e l IH]; cbn; [reflexivity|]. intros H. apply andb_true_iff in H as [H1 H2].
  destruct e; cbn in *; try discriminate; auto.
Qed.
Lemma created_tables_neutral l : forallb int_neutral l = true -> created_tables l = [].
Proof.
  induction l as [|e l IH]; cbn; [reflexivity|]. intros H. apply andb_true_iff in H as [H1 H2].
  destruct e; cbn in *; try discriminate; auto.
Qed.
Lemma puts_neutral l : forallb ext_neutral l = true -> puts l = [].
Proof.
  induction l as [|e l IH]; cbn; [reflexivity|]. intros H. apply andb_true_iff in H as [H1 H2].
  destruct e; cbn in *; try discriminate; auto.
Qed.
Lemma puts_of_neutral c l : forallb ext_neutral l = true -> puts_of c l = [].
Proof.
  induction l as [|e l IH]; cbn; [reflexivity|]. intros H. apply andb_true_iff in H as [H1 H2].
  destruct e; cbn in *; try discriminate; auto.
Qed.
Lemma put_shapes_neutral c l : forallb ext_neutral l = true -> put_shapes c l = [].
Proof.
  induction l as [|e l IH]; cbn; [reflexivity|]. intros H. apply andb_true_iff in H as [H1 H2].
  destruct e; cbn in *; try discriminate; auto.
Qed.
Lemma new_arrays_neutral l : forallb ext_neutral l = true -> new_arrays l = [].
Proof.
  induction l as [|e l IH]; cbn; [reflexivity|]. intros H. apply andb_true_iff in H as [H1 H2].
  destruct e; cbn in *; try discriminate; auto.
Qed.
Lemma root_updates_neutral l : forallb root_neutral l = true -> root_updates l = [].
Proof.
  induction l as [|e l IH]; cbn; [reflexivity|]. intros H. apply andb_true_iff in H as [H1 H2].
  destruct e; cbn in *; try discriminate; auto.
Qed.
Lemma create_root_neutral l : forallb root_neutral l = true -> existsb is_create_root l = false.
Proof.
  induction l as [|e l IH]; cbn; [reflexivity|]. intros H. apply andb_true_iff in H as [H1 H2].
  destruct e; cbn in *; try discriminate; auto.
Qed.

Definition extends (P : entry -> bool) (st st' : state) : Prop :=
  exists ext, s_log st' = s_log st ++ ext /\ forallb P ext = true.

Lemma extends_refl P st : extends P st st.
Proof. exists []. rewrite app_nil_r. split; reflexivity. Qed.
Lemma extends_trans P a b c : extends P a b -> extends P b c -> extends P a c.
Proof.
  intros [e1 [H1 F1]] [e2 [H2 F2]]. exists (e1 ++ e2). rewrite H2, H1, app_assoc. split; [reflexivity|].
  rewrite forallb_app, F1, F2. reflexivity.
Qed.

Definition same_int (st st' : state) : Prop :=
  s_desc_nodes st' = s_desc_nodes st /\ s_icache st' = s_icache st /\ s_tables st' = s_tables st
  /\ extends int_neutral st st'.
Definition same_ext (st st' : state) : Prop :=
  s_ecache st' = s_ecache st /\ s_sres_nodes st' = s_sres_nodes st /\ s_cons st' = s_cons st
  /\ extends ext_neutral st st'.
Definition same_root (st st' : state) : Prop :=
  s_root st' = s_root st /\ s_rootmd st' = s_rootmd st /\ extends root_neutral st st'.

Lemma same_int_refl st : same_int st st.
Proof. repeat split; apply extends_refl. Qed.
Lemma same_ext_refl st : same_ext st st.
Proof. repeat split; apply extends_refl. Qed.
Lemma same_root_refl st : same_root st st.
Proof. repeat split; apply extends_refl. Qed.
Lemma same_int_trans a b c : same_int a b -> same_int b c -> same_int a c.
Proof.
  intros (A1 & A2 & A3 & A4) (B1 & B2 & B3 & B4). repeat split; try congruence.
  eapply extends_trans; eauto.
Qed.
Lemma same_ext_trans a b c : same_ext a b -> same_ext b c -> same_ext a c.
Proof.
  intros (A1 & A2 & A3 & A4) (B1 & B2 & B3 & B4). repeat split; try congruence.
  eapply extends_trans; eauto.
Qed.
Lemma same_root_trans a b c : same_root a b -> same_root b c -> same_root a c.
Proof.
  intros (A1 & A2 & A3) (B1 & B2 & B3). repeat split; try congruence.
  eapply extends_trans; eauto.
Qed.

(* goal: extends P st st' where s_log st' computes to s_log st ++ explicit entries *)
Ltac ext_tac :=
  unfold extends; cbn; rewrite <- ?app_assoc;
  first [ eexists; split; [reflexivity | reflexivity]
        | exists []; rewrite app_nil_r; split; reflexivity ].
Ltac same_tac := repeat split; try reflexivity; ext_tac.

(* ------------------------------------------------------------------ frame facts of the handlers *)

Lemma write_internal_frame st rows node :
  same_ext st (write_internal st rows node) /\ same_root st (write_internal st rows node)
  /\ s_desc_nodes (write_internal st rows node) = s_desc_nodes st
  /\ s_icache (write_internal st rows node) = s_icache st.
Proof. unfold write_internal. destruct (smem node (s_tables st)); repeat split; try reflexivity; ext_tac. Qed.

Lemma h_event_frame bs st e st' r :
  h_event bs st e = (st', r) -> same_ext st st' /\ same_root st st'.
Proof.
  unfold h_event. destruct (lookup (ev_desc e) (s_desc_nodes st)) as [node|].
  - destruct (Z.of_nat _ >=? bs)%Z; intros [= <- <-].
    + destruct (write_internal_frame st (cache_of node (s_icache st) ++ [event_row e]) node)
        as ((A1 & A2 & A3 & A4) & (B1 & B2 & B3) & _).
      split; repeat split; cbn; try assumption.
    + split; same_tac.
  - intros [= <- <-]. split; [apply same_ext_refl | apply same_root_refl].
Qed.

Lemma h_events_frame bs es : forall st st' r,
  h_events bs st es = (st', r) -> same_ext st st' /\ same_root st st'.
Proof.
  induction es as [|e es IH]; cbn; intros st st' r H.
  - inversion H; subst. split; [apply same_ext_refl | apply same_root_refl].
  - destruct (h_event bs st e) as [st1 [x|]] eqn:E.
    + inversion H; subst. eapply h_event_frame; eauto.
    + apply h_event_frame in E as [E1 E2]. apply IH in H as [H1 H2].
      split; [eapply same_ext_trans | eapply same_root_trans]; eauto.
Qed.

Lemma h_descriptor_frame st d st' r :
  h_descriptor st d = (st', r) -> same_ext st st' /\ same_root st st'.
Proof.
  unfold h_descriptor. destruct (s_root st) as [rk|].
  - cbn. destruct (lookup (d_name d) (s_desc_nodes st)); cbn; intros [= <- <-]; split; same_tac.
  - intros [= <- <-]. split; [apply same_ext_refl | apply same_root_refl].
Qed.

Lemma h_sres_frame st x st' r :
  h_sres st x = (st', r) -> same_int st st' /\ same_ext st st' /\ same_root st st'.
Proof. unfold h_sres. intros [= <- <-]. repeat split; ext_tac. Qed.

Lemma get_sres_node_frame st s u st' r :
  get_sres_node st s u = (st', r) -> same_int st st' /\ same_root st st' /\ s_ecache st' = s_ecache st.
Proof.
  unfold get_sres_node.
  destruct (lookup s (s_sres_nodes st)); [intros [= <- <-]; repeat split; ext_tac|].
  destruct (lookup s (s_srcache st)) as [x|]; [|intros [= <- <-]; repeat split; ext_tac].
  destruct (seqb u ""); [intros [= <- <-]; repeat split; ext_tac|].
  destruct (lookup u (s_desc_nodes st)) as [node|]; [|intros [= <- <-]; repeat split; ext_tac].
  destruct (lookup (fdk node (sr_dk x)) (s_sres_nodes st)) as [cid|].
  - destruct (lookup cid (s_cons st)) as [c|]; [|intros [= <- <-]; repeat split; ext_tac].
    destruct (negb _); intros [= <- <-]; repeat split; ext_tac.
  - destruct (lookup (sr_dk x) _); intros [= <- <-]; repeat split; ext_tac.
Qed.

Lemma write_external_frame st d st' r :
  write_external st d = (st', r) -> same_int st st' /\ same_root st st' /\ s_ecache st' = s_ecache st.
Proof.
  unfold write_external. destruct (get_sres_node st (sd_sres d) (sd_desc d)) as [st1 [e|cid]] eqn:G;
    apply get_sres_node_frame in G as (G1 & G2 & G3).
  - intros [= <- <-]. auto.
  - destruct (lookup cid (s_cons st1)) as [c|]; intros [= <- <-]; [|auto].
    repeat split; cbn; try apply G1; try apply G2; try assumption.
    + eapply extends_trans; [apply G1|]. ext_tac.
    + eapply extends_trans; [apply G2|]. ext_tac.
Qed.

Lemma set_ecache_frame st x : same_int st (set_ecache st x) /\ same_root st (set_ecache st x).
Proof. repeat split; ext_tac. Qed.

Lemma h_sdatum_frame bs st d st' r :
  h_sdatum bs st d = (st', r) -> same_int st st' /\ same_root st st'.
Proof.
  unfold h_sdatum. destruct (bs <=? 1)%Z.
  { intros H. apply write_external_frame in H. tauto. }
  destruct (lookup (sd_sres d) (s_ecache st)) as [c|]; [|intros [= <- <-]; apply set_ecache_frame].
  set (st1 := set_ecache st (dict_remove (sd_sres d) (s_ecache st))).
  assert (F1 : same_int st st1 /\ same_root st st1) by apply set_ecache_frame.
  assert (HH : forall s s' r', same_int st s -> same_root st s ->
             match write_external s c with (s0, None) => write_external s0 d | bad => bad end = (s', r') ->
             same_int st s' /\ same_root st s').
  { intros s s' r' A B. destruct (write_external s c) as [s0 [e|]] eqn:W; apply write_external_frame in W as (W1 & W2 & _).
    - intros [= <- <-]. split; [eapply same_int_trans | eapply same_root_trans]; eauto.
    - intros W'. apply write_external_frame in W' as (V1 & V2 & _).
      split; [eapply same_int_trans; [|eauto]; eapply same_int_trans
             | eapply same_root_trans; [|eauto]; eapply same_root_trans]; eauto. }
  destruct (concat2 c d) as [e|m].
  - apply HH; apply F1.
  - destruct (sd_i1 m - sd_i0 m >=? bs)%Z.
    + destruct (write_external st1 m) as [s' [[]|]] eqn:W; apply write_external_frame in W as (W1 & W2 & _);
        try (intros [= <- <-]; split; [eapply same_int_trans; [apply F1 | exact W1]
                                      | eapply same_root_trans; [apply F1 | exact W2]]).
      apply HH; [eapply same_int_trans; [apply F1 | exact W1] | eapply same_root_trans; [apply F1 | exact W2]].
    + intros [= <- <-]. destruct (set_ecache_frame st1 (dict_set (sd_sres d) m (s_ecache st1))) as [A B].
      split; [eapply same_int_trans; [apply F1 | exact A] | eapply same_root_trans; [apply F1 | exact B]].
Qed.

Lemma flush_external_frame l : forall st st' r,
  flush_external st l = (st', r) -> same_int st st' /\ same_root st st' /\ s_ecache st' = s_ecache st.
Proof.
  induction l as [|[k d] l IH]; cbn; intros st st' r H.
  - inversion H; subst. repeat split; ext_tac.
  - destruct (write_external st d) as [s1 [e|]] eqn:W; apply write_external_frame in W as (W1 & W2 & W3).
    + inversion H; subst. auto.
    + apply IH in H as (H1 & H2 & H3).
      split; [eapply same_int_trans; eauto | split; [eapply same_root_trans; eauto | congruence]].
Qed.

Lemma flush_internal_frame l : forall st st' r,
  flush_internal st l = (st', r) -> same_ext st st' /\ same_root st st'.
Proof.
  induction l as [|[k rows] l IH]; cbn; intros st st' r H.
  - inversion H; subst. split; [apply same_ext_refl | apply same_root_refl].
  - destruct rows as [|r0 rows]; [eauto|].
    destruct (lookup k (s_desc_nodes st)) as [node|].
    + apply IH in H as [H1 H2].
      destruct (write_internal_frame st (r0 :: rows) node) as ((A1 & A2 & A3 & A4) & (B1 & B2 & B3) & _).
      split; [eapply same_ext_trans; [|apply H1] | eapply same_root_trans; [|apply H2]];
        repeat split; cbn; assumption.
    + inversion H; subst. split; [apply same_ext_refl | apply same_root_refl].
Qed.

(* ------------------------------------------------------------------ internal data: invariant *)

Definition content (n : string) (st : state) : list row :=
  concat (partitions n (s_log st)) ++ cache_of n (s_icache st).

(* descriptor nodes vs. the plain uid -> name association dm and the declared names *)
Definition InvD (dm : list (string * string)) (names : list string) (st : state) : Prop :=
  (forall u n, lookup u dm = Some n -> lookup u (s_desc_nodes st) = Some n)
  /\ (forall n, In n names -> lookup n (s_desc_nodes st) = Some n)
  /\ (forall k, lookup k (s_desc_nodes st) <> None -> lookup k dm <> None \/ In k names)
  /\ (forall u n, lookup u dm = Some n -> In n names).

Definition InvC (names : list string) (st : state) : Prop :=
  NoDup (map fst (s_icache st)) /\ (forall n, lookup n (s_icache st) <> None -> In n names).

Definition InvT (st : state) : Prop :=
  s_tables st = created_tables (s_log st)
  /\ NoDup (s_tables st)
  /\ (forall n, In n (s_tables st) <-> partitions n (s_log st) <> [])
  /\ (forall n p, In p (partitions n (s_log st)) -> p <> []).

Lemma InvT_same_int st st' : InvT st -> same_int st st' ->
  InvT st' /\ forall n, partitions n (s_log st') = partitions n (s_log st).
Proof.
  intros (T1 & T2 & T3 & T4) (_ & _ & E3 & (ext & EL & EN)).
  assert (P : forall n, partitions n (s_log st') = partitions n (s_log st)).
  { intros n. rewrite EL, partitions_app, (partitions_neutral _ _ EN), app_nil_r. reflexivity. }
  split; [|exact P]. unfold InvT. rewrite E3. repeat split.
  - rewrite EL, created_tables_app, (created_tables_neutral _ EN), app_nil_r. exact T1.
  - exact T2.
  - rewrite P. apply T3.
  - rewrite P. apply T3.
  - intros n p. rewrite P. apply T4.
Qed.

Lemma content_same_int st st' : same_int st st' ->
  (forall n, partitions n (s_log st') = partitions n (s_log st)) -> forall n, content n st' = content n st.
Proof. intros (_ & E2 & _) P n. unfold content. rewrite P, E2. reflexivity. Qed.

Lemma cache_of_set n k v c : cache_of n (dict_set k v c) = if seqb n k then v else cache_of n c.
Proof. unfold cache_of. rewrite lookup_set. destruct (seqb n k); reflexivity. Qed.

Lemma s_log_emit e st : s_log (emit e st) = s_log st ++ [e].
Proof. reflexivity. Qed.
Lemma partitions_one n e : partitions n [e] = match e with LAppend n' rows => if seqb n n' then [rows] else [] | _ => [] end.
Proof. cbn. destruct e; try reflexivity. destruct (seqb n name); reflexivity. Qed.
Lemma created_tables_one e : created_tables [e] = match e with LCreateTable n _ _ _ => [n] | _ => [] end.
Proof. cbn. destruct e; reflexivity. Qed.

Arguments partitions : simpl never.
Arguments created_tables : simpl never.

Lemma write_internal_T st rows node : rows <> [] -> InvT st ->
  InvT (write_internal st rows node)
  /\ forall n, partitions n (s_log (write_internal st rows node))
               = partitions n (s_log st) ++ (if seqb n node then [rows] else []).
Proof.
  intros NE (T1 & T2 & T3 & T4). unfold write_internal.
  destruct (smem node (s_tables st)) eqn:M.
  - assert (P : forall n, partitions n (s_log (emit (LAppend node rows) st))
                         = partitions n (s_log st) ++ (if seqb n node then [rows] else [])).
    { intros n. rewrite s_log_emit, partitions_app, partitions_one. reflexivity. }
    split; [|exact P]. unfold InvT. repeat split.
    + rewrite s_log_emit, created_tables_app, created_tables_one, app_nil_r. exact T1.
    + exact T2.
    + intros I. rewrite P. cbn in I. apply T3 in I. destruct (partitions n (s_log st)); [congruence | discriminate].
    + rewrite P. cbn. intros I. destruct (seqb n node) eqn:E; sb.
      * apply smem_in. exact M.
      * rewrite app_nil_r in I. apply T3. exact I.
    + intros n p. rewrite P, in_app_iff. intros [I|I]; [eapply T4; eauto|].
      destruct (seqb n node); cbn in I; [destruct I as [<-|[]]; exact NE | tauto].
  - match goal with |- InvT ?s /\ _ => set (st2 := s) end.
    assert (P : forall n, partitions n (s_log st2)
                         = partitions n (s_log st) ++ (if seqb n node then [rows] else [])).
    { intros n. subst st2. rewrite !s_log_emit, !partitions_app, !partitions_one, app_nil_r. reflexivity. }
    split; [|exact P]. unfold InvT. repeat split.
    + subst st2. rewrite !s_log_emit, !created_tables_app, !created_tables_one, app_nil_r. cbn. rewrite T1. reflexivity.
    + subst st2. cbn. apply NoDup_snoc; [exact T2 | apply smem_notin; exact M].
    + rewrite P. subst st2. cbn. rewrite in_app_iff. cbn. intros [I|[<-|[]]].
      * apply T3 in I. destruct (partitions n (s_log st)); [congruence | discriminate].
      * rewrite seqb_refl. destruct (partitions node (s_log st)); discriminate.
    + rewrite P. subst st2. cbn. rewrite in_app_iff. cbn. intros I. destruct (seqb n node) eqn:E; sb; [auto|].
      rewrite app_nil_r in I. left. apply T3. exact I.
    + intros n p. rewrite P, in_app_iff. intros [I|I]; [eapply T4; eauto|].
      destruct (seqb n node); cbn in I; [destruct I as [<-|[]]; exact NE | tauto].
Qed.

Lemma write_internal_fields st rows node :
  s_desc_nodes (write_internal st rows node) = s_desc_nodes st
  /\ s_icache (write_internal st rows node) = s_icache st.
Proof. unfold write_internal. destruct (smem node (s_tables st)); split; reflexivity. Qed.

Local Opaque write_internal.

Definition sel (dm : list (string * string)) (n : string) (e : event) : bool :=
  match lookup (ev_desc e) dm with Some n' => seqb n n' | None => false end.

Lemma InvT_set_icache st x : InvT st -> InvT (set_icache st x).
Proof. intros H. exact H. Qed.

Lemma h_event_int bs st e st' dm names :
  InvD dm names st -> InvC names st -> InvT st -> ~ In (ev_desc e) names ->
  h_event bs st e = (st', None) ->
  InvD dm names st' /\ InvC names st' /\ InvT st'
  /\ forall n, content n st' = content n st ++ map event_row (filter (sel dm n) [e]).
Proof.
  intros (R1 & R2 & R3 & R4) (C1 & C2) T NN. unfold h_event.
  destruct (lookup (ev_desc e) (s_desc_nodes st)) as [node|] eqn:L; [|discriminate].
  assert (LD : lookup (ev_desc e) dm = Some node).
  { destruct (R3 (ev_desc e)) as [H|H]; [congruence| |tauto].
    destruct (lookup (ev_desc e) dm) as [n0|] eqn:L0; [|congruence].
    apply R1 in L0. congruence. }
  assert (NI : In node names) by (eapply R4; eauto).
  set (cache := cache_of node (s_icache st) ++ [event_row e]).
  assert (CN : cache <> []) by (subst cache; destruct (cache_of node (s_icache st)); discriminate).
  assert (C' : forall x, NoDup (map fst (dict_set node x (s_icache st)))
                         /\ (forall n, lookup n (dict_set node x (s_icache st)) <> None -> In n names)).
  { intros x. split; [apply dict_set_nodup; exact C1|]. intros n. rewrite lookup_set.
    destruct (seqb n node) eqn:E; sb; auto. }
  destruct (Z.of_nat (length cache) >=? bs)%Z; intros [= <-].
  - destruct (write_internal_T st cache node CN T) as [T' P].
    destruct (write_internal_fields st cache node) as [F1 F2].
    split; [|split; [|split]].
    + unfold InvD. cbn. rewrite F1. auto.
    + unfold InvC. cbn. apply C'.
    + apply T'.
    + intros n. unfold content. cbn. rewrite P, cache_of_set. unfold sel. cbn. rewrite LD.
      destruct (seqb n node) eqn:E; sb; cbn.
      * rewrite concat_app. cbn. subst cache. rewrite !app_nil_r, <- app_assoc. reflexivity.
      * rewrite !app_nil_r. reflexivity.
  - split; [|split; [|split]].
    + unfold InvD. cbn. auto.
    + unfold InvC. cbn. apply C'.
    + apply T.
    + intros n. unfold content. cbn. rewrite cache_of_set. unfold sel. cbn. rewrite LD.
      destruct (seqb n node) eqn:E; sb; cbn.
      * subst cache. rewrite app_assoc. reflexivity.
      * rewrite app_nil_r. reflexivity.
Qed.

Lemma h_events_int bs es : forall st st' dm names,
  InvD dm names st -> InvC names st -> InvT st -> (forall e, In e es -> ~ In (ev_desc e) names) ->
  h_events bs st es = (st', None) ->
  InvD dm names st' /\ InvC names st' /\ InvT st'
  /\ forall n, content n st' = content n st ++ map event_row (filter (sel dm n) es).
Proof.
  induction es as [|e es IH]; cbn [h_events]; intros st st' dm names D C T NN H.
  - inversion H; subst. repeat split; try apply D; try apply C; try apply T.
    intros n. cbn. rewrite app_nil_r. reflexivity.
  - destruct (h_event bs st e) as [st1 [x|]] eqn:E; [discriminate|].
    eapply h_event_int in E as (D1 & C1 & T1 & P1); eauto; [|apply NN; left; reflexivity].
    eapply IH in H as (D2 & C2 & T2 & P2); eauto; [|intros; apply NN; right; assumption].
    repeat split; try apply D2; try apply C2; try apply T2.
    intros n. rewrite P2, P1, <- app_assoc, <- map_app. f_equal. f_equal.
    change (e :: es) with ([e] ++ es). rewrite filter_app. reflexivity.
Qed.

Lemma InvD_fields dm names st st' : s_desc_nodes st' = s_desc_nodes st -> InvD dm names st -> InvD dm names st'.
Proof. unfold InvD. intros ->. tauto. Qed.
Lemma InvC_fields names st st' : s_icache st' = s_icache st -> InvC names st -> InvC names st'.
Proof. unfold InvC. intros ->. tauto. Qed.

Lemma same_int_inv dm names st st' : same_int st st' -> InvD dm names st -> InvC names st -> InvT st ->
  InvD dm names st' /\ InvC names st' /\ InvT st' /\ forall n, content n st' = content n st.
Proof.
  intros S D C T. destruct (InvT_same_int _ _ T S) as [T' P].
  destruct S as (E1 & E2 & E3 & E4).
  repeat split; try apply T'.
  - eapply InvD_fields; eauto.
  - eapply InvD_fields; eauto.
  - eapply InvD_fields; eauto.
  - eapply InvD_fields; eauto.
  - eapply InvC_fields; eauto.
  - eapply InvC_fields; eauto.
  - intros n. unfold content. rewrite P, E2. reflexivity.
Qed.

Lemma InvC_weaken names names' st : (forall n, In n names -> In n names') -> InvC names st -> InvC names' st.
Proof. intros H [C1 C2]. split; auto. Qed.

Lemma h_descriptor_int st d st' dm names :
  InvD dm names st -> InvC names st -> InvT st ->
  ~ In (d_uid d) (d_name d :: names) -> lookup (d_name d) dm = None ->
  h_descriptor st d = (st', None) ->
  InvD (dict_set (d_uid d) (d_name d) dm) (d_name d :: names) st' /\ InvC (d_name d :: names) st' /\ InvT st'
  /\ forall n, content n st' = content n st.
Proof.
  intros (R1 & R2 & R3 & R4) C T NU NK. unfold h_descriptor.
  destruct (s_root st) as [rk|]; [|discriminate]. cbn [s_desc_nodes set_data_keys].
  (* whichever branch: the node is the one named d_name d *)
  set (stn := match lookup (d_name d) (s_desc_nodes st) with Some node => _ | None => _ end).
  assert (SN : snd stn = d_name d /\ same_int st (fst stn)).
  { subst stn. destruct (lookup (d_name d) (s_desc_nodes st)) as [node|] eqn:L; cbn [fst snd].
    - split; [|repeat split; ext_tac].
      destruct (R3 (d_name d)) as [H|H]; [congruence | congruence |]. apply R2 in H. congruence.
    - split; [reflexivity | repeat split; ext_tac]. }
  destruct SN as [SN S]. intros [= <-]. rewrite SN.
  destruct (InvT_same_int _ _ T S) as [T' P].
  assert (ED : s_desc_nodes (fst stn) = s_desc_nodes st) by apply S.
  assert (EI : s_icache (fst stn) = s_icache st) by apply S.
  assert (U1 : d_uid d <> d_name d) by (intros E; apply NU; left; auto).
  assert (U2 : ~ In (d_uid d) names) by (intros E; apply NU; right; auto).
  split; [|split; [|split]].
  - unfold InvD. cbn [s_desc_nodes set_desc_nodes]. rewrite ED. repeat split.
    + intros u n. rewrite !lookup_set. destruct (seqb u (d_uid d)) eqn:E; sb.
      * intros [= <-]. apply seqb_neq in U1. rewrite U1. reflexivity.
      * intros L. destruct (seqb u (d_name d)) eqn:E2; sb; [congruence|]. apply R1. exact L.
    + intros n [<-|I]; rewrite !lookup_set.
      * rewrite seqb_refl. reflexivity.
      * destruct (seqb n (d_name d)) eqn:E1; sb; [reflexivity|].
        destruct (seqb n (d_uid d)) eqn:E2; sb; [tauto|]. apply R2. exact I.
    + intros k. rewrite !lookup_set. destruct (seqb k (d_name d)) eqn:E1; sb; [intros _; right; left; reflexivity|].
      destruct (seqb k (d_uid d)) eqn:E2; sb; [intros _; left; congruence|].
      intros L. destruct (R3 k L) as [H|H]; [left | right; right]; auto.
    + intros u n. rewrite lookup_set. destruct (seqb u (d_uid d)); [intros [= <-]; left; reflexivity|].
      intros L. right. eapply R4; eauto.
  - eapply InvC_weaken; [intros n I; right; exact I|]. unfold InvC in *. cbn [s_icache set_desc_nodes]. rewrite EI. exact C.
  - exact T'.
  - intros n. unfold content. cbn [s_log s_icache set_desc_nodes]. rewrite P, EI. reflexivity.
Qed.

Lemma flush_internal_int l : forall st st' dm names,
  InvD dm names st -> InvC names st -> InvT st ->
  NoDup (map fst l) -> (forall k rows, In (k, rows) l -> lookup k (s_icache st) = Some rows) ->
  flush_internal st l = (st', None) ->
  InvD dm names st' /\ InvC names st' /\ InvT st'
  /\ (forall n, content n st' = content n st)
  /\ (forall k, In k (map fst l) -> cache_of k (s_icache st') = [])
  /\ (forall k, ~ In k (map fst l) -> lookup k (s_icache st') = lookup k (s_icache st)).
Proof.
  induction l as [|[k rows] l IH]; cbn [flush_internal]; intros st st' dm names D C T ND HL H.
  - inversion H; subst. repeat split; try apply D; try apply C; try apply T; cbn; tauto.
  - inversion ND as [|? ? NI ND']; subst.
    assert (HL' : forall k0 rows0, In (k0, rows0) l -> k0 <> k).
    { intros k0 rows0 I E. subst. apply NI. apply in_map_iff. exists (k, rows0). auto. }
    destruct rows as [|r0 rows].
    + eapply IH in H as (D' & C' & T' & P & Q1 & Q2); eauto; [|intros; apply HL; right; assumption].
      repeat split; try apply D'; try apply C'; try apply T'; auto.
      * intros k0 [<-|I]; [|auto]. cbn [fst]. unfold cache_of. rewrite Q2 by exact NI.
        rewrite (HL k []) by (left; reflexivity). reflexivity.
      * intros k0 NI0. apply Q2. cbn in NI0. tauto.
    + assert (Lk : lookup k (s_icache st) = Some (r0 :: rows)) by (apply HL; left; reflexivity).
      assert (Ik : In k names) by (apply C; congruence).
      destruct D as (R1 & R2 & R3 & R4). rewrite (R2 k Ik) in H.
      destruct (write_internal_T st (r0 :: rows) k ltac:(discriminate) T) as [T1 P1].
      destruct (write_internal_fields st (r0 :: rows) k) as [F1 F2].
      set (st1 := set_icache (write_internal st (r0 :: rows) k) (dict_set k [] (s_icache st))) in *.
      assert (D1 : InvD dm names st1) by (unfold InvD; subst st1; cbn; rewrite F1; auto).
      assert (C1 : InvC names st1).
      { destruct C as [Ca Cb]. split; subst st1; cbn; [apply dict_set_nodup; exact Ca|].
        intros n. rewrite lookup_set. destruct (seqb n k) eqn:E; sb; auto. }
      assert (HL1 : forall k0 rows0, In (k0, rows0) l -> lookup k0 (s_icache st1) = Some rows0).
      { intros k0 rows0 I. subst st1. cbn. rewrite lookup_set_neq by (eapply HL'; eauto). apply HL. right. exact I. }
      eapply IH in H as (D' & C' & T' & P & Q1 & Q2); eauto.
      repeat split; try apply D'; try apply C'; try apply T'.
      * intros n. rewrite P. unfold content. subst st1. cbn [s_log s_icache set_icache]. rewrite P1, cache_of_set.
        destruct (seqb n k) eqn:E; sb.
        -- unfold cache_of. rewrite Lk, concat_app. cbn. rewrite !app_nil_r. reflexivity.
        -- rewrite app_nil_r. reflexivity.
      * intros k0 [<-|I]; [|auto]. cbn [fst]. unfold cache_of. rewrite Q2 by exact NI.
        subst st1. cbn. rewrite lookup_set_eq. reflexivity.
      * intros k0 NI0. cbn in NI0. rewrite Q2 by tauto. subst st1. cbn. apply lookup_set_neq. intros ->. tauto.
Qed.

(* ------------------------------------------------------------------ internal data: the run *)

Definition Hns (dm : list (string * string)) (names : list string) (docs : list doc) : Prop :=
  forall r n, (lookup r dm <> None \/ In r (desc_refs docs)) -> (In n names \/ In n (desc_names docs)) -> r <> n.

Lemma Hns_tail dm names d docs : Hns dm names (d :: docs) -> Hns dm names docs.
Proof.
  intros H r n A B. apply H.
  - destruct A as [A|A]; [left; exact A | right; unfold desc_refs; cbn [flat_map]; apply in_or_app; right; exact A].
  - destruct B as [B|B]; [left; exact B | right; unfold desc_names; cbn [flat_map]; apply in_or_app; right; exact B].
Qed.

Lemma Hns_desc dm names x docs : Hns dm names (DDescriptor x :: docs) ->
  Hns (dict_set (d_uid x) (d_name x) dm) (d_name x :: names) docs
  /\ ~ In (d_uid x) (d_name x :: names) /\ lookup (d_name x) dm = None.
Proof.
  intros N.
  assert (HU : In (d_uid x) (desc_refs (DDescriptor x :: docs))) by (unfold desc_refs; cbn; left; reflexivity).
  assert (HN : In (d_name x) (desc_names (DDescriptor x :: docs))) by (unfold desc_names; cbn; left; reflexivity).
  split; [|split].
  - intros r n A B. apply N.
    + destruct A as [A|A].
      * rewrite lookup_set in A. destruct (seqb r (d_uid x)) eqn:E; sb; [right; exact HU | left; exact A].
      * right. unfold desc_refs. cbn. right. exact A.
    + destruct B as [[<-|B]|B]; [right; exact HN | left; exact B | right; unfold desc_names; cbn; right; exact B].
  - intros [E|I].
    + eapply N; [right; exact HU | right; exact HN | congruence].
    + eapply N; [right; exact HU | left; exact I | reflexivity].
  - destruct (lookup (d_name x) dm) eqn:L; [|reflexivity]. exfalso.
    eapply N; [left; rewrite L; discriminate | right; exact HN | reflexivity].
Qed.

Lemma Hns_events dm names d docs e : Hns dm names (d :: docs) ->
  (match d with DDescriptor _ => False | _ => True end) -> In e (doc_events d) -> ~ In (ev_desc e) names.
Proof.
  intros N ND I J. eapply N; [right | left; exact J | reflexivity].
  unfold desc_refs. cbn [flat_map]. apply in_or_app. left.
  destruct d; try tauto; apply in_map; exact I.
Qed.

Lemma run_body_int bs : forall docs st st' dm names,
  InvD dm names st -> InvC names st -> InvT st -> forallb is_body docs = true -> Hns dm names docs ->
  run_from bs st docs = (st', None) ->
  exists dm' names', InvD dm' names' st' /\ InvC names' st' /\ InvT st'
                     /\ forall n, content n st' = content n st ++ spec_rows dm docs n.
Proof.
  induction docs as [|d docs IH]; cbn [run_from]; intros st st' dm names D C T B N H.
  - inversion H; subst. exists dm, names. repeat split; try apply D; try apply C; try apply T.
    intros n. cbn. rewrite app_nil_r. reflexivity.
  - cbn [forallb] in B. apply andb_true_iff in B as [B1 B2].
    destruct (handle bs st d) as [st1 [x|]] eqn:E; [discriminate|].
    assert (N' := Hns_tail _ _ _ _ N).
    destruct d as [s|x|e|es|x|x|m]; cbn [handle is_body] in *; try discriminate.
    + (* descriptor *)
      destruct (Hns_desc _ _ _ _ N) as (N1 & N2 & N3).
      eapply h_descriptor_int in E as (D1 & C1 & T1 & P1); eauto.
      eapply IH in H as (dm' & names' & D2 & C2 & T2 & P2); eauto.
      exists dm', names'. repeat split; try apply D2; try apply C2; try apply T2.
      intros n. rewrite P2, P1. reflexivity.
    + (* event *)
      eapply h_event_int in E as (D1 & C1 & T1 & P1); eauto;
        [|eapply Hns_events; [exact N | exact I | left; reflexivity]].
      eapply IH in H as (dm' & names' & D2 & C2 & T2 & P2); eauto.
      exists dm', names'. repeat split; try apply D2; try apply C2; try apply T2.
      intros n. rewrite P2, P1, <- app_assoc. reflexivity.
    + (* event page *)
      eapply h_events_int in E as (D1 & C1 & T1 & P1); eauto;
        [|intros e I; eapply Hns_events; [exact N | exact Logic.I | exact I]].
      eapply IH in H as (dm' & names' & D2 & C2 & T2 & P2); eauto.
      exists dm', names'. repeat split; try apply D2; try apply C2; try apply T2.
      intros n. rewrite P2, P1, <- app_assoc. reflexivity.
    + (* stream resource *)
      apply h_sres_frame in E as (S & _).
      destruct (same_int_inv _ _ _ _ S D C T) as (D1 & C1 & T1 & P1).
      eapply IH in H as (dm' & names' & D2 & C2 & T2 & P2); eauto.
      exists dm', names'. repeat split; try apply D2; try apply C2; try apply T2.
      intros n. rewrite P2, P1. reflexivity.
    + (* stream datum *)
      apply h_sdatum_frame in E as (S & _).
      destruct (same_int_inv _ _ _ _ S D C T) as (D1 & C1 & T1 & P1).
      eapply IH in H as (dm' & names' & D2 & C2 & T2 & P2); eauto.
      exists dm', names'. repeat split; try apply D2; try apply C2; try apply T2.
      intros n. rewrite P2, P1. reflexivity.
Qed.

Lemma run_from_app bs a : forall st b,
  run_from bs st (a ++ b) = match run_from bs st a with (st', None) => run_from bs st' b | bad => bad end.
Proof.
  induction a as [|d a IH]; cbn; intros st b; [reflexivity|].
  destruct (handle bs st d) as [st1 [x|]]; [reflexivity | apply IH].
Qed.

Lemma spec_rows_app_stop n m : forall body dm, spec_rows dm (body ++ [DStop m]) n = spec_rows dm body n.
Proof.
  induction body as [|d body IH]; intros dm; cbn; [reflexivity|].
  destruct d; rewrite IH; reflexivity.
Qed.

Lemma run_decompose bs s body m st :
  run bs (DStart s :: body ++ [DStop m]) = (st, None) ->
  exists st1, run_from bs (fst (h_start init s)) body = (st1, None) /\ h_stop st1 m = (st, None).
Proof.
  unfold run. cbn [run_from handle]. unfold h_start at 1. cbn [fst]. rewrite run_from_app.
  match goal with |- context[run_from bs ?s0 body] => destruct (run_from bs s0 body) as [st1 [x|]] eqn:E end;
    [discriminate|].
  cbn [run_from handle]. intros H. exists st1. split; [exact E|].
  destruct (h_stop st1 m) as [st2 [x|]]; [discriminate | exact H].
Qed.

Definition stop_entry (st3 : state) (m : md) : entry :=
  LUpdateRoot (fst (s_rootmd st3)) (match snd (s_rootmd st3) with Some o => o | None => m end).

Lemma h_stop_ok st m st' : h_stop st m = (st', None) ->
  exists st2 st3, flush_internal st (s_icache st) = (st2, None)
                  /\ flush_external st2 (s_ecache st2) = (st3, None)
                  /\ st' = emit (stop_entry st3 m)
                                (set_rootmd st3 (fst (s_rootmd st3),
                                                 Some (match snd (s_rootmd st3) with Some o => o | None => m end))).
Proof.
  unfold h_stop. destruct (s_root st); [|discriminate].
  destruct (flush_internal st (s_icache st)) as [st2 [x|]] eqn:E1; [discriminate|].
  destruct (flush_external st2 (s_ecache st2)) as [st3 [x|]] eqn:E2; [discriminate|].
  intros [= <-]. exists st2, st3. split; [reflexivity | split; [exact E2 | reflexivity]].
Qed.

Lemma InvT_init_start s : InvT (fst (h_start init s)).
Proof.
  unfold InvT. cbn. split; [reflexivity | split; [constructor | split]].
  - intros n. split; [intros [] | intros H; exfalso; apply H; reflexivity].
  - intros n p [].
Qed.

Lemma internal_tables_thm bs docs st :
  run bs docs = (st, None) -> is_run docs -> ns_disjoint docs ->
  (forall n, concat (partitions n (s_log st)) = spec_rows [] docs n)
  /\ (forall n p, In p (partitions n (s_log st)) -> p <> [])
  /\ (forall n, cache_of n (s_icache st) = [])
  /\ NoDup (created_tables (s_log st))
  /\ (forall n, In n (created_tables (s_log st)) <-> partitions n (s_log st) <> []).
Proof.
  intros R (s & body & m & -> & B) NS.
  apply run_decompose in R as (st1 & R1 & R2).
  set (st0 := fst (h_start init s)) in *.
  assert (D0 : InvD [] [] st0) by (unfold InvD; cbn; repeat split; intros; try discriminate; tauto).
  assert (C0 : InvC [] st0) by (unfold InvC; cbn; split; [constructor | intros n H; apply H; reflexivity]).
  assert (T0 := InvT_init_start s). fold st0 in T0.
  assert (N0 : Hns [] [] body).
  { intros r n [A|A] [Bn|Bn]; try (cbn in A; congruence); try (cbn in Bn; tauto).
    apply NS.
    - unfold desc_refs. cbn [flat_map doc_events map app]. rewrite flat_map_app. apply in_or_app. left. exact A.
    - unfold desc_names. cbn [flat_map app]. rewrite flat_map_app. apply in_or_app. left. exact Bn. }
  destruct (run_body_int bs body st0 st1 [] [] D0 C0 T0 B N0 R1) as (dm' & names' & D1 & C1 & T1 & P1).
  apply h_stop_ok in R2 as (st2 & st3 & F1 & F2 & ->).
  assert (HL : forall k rows, In (k, rows) (s_icache st1) -> lookup k (s_icache st1) = Some rows)
    by (intros; apply in_lookup; [apply C1 | assumption]).
  destruct (flush_internal_int _ _ _ _ _ D1 C1 T1 (proj1 C1) HL F1) as (D2 & C2 & T2 & P2 & Q1 & Q2).
  apply flush_external_frame in F2 as (S3 & _ & _).
  destruct (same_int_inv _ _ _ _ S3 D2 C2 T2) as (D3 & C3 & T3 & P3).
  match goal with |- context[emit ?e ?s] => set (stf := emit e s) end.
  assert (S4 : same_int st3 stf) by (subst stf; repeat split; ext_tac).
  destruct (same_int_inv _ _ _ _ S4 D3 C3 T3) as (D4 & C4 & T4 & P4).
  assert (CE : forall n, cache_of n (s_icache stf) = []).
  { intros n. destruct S4 as (_ & -> & _). destruct S3 as (_ & -> & _).
    destruct (lookup n (s_icache st1)) eqn:L.
    - apply Q1. apply lookup_in in L. apply in_map_iff. exists (n, l). auto.
    - unfold cache_of. rewrite Q2, L; [reflexivity|]. apply lookup_none_notin. exact L. }
  destruct T4 as (Ta & Tb & Tc & Td).
  split; [|split; [|split; [|split]]]; auto.
  - intros n. cbn [spec_rows doc_events map filter app]. rewrite spec_rows_app_stop.
    specialize (P4 n). unfold content in P4 at 1. rewrite CE, app_nil_r in P4.
    rewrite P4, P3, P2, P1. unfold content. cbn. reflexivity.
  - rewrite <- Ta. exact Tb.
  - intros n. rewrite <- Ta. apply Tc.
Qed.

(* ------------------------------------------------------------------ metadata *)

Lemma handle_body_root bs st d st' r : is_body d = true -> handle bs st d = (st', r) -> same_root st st'.
Proof.
  destruct d; cbn; try discriminate; intros _ H.
  - apply h_descriptor_frame in H. tauto.
  - apply h_event_frame in H. tauto.
  - apply h_events_frame in H. tauto.
  - apply h_sres_frame in H. tauto.
  - apply h_sdatum_frame in H. tauto.
Qed.

Lemma run_body_root bs : forall docs st st' r,
  forallb is_body docs = true -> run_from bs st docs = (st', r) -> same_root st st'.
Proof.
  induction docs as [|d docs IH]; cbn; intros st st' r B H.
  - inversion H; subst. apply same_root_refl.
  - apply andb_true_iff in B as [B1 B2].
    destruct (handle bs st d) as [st1 [x|]] eqn:E; apply handle_body_root in E; try assumption.
    + inversion H; subst. exact E.
    + eapply same_root_trans; [exact E | eapply IH; eauto].
Qed.

Definition start_md (s : startdoc) : md := trunc_md (("uid"%string, VS (st_uid s)) :: st_md s).

Lemma metadata_thm bs s body m st :
  run bs (DStart s :: body ++ [DStop m]) = (st, None) -> forallb is_body body = true ->
  exists mid, s_log st = LCreateRoot (st_uid s) (start_md s) (st_tags s) :: mid ++ [LUpdateRoot (start_md s) m]
              /\ root_updates mid = [] /\ existsb is_create_root mid = false.
Proof.
  intros R B. apply run_decompose in R as (st1 & R1 & R2).
  apply run_body_root in R1; [|exact B].
  apply h_stop_ok in R2 as (st2 & st3 & F1 & F2 & ->).
  apply flush_internal_frame in F1 as [_ F1]. apply flush_external_frame in F2 as (_ & F2 & _).
  assert (S : same_root (fst (h_start init s)) st3) by (eapply same_root_trans; [|eapply same_root_trans]; eauto).
  destruct S as (S1 & S2 & (ext & EL & EN)).
  exists ext. unfold stop_entry. rewrite s_log_emit. cbn [s_log set_rootmd]. rewrite S2, EL. cbn.
  split; [reflexivity|]. split; [apply root_updates_neutral | apply create_root_neutral]; exact EN.
Qed.

(* ------------------------------------------------------------------ external data: structure invariant *)

Definition put_neutral (e : entry) : bool := match e with LPut _ _ _ _ _ => false | _ => true end.

Lemma puts_pneutral l : forallb put_neutral l = true -> puts l = [].
Proof.
  induction l as [|e l IH]; cbn; [reflexivity|]. intros H. apply andb_true_iff in H as [H1 H2].
  destruct e; cbn in *; try discriminate; auto.
Qed.
Lemma puts_of_pneutral c l : forallb put_neutral l = true -> puts_of c l = [].
Proof.
  induction l as [|e l IH]; cbn; [reflexivity|]. intros H. apply andb_true_iff in H as [H1 H2].
  destruct e; cbn in *; try discriminate; auto.
Qed.
Lemma put_shapes_pneutral c l : forallb put_neutral l = true -> put_shapes c l = [].
Proof.
  induction l as [|e l IH]; cbn; [reflexivity|]. intros H. apply andb_true_iff in H as [H1 H2].
  destruct e; cbn in *; try discriminate; auto.
Qed.
Lemma ext_neutral_put l : forallb ext_neutral l = true -> forallb put_neutral l = true.
Proof.
  induction l as [|e l IH]; cbn; [reflexivity|]. intros H. apply andb_true_iff in H as [H1 H2].
  rewrite IH by assumption. destruct e; cbn in *; try discriminate; reflexivity.
Qed.

Lemma puts_of_in cid l d : In d (puts_of cid l) <-> In (cid, d) (puts l).
Proof.
  induction l as [|e l IH]; cbn; [tauto|]. rewrite !in_app_iff, IH.
  destruct e; cbn; try tauto. destruct (seqb cid (fdk node dk)) eqn:E; sb; cbn.
  - split; (intros [H|H]; [|right; exact H]); left; cbn in *; destruct H as [H|[]]; left; congruence.
  - split; (intros [H|H]; [|right; exact H]); cbn in H; [tauto|].
    destruct H as [H|[]]. inversion H; subst. rewrite seqb_refl in E. discriminate.
Qed.

Lemma put_shapes_nil cid l : (forall d, ~ In (cid, d) (puts l)) -> put_shapes cid l = [] /\ puts_of cid l = [].
Proof.
  induction l as [|e l IH]; [cbn; tauto|]. intros H.
  change (e :: l) with ([e] ++ l) in *. rewrite put_shapes_app, puts_of_app.
  assert (H' : forall d, ~ In (cid, d) (puts l)) by (intros d I; apply (H d); rewrite puts_app; apply in_or_app; right; exact I).
  destruct (IH H') as [-> ->]. rewrite !app_nil_r. destruct e; cbn; try tauto.
  destruct (seqb cid (fdk node dk)) eqn:E; sb; [|tauto].
  exfalso. apply (H consumed). rewrite puts_app. apply in_or_app. left. cbn. left. reflexivity.
Qed.

Lemma zsum_app l x : zsum (l ++ [x]) = (zsum l + x)%Z.
Proof. induction l as [|y l IH]; cbn; [lia|]. unfold zsum in IH. rewrite IH. lia. Qed.

Arguments puts : simpl never.
Arguments puts_of : simpl never.
Arguments put_shapes : simpl never.
Arguments new_arrays : simpl never.

Definition InvS (st : state) : Prop :=
  (forall cid d, In (cid, d) (puts (s_log st)) -> lookup (sd_sres d) (s_sres_nodes st) = Some cid)
  /\ (forall cid c, lookup cid (s_cons st) = Some c ->
        cid = fdk (c_node c) (c_dk c) /\ c_consumed c = puts_of cid (s_log st)
        /\ c_rows c = zsum (map width (puts_of cid (s_log st)))
        /\ (put_shapes cid (s_log st) = [] \/ last (put_shapes cid (s_log st)) 0%Z = (c_rows c * c_mult c)%Z))
  /\ (forall k cid, lookup k (s_sres_nodes st) = Some cid -> lookup cid (s_cons st) <> None)
  /\ new_arrays (s_log st) = map fst (s_cons st)
  /\ (forall cid, lookup cid (s_cons st) <> None -> lookup cid (s_sres_nodes st) = Some cid)
  /\ NoDup (map fst (s_cons st)).

Lemma InvS_same_ext st st' : InvS st -> same_ext st st' ->
  InvS st' /\ puts (s_log st') = puts (s_log st).
Proof.
  intros (S4 & S5 & S6 & S7 & S8 & S9) (E1 & E2 & E3 & (ext & EL & EN)).
  assert (PN := ext_neutral_put _ EN).
  assert (P1 : puts (s_log st') = puts (s_log st)) by (rewrite EL, puts_app, (puts_pneutral _ PN), app_nil_r; reflexivity).
  assert (P2 : forall c, puts_of c (s_log st') = puts_of c (s_log st))
    by (intros c; rewrite EL, puts_of_app, (puts_of_pneutral _ _ PN), app_nil_r; reflexivity).
  assert (P3 : forall c, put_shapes c (s_log st') = put_shapes c (s_log st))
    by (intros c; rewrite EL, put_shapes_app, (put_shapes_pneutral _ _ PN), app_nil_r; reflexivity).
  split; [|exact P1]. unfold InvS. rewrite E2, E3, P1. repeat split; auto.
  - apply S5 in H. tauto.
  - rewrite P2. apply S5 in H. tauto.
  - rewrite P2. apply S5 in H. tauto.
  - rewrite P3. apply S5 in H. tauto.
  - rewrite EL, new_arrays_app, (new_arrays_neutral _ EN), app_nil_r. exact S7.
Qed.

Lemma get_sres_node_err st s u st1 e : get_sres_node st s u = (st1, inl e) -> same_ext st st1.
Proof.
  unfold get_sres_node.
  destruct (lookup s (s_sres_nodes st)); [discriminate|].
  destruct (lookup s (s_srcache st)) as [x|]; [|intros [= <- <-]; apply same_ext_refl].
  destruct (seqb u ""); [intros [= <- <-]; apply same_ext_refl|].
  destruct (lookup u (s_desc_nodes st)) as [node|]; [|intros [= <- <-]; apply same_ext_refl].
  destruct (lookup (fdk node (sr_dk x)) (s_sres_nodes st)) as [cid|].
  - destruct (lookup cid (s_cons st)) as [c|]; [|intros [= <- <-]; apply same_ext_refl].
    destruct (negb _); [|discriminate]. intros [= <- <-]. repeat split; ext_tac.
  - destruct (lookup (sr_dk x) _); [discriminate|]. intros [= <- <-]. apply same_ext_refl.
Qed.

Lemma new_arrays_one e : new_arrays [e] = match e with LNewArray node dk _ _ _ _ => [fdk node dk] | _ => [] end.
Proof. unfold new_arrays. cbn. destruct e; reflexivity. Qed.

Lemma get_sres_node_ok st s u st1 cid :
  InvS st -> get_sres_node st s u = (st1, inr cid) ->
  InvS st1 /\ lookup s (s_sres_nodes st1) = Some cid
  /\ s_ecache st1 = s_ecache st
  /\ exists ext, s_log st1 = s_log st ++ ext /\ forallb put_neutral ext = true.
Proof.
  intros (S4 & S5 & S6 & S7 & S8 & S9). unfold get_sres_node.
  destruct (lookup s (s_sres_nodes st)) as [cid0|] eqn:L0.
  { intros [= <- <-]. repeat split; auto; try (apply S5 in H; tauto).
    exists []. rewrite app_nil_r. split; reflexivity. }
  destruct (lookup s (s_srcache st)) as [x|]; [|discriminate].
  destruct (seqb u ""); [discriminate|].
  destruct (lookup u (s_desc_nodes st)) as [node|]; [|discriminate].
  set (key := fdk node (sr_dk x)).
  destruct (lookup key (s_sres_nodes st)) as [cid0|] eqn:LK.
  - (* additional stream resource for an existing consolidator *)
    destruct (lookup cid0 (s_cons st)) as [c|] eqn:LC; [|discriminate].
    destruct (negb _); [discriminate|]. intros [= <- <-].
    set (c' := mkCons (c_node c) (c_dk c) (c_dataset c) (c_mult c) (c_consumed c) (c_rows c) (S (c_assets c))).
    assert (M : forall k v, lookup k (s_sres_nodes st) = Some v ->
                lookup k (dict_set key cid0 (dict_set s cid0 (s_sres_nodes st))) = Some v).
    { intros k v L. rewrite !lookup_set. destruct (seqb k key) eqn:E1; sb; [congruence|].
      destruct (seqb k s) eqn:E2; sb; [congruence | exact L]. }
    assert (PL : forall cid1, puts_of cid1 (s_log st ++ [LUpdSres (c_node c) (c_dk c) s]) = puts_of cid1 (s_log st)).
    { intros. rewrite puts_of_app. cbn. apply app_nil_r. }
    assert (PS : forall cid1, put_shapes cid1 (s_log st ++ [LUpdSres (c_node c) (c_dk c) s]) = put_shapes cid1 (s_log st)).
    { intros. rewrite put_shapes_app. cbn. apply app_nil_r. }
    unfold register. cbn [s_log s_sres_nodes s_cons s_ecache set_sres_nodes set_cons emit].
    split; [|split; [|split; [reflexivity|]]].
    + unfold InvS. cbn [s_log s_sres_nodes s_cons s_ecache set_sres_nodes set_cons emit].
      split; [|split; [|split; [|split; [|split]]]].
      * intros cid d. rewrite puts_app. cbn. rewrite app_nil_r. intros I. apply M. apply S4. exact I.
      * intros cid1 c1. rewrite lookup_set, PL, PS. destruct (seqb cid1 cid0) eqn:E; sb.
        -- intros [= <-]. cbn. apply S5. exact LC.
        -- apply S5.
      * intros k cid1. rewrite !lookup_set. intros L.
        assert (Q : cid1 = cid0 \/ lookup k (s_sres_nodes st) = Some cid1).
        { destruct (seqb k key); [left; congruence|]. destruct (seqb k s); [left; congruence | right; exact L]. }
        destruct (seqb cid1 cid0) eqn:E; [discriminate|]. destruct Q as [->|Q]; [rewrite seqb_refl in E; discriminate|].
        eapply S6; eauto.
      * rewrite new_arrays_app, new_arrays_one, app_nil_r. erewrite dict_set_keys_present; eauto.
      * intros cid1. rewrite lookup_set. intros L. apply M. apply S8.
        destruct (seqb cid1 cid0) eqn:E; sb; [congruence | exact L].
      * erewrite dict_set_keys_present; eauto.
    + rewrite !lookup_set. destruct (seqb s key); [reflexivity|]. rewrite seqb_refl. reflexivity.
    + eexists. split; [reflexivity | reflexivity].
  - (* a new consolidator and array node *)
    destruct (lookup (sr_dk x) _) as [m|]; [|discriminate]. intros [= <- <-].
    assert (NC : lookup key (s_cons st) = None).
    { destruct (lookup key (s_cons st)) eqn:L; [|reflexivity].
      assert (Q : lookup key (s_sres_nodes st) = Some key) by (apply S8; congruence). congruence. }
    assert (NP : forall d, ~ In (key, d) (puts (s_log st))).
    { intros d I. apply S4 in I. apply S6 in I. congruence. }
    destruct (put_shapes_nil _ _ NP) as [NS1 NS2].
    set (c := mkCons node (sr_dk x) (sr_dataset x) m [] 0 1).
    set (e := LNewArray node (sr_dk x) 0 1 (sr_dataset x) (s_tags st)).
    assert (M : forall k v, lookup k (s_sres_nodes st) = Some v ->
                lookup k (dict_set key key (dict_set s key (s_sres_nodes st))) = Some v).
    { intros k v L. rewrite !lookup_set. destruct (seqb k key) eqn:E1; sb; [congruence|].
      destruct (seqb k s) eqn:E2; sb; [congruence | exact L]. }
    assert (PL : forall cid1, puts_of cid1 (s_log st ++ [e]) = puts_of cid1 (s_log st)).
    { intros. rewrite puts_of_app. cbn. apply app_nil_r. }
    assert (PS : forall cid1, put_shapes cid1 (s_log st ++ [e]) = put_shapes cid1 (s_log st)).
    { intros. rewrite put_shapes_app. cbn. apply app_nil_r. }
    unfold register. cbn [s_log s_sres_nodes s_cons s_ecache set_sres_nodes set_cons emit].
    split; [|split; [|split; [reflexivity|]]].
    + unfold InvS. cbn [s_log s_sres_nodes s_cons s_ecache set_sres_nodes set_cons emit].
      split; [|split; [|split; [|split; [|split]]]].
      * intros cid d. rewrite puts_app. cbn. rewrite app_nil_r. intros I. apply M. apply S4. exact I.
      * intros cid1 c1. rewrite lookup_set, PL, PS. destruct (seqb cid1 key) eqn:E; sb.
        -- intros [= <-]. cbn. rewrite NS1, NS2. cbn. auto.
        -- apply S5.
      * intros k cid1. rewrite !lookup_set. intros L.
        assert (Q : cid1 = key \/ lookup k (s_sres_nodes st) = Some cid1).
        { destruct (seqb k key); [left; congruence|]. destruct (seqb k s); [left; congruence | right; exact L]. }
        destruct (seqb cid1 key) eqn:E; [discriminate|]. destruct Q as [->|Q]; [rewrite seqb_refl in E; discriminate|].
        eapply S6; eauto.
      * rewrite new_arrays_app, new_arrays_one. subst e. cbn beta iota. rewrite (dict_set_absent _ _ _ NC), map_app, S7. reflexivity.
      * intros cid1. rewrite lookup_set. destruct (seqb cid1 key) eqn:E; sb.
        -- intros _. apply lookup_set_eq.
        -- intros L. apply M. apply S8. exact L.
      * rewrite (dict_set_absent _ _ _ NC), map_app. apply NoDup_snoc; [exact S9 | apply lookup_none_notin; exact NC].
    + rewrite !lookup_set. destruct (seqb s key); [reflexivity|]. rewrite seqb_refl. reflexivity.
    + eexists. split; [reflexivity | reflexivity].
Qed.

Lemma last_snoc {A} (l : list A) x d : last (l ++ [x]) d = x.
Proof. induction l as [|y l IH]; [reflexivity|]. cbn. destruct (l ++ [x]) eqn:E; [destruct l; discriminate | exact IH]. Qed.

Lemma puts_one e : puts [e] = match e with LPut node dk d _ _ => [(fdk node dk, d)] | _ => [] end.
Proof. unfold puts. cbn. destruct e; reflexivity. Qed.
Lemma puts_of_one cid e :
  puts_of cid [e] = match e with LPut node dk d _ _ => if seqb cid (fdk node dk) then [d] else [] | _ => [] end.
Proof. unfold puts_of. cbn. destruct e; try reflexivity. destruct (seqb cid (fdk node dk)); reflexivity. Qed.
Lemma put_shapes_one cid e :
  put_shapes cid [e] = match e with LPut node dk _ s _ => if seqb cid (fdk node dk) then [s] else [] | _ => [] end.
Proof. unfold put_shapes. cbn. destruct e; try reflexivity. destruct (seqb cid (fdk node dk)); reflexivity. Qed.

Lemma write_external_ok st d st' :
  InvS st -> write_external st d = (st', None) ->
  InvS st' /\ s_ecache st' = s_ecache st
  /\ exists cid, puts (s_log st') = puts (s_log st) ++ [(cid, d)].
Proof.
  intros I. unfold write_external.
  destruct (get_sres_node st (sd_sres d) (sd_desc d)) as [st1 [e|cid]] eqn:G; [discriminate|].
  destruct (get_sres_node_ok _ _ _ _ _ I G) as ((S4 & S5 & S6 & S7 & S8 & S9) & LS & EC & (ext & EL & EN)).
  destruct (lookup cid (s_cons st1)) as [c|] eqn:LC; [|discriminate]. intros [= <-].
  destruct (S5 _ _ LC) as (F1 & F2 & F3 & F4).
  set (c' := consume c d).
  match goal with |- context[emit ?x _] => set (e := x) end.
  assert (FE : fdk (c_node c) (c_dk c) = cid) by (symmetry; exact F1).
  assert (PE : puts [e] = [(cid, d)]) by (subst e; rewrite puts_one, FE; reflexivity).
  assert (PO : forall cid1, puts_of cid1 [e] = if seqb cid1 cid then [d] else []).
  { intros. subst e. rewrite puts_of_one, FE. reflexivity. }
  assert (PS : forall cid1, put_shapes cid1 [e] = if seqb cid1 cid then [(c_rows c' * c_mult c')%Z] else []).
  { intros. subst e. rewrite put_shapes_one, FE. reflexivity. }
  cbn [s_log s_sres_nodes s_cons s_ecache set_cons emit].
  split; [|split; [exact EC|]].
  - unfold InvS. cbn [s_log s_sres_nodes s_cons s_ecache set_cons emit].
    split; [|split; [|split; [|split; [|split]]]].
    + intros cid1 d1. rewrite puts_app, PE, in_app_iff. intros [J|[J|[]]]; [apply S4; exact J|].
      inversion J; subst. exact LS.
    + intros cid1 c1. rewrite lookup_set, puts_of_app, put_shapes_app, PO, PS.
      destruct (seqb cid1 cid) eqn:E; sb.
      * intros [= <-]. subst c'. cbn. split; [first [exact F1 | reflexivity]|]. split; [rewrite F2; reflexivity|].
        split; [rewrite map_app; cbn [map]; rewrite zsum_app, F3; reflexivity|]. right. apply last_snoc.
      * rewrite !app_nil_r. apply S5.
    + intros k cid1 L. rewrite lookup_set. destruct (seqb cid1 cid); [discriminate | eapply S6; eauto].
    + rewrite new_arrays_app, new_arrays_one, app_nil_r. erewrite dict_set_keys_present; eauto.
    + intros cid1. rewrite lookup_set. destruct (seqb cid1 cid) eqn:E; sb; intros L; apply S8; congruence.
    + erewrite dict_set_keys_present; eauto.
  - exists cid. rewrite puts_app, PE, EL, puts_app, (puts_pneutral _ EN), app_nil_r. reflexivity.
Qed.

Lemma write_external_err st d st' e :
  InvS st -> write_external st d = (st', Some e) -> same_ext st st'.
Proof.
  intros I. unfold write_external.
  destruct (get_sres_node st (sd_sres d) (sd_desc d)) as [st1 [e1|cid]] eqn:G.
  - intros [= <- <-]. eapply get_sres_node_err; eauto.
  - destruct (get_sres_node_ok _ _ _ _ _ I G) as ((S4 & S5 & S6 & S7 & S8 & S9) & LS & _).
    destruct (lookup cid (s_cons st1)) as [c|] eqn:LC; [discriminate|]. apply S6 in LS. congruence.
Qed.

Local Opaque write_external.

(* ------------------------------------------------------------------ external data: the pool of stream datums *)

Lemma InvS_set_ecache st x : InvS st -> InvS (set_ecache st x).
Proof. intros H. exact H. Qed.

Lemma dict_remove_nodup {A} k (d : list (string * A)) : NoDup (map fst d) -> NoDup (map fst (dict_remove k d)).
Proof.
  induction d as [|[k0 v0] d IH]; cbn; [auto|]. intros ND. inversion ND as [|? ? Hn ND']; subst.
  destruct (seqb k k0); [exact ND'|]. cbn. constructor; [|auto].
  intros I. apply Hn. clear - I. induction d as [|[k1 v1] d IH]; cbn in *; [tauto|].
  destruct (seqb k k1); cbn in *; [right; exact I | destruct I; [left; assumption | right; auto]].
Qed.

Section Pool.
  Context {X : Type}.
  Variable f : sdatum -> list X.
  Variable good : sdatum -> Prop.
  Hypothesis merge_good : forall a b m, good a -> good b -> concat2 a b = inr m -> good m.
  Hypothesis merge_f : forall a b m, good a -> good b -> concat2 a b = inr m -> Permutation (f m) (f a ++ f b).

  Definition FP (ps : list (string * sdatum)) : list X := flat_map f (map snd ps).

  Lemma FP_app a b : FP (a ++ b) = FP a ++ FP b.
  Proof. unfold FP. rewrite map_app, flat_map_app. reflexivity. Qed.

  Lemma FP_one k d : FP [(k, d)] = f d.
  Proof. unfold FP. cbn. apply app_nil_r. Qed.

  Lemma FP_cons k v l : FP ((k, v) :: l) = f v ++ FP l.
  Proof. reflexivity. Qed.

  Lemma FP_remove k c ec : lookup k ec = Some c -> Permutation (FP ec) (f c ++ FP (dict_remove k ec)).
  Proof.
    induction ec as [|[k0 v0] ec IH]; cbn [lookup dict_remove]; [discriminate|].
    destruct (seqb k k0).
    - intros [= ->]. reflexivity.
    - intros L. rewrite !FP_cons.
      rewrite (IH L). rewrite !app_assoc. apply Permutation_app_tail. apply Permutation_app_comm.
  Qed.

  Definition GP (ps : list (string * sdatum)) : Prop := Forall good (map snd ps).

  Lemma GP_app a b : GP (a ++ b) <-> GP a /\ GP b.
  Proof. unfold GP. rewrite map_app. apply Forall_app. Qed.

  Lemma GP_remove k ec : GP ec -> GP (dict_remove k ec).
  Proof.
    unfold GP. induction ec as [|[k0 v0] ec IH]; cbn; [auto|]. intros H. inversion H; subst.
    destruct (seqb k k0); [assumption|]. cbn. constructor; auto.
  Qed.

  Lemma GP_lookup k c ec : GP ec -> lookup k ec = Some c -> good c.
  Proof.
    intros G L. apply lookup_in in L. unfold GP in G. rewrite Forall_forall in G. apply G.
    apply in_map_iff. exists (k, c). auto.
  Qed.

  (* the pool: everything consumed so far plus everything still cached *)
  Definition InvE (st : state) (received : list sdatum) : Prop :=
    NoDup (map fst (s_ecache st))
    /\ Permutation (FP (puts (s_log st)) ++ FP (s_ecache st)) (flat_map f received)
    /\ GP (puts (s_log st)) /\ GP (s_ecache st).

  Lemma InvE_same_ext st st' received : InvS st -> InvE st received -> same_ext st st' -> InvE st' received.
  Proof.
    intros I (E1 & E2 & E3 & E4) S. destruct (InvS_same_ext _ _ I S) as [_ P].
    destruct S as (Es & _). unfold InvE. rewrite P, Es. auto.
  Qed.

  Lemma recv_snoc received d : flat_map f (received ++ [d]) = flat_map f received ++ f d.
  Proof. rewrite flat_map_app. cbn. rewrite app_nil_r. reflexivity. Qed.

  (* except ValueError: write the cached document, then the new one *)
  Lemma handler_ok s c d st' :
    InvS s ->
    match write_external s c with (s', None) => write_external s' d | bad => bad end = (st', None) ->
    InvS st' /\ s_ecache st' = s_ecache s
    /\ exists c1 c2, puts (s_log st') = puts (s_log s) ++ [(c1, c); (c2, d)].
  Proof.
    intros I. destruct (write_external s c) as [s1 [e|]] eqn:W1; [discriminate|]. intros W2.
    destruct (write_external_ok _ _ _ I W1) as (I1 & E1 & (c1 & P1)).
    destruct (write_external_ok _ _ _ I1 W2) as (I2 & E2 & (c2 & P2)).
    split; [exact I2|]. split; [congruence|]. exists c1, c2. rewrite P2, P1, <- app_assoc. reflexivity.
  Qed.

  Lemma h_sdatum_ext bs st d st' received :
    InvS st -> InvE st received -> good d -> h_sdatum bs st d = (st', None) ->
    InvS st' /\ InvE st' (received ++ [d]).
  Proof.
    intros I (E1 & E2 & E3 & E4) Gd. unfold h_sdatum. destruct (bs <=? 1)%Z.
    { intros W. destruct (write_external_ok _ _ _ I W) as (I1 & EC & (cid & P)).
      split; [exact I1|]. unfold InvE. rewrite EC, P, recv_snoc, FP_app, FP_one. repeat split; auto.
      - rewrite <- E2. rewrite <- !app_assoc. apply Permutation_app_head. apply Permutation_app_comm.
      - apply GP_app. split; [exact E3|]. unfold GP. cbn. constructor; auto. }
    destruct (lookup (sd_sres d) (s_ecache st)) as [c|] eqn:L.
    2:{ intros [= <-]. split; [apply InvS_set_ecache; exact I|].
        unfold InvE. cbn [s_ecache s_log set_ecache]. rewrite (dict_set_absent _ _ _ L), recv_snoc, FP_app, FP_one.
        repeat split; auto.
        - rewrite map_app. cbn. apply NoDup_snoc; [exact E1 | apply lookup_none_notin; exact L].
        - rewrite app_assoc. apply Permutation_app_tail. exact E2.
        - apply GP_app. split; [exact E4|]. unfold GP. cbn. constructor; auto. }
    set (ec1 := dict_remove (sd_sres d) (s_ecache st)).
    set (st1 := set_ecache st ec1).
    assert (I1 : InvS st1) by (apply InvS_set_ecache; exact I).
    assert (Gc : good c) by (eapply GP_lookup; eauto).
    assert (G1 : GP ec1) by (apply GP_remove; exact E4).
    assert (N1 : NoDup (map fst ec1)) by (apply dict_remove_nodup; exact E1).
    assert (L1 : lookup (sd_sres d) ec1 = None) by (subst ec1; rewrite lookup_remove, seqb_refl by exact E1; reflexivity).
    assert (PR : Permutation (FP (puts (s_log st)) ++ f c ++ FP ec1) (flat_map f received)).
    { rewrite <- E2. apply Permutation_app_head. symmetry. apply FP_remove. exact L. }
    (* the except branch, from any state that has the same puts / caches as st1 *)
    assert (HH : forall s, InvS s -> puts (s_log s) = puts (s_log st) -> s_ecache s = ec1 ->
                 match write_external s c with (s', None) => write_external s' d | bad => bad end = (st', None) ->
                 InvS st' /\ InvE st' (received ++ [d])).
    { intros s Is Ps Es W. destruct (handler_ok _ _ _ _ Is W) as (I2 & EC & (c1 & c2 & P)).
      split; [exact I2|]. unfold InvE. rewrite EC, Es, P, Ps, recv_snoc, FP_app.
      change (FP [(c1, c); (c2, d)]) with (f c ++ f d ++ []). rewrite app_nil_r. repeat split; auto.
      - rewrite <- PR. rewrite <- !app_assoc. apply Permutation_app_head. apply Permutation_app_head.
        apply Permutation_app_comm.
      - apply GP_app. split; [exact E3|]. unfold GP. cbn. constructor; [|constructor]; auto. }
    destruct (concat2 c d) as [e|m] eqn:CC.
    - apply HH; [exact I1 | reflexivity | reflexivity].
    - assert (Gm : good m) by exact (merge_good c d m Gc Gd CC).
      assert (Fm : Permutation (f m) (f c ++ f d)) by exact (merge_f c d m Gc Gd CC).
      destruct (sd_i1 m - sd_i0 m >=? bs)%Z.
      + destruct (write_external st1 m) as [s' [e|]] eqn:W.
        * assert (S := write_external_err _ _ _ _ I1 W).
          destruct (InvS_same_ext _ _ I1 S) as [Is Ps]. destruct S as (Es & _).
          destruct e; try discriminate. apply HH; [exact Is | exact Ps | exact Es].
        * intros [= <-]. destruct (write_external_ok _ _ _ I1 W) as (I2 & EC & (cid & P)).
          split; [exact I2|]. unfold InvE. rewrite EC, P. cbn [s_ecache s_log set_ecache st1].
          rewrite recv_snoc, FP_app, FP_one. repeat split; auto.
          -- rewrite <- PR. rewrite <- !app_assoc. apply Permutation_app_head.
             rewrite Fm. rewrite <- !app_assoc. apply Permutation_app_head. apply Permutation_app_comm.
          -- apply GP_app. split; [exact E3|]. unfold GP. cbn. constructor; auto.
      + intros [= <-]. split; [apply InvS_set_ecache; exact I1|].
        unfold InvE. cbn [s_ecache s_log set_ecache st1]. rewrite (dict_set_absent _ _ _ L1), recv_snoc, FP_app, FP_one.
        repeat split; auto.
        * rewrite map_app. cbn. apply NoDup_snoc; [exact N1 | apply lookup_none_notin; exact L1].
        * rewrite <- PR, Fm. rewrite <- !app_assoc. apply Permutation_app_head.
          rewrite !app_assoc. apply Permutation_app_tail. apply Permutation_app_comm.
        * apply GP_app. split; [exact G1|]. unfold GP. cbn. constructor; auto.
  Qed.
End Pool.

Lemma InvS_init_start s : InvS (fst (h_start init s)).
Proof.
  unfold InvS. cbn [fst h_start s_log s_cons s_sres_nodes emit set_root set_rootmd set_tags init app].
  split; [|split; [|split; [|split; [|split]]]].
  - intros cid d. rewrite puts_one. intros [].
  - intros cid c. cbn. discriminate.
  - intros k cid. cbn. discriminate.
  - rewrite new_arrays_one. reflexivity.
  - intros cid H. exfalso. apply H. reflexivity.
  - constructor.
Qed.

Section PoolRun.
  Context {X : Type}.
  Variable f : sdatum -> list X.
  Variable good : sdatum -> Prop.
  Hypothesis merge_good : forall a b m, good a -> good b -> concat2 a b = inr m -> good m.
  Hypothesis merge_f : forall a b m, good a -> good b -> concat2 a b = inr m -> Permutation (f m) (f a ++ f b).

  Lemma handle_body_ext bs st d st' received :
    InvS st -> InvE f good st received -> is_body d = true ->
    (forall x, In x (stream_datums [d]) -> good x) ->
    handle bs st d = (st', None) ->
    InvS st' /\ InvE f good st' (received ++ stream_datums [d]).
  Proof.
    intros I E B G H.
    assert (SE : same_ext st st' -> stream_datums [d] = [] ->
                 InvS st' /\ InvE f good st' (received ++ stream_datums [d])).
    { intros S ->. rewrite app_nil_r. split; [eapply InvS_same_ext; eauto | eapply InvE_same_ext; eauto]. }
    destruct d; cbn [handle is_body] in *; try discriminate.
    - apply SE; [|reflexivity]. apply h_descriptor_frame in H. tauto.
    - apply SE; [|reflexivity]. apply h_event_frame in H. tauto.
    - apply SE; [|reflexivity]. apply h_events_frame in H. tauto.
    - apply SE; [|reflexivity]. apply h_sres_frame in H. tauto.
    - cbn. eapply h_sdatum_ext; eauto. apply G. cbn. left. reflexivity.
  Qed.

  Lemma run_body_ext bs : forall docs st st' received,
    InvS st -> InvE f good st received -> forallb is_body docs = true ->
    (forall x, In x (stream_datums docs) -> good x) ->
    run_from bs st docs = (st', None) ->
    InvS st' /\ InvE f good st' (received ++ stream_datums docs).
  Proof.
    induction docs as [|d docs IH]; cbn [run_from]; intros st st' received I E B G H.
    - inversion H; subst. cbn. rewrite app_nil_r. auto.
    - cbn [forallb] in B. apply andb_true_iff in B as [B1 B2].
      destruct (handle bs st d) as [st1 [x|]] eqn:Hd; [discriminate|].
      change (d :: docs) with ([d] ++ docs) in *. unfold stream_datums in *. rewrite flat_map_app in *.
      eapply handle_body_ext in Hd as [I1 E1]; eauto.
      + eapply IH in H as [I2 E2]; eauto.
        * rewrite app_assoc. auto.
        * intros x J. apply G. apply in_or_app. right. exact J.
      + intros x J. apply G. apply in_or_app. left. exact J.
  Qed.

  Lemma flush_external_ext l : forall st st',
    InvS st -> flush_external st l = (st', None) ->
    InvS st' /\ s_ecache st' = s_ecache st
    /\ exists ws, puts (s_log st') = puts (s_log st) ++ ws /\ map snd ws = map snd l.
  Proof.
    induction l as [|[k d] l IH]; cbn [flush_external]; intros st st' I H.
    - inversion H; subst. split; [exact I|]. split; [reflexivity|]. exists []. rewrite app_nil_r. auto.
    - destruct (write_external st d) as [s1 [e|]] eqn:W; [discriminate|].
      destruct (write_external_ok _ _ _ I W) as (I1 & E1 & (cid & P1)).
      destruct (IH _ _ I1 H) as (I2 & E2 & (ws & P2 & M2)).
      split; [exact I2|]. split; [congruence|]. exists ((cid, d) :: ws).
      rewrite P2, P1, <- app_assoc. split; [reflexivity|]. cbn. rewrite M2. reflexivity.
  Qed.

  Lemma InvE_init_start s : InvE f good (fst (h_start init s)) [].
  Proof.
    unfold InvE. cbn [fst h_start s_log s_ecache emit set_root set_rootmd set_tags init app].
    rewrite puts_one. unfold GP, FP. cbn. repeat split; constructor.
  Qed.

  Lemma external_pool_thm bs s body m st :
    run bs (DStart s :: body ++ [DStop m]) = (st, None) -> forallb is_body body = true ->
    (forall x, In x (stream_datums body) -> good x) ->
    InvS st
    /\ Permutation (flat_map f (map snd (puts (s_log st)))) (flat_map f (stream_datums body))
    /\ Forall good (map snd (puts (s_log st)))
    /\ (forall k d, In (k, d) (s_ecache st) -> In d (map snd (puts (s_log st)))).
  Proof.
    intros R B G. apply run_decompose in R as (st1 & R1 & R2).
    assert (I0 := InvS_init_start s).
    destruct (run_body_ext bs body _ _ [] I0 (InvE_init_start s) B G R1) as [I1 E1]. cbn [app] in E1.
    apply h_stop_ok in R2 as (st2 & st3 & F1 & F2 & ->).
    apply flush_internal_frame in F1 as [S2 _].
    destruct (InvS_same_ext _ _ I1 S2) as [I2 P2]. assert (E2 := InvE_same_ext f good _ _ _ I1 E1 S2).
    destruct (flush_external_ext _ _ _ I2 F2) as (I3 & EC3 & (ws & P3 & M3)).
    match goal with |- context[emit ?e ?s0] => set (stf := emit e s0) end.
    assert (S4 : same_ext st3 stf) by (subst stf; repeat split; ext_tac).
    destruct (InvS_same_ext _ _ I3 S4) as [I4 P4].
    destruct E2 as (N2 & Q2 & G2a & G2b).
    split; [exact I4|]. rewrite P4, P3. split; [|split].
    - rewrite map_app, flat_map_app, M3. exact Q2.
    - rewrite map_app. apply Forall_app. split; [exact G2a | rewrite M3; exact G2b].
    - destruct S4 as (-> & _). rewrite EC3. intros k d J. rewrite map_app, M3. apply in_or_app. right.
      apply in_map_iff. exists (k, d). auto.
  Qed.
End PoolRun.

(* ------------------------------------------------------------------ concatenation is additive on index ranges *)

Lemma map_seq_shift {A} (F : nat -> A) m : forall n,
  map F (seq n m) = map (fun i => F (n + i)%nat) (seq 0 m).
Proof.
  induction m as [|m IH]; intros n; [reflexivity|]. cbn [seq map]. f_equal; [f_equal; lia|].
  rewrite <- (seq_shift m 0), map_map, (IH (S n)). apply map_ext. intros i. f_equal. lia.
Qed.

Lemma zrange_app a b c : (a <= b)%Z -> (b <= c)%Z -> zrange a c = zrange a b ++ zrange b c.
Proof.
  intros H1 H2. unfold zrange.
  replace (Z.to_nat (c - a)) with (Z.to_nat (b - a) + Z.to_nat (c - b))%nat by lia.
  rewrite seq_app, map_app. f_equal. rewrite Nat.add_0_l, map_seq_shift. apply map_ext. intros i. lia.
Qed.

Lemma zrange_length a b : (a <= b)%Z -> Z.of_nat (length (zrange a b)) = (b - a)%Z.
Proof. intros H. unfold zrange. rewrite map_length, seq_length. lia. Qed.

Lemma concat2_inv a b m : concat2 a b = inr m ->
  sd_sres a = sd_sres b
  /\ exists x y, ((x = a /\ y = b) \/ (x = b /\ y = a)) /\ sd_i1 x = sd_i0 y
                 /\ m = mkSD (sd_uid y) (sd_sres y) (sd_desc y) (sd_i0 x) (sd_i1 y) (sd_q0 x) (sd_q1 y).
Proof.
  unfold concat2. destruct (seqb (sd_desc a) (sd_desc b)); cbn [negb]; [|discriminate].
  destruct (seqb (sd_sres a) (sd_sres b)) eqn:E; cbn [negb]; [|discriminate]. apply seqb_eq in E.
  destruct (sd_i0 b <? sd_i0 a)%Z.
  - destruct (sd_i1 b =? sd_i0 a)%Z eqn:E2; cbn [negb]; [|discriminate]. intros [= <-].
    split; [exact E|]. exists b, a. split; [right; auto|]. split; [lia | reflexivity].
  - destruct (sd_i1 a =? sd_i0 b)%Z eqn:E2; cbn [negb]; [|discriminate]. intros [= <-].
    split; [exact E|]. exists a, b. split; [left; auto|]. split; [lia | reflexivity].
Qed.

Definition good_ind (d : sdatum) : Prop := (sd_i0 d <= sd_i1 d)%Z.
Definition good_seq (off : string -> Z) (d : sdatum) : Prop :=
  (sd_i0 d <= sd_i1 d)%Z /\ sd_q0 d = (sd_i0 d + off (sd_sres d))%Z /\ sd_q1 d = (sd_i1 d + off (sd_sres d))%Z.

Lemma merge_good_ind a b m : good_ind a -> good_ind b -> concat2 a b = inr m -> good_ind m.
Proof.
  unfold good_ind. intros Ga Gb C. apply concat2_inv in C as (_ & x & y & [[-> ->]|[-> ->]] & E & ->); cbn; lia.
Qed.

Lemma merge_tag_ind a b m : good_ind a -> good_ind b -> concat2 a b = inr m ->
  Permutation (tag_ind m) (tag_ind a ++ tag_ind b).
Proof.
  unfold good_ind. intros Ga Gb C. apply concat2_inv in C as (ES & x & y & O & E & ->).
  assert (Q : tag_ind (mkSD (sd_uid y) (sd_sres y) (sd_desc y) (sd_i0 x) (sd_i1 y) (sd_q0 x) (sd_q1 y))
              = tag_ind x ++ tag_ind y).
  { unfold tag_ind, expand_ind. cbn [sd_sres sd_i0 sd_i1].
    assert (sd_sres x = sd_sres y) by (destruct O as [[-> ->]|[-> ->]]; congruence).
    assert (sd_i0 x <= sd_i1 x /\ sd_i0 y <= sd_i1 y)%Z by (destruct O as [[-> ->]|[-> ->]]; lia).
    rewrite (zrange_app (sd_i0 x) (sd_i1 x) (sd_i1 y)) by lia. rewrite map_app, E. congruence. }
  rewrite Q. destruct O as [[-> ->]|[-> ->]]; [reflexivity | apply Permutation_app_comm].
Qed.

Lemma merge_good_seq off a b m : good_seq off a -> good_seq off b -> concat2 a b = inr m -> good_seq off m.
Proof.
  unfold good_seq. intros Ga Gb C. apply concat2_inv in C as (ES & x & y & O & E & ->). cbn.
  assert (sd_sres x = sd_sres y) by (destruct O as [[-> ->]|[-> ->]]; congruence).
  destruct O as [[-> ->]|[-> ->]]; repeat split; try lia; try tauto.
  all: destruct Ga as (? & ? & ?), Gb as (? & ? & ?); congruence.
Qed.

Lemma merge_tag_seq off a b m : good_seq off a -> good_seq off b -> concat2 a b = inr m ->
  Permutation (tag_seq m) (tag_seq a ++ tag_seq b).
Proof.
  unfold good_seq. intros Ga Gb C. apply concat2_inv in C as (ES & x & y & O & E & ->).
  assert (Q : tag_seq (mkSD (sd_uid y) (sd_sres y) (sd_desc y) (sd_i0 x) (sd_i1 y) (sd_q0 x) (sd_q1 y))
              = tag_seq x ++ tag_seq y).
  { unfold tag_seq, expand_seq. cbn [sd_sres sd_q0 sd_q1].
    assert (HS : sd_sres x = sd_sres y) by (destruct O as [[-> ->]|[-> ->]]; congruence).
    assert (HX : (sd_i0 x <= sd_i1 x)%Z /\ sd_q0 x = (sd_i0 x + off (sd_sres x))%Z /\ sd_q1 x = (sd_i1 x + off (sd_sres x))%Z)
      by (destruct O as [[-> ->]|[-> ->]]; tauto).
    assert (HY : (sd_i0 y <= sd_i1 y)%Z /\ sd_q0 y = (sd_i0 y + off (sd_sres y))%Z /\ sd_q1 y = (sd_i1 y + off (sd_sres y))%Z)
      by (destruct O as [[-> ->]|[-> ->]]; tauto).
    assert (EQ : sd_q1 x = sd_q0 y) by (destruct HX as (_ & _ & ->), HY as (_ & -> & _); rewrite HS; lia).
    rewrite (zrange_app (sd_q0 x) (sd_q1 x) (sd_q1 y)) by (rewrite HS in HX; lia). rewrite map_app, EQ, HS. reflexivity. }
  rewrite Q. destruct O as [[-> ->]|[-> ->]]; [reflexivity | apply Permutation_app_comm].
Qed.

(* ------------------------------------------------------------------ per consolidator *)

Lemma Permutation_filter {A} (p : A -> bool) l l' : Permutation l l' -> Permutation (filter p l) (filter p l').
Proof.
  induction 1; cbn.
  - constructor.
  - destruct (p x); [constructor|]; assumption.
  - destruct (p x), (p y); try constructor; try reflexivity.
  - etransitivity; eauto.
Qed.

Section Tagged.
  Variable xs : sdatum -> list Z.
  Definition tg (d : sdatum) : list (string * Z) := map (pair (sd_sres d)) (xs d).

  Lemma filter_tag (g : string -> bool) ds :
    filter (fun a => g (fst a)) (flat_map tg ds) = flat_map tg (filter (fun d => g (sd_sres d)) ds).
  Proof.
    induction ds as [|d ds IH]; cbn [flat_map filter]; [reflexivity|].
    rewrite filter_app, IH. destruct (g (sd_sres d)) eqn:E; cbn [flat_map].
    - f_equal. unfold tg. induction (xs d) as [|z l IHl]; cbn; [reflexivity|]. rewrite E, IHl. reflexivity.
    - replace (filter _ (tg d)) with (@nil (string * Z)); [reflexivity|].
      unfold tg. induction (xs d) as [|z l IHl]; cbn; [reflexivity|]. rewrite E. exact IHl.
  Qed.

  Lemma map_snd_tag ds : map snd (flat_map tg ds) = flat_map xs ds.
  Proof.
    induction ds as [|d ds IH]; cbn; [reflexivity|]. rewrite map_app, IH. f_equal.
    unfold tg. rewrite map_map. cbn. apply map_id.
  Qed.
End Tagged.

Definition mapped_to (cid : string) (nodes : list (string * string)) (d : sdatum) : bool :=
  match lookup (sd_sres d) nodes with Some c => seqb cid c | None => false end.

Lemma puts_filter cid nodes l :
  (forall cid' d, In (cid', d) (puts l) -> lookup (sd_sres d) nodes = Some cid') ->
  filter (mapped_to cid nodes) (map snd (puts l)) = puts_of cid l.
Proof.
  induction l as [|e l IH]; intros H; [reflexivity|].
  change (e :: l) with ([e] ++ l) in *. rewrite puts_app, puts_of_app, map_app, filter_app.
  rewrite IH by (intros c' d J; apply H; rewrite puts_app; apply in_or_app; right; exact J).
  f_equal. rewrite puts_one, puts_of_one. destruct e; try reflexivity. cbn.
  unfold mapped_to. rewrite (H (fdk node dk) consumed); [|rewrite puts_app, puts_one; left; reflexivity].
  destruct (seqb cid (fdk node dk)); reflexivity.
Qed.

Lemma per_consolidator (xs : sdatum -> list Z) cid nodes l received :
  (forall cid' d, In (cid', d) (puts l) -> lookup (sd_sres d) nodes = Some cid') ->
  Permutation (flat_map (tg xs) (map snd (puts l))) (flat_map (tg xs) received) ->
  Permutation (flat_map xs (puts_of cid l)) (flat_map xs (filter (mapped_to cid nodes) received)).
Proof.
  intros H P.
  apply (Permutation_filter (fun a => match lookup (fst a) nodes with Some c => seqb cid c | None => false end)) in P.
  rewrite (filter_tag xs (fun s => match lookup s nodes with Some c => seqb cid c | None => false end)) in P.
  rewrite (filter_tag xs (fun s => match lookup s nodes with Some c => seqb cid c | None => false end)) in P.
  apply (Permutation_map snd) in P. rewrite !map_snd_tag in P.
  change (fun d => match lookup (sd_sres d) nodes with Some c => seqb cid c | None => false end)
    with (mapped_to cid nodes) in P.
  rewrite puts_filter in P by exact H. exact P.
Qed.

Lemma zsum_width_length l : Forall good_ind l ->
  zsum (map width l) = Z.of_nat (length (flat_map expand_ind l)).
Proof.
  induction 1 as [|d l G F IH]; [reflexivity|]. cbn [map flat_map]. rewrite app_length, Nat2Z.inj_add.
  change (zsum (width d :: map width l)) with (width d + zsum (map width l))%Z. rewrite IH.
  f_equal. unfold expand_ind. rewrite zrange_length by exact G. reflexivity.
Qed.

Lemma stream_datums_run s body m : stream_datums (DStart s :: body ++ [DStop m]) = stream_datums body.
Proof. unfold stream_datums. cbn. rewrite flat_map_app. cbn. apply app_nil_r. Qed.

Lemma external_arrays_thm bs docs st :
  run bs docs = (st, None) -> is_run docs -> sd_wf docs ->
  let L := s_log st in
  Permutation (flat_map tag_ind (map snd (puts L))) (flat_map tag_ind (stream_datums docs))
  /\ (forall cid, Permutation (flat_map expand_ind (puts_of cid L)) (flat_map expand_ind (received_for cid st docs)))
  /\ (forall cid c, lookup cid (s_cons st) = Some c ->
        cid = fdk (c_node c) (c_dk c) /\ c_consumed c = puts_of cid L
        /\ c_rows c = zsum (map width (received_for cid st docs))
        /\ (put_shapes cid L = [] \/ last (put_shapes cid L) 0%Z = (c_rows c * c_mult c)%Z))
  /\ (forall d, In d (stream_datums docs) -> (sd_i0 d < sd_i1 d)%Z ->
        exists cid, lookup (sd_sres d) (s_sres_nodes st) = Some cid /\ lookup cid (s_cons st) <> None)
  /\ (forall k d, In (k, d) (s_ecache st) -> In d (map snd (puts L)))
  /\ NoDup (new_arrays L) /\ new_arrays L = map fst (s_cons st).
Proof.
  intros R (s & body & m & -> & B) WF L. rewrite stream_datums_run in *.
  assert (WF' : forall x, In x (stream_datums body) -> good_ind x).
  { intros x J. apply WF. rewrite stream_datums_run. exact J. }
  destruct (external_pool_thm tag_ind good_ind merge_good_ind merge_tag_ind bs s body m st R B WF')
    as ((S4 & S5 & S6 & S7 & S8 & S9) & P & G & C).
  fold L in S4, S5, S7, P, G, C.
  assert (PC : forall cid, Permutation (flat_map expand_ind (puts_of cid L)) (flat_map expand_ind (received_for cid st (DStart s :: body ++ [DStop m])))).
  { intros cid. unfold received_for. rewrite stream_datums_run.
    apply (per_consolidator expand_ind cid (s_sres_nodes st) L (stream_datums body) S4 P). }
  split; [exact P|]. split; [exact PC|]. split; [|split; [|split; [exact C|split]]].
  - intros cid c LC. destruct (S5 _ _ LC) as (F1 & F2 & F3 & F4). repeat split; auto.
    rewrite F3. rewrite !zsum_width_length.
    + f_equal. apply Permutation_length. apply PC.
    + unfold received_for. rewrite stream_datums_run. apply Forall_forall. intros x J.
      apply filter_In in J as [J _]. apply WF'. exact J.
    + apply Forall_forall. intros x J. apply puts_of_in in J. rewrite Forall_forall in G. apply G.
      apply in_map_iff. exists (cid, x). auto.
  - intros d J LT.
    assert (A : In (sd_sres d, sd_i0 d) (flat_map tag_ind (stream_datums body))).
    { apply in_flat_map. exists d. split; [exact J|]. unfold tag_ind. apply in_map. unfold expand_ind, zrange.
      apply in_map_iff. exists 0%nat. split; [lia|]. apply in_seq. lia. }
    apply (Permutation_in _ (Permutation_sym P)) in A. apply in_flat_map in A as (p & Jp & Ap).
    apply in_map_iff in Jp as ([cid p'] & <- & Jp). cbn [snd] in Ap.
    unfold tag_ind in Ap. apply in_map_iff in Ap as (z & [= E _] & _).
    exists cid. rewrite <- E. split; [apply S4; exact Jp | eapply S6; apply S4; exact Jp].
  - rewrite S7. exact S9.
  - exact S7.
Qed.

Lemma external_seq_thm bs docs st off :
  run bs docs = (st, None) -> is_run docs -> sd_wf docs -> seq_aligned off docs ->
  let L := s_log st in
  Permutation (flat_map tag_seq (map snd (puts L))) (flat_map tag_seq (stream_datums docs))
  /\ (forall cid, Permutation (flat_map expand_seq (puts_of cid L)) (flat_map expand_seq (received_for cid st docs))).
Proof.
  intros R (s & body & m & -> & B) WF AL L. rewrite stream_datums_run in *.
  assert (WF' : forall x, In x (stream_datums body) -> good_seq off x).
  { intros x J. split; [apply WF | apply AL]; rewrite stream_datums_run; exact J. }
  destruct (external_pool_thm tag_seq (good_seq off) (merge_good_seq off) (merge_tag_seq off) bs s body m st R B WF')
    as ((S4 & _) & P & _).
  fold L in S4, P. split; [exact P|].
  intros cid. unfold received_for. rewrite stream_datums_run.
  apply (per_consolidator expand_seq cid (s_sres_nodes st) L (stream_datums body) S4 P).
Qed.

(* ------------------------------------------------------------------ arrays are distinct, whatever the ranges *)

Lemma arrays_distinct_thm bs docs st :
  run bs docs = (st, None) -> is_run docs ->
  let L := s_log st in
  NoDup (new_arrays L) /\ new_arrays L = map fst (s_cons st)
  /\ (forall cid c, lookup cid (s_cons st) = Some c -> cid = fdk (c_node c) (c_dk c) /\ c_consumed c = puts_of cid L)
  /\ (forall cid d, In (cid, d) (puts L) ->
        lookup (sd_sres d) (s_sres_nodes st) = Some cid /\ lookup cid (s_cons st) <> None).
Proof.
  intros R (s & body & m & -> & B) L.
  destruct (external_pool_thm (fun _ => @nil unit) (fun _ => True) (fun _ _ _ _ _ _ => I)
              (fun _ _ _ _ _ _ => Permutation_refl _) bs s body m st R B (fun _ _ => I))
    as ((S4 & S5 & S6 & S7 & S8 & S9) & _).
  fold L in S4, S5, S7. repeat split.
  - rewrite S7. exact S9.
  - exact S7.
  - apply S5 in H. tauto.
  - apply S5 in H. tauto.
  - apply S4. exact H.
  - eapply S6. apply S4. exact H.
Qed.

(* ------------------------------------------------------------------ the boolean hypotheses imply the propositions *)

Lemma is_run_b_sound docs : is_run_b docs = true -> is_run docs.
Proof.
  unfold is_run_b, is_run. destruct docs as [|[s| | | | | |] rest]; try discriminate.
  destruct (rev rest) as [|[| | | | | |m] body'] eqn:E; try discriminate. intros H.
  exists s, (rev body'), m. split.
  - f_equal. rewrite <- (rev_involutive rest), E. reflexivity.
  - rewrite forallb_forall in *. intros x J. apply H. apply in_rev. exact J.
Qed.

Lemma ns_disjoint_b_sound docs : ns_disjoint_b docs = true -> ns_disjoint docs.
Proof.
  unfold ns_disjoint_b, ns_disjoint. rewrite forallb_forall. intros H r n Jr Jn E. subst.
  apply H in Jr. apply negb_true_iff, smem_notin in Jr. tauto.
Qed.

Lemma sd_wf_b_sound docs : sd_wf_b docs = true -> sd_wf docs.
Proof. unfold sd_wf_b, sd_wf. rewrite forallb_forall. intros H d J. apply H in J. lia. Qed.

Lemma aligned_b_sound docs : aligned_b docs = true -> seq_aligned (off_of docs) docs.
Proof.
  unfold aligned_b, seq_aligned. rewrite forallb_forall. intros H d J. apply H in J.
  apply andb_true_iff in J. lia.
Qed.
