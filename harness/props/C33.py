"""C33 - 0MQ publishing delivers documents intact and filters by prefix.

Runs the real Publisher.__call__ and RemoteDispatcher.start()/_poll over an in-memory zmq
stand-in (harness/drivers/fakezmq.py) and compares, per case, (a) every frame a Publisher put on
the wire with the model's `frame`, (b) per dispatcher the exact sequence of documents handed to
its subscribers, how `_poll` ended and how many frames it had taken, with the model's `poll`.
"""
import itertools
import pickle

from harness.drivers.io_common import build, canon, coq_bool, coq_bytes, coq_list, rand_doc

ID = "C33"
PROP_FILE = "Props/C33.v"
THEOREMS = ["C33_parse_frame", "C33_parse_sound", "C33_delivery", "C33_delivery_published_only",
            "C33_strict_raises", "C33_malformed_dropped", "C33_split_fails_iff", "C33_nonstrict_total"]
COQ_IMPORTS = "From BV Require Import Pure.Framing.\nFrom Coq Require Import NArith."
MODELLED = ("Publisher.__call__ framing and RemoteDispatcher._poll (split, name decode, prefix filter, deserialise, "
            "DocumentNames lookup, strict/non-strict) are modelled over bytes = list N; the serialiser/deserialiser "
            "(pickle) is an abstract codec with deser (ser d) = Some d; UTF-8 validity is an executable function "
            "validated against bytes.decode; the transport is a lossless FIFO list. Real sockets, the proxy, HWM "
            "drops, asyncio scheduling of loop.call_soon(process) and pickle itself are not modelled.")
RULE = ("corpus (C33-a witness) first; exhaustive: all streams of <=2 (quick) / <=3 (thorough) items over a 10-symbol "
        "alphabet (3 publishers x names, 7 malformed shapes), each observed by 6 dispatchers (3 prefixes x strict); "
        "exhaustive UTF-8 boundary names (all 1-byte, boundary 2/3/4-byte sequences); random streams with random "
        "prefixes over all byte values but 32, random picklable documents (nested, unicode, numpy, bytes with spaces) through pickle (30%) or a user-supplied compact serializer/deserializer pair (70%), "
        "all 12 document names, odd names, malformed frames; constructor prefix validation; DocumentNames table. "
        "non-trivial = some dispatcher delivered a document and some frame was filtered or dropped.")

ALL_NAMES = ["stop", "start", "descriptor", "event", "datum", "resource", "event_page", "datum_page",
             "stream_resource", "stream_datum", "bulk_datum", "bulk_events"]


# ------------------------------------------------------------------------------ cases

def _hex(b):
    return bytes(b).hex()


GOOD = pickle.dumps(" 2")          # a short payload that contains a space


def _alphabet():
    """item symbols for the exhaustive part"""
    return [
        ["pub", 0, "start", {"u": " "}],
        ["pub", 1, "event", {"d": 1.5}],
        ["pub", 2, "stop", {}],
        ["raw", _hex(b"nospaceatall")],
        ["raw", _hex(b"A onlyonespace")],
        ["raw", _hex(b"A \xff\xfe " + GOOD)],                 # undecodable name
        ["raw", _hex(b"A start " + GOOD[:-2])],               # truncated pickle, our prefix
        ["raw", _hex(b"A nosuchname " + GOOD)],               # unknown document name (C33-a)
        ["raw", _hex(b"B start notapickle")],                 # bad payload under prefix B
        ["raw", _hex(b"A event " + GOOD)],                    # hand-made but well-formed
    ]


DISP6 = [{"prefix": _hex(q), "strict": s} for q in (b"", b"A", b"B") for s in (False, True)]


def _utf8_boundary_names():
    edge = [0x00, 0x41, 0x7f, 0x80, 0x8f, 0x90, 0x9f, 0xa0, 0xbf, 0xc0, 0xc1, 0xc2, 0xdf, 0xe0, 0xe1, 0xec, 0xed,
            0xee, 0xef, 0xf0, 0xf1, 0xf3, 0xf4, 0xf5, 0xff]
    names = [bytes([b]) for b in range(256) if b != 32]
    names += [bytes(t) for t in itertools.product(edge, repeat=2)]
    lead3 = [0xe0, 0xe1, 0xec, 0xed, 0xee, 0xef, 0xc2, 0xf0]
    c = [0x7f, 0x80, 0x9f, 0xa0, 0xbf, 0xc0]
    names += [bytes(t) for t in itertools.product(lead3, c, c)]
    lead4 = [0xf0, 0xf1, 0xf3, 0xf4, 0xf5, 0xef]
    c4 = [0x7f, 0x80, 0x8f, 0x90, 0xbf, 0xc0]
    names += [bytes(t) for t in itertools.product(lead4, c4, [0x80, 0xbf, 0xc0], [0x7f, 0x80, 0xbf])]
    return names


def _rand_prefix(rng):
    n = rng.choice([0, 1, 1, 2, 3, 5])
    return bytes(rng.choice([b for b in range(256) if b != 32]) for _ in range(n))


def _small_doc(rng):
    return rng.choice([{}, {"u": rng.choice(["a-b", " ", "é"])}, {"n": rng.choice([0, 32, -1, 1.5, None, True])},
                       {"a": [rng.randrange(40)]}, {"b": {"__b__": "2020"}}])


def _rand_junk(rng, prefixes, codec):
    p = rng.choice(prefixes)
    if codec == "pickle":
        good = pickle.dumps(build(_small_doc(rng)))
    else:
        good = b"\xfe " + str(rng.randrange(4)).encode() + b" "
    k = rng.randrange(12)
    if k == 0:
        return bytes(rng.choice([b for b in range(256) if b != 32]) for _ in range(rng.randint(0, 8)))
    if k == 1:
        return p + b" " + bytes(rng.choice([b for b in range(256) if b != 32]) for _ in range(rng.randint(0, 8)))
    if k == 2:
        return p + b" " + bytes(rng.choice([0xff, 0xc0, 0x80, 0xe0, 0x41, 0xed, 0xa0]) for _ in range(rng.randint(1, 4))) + b" " + good
    if k == 3:
        return p + b" " + rng.choice(ALL_NAMES).encode() + b" " + good[:rng.randint(0, len(good) - 1)]
    if k == 4:
        return p + b" " + rng.choice(["nosuch", "Start", "start\n", "événement", "", "STOP", "events"]).encode() + b" " + good
    if k == 5:
        return p + b" " + rng.choice(ALL_NAMES).encode() + b" "          # empty payload
    if k == 6:
        return p + b"  " + good                                           # empty name
    if k == 7:
        return b" " + p + b" start " + good                               # shifted: empty prefix, name = p
    if k == 8:
        return p + b" " + rng.choice(ALL_NAMES).encode() + b" " + bytes(rng.randrange(256) for _ in range(rng.randint(1, 12)))
    if k == 9:
        return p + b"x " + rng.choice(ALL_NAMES).encode() + b" " + good   # prefix that merely starts with ours
    if k == 10:
        return p[:-1] + b" " + rng.choice(ALL_NAMES).encode() + b" " + good
    return p + b" " + rng.choice(ALL_NAMES).encode() + b" " + good       # hand-made well-formed frame


def cases(rng, tier):
    out = []
    out.append({"kind": "names"})
    # constructor validation of prefixes
    for p in (b"", b"A", b" ", b"A B", b"AB ", b" A", b"\x00\xff", b"\x1f!"):
        out.append({"kind": "ctor", "prefix": _hex(p)})
    out.append({"kind": "ctor", "prefix_str": "A"})
    # small-scope exhaustive streams
    alpha = _alphabet()
    pubs3 = [_hex(b"A"), _hex(b"B"), _hex(b"")]
    maxlen = 2 if tier == "quick" else 3
    for n in range(0, maxlen + 1):
        for seq in itertools.product(range(len(alpha)), repeat=n):
            out.append({"kind": "stream", "pubs": pubs3, "items": [alpha[i] for i in seq], "disps": DISP6})
    if tier == "quick":
        for _ in range(40):
            seq = [rng.randrange(len(alpha)) for _ in range(3)]
            out.append({"kind": "stream", "pubs": pubs3, "items": [alpha[i] for i in seq], "disps": DISP6})
    # UTF-8 decoding of names, exhaustive at the boundaries
    names = _utf8_boundary_names()
    for k in range(0, len(names), 100):
        out.append({"kind": "utf8", "prefix": _hex(b"P"), "names": [_hex(n) for n in names[k:k + 100] if 32 not in n]})
    nutf = 4 if tier == "quick" else 60
    for _ in range(nutf):
        ns = []
        for _ in range(100):
            if rng.random() < 0.5:
                s = "".join(chr(rng.choice([0x41, 0x7f, 0x80, 0x7ff, 0x800, 0xd7ff, 0xe000, 0xffff, 0x10000, 0x10ffff,
                                             rng.randrange(0x21, 0xd800), rng.randrange(0xe000, 0x110000)]))
                            for _ in range(rng.randint(1, 3))).encode()
                if rng.random() < 0.4 and len(s) > 1:
                    i = rng.randrange(len(s))
                    s = s[:i] + bytes([rng.randrange(256)]) + s[i + 1:]
                if rng.random() < 0.2:
                    s = s[:-1]
            else:
                s = bytes(rng.choice([rng.randrange(256), rng.randrange(0x80, 0x100)]) for _ in range(rng.randint(1, 5)))
            if 32 not in s:
                ns.append(_hex(s))
        out.append({"kind": "utf8", "prefix": _hex(rng.choice([b"", b"P", b"\xff\x00"])), "names": ns})
    # random streams
    nrand = 100 if tier == "quick" else 2500
    for _ in range(nrand):
        codec = "pickle" if rng.random() < 0.3 else "tiny"
        npub = rng.randint(1, 3)
        prefixes = [_rand_prefix(rng) for _ in range(npub)]
        if rng.random() < 0.3:
            prefixes.append(prefixes[0] + b"x")     # a prefix extending another one
        items = []
        for _ in range(rng.randint(1, 8 if tier == "quick" else 14)):
            r = rng.random()
            if r < 0.6:
                doc = rand_doc(rng, "pickle", rng.choice([None, "ab-cd"])) if codec == "tiny" or rng.random() < 0.15 else _small_doc(rng)
                items.append(["pub", rng.randrange(len(prefixes)), rng.choice(ALL_NAMES), doc])
            elif r < 0.68:
                items.append(["pub", rng.randrange(len(prefixes)), rng.choice(["nosuch", "a b", "", "évén", "start "]), rand_doc(rng, "pickle")])
            else:
                items.append(["raw", _hex(_rand_junk(rng, prefixes, codec))])
        qs = list(prefixes) + [b"", _rand_prefix(rng)]
        disps = [{"prefix": _hex(rng.choice(qs)), "strict": rng.random() < 0.4} for _ in range(rng.randint(1, 4))]
        out.append({"kind": "stream", "ser": codec, "pubs": [_hex(p) for p in prefixes], "items": items, "disps": disps})
    return out


# ------------------------------------------------------------------------------ implementation

def _quiet():
    import contextlib
    import io
    return contextlib.redirect_stdout(io.StringIO())


class _Tiny:
    """A user-supplied serializer/deserializer pair (the classes take them as arguments): a few
    bytes per document, containing spaces and non-UTF-8 bytes; documents are kept in a registry."""

    def __init__(self):
        self.docs = []

    def dumps(self, doc):
        import copy
        c = canon(doc)
        for i, (cc, _) in enumerate(self.docs):
            if cc == c:
                break
        else:
            self.docs.append((c, copy.deepcopy(doc)))
            i = len(self.docs) - 1
        return b"\xfe " + str(i).encode() + b" "

    def loads(self, b):
        import copy
        b = bytes(b)
        if not (b.startswith(b"\xfe ") and b.endswith(b" ") and len(b) >= 4):
            raise ValueError("not a tiny payload")
        return copy.deepcopy(self.docs[int(b[2:-1].decode("ascii"))][1])


class _Recorder:
    """wraps a (de)serialiser without changing what it returns or raises"""

    def __init__(self, f):
        self.f = f
        self.outputs = []
        self.failed_last = False

    def __call__(self, x):
        self.failed_last = False
        try:
            r = self.f(x)
        except BaseException:
            self.failed_last = True
            raise
        self.outputs.append(r)
        return r


def _run_dispatcher(hub, prefix, strict, loads=pickle.loads):
    from bluesky.callbacks.zmq import Bluesky0MQDecodeError, RemoteDispatcher

    from harness.drivers.fakezmq import Drained, FakeZmq
    got = []
    deser = _Recorder(loads)
    za = FakeZmq(hub, True)
    d = RemoteDispatcher(("fake", 5578), prefix=prefix, zmq=FakeZmq(hub), zmq_asyncio=za, deserializer=deser, strict=strict)
    d.subscribe(lambda name, doc: got.append((name, doc)))
    status, cause = None, None
    try:
        with _quiet():
            d.start()
        status = "returned"
    except Drained:
        status = "running"
    except Bluesky0MQDecodeError as e:
        status = "decode_error"
        c = e.__cause__
        if deser.failed_last:
            cause = "deser"
        elif isinstance(c, UnicodeDecodeError):
            cause = "name"
        elif isinstance(c, KeyError):
            cause = "unknown"
        elif isinstance(c, ValueError):
            cause = "split"
        else:
            cause = "other:" + type(c).__name__
    except Exception as e:
        status = "exc:" + type(e).__name__
    taken = sum(s.received for s in za.sockets)
    return got, status, cause, taken, d.closed


def impl(case):
    from bluesky.callbacks.zmq import Publisher, RemoteDispatcher
    from bluesky.run_engine import DocumentNames

    from harness.drivers.fakezmq import FakeZmq, Hub
    kind = case["kind"]
    if kind == "names":
        return {"names": [m.name for m in DocumentNames]}
    if kind == "ctor":
        hub = Hub()
        p = case["prefix_str"] if "prefix_str" in case else bytes.fromhex(case["prefix"])
        res = {}
        try:
            Publisher(("fake", 1), prefix=p, zmq=FakeZmq(hub)).close()
            res["publisher"] = "ok"
        except ValueError:
            res["publisher"] = "ValueError"
        try:
            d = RemoteDispatcher(("fake", 1), prefix=p, zmq=FakeZmq(hub), zmq_asyncio=FakeZmq(hub, True))
            d.loop.close()
            res["dispatcher"] = "ok"
        except ValueError:
            res["dispatcher"] = "ValueError"
        return res
    if kind == "utf8":
        q = bytes.fromhex(case["prefix"])
        sts = []
        for nh in case["names"]:
            hub = Hub()
            hub.publish(q + b" " + bytes.fromhex(nh) + b" " + GOOD)
            got, status, cause, taken, closed = _run_dispatcher(hub, q, True)
            sts.append(status if cause is None else cause)
            if got:
                sts[-1] = "delivered"
        return {"statuses": sts}
    # stream
    hub = Hub()
    tiny = _Tiny()
    dumps, loads = (pickle.dumps, pickle.loads) if case.get("ser", "pickle") == "pickle" else (tiny.dumps, tiny.loads)
    ser = _Recorder(dumps)
    pubs = [Publisher("fake:%d" % (5577 + i), prefix=bytes.fromhex(p), zmq=FakeZmq(hub), serializer=ser)
            for i, p in enumerate(case["pubs"])]
    docs = []          # canonical forms -> id = index
    def doc_id(v):
        c = canon(v)
        if c not in docs:
            docs.append(c)
        return docs.index(c)
    sent = []
    for it in case["items"]:
        if it[0] == "pub":
            doc = build(it[3])
            before = canon(doc)
            n0 = len(ser.outputs)
            pubs[it[1]](it[2], doc)
            sent.append({"payload": _hex(ser.outputs[n0]) if len(ser.outputs) > n0 else None,
                         "frame": _hex(hub.log[-1]), "doc": doc_id(doc), "mutated": canon(doc) != before,
                         "roundtrip": doc_id(loads(ser.outputs[n0])) if len(ser.outputs) > n0 else None})
        else:
            hub.publish(bytes.fromhex(it[1]))
            sent.append(None)
    # the deserialiser as a finite table on the payloads present (third field after two spaces)
    tab = []
    for fr in hub.log:
        parts = fr.split(b" ", 2)
        if len(parts) == 3 and _hex(parts[2]) not in [t[0] for t in tab]:
            try:
                v = loads(parts[2])
            except Exception:
                continue
            tab.append([_hex(parts[2]), doc_id(v)])
    res = []
    for dsp in case["disps"]:
        got, status, cause, taken, closed = _run_dispatcher(hub, bytes.fromhex(dsp["prefix"]), dsp["strict"], loads)
        res.append({"deliveries": [[n, doc_id(v)] for n, v in got], "status": status, "cause": cause, "taken": taken,
                    "closed": closed})
    for p in pubs:
        p.close()
    return {"frames": [_hex(f) for f in hub.log], "sent": sent, "tab": tab, "disps": res}


# ------------------------------------------------------------------------------ Coq side

CAUSES = {"split": "CSplit", "name": "CName", "deser": "CDeser", "unknown": "CUnknown"}


def _hb(h):
    return coq_bytes(bytes.fromhex(h))


def _status(status, cause):
    if status == "running":
        return "Running"
    if status == "decode_error" and cause in CAUSES:
        return "Raised " + CAUSES[cause]
    return None


def coq_term(case, obs):
    t = _coq_term(case, obs)
    return None if t is None else "(%s)%%N" % t


def _coq_term(case, obs):
    kind = case["kind"]
    if kind == "names":
        return "names_beq " + coq_list(obs["names"], lambda n: coq_bytes(n.encode()))
    if kind == "ctor":
        if "prefix_str" in case:
            return None
        p = _hb(case["prefix"])
        return "Bool.eqb (prefix_ok %s) %s && Bool.eqb (prefix_ok %s) %s" % (
            p, coq_bool(obs["publisher"] == "ok"), p, coq_bool(obs["dispatcher"] == "ok"))
    if kind == "utf8":
        sts = []
        for s in obs["statuses"]:
            if s not in CAUSES:
                return "false"
            sts.append("Raised " + CAUSES[s])
        tab = "[(%s, 0)]" % coq_bytes(GOOD)
        return "statuses_beq (map (name_status %s %s %s) %s) %s" % (
            tab, _hb(case["prefix"]), coq_bytes(GOOD), coq_list(case["names"], _hb), coq_list(sts))
    tab = coq_list(obs["tab"], lambda t: "(%s, %d)" % (_hb(t[0]), t[1]))
    frames = coq_list(obs["frames"], _hb)
    pubs = []
    tabkeys = [t[0] for t in obs["tab"]]
    for fi, (it, s) in enumerate(zip(case["items"], obs["sent"])):
        if it[0] == "pub":
            if s["payload"] is None:
                return "false"
            pl = "(inl %d%%nat)" % tabkeys.index(s["payload"]) if s["payload"] in tabkeys else "(inr %s)" % _hb(s["payload"])
            pubs.append("(%s, %s, %s, %d%%nat)" % (_hb(case["pubs"][it[1]]), coq_bytes(it[2].encode()), pl, fi))
    dl = []
    for dsp, o in zip(case["disps"], obs["disps"]):
        st = _status(o["status"], o["cause"])
        if st is None:
            return "false"
        ds = coq_list(o["deliveries"], lambda nd: "(%s, %d)" % (coq_bytes(nd[0].encode()), nd[1]))
        dl.append("(%s, %s, %s, %s, %d%%nat)" % (coq_bool(dsp["strict"]), _hb(dsp["prefix"]), ds, st, o["taken"]))
    return "pubs_beq %s %s %s && stream_beq %s %s %s" % (tab, frames, coq_list(pubs), tab, frames, coq_list(dl))


# ------------------------------------------------------------------------------ oracle (property on the observation)

def _utf8_ok(b):
    try:
        b.decode("utf-8")
        return True
    except UnicodeDecodeError:
        return False


def _classify(q, fr, tabd):
    """('deliver', name, doc id) | ('skip',) | ('bad', why) for a dispatcher listening to q"""
    parts = fr.split(b" ")
    if len(parts) < 3:
        return ("bad", "split")
    p, n = parts[0], parts[1]
    payload = fr[len(p) + len(n) + 2:]
    if not _utf8_ok(n):
        return ("bad", "name")
    if q and p != q:
        return ("skip",)
    if payload.hex() not in tabd:
        return ("bad", "deser")
    if n.decode() not in ALL_NAMES:
        return ("bad", "unknown")
    return ("deliver", n.decode(), tabd[payload.hex()])


def oracle(case, obs):
    kind = case["kind"]
    if kind == "names":
        return None if obs["names"] == ALL_NAMES else "DocumentNames members changed: %s" % obs["names"]
    if kind == "ctor":
        if "prefix_str" in case:
            want = "ValueError"
        else:
            want = "ValueError" if b" " in bytes.fromhex(case["prefix"]) else "ok"
        if obs["publisher"] != want or obs["dispatcher"] != want:
            return "prefix %r: constructors gave %s, documented %s" % (case.get("prefix", case.get("prefix_str")), obs, want)
        return None
    if kind == "utf8":
        for nh, s in zip(case["names"], obs["statuses"]):
            n = bytes.fromhex(nh)
            if _utf8_ok(n):
                want = "delivered" if n.decode() in ALL_NAMES else "unknown"
            else:
                want = "name"
            if s != want:
                return "strict dispatcher on a frame named %r: %s, expected %s" % (n, s, want)
        return None
    # every published (name, doc) reaches the wire as prefix SP name SP serializer(doc), doc untouched
    tabd = {t[0]: t[1] for t in obs["tab"]}
    frames = [bytes.fromhex(f) for f in obs["frames"]]
    if len(frames) != len(case["items"]):
        return "%d items sent, %d frames on the wire" % (len(case["items"]), len(frames))
    for it, s, fr in zip(case["items"], obs["sent"], frames):
        if it[0] == "pub":
            if s["mutated"]:
                return "Publisher mutated the caller's document"
            if s["payload"] is None or fr != bytes.fromhex(case["pubs"][it[1]]) + b" " + it[2].encode() + b" " + bytes.fromhex(s["payload"]):
                return "frame on the wire is not prefix SP name SP payload"
            if s["roundtrip"] != s["doc"]:
                return "payload does not deserialise to the published document"
    for dsp, o in zip(case["disps"], obs["disps"]):
        q = bytes.fromhex(dsp["prefix"])
        want, raised = [], None
        for fr in frames:
            c = _classify(q, fr, tabd)
            if c[0] == "deliver":
                want.append([c[1], c[2]])
            elif c[0] == "bad" and dsp["strict"]:
                raised = c[1]
                break
        who = "dispatcher(prefix=%r, strict=%s)" % (q, dsp["strict"])
        if o["deliveries"] != want:
            return "%s delivered %s, the stream holds %s for it" % (who, o["deliveries"], want)
        if raised is None and o["status"] != "running":
            return "%s stopped with %s/%s although %s" % (
                who, o["status"], o["cause"], "it is not strict: malformed frames must be dropped" if not dsp["strict"] else "no frame was malformed")
        if raised is not None and o["status"] != "decode_error":
            return "%s: strict mode must raise Bluesky0MQDecodeError on a malformed frame (%s), got %s" % (who, raised, o["status"])
    return None


def finding(case, obs):
    return None


def nontrivial(case, obs):
    if case["kind"] != "stream":
        return case["kind"] == "utf8"
    deliv = any(o["deliveries"] for o in obs["disps"])
    dropped = any(len(o["deliveries"]) < len(obs["frames"]) for o in obs["disps"])
    return deliv and dropped


def describe(case):
    k = case["kind"]
    if k != "stream":
        return k
    nj = sum(1 for it in case["items"] if it[0] == "raw")
    return "stream %s items=%d junk=%d disps=%d" % (case.get("ser", "pickle"), len(case["items"]) // 3 * 3, nj, len(case["disps"]))
