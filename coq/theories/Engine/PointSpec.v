(* C03: the reference semantics of an open-loop, checkpointed plan (what the recorded documents of such a plan
   ARE, independently of how the RunEngine was scheduled or interrupted) and the decidable side conditions of the
   data-equivalence theorems of Proofs/RE_Points*.v.

   - a plan of the class is a coalgebra state that yields a fixed message list whatever it is sent ([follows]);
   - the message list is interpreted by [astep]/[arun] on an abstract bundler [ab]: open_run / close_run /
     checkpoint / stage / unstage ("head" messages: the engine's message cache is empty after them) and
     null / sleep / wait / set / trigger / create / read / save / drop ("body" messages: cached, hence re-issued
     after an interruption).  [arun] fails (None) on plans whose UNINTERRUPTED execution would raise
     (IllegalMessageSequence, a device read twice in a bundle, descriptor mismatch, ...), so "arun succeeds" is
     the well-formedness hypothesis;
   - device answers: a reading is a function [rdm] of the `read` message that asked for it ([reads_ok], checked
     on the trace: this is checkpoint-local determinism seen at the engine boundary -- the message arguments and
     the device positions they produce are not part of Engine/RE.v, the message identity is);
   - schedules: [sched_ok], every event is one the real system can produce in the state it is delivered in.
   No proofs in this file. *)
From Coq Require Import List ZArith Bool Arith.
From BV Require Import Engine.RE.
Import ListNotations.
Local Open Scope nat_scope.

(* ------------------------------------------------------------------ abstract bundler *)
Record ab := {
  ab_uid : nat;
  ab_bund : option (nat * list nat * list (nat * Z));     (* open bundle: stream name, objects read, readings *)
  ab_seq : list (nat * nat);                              (* stream -> next seq_num, in order of first save *)
  ab_descs : list (nat * list nat) }.                     (* stream -> objects of its descriptor, same order *)

Record abs := {
  a_next : nat;               (* uid of the next run *)
  a_fresh : bool;             (* nothing to replay: no body message since the last checkpoint / close_run / start *)
  a_run : option ab }.

Definition a_init : abs := {| a_next := 0; a_fresh := true; a_run := None |}.

Definition ab_set_bund (r : ab) (x : option (nat * list nat * list (nat * Z))) : ab :=
  {| ab_uid := ab_uid r; ab_bund := x; ab_seq := ab_seq r; ab_descs := ab_descs r |}.
Definition with_run (a : abs) (r : ab) : abs := {| a_next := a_next a; a_fresh := false; a_run := Some r |}.
Definition stale (a : abs) : abs := {| a_next := a_next a; a_fresh := false; a_run := a_run a |}.
Definition freshen (a : abs) : abs := {| a_next := a_next a; a_fresh := true; a_run := a_run a |}.

Definition is_head (c : cmd) : bool :=
  match c with COpenRun | CCloseRun _ _ | CCheckpoint | CStage | CUnstage => true | _ => false end.
(* head messages that leave the message cache alone: allowed only when it is empty *)
Definition needs_fresh (c : cmd) : bool := match c with COpenRun | CStage | CUnstage => true | _ => false end.
Definition is_body (c : cmd) : bool :=
  match c with
  | CNull | CSleep | CWait _ | CSet _ | CTrigger _ | CCreate _ | CRead | CSave | CDrop => true
  | _ => false
  end.
Definition bodym (m : msg) : bool := is_body (mcmd m).

Definition ab_num_events (r : ab) : list (nat * nat) := map (fun kv => (fst kv, snd kv - 1)) (ab_seq r).

Definition doc_events (l : list doc) : list (nat * nat * nat * list (nat * Z)) :=
  flat_map (fun d => match d with DEvent r n sq dt => [(r, n, sq, dt)] | _ => [] end) l.
Definition doc_stops (l : list doc) : list doc :=
  flat_map (fun d => match d with DStop r st_ rs num => [DStop r st_ rs num] | _ => [] end) l.
(* the documents that open and close runs, in order *)
Definition doc_rundocs (l : list doc) : list doc :=
  flat_map (fun d => match d with DStart r => [DStart r] | DStop r st_ rs num => [DStop r st_ rs num] | _ => [] end) l.
Definition obs_docs (o : list obs) : list doc :=
  flat_map (fun x => match x with ODoc d => [d] | _ => [] end) o.
(* the same two projections as Props/C03.v *)
Definition final_events (o : list obs) : list (nat * nat * nat * list (nat * Z)) :=
  flat_map (fun x => match x with ODoc (DEvent r n sq dt) => [(r, n, sq, dt)] | _ => [] end) o.
Definition stops (o : list obs) : list doc :=
  flat_map (fun x => match x with ODoc (DStop r st_ rs num) => [DStop r st_ rs num] | _ => [] end) o.
Definition rundocs (o : list obs) : list doc :=
  flat_map (fun x => match x with ODoc (DStart r) => [DStart r] | ODoc (DStop r st_ rs num) => [DStop r st_ rs num] | _ => [] end) o.
Definition no_raise (o : list obs) : bool :=
  forallb (fun x => match x with
                    | OOut (OutRaise _) _ _ _ => false
                    | OResp (RExn _) => false
                    | OTask (WRaise e) => match e with ECancelled => true | _ => false end
                    | OPlanIn _ (Throw _) => false
                    | OBad 1 | OBad 2 => false
                    | _ => true
                    end) o.
Definition outs (o : list obs) : list out_t :=
  flat_map (fun x => match x with OOut r _ _ _ => [r] | _ => [] end) o.

Section Spec.
Variable rk : nat.              (* the run key used by the plan *)
Variable rdm : msg -> Z.        (* the reading a `read` message produces *)

Definition astep (a : abs) (m : msg) : option (abs * list doc) :=
  if negb (Nat.eqb (mrun m) rk) then None else
  match mcmd m with
  | CNull | CSleep | CWait _ => Some (stale a, [])
  | CSet _ | CTrigger _ => match mobj m with Some _ => Some (stale a, []) | None => None end
  | CCheckpoint =>
      match a_run a with
      | None => Some (freshen a, [])
      | Some r => match ab_bund r with Some _ => None | None => Some (freshen a, []) end
      end
  | COpenRun =>
      match a_run a with
      | Some _ => None
      | None =>
          if a_fresh a
          then Some ({| a_next := S (a_next a); a_fresh := true;
                        a_run := Some {| ab_uid := a_next a; ab_bund := None; ab_seq := []; ab_descs := [] |} |},
                     [DStart (a_next a)])
          else None
      end
  | CCloseRun es rs =>
      match a_run a with
      | None => None
      | Some r =>
          match ab_bund r with
          | Some _ => None
          | None => Some ({| a_next := a_next a; a_fresh := true; a_run := None |},
                          [DStop (ab_uid r) (match es with Some x => x | None => XSuccess end) rs (ab_num_events r)])
          end
      end
  | CStage | CUnstage => if a_fresh a then Some (a, []) else None
  | CCreate name =>
      match a_run a with
      | None => None
      | Some r =>
          match ab_bund r with
          | Some _ => None
          | None => if Nat.eqb name INTR then None else Some (with_run a (ab_set_bund r (Some (name, [], []))), [])
          end
      end
  | CRead =>
      match mobj m with
      | None => None
      | Some d =>
          match a_run a with
          | None => Some (stale a, [])
          | Some r =>
              match ab_bund r with
              | None => Some (stale a, [])
              | Some (n, objs, rds) =>
                  if mem_nat d objs then None
                  else Some (with_run a (ab_set_bund r (Some (n, objs ++ [d], rds ++ [(d, rdm m)]))), [])
              end
          end
      end
  | CDrop =>
      match a_run a with
      | None => None
      | Some r => match ab_bund r with
                  | None => None
                  | Some _ => Some (with_run a (ab_set_bund r None), [])
                  end
      end
  | CSave =>
      match a_run a with
      | None => None
      | Some r =>
          match ab_bund r with
          | None => None
          | Some (name, objs, rds) =>
              match objs with
              | [] => Some (with_run a (ab_set_bund r None), [])
              | _ :: _ =>
                  match alookup name (ab_descs r) with
                  | Some objs0 =>
                      if negb (list_eq_sorted objs0 objs) then None
                      else
                        let n := match alookup name (ab_seq r) with Some n => n | None => 1 end in
                        Some (with_run a {| ab_uid := ab_uid r; ab_bund := None;
                                            ab_seq := aset name (S n) (ab_seq r); ab_descs := ab_descs r |},
                              [DEvent (ab_uid r) name n rds])
                  | None =>
                      Some (with_run a {| ab_uid := ab_uid r; ab_bund := None;
                                          ab_seq := ab_seq r ++ [(name, 2)]; ab_descs := ab_descs r ++ [(name, objs)] |},
                            [DDescr (ab_uid r) name objs; DEvent (ab_uid r) name 1 rds])
                  end
              end
          end
      end
  | _ => None
  end.

Fixpoint arun (a : abs) (l : list msg) : option (abs * list doc) :=
  match l with
  | [] => Some (a, [])
  | m :: l' =>
      match astep a m with
      | None => None
      | Some (a1, d1) =>
          match arun a1 l' with
          | None => None
          | Some (a2, d2) => Some (a2, d1 ++ d2)
          end
      end
  end.

(* the documents a well-formed plan records *)
Definition spec_docs (l : list msg) : option (list doc) :=
  match arun a_init l with
  | Some (a, d) => match a_run a with None => Some d | Some _ => None end
  | None => None
  end.

(* the body messages at the front of a list *)
Fixpoint bodypre (l : list msg) : list msg :=
  match l with
  | [] => []
  | m :: l' => if bodym m then m :: bodypre l' else []
  end.

(* every reading in the trace is the one its `read` message determines *)
Fixpoint reads_ok (cur : option msg) (o : list obs) : bool :=
  match o with
  | [] => true
  | OMsg m :: o' => reads_ok (Some m) o'
  | OResp (RVal (VReading d z)) :: o' =>
      match cur with Some m => Z.eqb z (rdm m) | None => false end && reads_ok cur o'
  | _ :: o' => reads_ok cur o'
  end.
Fixpoint last_msg (cur : option msg) (o : list obs) : option msg :=
  match o with
  | [] => cur
  | OMsg m :: o' => last_msg (Some m) o'
  | _ :: o' => last_msg cur o'
  end.
End Spec.

(* ------------------------------------------------------------------ plans, devices, schedules *)
Section Class.
Variable P : Type.
Variable presume : P -> input -> outcome P.
Variable plan_of : nat -> P.
Variable D : Type.
Variable dev : D -> nat -> devmeth -> D * devres.

(* open-loop plan: yields exactly the messages of [l], whatever it is sent, then returns [rv] *)
Fixpoint follows (rv : val) (l : list msg) (p : P) : Prop :=
  match l with
  | [] => forall v, presume p (Send v) = Returned rv
  | m :: l' => forall v, exists p', presume p (Send v) = Yielded m p' /\ follows rv l' p'
  end.

(* devices that do not fail: set/trigger give a status object, read gives a value, the pause()/resume() hooks and
   stage()/unstage() do not raise (stop() may: the engine swallows it) *)
Definition dev_typed : Prop :=
  forall d x,
    (exists d' sid ok, dev d x MSet = (d', DStatus sid ok)) /\
    (exists d' sid ok, dev d x MTrigger = (d', DStatus sid ok)) /\
    (exists d' z, dev d x MRead = (d', DVal z)) /\
    (forall e, snd (dev d x MPause) <> DRaise e) /\
    (forall e, snd (dev d x MResume) <> DRaise e) /\
    (forall e, snd (dev d x MStage) <> DRaise e) /\
    (forall e, snd (dev d x MUnstage) <> DRaise e).

(* an event the real system can deliver in state [s]: the task runs only when it is enabled, the run permit
   is released only by __call__ / resume(), resume() is called on a paused engine, only __call__ and resume()
   return to the caller; requests: pause (hard or deferred to the next checkpoint) and suspension (no pre/post plans),
   released at any time -- also while an earlier suspension keeps rewinding switched off (there a pause or a second
   suspension lets the held plan go on early, which is the subject of C11; the recorded data does not change) *)
Definition ev_ok (s : st P D) (e : event) : bool :=
  match e with
  | EvTask => match pc P D s with PcPermit0 => permit P D s | _ => true end
  | EvPermit => negb (rstate_eqb (state P D s) Paused && interrupted P D s)
  | EvMain AResume => rstate_eqb (state P D s) Paused
  | EvReqPause _ | EvReqSuspend _ false false
  | EvMainDone (ACall _) | EvMainDone AResume | EvRelease _ | EvStatus _ true | EvCacheDone => true
  | _ => false
  end.
Fixpoint sched_ok (s : st P D) (evs : list event) : bool :=
  match evs with
  | [] => true
  | e :: evs' => ev_ok s e && sched_ok (fst (step P presume plan_of D dev s e)) evs'
  end.

Definition finished (s : st P D) : bool := match pc P D s with PcDone _ => true | _ => false end.
End Class.

(* ------------------------------------------------------------------ a device instance of the class: a recorded ledger
   of device results, read through the type of the method that is called (a recorded run calls each entry with the
   method that produced it, so on recorded schedules this is the ledger itself; off the recorded path the
   devices still "do not fail") *)
Definition ty_dev (ledger : list devres) (pos : nat) (d : nat) (m : devmeth) : nat * devres :=
  (S pos,
   let r := match nth_error ledger pos with Some r => r | None => DUnit end in
   match m with
   | MSet | MTrigger => match r with DStatus _ _ => r | _ => DStatus 0 true end
   | MRead => match r with DVal _ => r | _ => DVal 0%Z end
   | MPause | MResume | MStage | MUnstage => match r with DRaise _ => DUnit | _ => r end
   | _ => r
   end).
