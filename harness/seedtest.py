"""Apply a seeded defect to /repo, run the property's check, undo.  Usage: python -m harness.seedtest <seed dir> [tier]
A seed dir holds patch.diff, demo.py, meta.json ({"property": "Cxx", ...})."""
import json
import os
import subprocess
import sys
import time


def main():
    d = sys.argv[1].rstrip("/")
    tier = sys.argv[2] if len(sys.argv) > 2 else "quick"
    meta = json.load(open(os.path.join(d, "meta.json")))
    pid = meta["property"]
    patch = os.path.abspath(os.path.join(d, "patch.diff"))
    if subprocess.run(["git", "-C", "/repo", "status", "--porcelain", "--untracked-files=no"], capture_output=True, text=True).stdout.strip():
        print("REPO DIRTY, refusing"); sys.exit(2)
    r = subprocess.run(["git", "-C", "/repo", "apply", patch], capture_output=True, text=True)
    if r.returncode != 0:
        print("PATCH DOES NOT APPLY", r.stderr[:300]); sys.exit(2)
    t0 = time.time()
    try:
        demo = subprocess.run(["/venv/bin/python", os.path.join(d, "demo.py")], capture_output=True, text=True,
                              env=dict(os.environ, PYTHONPATH="/repo/src"), timeout=300)
        chk = subprocess.run(["./check", pid, "--tier", tier], cwd="/verif", capture_output=True, text=True, timeout=3000,
                             env=dict(os.environ, VERIF_EVIDENCE_DIR="/tmp/verif-seed-evidence"))
    finally:
        subprocess.run(["git", "-C", "/repo", "checkout", "--", "."], check=True)
    lines = [l for l in chk.stdout.splitlines() if l.startswith(("VIOLATION", "OK ", "KNOWN-FINDING"))]
    verdict = "CAUGHT" if chk.returncode == 1 and any(l.startswith("VIOLATION") for l in lines) else "MISSED"
    nf = any("no-failing-input-found" in l for l in lines)
    print("%s %s %s demo_exit_patched=%d check_exit=%d%s wall=%.0fs" % (
        verdict, pid, os.path.basename(d), demo.returncode, chk.returncode, " (no-failing-input-found)" if nf else "", time.time() - t0))
    for l in lines[:3]:
        print("   ", l[:200])


if __name__ == "__main__":
    main()
