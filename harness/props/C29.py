"""C29 - adaptive_scan and tune_centroid terminate and stay within their range."""
import math
import os
from fractions import Fraction

ID = "C29"
PROP_FILE = "Props/C29.v"
THEOREMS = ["C29_adaptive_partial", "C29_tune_partial", "C29_b_refuted", "C29_c_refuted", "C29_full_refuted",
            "C29_a_unvalidated_loop_diverges"]
# the Q theorems are closed under the global context; only the binary64 witnesses (_refuted) mention
# Coq's primitive floats / 63-bit integers, which Print Assumptions lists as axioms
ALLOWED_AXIOMS = ["PrimFloat.float", "PrimFloat.add", "PrimFloat.sub", "PrimFloat.mul", "PrimFloat.div", "PrimFloat.abs",
                  "PrimFloat.opp", "PrimFloat.ltb", "PrimFloat.leb", "PrimFloat.eqb", "PrimFloat.of_uint63",
                  "PrimInt63.int", "PrimInt63.sub", "PrimInt63.lsl", "PrimInt63.lor"]
COQ_IMPORTS = ("From Coq Require Import PrimFloat ZArith.\n"
               "From BV Require Import Base.NumOps Pure.Adaptive.")
MODELLED = ("adaptive_core / _tune_core loops of bluesky.plans are modelled over a record of arithmetic operations; "
            "theorems are about the exact-rational (Q) instance, the binary64 (PrimFloat) instance of the same text is "
            "compared bit-exactly with the real plans driven as generators (fake motor/detector answering `read`).  "
            "Trusted/unmodelled: binary64 rounding in the theorems (absorption next_pos+step==next_pos defeats "
            "termination in the code: finding C29-b), the RunEngine, stage/run decorators, bps.mv/trigger_and_read "
            "message plumbing, numpy scalar semantics of np.clip/np.min/np.abs (modelled as compare-and-select).")
RULE = ("adaptive: direction x backstep x threshold class x 9 response shapes enumerated on fixed parameter tuples, then "
        "seeded random parameters/responses (index tables and position-dependent shapes recorded from a pre-run), "
        "invalid-argument stream, large-magnitude probes (1e15..1e17) with an iteration cap >= the Q bound; "
        "tune_centroid: num in {-1,0,1,2..12} x snake x shapes, echo and table read-backs; non-trivial = >= 3 positions")

INF = float("inf")


# ------------------------------------------------------------------------------------ floats
def H(x):
    return float(x).hex()


def U(h):
    return float.fromhex(h)


def cf(h):
    """hex string -> Coq PrimFloat term (bit-exact)"""
    x = U(h)
    if x != x:
        return "nan"
    if x == INF:
        return "infinity"
    if x == -INF:
        return "neg_infinity"
    if x == 0:
        return "neg_zero" if math.copysign(1.0, x) < 0 else "PrimFloat.zero"
    return "(%s)%%float" % x.hex()


def cl(hs):
    return "[" + "; ".join(cf(h) for h in hs) + "]"


def cb(b):
    return "true" if b else "false"


def table_fun(tab):
    """{"vals": [hex], "default": hex} -> Coq function nat -> float"""
    return "(fun k => nth k %s %s)" % (cl(tab["vals"]), cf(tab["default"]))


def py_table(tab):
    vals = [U(h) for h in tab["vals"]]
    d = U(tab["default"])
    return lambda k, x=None: vals[k] if k < len(vals) else d


def rb_fun(rb):
    if rb["kind"] == "echo":
        return "(fun _ x => x)"
    # table of overrides (null = echo)
    items = "; ".join("None" if h is None else "Some " + cf(h) for h in rb["vals"])
    return "(fun k x => match nth k [%s] None with Some v => v | None => x end)" % items


def py_rb(rb):
    if rb["kind"] == "echo":
        return lambda k, x: x
    vals = rb["vals"]
    return lambda k, x: x if (k >= len(vals) or vals[k] is None) else U(vals[k])


# ------------------------------------------------------------------------------------ Q bounds (mirror of a_bound / t_bound)
def fr(h):
    return Fraction(U(h))


def a_valid(c):
    mn, mx, thr = U(c["min"]), U(c["max"]), U(c["thr"])
    return (0 < mn < mx) and (not c["backstep"] or thr < 1)


def a_bound(c):
    """explicit iteration bound of theorem C29_adaptive_partial (exact rationals); None if not applicable.
    For backstep with threshold >= 1 (refused by the repaired code, class C29-a on the unrepaired one) the figure
    for threshold 0.9 is used in the forward direction: only a generous cap, not a theorem."""
    try:
        if not 0 < U(c["min"]) < U(c["max"]):
            return None
        start, stop, mn, mx = (fr(c[k]) for k in ("start", "stop", "min", "max"))
        thr = Fraction(9, 10) if not U(c["thr"]) < 1 else fr(c["thr"])
    except (OverflowError, ValueError):
        return None
    step0 = (mx - mn) / 2
    m = min(step0, mn)
    if start <= stop:
        t = max(thr, 0) if c["backstep"] else Fraction(0)
        delta = (1 - t) * m
        w = 1 + (mx - m) / delta
        return math.ceil((stop - start) / m * w + (step0 - m) / delta) + 2
    return math.ceil((start - stop) / m) + 2


def t_valid(c):
    return U(c["min"]) > 0 and U(c["factor"]) > 1.0 and c["num"] != 1


def t_bound(c):
    """bound of C29_tune_partial for num >= 2; the same potential argument with |num-1| and one
    point per pass gives the figure used for num <= 0 (outside the theorem, probed only)"""
    try:
        if not t_valid(c):
            return None
        start, stop, mn, sf = (fr(c[k]) for k in ("start", "stop", "min", "factor"))
    except (OverflowError, ValueError):
        return None
    num = c["num"]
    pts = max(num, 1)
    delta = abs(num - 1) * mn * (1 - 1 / sf)
    return math.ceil(pts * (abs(stop - start) / delta) + pts) + 1


# ------------------------------------------------------------------------------------ implementation side
def _run_plan(case, response, readback, cap):
    import warnings
    import numpy as np
    import bluesky.plans as bp
    from harness.drivers.scan_driver import FakeDev, drive_scan
    det, motor = FakeDev("det"), FakeDev("motor")
    with warnings.catch_warnings(), np.errstate(all="ignore"):
        warnings.simplefilter("ignore")
        try:
            if case["plan"] == "adaptive":
                plan = bp.adaptive_scan([det], "det", motor, U(case["start"]), U(case["stop"]), U(case["min"]),
                                        U(case["max"]), U(case["target"]), case["backstep"], U(case["thr"]))
            else:
                plan = bp.tune_centroid([det], "det", motor, U(case["start"]), U(case["stop"]), U(case["min"]),
                                        case["num"], U(case["factor"]), case["snake"])
        except Exception as e:  # noqa: BLE001
            return [], type(e).__name__, 0
        return drive_scan(plan, det, motor, response, readback, cap)


def impl(case):
    positions, outcome, nreads = _run_plan(case, py_table(case["resp"]),
                                           py_rb(case.get("rb", {"kind": "echo"})), case["cap"])
    return {"positions": [H(x) for x in positions], "outcome": outcome, "nreads": nreads}


# ------------------------------------------------------------------------------------ model side
TWO48 = 2.0 ** 48
TWO40 = 2.0 ** 40


def _pymin(a, b):
    return b if b < a else a


def _pymax(a, b):
    return b if a < b else a


def _maxabs(a, b):
    return _pymax(abs(a), abs(b))


def _a_huge(c):
    """mirror of Pure/Adaptive.v a_huge (same binary64 operations in the same order)"""
    start, stop, mn, mx, thr = (U(c[k]) for k in ("start", "stop", "min", "max", "thr"))
    m = _pymin((mx - mn) / 2.0, mn)
    t = _pymax(thr, 0.0) if c["backstep"] else 0.0
    delta = (1.0 - t) * m
    import numpy as np
    with np.errstate(all="ignore"):
        q = float(np.float64(m * delta) / np.float64(mx))      # IEEE division (no ZeroDivisionError)
    return 0.0 < q and TWO48 * q <= _maxabs(start, stop)


def _t_huge(c):
    start, stop, mn, sf = (U(c[k]) for k in ("start", "stop", "min", "factor"))
    import numpy as np
    with np.errstate(all="ignore"):
        delta = (float(abs(c["num"] - 1)) * mn) * (1.0 - float(np.float64(1.0) / np.float64(sf)))
    q = _pymin(mn, delta)
    return 0.0 < q and TWO48 * q <= _maxabs(start, stop)


def _class_b(case, obs):
    if obs["outcome"] != "cap":
        return False
    return _a_huge(case) if case["plan"] == "adaptive" else _t_huge(case)


def _class_c(case, obs):
    if case["plan"] != "tune" or obs["outcome"] != "returned" or len(obs["positions"]) <= obs["nreads"]:
        return False
    x = U(obs["positions"][-1])
    lo, hi = _pymin(U(case["start"]), U(case["stop"])), _pymax(U(case["start"]), U(case["stop"]))
    tol = _maxabs(lo, hi) / TWO40
    return (x < lo and lo - x <= tol) or (hi < x and x - hi <= tol)


def coq_term(case, obs):
    if case["plan"] == "adaptive":
        params = "(mkA %s %s %s %s %s %s %s)" % (cf(case["start"]), cf(case["stop"]), cf(case["min"]), cf(case["max"]),
                                                cf(case["target"]), cf(case["thr"]), cb(case["backstep"]))
        run = "adaptive_scan Fops p %s %d" % (table_fun(case["resp"]), case["cap"])
        if obs["outcome"] == "ValueError":
            exp = "AValueError"
        elif obs["outcome"] in ("returned", "cap"):
            exp = "ARan %s %s" % (cl(obs["positions"]), cb(obs["outcome"] == "returned"))
        else:
            return "false"      # an exception class the model does not know
        return "(let p := %s in let r := %s in ares_beq r (%s) && Bool.eqb (finding_C29_b_adaptive Fops p r) %s)" % (
            params, run, exp, cb(_class_b(case, obs)))
    params = "(mkT %s %s %s (%d)%%Z %s %s)" % (cf(case["start"]), cf(case["stop"]), cf(case["min"]), case["num"],
                                              cf(case["factor"]), cb(case["snake"]))
    run = "tune_centroid Fops p %s %s %d" % (table_fun(case["resp"]),
                                            rb_fun(case.get("rb", {"kind": "echo"})), case["cap"])
    code = {"returned": 0, "cap": 1, "ValueError": 2, "ZeroDivisionError": 3}.get(obs["outcome"])
    if code is None:
        return "false"
    return ("(let p := %s in let r := %s in tobs_beq (tune_obs r) (%s, %d) && Bool.eqb (finding_C29_b_tune Fops p r) %s"
            " && Bool.eqb (finding_C29_c Fops p r) %s)") % (
        params, run, cl(obs["positions"]), code, cb(_class_b(case, obs)), cb(_class_c(case, obs)))


# ------------------------------------------------------------------------------------ property, restated on the observation
def _finite(*hs):
    return all(math.isfinite(U(h)) for h in hs)


def oracle(case, obs):
    pos = [U(h) for h in obs["positions"]]
    out = obs["outcome"]
    if case["plan"] == "adaptive":
        if not _finite(case["start"], case["stop"], case["min"], case["max"], case["thr"]):
            return None if out != "cap" else "adaptive_scan still running after %d points" % case["cap"]
        mn, mx = U(case["min"]), U(case["max"])
        if not 0 < mn < mx:
            return None if out == "ValueError" else "min_step/max_step %r/%r accepted (%s)" % (mn, mx, out)
        start, stop = U(case["start"]), U(case["stop"])
        for x in pos:
            ok = (start <= x < stop) if stop >= start else (stop < x <= start)
            if not ok:
                return "adaptive_scan commanded %r outside [start=%r, stop=%r)" % (x, start, stop)
        if out == "cap":
            return "adaptive_scan does not terminate: still running after %d points (%s)" % (
                case["cap"], "last positions %r" % pos[-3:])
        if out == "ValueError":
            # refusing arguments is termination; only the documented-as-free threshold may be refused when
            # it cannot work (backstep with threshold >= 1), everything else valid must run
            if case["backstep"] and not U(case["thr"]) < 1:
                return None
            return "valid arguments rejected with ValueError"
        if out != "returned":
            return "adaptive_scan raised " + out
        return None
    # tune_centroid
    if not _finite(case["start"], case["stop"], case["min"], case["factor"]):
        return None if out != "cap" else "tune_centroid still running after %d points" % case["cap"]
    if not U(case["min"]) > 0 or not U(case["factor"]) > 1.0:
        return None if out == "ValueError" else "min_step/step_factor accepted (%s)" % out
    if case["num"] == 1:
        return None if out in ("ZeroDivisionError", "ValueError") else "num=1 gave " + out
    lo, hi = min(U(case["start"]), U(case["stop"])), max(U(case["start"]), U(case["stop"]))
    n = obs["nreads"]
    for x in pos[:n]:
        if not lo <= x <= hi:
            return "tune_centroid visited %r outside [%r, %r]" % (x, lo, hi)
    if out == "cap":
        return "tune_centroid does not terminate: still running after %d points (last %r)" % (case["cap"], pos[-3:])
    if out != "returned":
        return "tune_centroid raised " + out
    resp = py_table(case["resp"])
    nonneg = all(resp(k) >= 0 for k in range(max(n, len(case["resp"]["vals"])) + 1))
    rbf = py_rb(case.get("rb", {"kind": "echo"}))
    rb_ok = all(lo <= rbf(k, pos[k]) <= hi for k in range(n))
    if nonneg and rb_ok:
        for x in pos[n:]:
            if not lo <= x <= hi:
                return "tune_centroid parked the motor at %r outside [%r, %r] for a non-negative signal" % (x, lo, hi)
    return None


def finding(case, obs):
    # C29-a (repaired by fixes/C29-a.diff): forward scan, backstep, threshold >= 1, still running at the cap
    if (case["plan"] == "adaptive" and obs["outcome"] == "cap" and case["backstep"] and not U(case["thr"]) < 1
            and U(case["stop"]) >= U(case["start"])):
        return "a"
    if _class_b(case, obs):
        return "b"
    if _class_c(case, obs):
        return "c"
    return None


def nontrivial(case, obs):
    return len(obs["positions"]) >= 3


def _mag(c):
    x = abs(U(c["start"]))
    if x != x:
        return "nan"
    try:
        if (_a_huge(c) if c["plan"] == "adaptive" else _t_huge(c)):
            return "mag>=2^48q"
    except Exception:  # noqa: BLE001
        pass
    if x >= 1e6:
        return "mag-big"
    return "mag-norm"


def describe(case):
    if case["plan"] == "adaptive":
        thr = U(case["thr"])
        tc = "nan" if thr != thr else ("<=0" if thr <= 0 else ("<1" if thr < 1 else ">=1"))
        d = "+" if U(case["stop"]) >= U(case["start"]) else "-"
        return "adaptive dir%s bs=%d thr%s %s %s" % (d, case["backstep"], tc, case.get("shape", "?"), _mag(case))
    return "tune num=%s snake=%d rb=%s %s %s" % (
        "<=1" if case["num"] <= 1 else ("2-4" if case["num"] <= 4 else ">4"), case["snake"],
        case.get("rb", {"kind": "echo"})["kind"], case.get("shape", "?"), _mag(case))


# ------------------------------------------------------------------------------------ case generation
SHAPES = ["constant", "zeros", "ramp", "noisy", "step", "peaked", "alternating", "nan", "negative"]


def index_table(rng, shape, n=40):
    if shape == "constant":
        v = [rng.choice([1.0, 0.5, 7.25, 1e6])] * 1
        return {"vals": [H(v[0])], "default": H(v[0])}
    if shape == "zeros":
        return {"vals": [], "default": H(0.0)}
    if shape == "ramp":
        a, b = rng.uniform(0, 5), rng.uniform(0.01, 2)
        return {"vals": [H(a + b * k) for k in range(n)], "default": H(a + b * n)}
    if shape == "noisy":
        return {"vals": [H(abs(rng.gauss(10, 3))) for _ in range(n)], "default": H(10.0)}
    if shape == "step":
        j = rng.randint(1, 12)
        lo, hi = rng.uniform(0, 1), rng.uniform(5, 50)
        return {"vals": [H(lo if k < j else hi) for k in range(n)], "default": H(hi)}
    if shape == "peaked":
        c, s, a = rng.uniform(2, 15), rng.uniform(0.5, 4), rng.uniform(1, 1e4)
        return {"vals": [H(a * math.exp(-((k - c) / s) ** 2 / 2)) for k in range(n)], "default": H(0.0)}
    if shape == "alternating":
        a, b = rng.uniform(0, 1), rng.uniform(1, 100)
        return {"vals": [H(a if k % 2 else b) for k in range(n)], "default": H(a)}
    if shape == "nan":
        vals = [abs(rng.gauss(5, 2)) for _ in range(n)]
        vals[rng.randint(0, 6)] = float("nan")
        return {"vals": [H(x) for x in vals], "default": H(1.0)}
    if shape == "negative":
        return {"vals": [H(rng.gauss(0, 3)) for _ in range(n)], "default": H(-1.0)}
    raise ValueError(shape)


def position_table(rng, case, kind):
    """response as a function of POSITION (what a real detector is): pre-run the plan with it and
    record the readings it produced, so that the case stays a pure table of readings"""
    c, w, a = rng.uniform(-1, 1), rng.uniform(0.05, 1.5), rng.uniform(1, 1e5)
    lo, hi = sorted([U(case["start"]), U(case["stop"])])
    centre = (lo + hi) / 2 + c * (hi - lo) / 2

    def f(x):
        if kind == "gauss":
            return a * math.exp(-((x - centre) / (w * max(hi - lo, 1e-3) / 4)) ** 2 / 2)
        if kind == "edge":
            return a if x > centre else a / 50
        return a / (1 + ((x - centre) / w) ** 2) + 0.01 * a * math.sin(37 * x)
    seen = []

    def resp(k, x):
        seen.append(f(x))
        return seen[-1]
    _run_plan(case, resp, lambda k, x: x, min(case["cap"], 400))
    return {"vals": [H(v) for v in seen], "default": H(seen[-1] if seen else 0.0)}


def _adaptive(start, stop, mn, mx, target, thr, backstep, resp, shape, cap=None):
    c = {"plan": "adaptive", "start": H(start), "stop": H(stop), "min": H(mn), "max": H(mx), "target": H(target),
         "thr": H(thr), "backstep": bool(backstep), "resp": resp, "shape": shape}
    b = a_bound(c)
    c["cap"] = cap if cap is not None else (b if b is not None else 40)
    return c


def _tune(start, stop, mn, num, factor, snake, resp, shape, rb=None, cap=None):
    c = {"plan": "tune", "start": H(start), "stop": H(stop), "min": H(mn), "num": int(num), "factor": H(factor),
         "snake": bool(snake), "resp": resp, "shape": shape, "rb": rb or {"kind": "echo"}}
    b = t_bound(c)
    c["cap"] = cap if cap is not None else (b if b is not None else 40)
    return c


MAXCAP = 2500


def cases(rng, tier):
    out = []
    quick = tier == "quick"
    # ---- adaptive: enumerated block
    tuples = [(0.0, 5.0, 0.1, 1.0, 0.1), (2.5, -1.0, 0.25, 1.0, 1.0), (-1.0, 1.0, 0.5, 0.75, 0.05), (1.0, 1.0, 0.1, 1.0, 0.1)]
    thrs = [0.8, 0.5, 0.0, -1.0, 0.999, 1.0, 1.5]
    for (start, stop, mn, mx, tg) in tuples:
        for backstep in (True, False):
            for thr in thrs:
                for shape in SHAPES:
                    c = _adaptive(start, stop, mn, mx, tg, thr, backstep, index_table(rng, shape), shape)
                    if c["cap"] <= MAXCAP:
                        out.append(c)
    # ---- adaptive: random
    nrand = 250 if quick else 5000
    k = 0
    while k < nrand:
        start = rng.choice([0.0, rng.uniform(-10, 10), round(rng.uniform(-100, 100), 2)])
        length = rng.choice([rng.uniform(0.1, 8), rng.uniform(0, 1), 3.0])
        stop = start + length * rng.choice([1, 1, -1])
        mn = rng.choice([0.1, 0.05, rng.uniform(0.02, 1.0)])
        mx = mn * (1 + rng.choice([rng.uniform(0.05, 1), rng.uniform(1, 12)]))
        target = rng.choice([0.1, 0.05, 1.0, rng.uniform(0, 2), -0.3, 0.0])
        backstep = rng.random() < 0.65
        thr = rng.choice([0.8, 0.8, rng.uniform(0, 1), rng.uniform(0.9, 1.0), 0.0, -0.5, 1.0, rng.uniform(1, 3)])
        c = _adaptive(start, stop, mn, mx, target, thr, backstep, None, "?")
        if c["cap"] > MAXCAP:
            continue
        if rng.random() < 0.45:
            kind = rng.choice(["gauss", "edge", "lorentz"])
            c["shape"] = "pos-" + kind
            c["resp"] = {"vals": [], "default": H(0.0)}
            c["resp"] = position_table(rng, c, kind)
        else:
            shape = rng.choice(SHAPES)
            c["shape"] = shape
            c["resp"] = index_table(rng, shape, n=rng.choice([10, 40, 120]))
        out.append(c)
        k += 1
    # ---- adaptive: invalid arguments
    for (mn, mx) in [(0.0, 1.0), (-0.1, 1.0), (1.0, 1.0), (1.0, 0.1), (float("nan"), 1.0), (0.1, float("nan"))]:
        out.append(_adaptive(0.0, 5.0, mn, mx, 0.1, 0.8, True, index_table(rng, "constant"), "constant"))
    for thr in [1.0, 1.5, 10.0, float("inf"), float("nan")]:
        for (a, b) in [(0.0, 5.0), (5.0, 0.0)]:
            for bs in (True, False):
                out.append(_adaptive(a, b, 0.1, 1.0, 0.1, thr, bs, index_table(rng, "noisy"), "noisy", cap=60))
    # ---- adaptive: binary64 probes, below ("near": must behave) and inside the C29-b magnitude class
    nprobe = 40 if quick else 1500
    for i in range(nprobe):
        mn = rng.choice([0.25, 1.0, 0.1, rng.uniform(0.01, 2)])
        mx = mn * rng.choice([1.5, 4.0, 10.0])
        thr = rng.choice([0.5, 0.8, 0.95, 0.0])
        bs = rng.random() < 0.5
        m = min((mx - mn) / 2, mn)
        q = m * ((1 - (max(thr, 0.0) if bs else 0.0)) * m) / mx
        e = rng.uniform(30, 47) if i % 2 else rng.uniform(48.5, 66)
        big = rng.choice([1, -1]) * q * 2.0 ** e
        span = rng.choice([4, 16, 64]) * m * rng.uniform(1, 2)
        out.append(_adaptive(big, big + rng.choice([1, -1]) * span, mn, mx, rng.choice([0.1, 1.0]), thr, bs,
                             index_table(rng, rng.choice(["constant", "noisy", "peaked", "step"])), "probe"))
    out = [c for c in out if c["cap"] <= MAXCAP]
    # ---- tune_centroid: enumerated block
    t = []
    for (start, stop, mn) in [(0.0, 5.0, 0.1), (5.0, 0.0, 0.1), (-1.5, -0.5, 0.01), (2.0, 2.0, 0.5)]:
        for num in [-1, 0, 1, 2, 3, 5, 10]:
            for snake in (False, True):
                for shape in SHAPES:
                    if quick and shape in ("alternating", "ramp") and num in (-1, 3):
                        continue
                    t.append(_tune(start, stop, mn, num, rng.choice([3.0, 1.5, 2.0]), snake, index_table(rng, shape), shape))
    nrand = 200 if quick else 4000
    k = 0
    while k < nrand:
        start = rng.choice([0.0, rng.uniform(-10, 10), round(rng.uniform(-50, 50), 1)])
        stop = start + rng.choice([1, 1, -1]) * rng.choice([rng.uniform(0.1, 8), 5.0, 0.0])
        mn = rng.choice([0.1, 0.01, rng.uniform(0.005, 1.0)])
        num = rng.choice([2, 3, 4, 5, 7, 10, 12, rng.randint(2, 12), 0, -2])
        factor = rng.choice([3.0, 2.0, rng.uniform(1.01, 5), 1.25])
        c = _tune(start, stop, mn, num, factor, rng.random() < 0.5, None, "?")
        if c["cap"] > MAXCAP:
            continue
        r = rng.random()
        if r < 0.4:
            kind = rng.choice(["gauss", "edge", "lorentz"])
            c["shape"] = "pos-" + kind
            c["resp"] = {"vals": [], "default": H(0.0)}
            c["resp"] = position_table(rng, c, kind)
        else:
            shape = rng.choice(SHAPES)
            c["shape"] = shape
            c["resp"] = index_table(rng, shape, n=rng.choice([10, 40, 120]))
        if rng.random() < 0.3:
            lo, hi = sorted([U(c["start"]), U(c["stop"])])
            wild = rng.random() < 0.3
            c["rb"] = {"kind": "table", "vals": [
                None if rng.random() < 0.3 else H(rng.uniform(lo - 1, hi + 1) if wild else rng.uniform(lo, hi))
                for _ in range(rng.choice([5, 30]))]}
        t.append(c)
        k += 1
    # invalid arguments
    for (mn, sf, num) in [(0.0, 3.0, 5), (-1.0, 3.0, 5), (0.1, 1.0, 5), (0.1, 0.5, 5), (0.1, 3.0, 1), (0.0, 1.0, 1),
                          (float("nan"), 3.0, 4), (0.1, float("nan"), 4)]:
        t.append(_tune(0.0, 5.0, mn, num, sf, False, index_table(rng, "peaked"), "peaked"))
    # binary64 probes, below and inside the C29-b magnitude class
    for i in range(nprobe):
        mn = rng.choice([0.25, 1.0, 0.1, rng.uniform(0.01, 2)])
        num = rng.choice([2, 3, 5, 9, 12])
        sf = rng.choice([2.0, 3.0, 1.25, 1.5, 1.05])
        q = min(mn, (num - 1) * mn * (1 - 1 / sf))
        e = rng.uniform(30, 47) if i % 2 else rng.uniform(48.5, 66)
        big = rng.choice([1, -1]) * q * 2.0 ** e
        span = rng.choice([4, 16, 64]) * mn * rng.uniform(1, 2)
        t.append(_tune(big, big + rng.choice([1, -1]) * span, mn, num, sf, rng.random() < 0.5,
                       index_table(rng, rng.choice(["constant", "noisy", "peaked", "step"])), "probe"))
    out += [c for c in t if c["cap"] <= MAXCAP]
    return out
