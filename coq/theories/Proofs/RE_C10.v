(* C10, end to end: a pause or suspension request accepted while no checkpoint is in effect ends the call with the
   engine idle and never paused; FailedPause is thrown into the plan stack at the next top of the `_run` loop.
   Over whole schedules of the engine model Engine/RE.v, for all plan coalgebras and device oracles.
   Built on Proofs/RE_Small.v (dstep), Proofs/RE_Inv.v (reachable-state invariant), Proofs/RE_Shape.v. *)
From Coq Require Import List String ZArith Bool Arith Lia.
From BV Require Import Engine.RE Engine.REInst Proofs.RE_Small Proofs.RE_Inv Proofs.RE_Ctl Proofs.RE_Hold Proofs.RE_Shape.
From BV Require Proofs.RE_Exit Proofs.RE_DocsCor Proofs.RE_DocsInv.
Import ListNotations.
(* file-local implicit arguments for the model's functions (the model file itself is untouched) *)
Local Arguments upd {P D}.
Local Arguments set_state_raw {P D}.
Local Arguments set_pc {P D}.
Local Arguments set_must_cancel {P D}.
Local Arguments set_permit {P D}.
Local Arguments set_blocking {P D}.
Local Arguments set_plans {P D}.
Local Arguments set_resps {P D}.
Local Arguments set_cache {P D}.
Local Arguments set_rewindable {P D}.
Local Arguments set_exc_slot {P D}.
Local Arguments set_stashed {P D}.
Local Arguments set_interrupted {P D}.
Local Arguments set_deferred {P D}.
Local Arguments set_exit {P D}.
Local Arguments upd2 {P D}.
Local Arguments set_bundlers {P D}.
Local Arguments set_staged {P D}.
Local Arguments set_moved {P D}.
Local Arguments set_seen {P D}.
Local Arguments set_groups {P D}.
Local Arguments set_statuses {P D}.
Local Arguments set_futs {P D}.
Local Arguments set_uids {P D}.
Local Arguments set_pardon {P D}.
Local Arguments set_dst {P D}.
Local Arguments set_task_set {P D}.
Local Arguments set_ghost {P D}.
Local Arguments interrupt {P D}.
Local Arguments resumable {P D}.
Local Arguments set_state {P D}.
Local Arguments cancel_task {P D}.
Local Arguments map_bundlers {P D}.
Local Arguments record_interruptions {P D}.
Local Arguments reset_checkpoint {P D}.
Local Arguments rewind {P D}.
Local Arguments dcall {P D}.
Local Arguments stop_movables {P D}.
Local Arguments call_pausables {P D}.
Local Arguments get_bundler {P D}.
Local Arguments put_bundler {P D}.
Local Arguments any_bundling {P D}.
Local Arguments add_status {P D}.
Local Arguments request_pause {P D}.
Local Arguments request_pause_in_task {P D}.
Local Arguments finish_read {P D}.
Local Arguments mark_cached {P D}.
Local Arguments exec_cmd {P D}.
Local Arguments set_main {P D}.
Local Arguments set_mreq {P D}.
Local Arguments set_ers {P D}.
Local Arguments push_frame {P D}.
Local Arguments pop_plan {P D}.
Local Arguments replace_top {P D}.
Local Arguments all_resolved {P D}.
Local Arguments all_released {P D}.
Local Arguments close_runs {P D}.
Local Arguments FUEL {P D}.
Local Arguments req_result {P D}.
Local Arguments clear_call {P D}.
Local Arguments state {P D}.
Local Arguments pc {P D}.
Local Arguments must_cancel {P D}.
Local Arguments permit {P D}.
Local Arguments blocking {P D}.
Local Arguments task_set {P D}.
Local Arguments plans {P D}.
Local Arguments resps {P D}.
Local Arguments cache {P D}.
Local Arguments rewindable {P D}.
Local Arguments exc_slot {P D}.
Local Arguments stashed {P D}.
Local Arguments interrupted {P D}.
Local Arguments deferred {P D}.
Local Arguments exit_status {P D}.
Local Arguments reason {P D}.
Local Arguments bundlers {P D}.
Local Arguments staged {P D}.
Local Arguments moved {P D}.
Local Arguments pausables {P D}.
Local Arguments stageables {P D}.
Local Arguments seen {P D}.
Local Arguments groups {P D}.
Local Arguments statuses {P D}.
Local Arguments failed_seen {P D}.
Local Arguments futs {P D}.
Local Arguments uid_supply {P D}.
Local Arguments run_uids {P D}.
Local Arguments record_intr {P D}.
Local Arguments pardon {P D}.
Local Arguments mreq {P D}.
Local Arguments was_paused {P D}.
Local Arguments main_err {P D}.
Local Arguments exit_reason_set {P D}.
Local Arguments icause {P D}.
Local Arguments late_pause {P D}.
Local Arguments intr_err {P D}.
Local Arguments dst {P D}.
Local Arguments start_sub {P}.
Local Arguments helper_after_pre {P}.
Local Arguments helper_after_post {P}.
Local Arguments helper_set {P}.
Local Arguments helper_rewind_next {P}.
Local Arguments helper_resume {P}.
Local Arguments frame_resume {P}.
Local Arguments exec_start_suspender {P} plan_of {D} dev.
Local Arguments close_frames {P} presume {D}.
Local Arguments finalize {P} presume {D} dev.
Local Arguments drive {P} presume plan_of {D} dev.
Local Arguments task_step {P} presume plan_of {D} dev.
Local Arguments step {P} presume plan_of {D} dev.
Local Arguments run {P} presume plan_of {D} dev.
Local Arguments init {P D}.

Ltac simp_st :=
  cbn [state pc must_cancel permit blocking task_set plans resps cache rewindable
       exc_slot stashed interrupted deferred exit_status reason bundlers staged moved
       pausables stageables seen groups statuses failed_seen futs uid_supply run_uids
       record_intr pardon mreq was_paused main_err exit_reason_set icause late_pause
       intr_err dst
       upd upd2 set_ghost set_main set_mreq set_ers interrupt
       set_state_raw set_pc set_must_cancel set_permit set_blocking set_plans set_resps
       set_cache set_rewindable set_exc_slot set_stashed set_interrupted set_deferred set_exit
       set_bundlers set_staged set_moved set_seen set_groups set_statuses set_futs set_uids
       set_pardon set_dst set_task_set map_bundlers put_bundler push_frame pop_plan
       replace_top] in *.

(* the engine does not become paused *)
Definition np (x : obs) : Prop := match x with OState _ Paused => False | _ => True end.
Lemma dq_np x : dq x -> np x. Proof. destruct x; cbn; tauto. Qed.
Lemma rpq_np x : rpq x -> np x. Proof. destruct x; cbn; try tauto. destruct b; tauto. Qed.
Lemma finq_np x : finq x -> np x. Proof. destruct x; cbn; try tauto. destruct b; tauto. Qed.
Lemma po_np po : (po = [] \/ exists pid i', po = [OPlanIn pid i']) -> Forall np po.
Proof. intros [->|(pid & i' & ->)]; repeat constructor. Qed.

Lemma term_not_pausing x : term_state x = true -> rstate_eqb x Pausing = false /\ rstate_eqb x Suspending = false /\ rstate_eqb x Paused = false.
Proof. destruct x; try discriminate; intros _; repeat split; reflexivity. Qed.
Lemma term_no_move x y : term_state x = true -> allowed x y = true -> y = Idle \/ y = Panicked.
Proof. apply allowed_from_terminal. Qed.

(* the first thing a plan is handed, or the first message processed *)
Fixpoint fin (l : list obs) : option obs :=
  match l with
  | [] => None
  | x :: l' => match x with OPlanIn _ _ | OMsg _ => Some x | _ => fin l' end
  end.
Lemma fin_app a b : fin (a ++ b) = match fin a with Some x => Some x | None => fin b end.
Proof. induction a as [|x a IH]; cbn; [reflexivity|]. destruct x; auto. Qed.
Definition quietq (x : obs) : Prop := match x with OPlanIn _ _ | OMsg _ => False | _ => True end.
Lemma fin_quiet l : Forall quietq l -> fin l = None.
Proof. induction 1 as [|x l H _ IH]; cbn; [reflexivity|]. destruct x; cbn in H; try contradiction; exact IH. Qed.
Lemma dq_quietq x : dq x -> quietq x. Proof. destruct x; cbn; tauto. Qed.

(* no impossible-step marker *)
Definition nbo (x : obs) : Prop := match x with OBad _ => False | _ => True end.
Definition nb (l : list obs) : Prop := Forall nbo l.
Lemma nb_app a b : nb (a ++ b) <-> nb a /\ nb b. Proof. apply Forall_app. Qed.

Lemma allowed_running_pausing : allowed Running Pausing = true. Proof. vm_compute. reflexivity. Qed.
Lemma allowed_running_aborting' : allowed Running Aborting = true. Proof. vm_compute. reflexivity. Qed.
Lemma allowed_pausing_aborting' : allowed Pausing Aborting = true. Proof. vm_compute. reflexivity. Qed.
Lemma allowed_aborting_suspending' : allowed Aborting Suspending = false. Proof. vm_compute. reflexivity. Qed.

Section C10.
Variable P : Type.
Variable presume : P -> input -> outcome P.
Variable plan_of : nat -> P.
Variable D : Type.
Variable dev : D -> nat -> devmeth -> D * devres.
Notation st := (st P D).
Local Notation dstep := (RE_Small.dstep P presume plan_of D dev).

(* ------------------------------------------------------------------ once aborting / stopping / halting *)
Lemma request_pause_term (s : st) d s' e o :
  term_state (state s) = true -> request_pause s d = (s', e, o) -> state s' = state s /\ pc s' = pc s.
Proof.
  intros Ht H. unfold request_pause in H.
  assert (Ha : allowed (state s) Pausing = false).
  { destruct (allowed (state s) Pausing) eqn:E; [|reflexivity]. destruct (term_no_move _ _ Ht E); discriminate. }
  rewrite Ha in H. cbn [negb] in H. invc H. auto.
Qed.

Lemma request_pause_in_task_term (s : st) d s' e o :
  term_state (state s) = true -> request_pause_in_task s d = (s', e, o) -> state s' = state s /\ pc s' = pc s.
Proof.
  intros Ht. unfold request_pause_in_task. destruct (request_pause s d) as [[s1 e1] o1] eqn:E.
  apply (request_pause_term _ _ _ _ _ Ht) in E. intros H; invc H. destruct (resumable s); exact E.
Qed.

Lemma exec_cmd_term (s : st) m s' c o :
  term_state (state s) = true -> exec_cmd dev s m = (s', c, o) -> state s' = state s.
Proof.
  intros Ht H. destruct (mcmd m) eqn:Ec;
    try (apply RE_Inv.exec_cmd_same in H; [unfold RE_Inv.same in H; tauto | intros d0 Hd; rewrite Ec in Hd; discriminate Hd]).
  destruct (RE_Inv.exec_cmd_pause _ _ dev _ _ _ _ _ _ Ec H) as (e & o' & Hrp & _).
  apply (request_pause_in_task_term _ _ _ _ _ Ht Hrp).
Qed.

Lemma term_dstep (s : st) c r0 :
  term_state (state s) = true -> dstep s c = r0 ->
  match r0 with
  | inl (s', _, o) => term_state (state s') = true /\ Forall np o
  | inr (s', o) => (term_state (state s') = true \/ exists r, pc s' = PcDone r) /\ Forall np o
  end.
Proof.
  intros Ht H. destruct (term_not_pausing _ Ht) as (N1 & N2 & N3). destruct c; cbn [RE_Small.dstep] in H.
  - (* CTop: neither the FailedPause branch nor the pause branch *)
    rewrite N1, N2 in H. cbn [orb andb] in H. destruct (negb (permit s)); subst r0; [rewrite N1; cbn [negb]|]; split; auto; constructor.
  - repeat (bmh H); subst r0; simp_st; split; auto; repeat constructor.
  - (* CAfterSleep *)
    destruct (resps s) as [|r rest] eqn:Er; [subst r0; split; [exact Ht | repeat constructor]|].
    destruct (plans s) as [|top tl] eqn:Ep; [subst r0; split; [exact Ht | repeat constructor]|].
    pose proof (dstep_aftersleep _ presume plan_of _ dev s r rest top tl Er Ep) as E. cbn [RE_Small.dstep] in E. rewrite Er, Ep in E.
    rewrite E in H. clear E. cbv zeta in H.
    destruct (as_state_fields P D s rest) as (F1 & _).
    destruct (frame_resume presume top (as_input P D (as_state P D s rest) r)) as [ou po] eqn:Ef.
    apply frame_resume_po in Ef.
    destruct (as_post P D (as_state P D s rest) (is_throw (as_input P D (as_state P D s rest) r)) ou po) as [[s' c'] o] eqn:Ea.
    subst r0. unfold as_post in Ea. repeat (bmh Ea); invc Ea; simp_st; rewrite F1; (split; [exact Ht|]);
      apply po_np; destruct Ef as [->|(pid & i' & -> & _)]; eauto.
  - (* CProcess *)
    cbv zeta in H. destruct (process_pre_same P D s m) as (E2 & _). cbv zeta in E2.
    match type of E2 with RE_Inv.same _ _ _ ?x => set (s2 := x) in * end. clearbody s2.
    assert (Ht2 : term_state (state s2) = true) by (unfold RE_Inv.same in E2; destruct E2 as (X & _); rewrite X; exact Ht).
    destruct (match mcmd m with
              | CStartSuspender sid pre post => exec_start_suspender plan_of dev s2 sid pre post
              | _ => exec_cmd dev s2 m
              end) as [[s3 cr] o3] eqn:Ex.
    assert (K : state s3 = state s2 /\ Forall np o3).
    { destruct (mcmd m) eqn:Ec;
        try (split; [eapply exec_cmd_term; eassumption | eapply Forall_imp'; [exact rpq_np | eapply exec_cmd_rpq; exact Ex]]).
      split; [|eapply Forall_imp'; [exact dq_np | eapply exec_start_suspender_dq; exact Ex]].
      destruct (RE_Inv.exec_start_suspender_spec _ _ _ _ _ _ _ _ _ _ _ Ex) as (_ & [E|[f E]]); unfold RE_Inv.same in E; simp_st; tauto. }
    destruct K as [K1 K2]. destruct cr; subst r0; simp_st; rewrite K1; (split; [auto|]); fa; try exact I; try assumption.
    destruct (mcmd m); fa; exact I.
  - subst r0. destruct popped; simp_st; split; auto; constructor.
  - repeat (bmh H); subst r0; simp_st; split; auto; try constructor; congruence.
  - repeat (bmh H); subst r0; simp_st; split; auto; repeat constructor.
  - subst r0. destruct (finalize presume dev s r pending) as [s' o] eqn:Ef. split.
    + right. eapply finalize_pc; exact Ef.
    + eapply Forall_imp'; [exact finq_np | eapply finalize_finq; exact Ef].
Qed.


(* the lifecycle is in a terminal phase, or there is no task any more *)
Definition dead (s : st) : Prop := pc s = PcNone \/ exists r, pc s = PcDone r.
Definition ZT (s : st) : Prop := term_state (state s) = true \/ dead s.

Lemma term_drive fuel (s : st) c os s' o :
  term_state (state s) = true -> Forall np os -> drive presume plan_of dev fuel s c os = (s', o) -> ZT s' /\ Forall np o.
Proof.
  intros Ht Hos H.
  refine (RE_Small.drive_inv P presume plan_of D dev
            (fun s c os => term_state (state s) = true /\ Forall np os)
            (fun s' o => ZT s' /\ Forall np o) _ _ _ fuel s c os s' o (conj Ht Hos) H).
  - intros s0 c0 os0 s1 c1 o1 [A B] Hd. pose proof (term_dstep s0 c0 _ A Hd) as [K1 K2]. split; [exact K1 | apply Forall_app; split; assumption].
  - intros s0 c0 os0 s1 o1 [A B] Hd. pose proof (term_dstep s0 c0 _ A Hd) as [K1 K2]. split; [|apply Forall_app; split; assumption].
    destruct K1 as [K1|K1]; [left; exact K1 | right; right; exact K1].
  - intros s0 c0 os0 [A B]. split; [right; left; reflexivity | apply Forall_app; split; [exact B | repeat constructor]].
Qed.

Lemma set_state_term (s : st) x s1 o1 :
  term_state (state s) = true -> set_state s x = Some (s1, o1) -> x = Idle \/ x = Panicked.
Proof. unfold set_state. intros Ht H. destruct (allowed (state s) x) eqn:E; [|discriminate H]. eapply term_no_move; eassumption. Qed.

Lemma ZT_task (s : st) s' o : ZT s -> task_step presume plan_of dev s = (s', o) -> ZT s' /\ Forall np o.
Proof.
  intros HZ H. rewrite RE_Inv.task_step_tentry in H.
  destruct HZ as [Ht|Hd].
  2:{ unfold RE_Inv.tentry in H. destruct Hd as [Hd|[r Hd]]; rewrite Hd in H; invc H; (split; [right|repeat constructor]);
      [left | right; exists r]; exact Hd. }
  destruct (term_not_pausing _ Ht) as (N1 & N2 & N3).
  destruct (RE_Inv.tentry P presume D dev s) as [[[s1 c1] os1]|[s2 o2]] eqn:Et.
  - (* the loop is entered: in the same lifecycle state *)
    assert (K : term_state (state s1) = true /\ Forall np os1).
    { unfold RE_Inv.tentry in Et. cbv zeta in Et.
      destruct (pc s) as [| | | | |k|r|r] eqn:Epc; try discriminate Et.
      - repeat (bmh Et); invc Et.
        all: match goal with Hx : set_state _ Running = Some _ |- _ => apply set_state_term in Hx; [destruct Hx; discriminate | simp_st; exact Ht] | _ => idtac end.
        simp_st. split; [exact Ht | constructor].
      - repeat (bmh Et); invc Et.
        all: match goal with Hx : set_state _ Running = Some _ |- _ => apply set_state_term in Hx; [destruct Hx; discriminate | simp_st; exact Ht] | _ => idtac end.
        all: simp_st; split; [exact Ht | constructor].
      - repeat (bmh Et); invc Et; simp_st; split; auto; constructor.
      - simp_st. rewrite N3 in Et. repeat (bmh Et); invc Et; simp_st; split; auto; constructor.
      - destruct (must_cancel s); [invc Et; simp_st; split; auto; constructor|].
        destruct k as [| |sids|fs|rn dd z].
        + invc Et; simp_st; split; auto; repeat constructor.
        + destruct (request_pause (set_must_cancel s false) false) as [[sx ex] ox] eqn:Erp. invc Et.
          pose proof (request_pause_rpq _ _ _ _ _ _ _ Erp) as Q. apply request_pause_term in Erp; [|simp_st; exact Ht].
          destruct Erp as [Erp _]. simp_st. rewrite Erp. split; [exact Ht|]. fa; try exact I. eapply Forall_imp'; [exact rpq_np | exact Q].
        + invc Et; simp_st; split; auto. destruct (all_resolved _ _); repeat constructor.
        + invc Et; simp_st; split; auto. destruct (all_released _ _); repeat constructor.
        + destruct (finish_read (mark_cached (set_must_cancel s false) rn dd) rn dd z []) as [[sx cr] ox] eqn:Efr.
          pose proof (finish_read_obs _ _ _ _ _ _ _ _ _ _ Efr) as ->. apply RE_Inv.finish_read_same in Efr.
          pose proof (RE_Inv.mark_cached_same P D (set_must_cancel s false) rn dd) as Em.
          destruct Efr as [Efr _]. destruct Em as [Em _]. unfold RE_Inv.same in *. simp_st.
          destruct Efr as (X1 & _). destruct Em as (Y1 & _). invc Et. split; [congruence | repeat constructor].
      - destruct (must_cancel s); discriminate Et. }
    destruct K as [K1 K2]. eapply term_drive; eassumption.
  - invc H. unfold RE_Inv.tentry in Et. cbv zeta in Et.
    destruct (pc s) as [| | | | |k|r|r] eqn:Epc.
    + invc Et. split; [left; exact Ht | repeat constructor].
    + repeat (bmh Et); invc Et; simp_st; (split; [|repeat constructor]); first [left; exact Ht | right; right; eexists; reflexivity].
    + repeat (bmh Et); invc Et; simp_st; (split; [|repeat constructor]); first [left; exact Ht | right; right; eexists; reflexivity].
    + repeat (bmh Et); discriminate Et.
    + repeat (bmh Et); invc Et; simp_st; (split; [|repeat constructor]); left; exact Ht.
    + destruct (must_cancel s); [discriminate Et|]. destruct k; repeat (bmh Et); discriminate Et.
    + destruct (must_cancel s); invc Et;
        match goal with Ef : finalize presume dev _ _ _ = _ |- _ =>
          (split; [right; right; eapply finalize_pc; exact Ef | eapply Forall_imp'; [exact finq_np | eapply finalize_finq; exact Ef]])
        end.
    + invc Et. split; [left; exact Ht | repeat constructor].
Qed.

(* ------------------------------------------------------------------ events that cannot disturb the task *)
Definition inert (e : event) : bool :=
  match e with EvPermit | EvResumeTask | EvRelease _ | EvCacheDone | EvStatus _ true => true | _ => false end.
Definition cont_ev (e : event) : bool := match e with EvTask => true | _ => inert e end.

Lemma step_inert (s : st) e s' o :
  inert e = true -> step presume plan_of dev s e = (s', o) ->
  o = [] /\ state s' = state s /\ pc s' = pc s /\ must_cancel s' = must_cancel s /\ plans s' = plans s /\ resps s' = resps s /\
  stashed s' = stashed s /\ cache s' = cache s /\ exc_slot s' = exc_slot s /\ (permit s = true -> permit s' = true) /\
  interrupted s' = interrupted s /\ main_err s' = main_err s.
Proof.
  intros Hi H. destruct e as [a|a| | |defer|rs| | |sid pre post|sid|sid ok| |]; try discriminate Hi; cbn [step] in H.
  - invc H. repeat split; auto.
  - invc H. repeat split; auto.
  - destruct ok; [|discriminate Hi]. cbn [negb andb] in H. invc H. repeat split; auto.
  - invc H. repeat split; auto.
  - invc H. split; [reflexivity|].
    destruct (pc s) as [| | | | |k|r|r] eqn:Epc; try destruct k as [| | | |rn dd z]; rewrite <- ?Epc;
      unfold mark_cached; try destruct (get_bundler s rn); simp_st; repeat split; auto.
Qed.


(* ------------------------------------------------------------------ the request *)
Lemma pause_request_spec (s : st) s1 e o :
  state s = Running -> bintr_ok (bundlers s) = true -> (pc s = PcSleep0 \/ exists k, pc s = PcCmd k) ->
  request_pause s false = (s1, e, o) ->
  e = None /\ (exists o1, o = OState Running Pausing :: o1 /\ Forall dq o1) /\
  state s1 = Pausing /\ interrupted s1 = true /\ must_cancel s1 = true /\ cache s1 = cache s /\ plans s1 = plans s /\
  resps s1 = resps s /\ pc s1 = pc s /\ permit s1 = permit s /\ exc_slot s1 = exc_slot s /\ main_err s1 = main_err s.
Proof.
  intros Hs Hb Hpc. unfold request_pause. rewrite Hs, allowed_running_pausing. cbn [negb].
  assert (Hnf : forall r, pc s <> PcFinalSleep r) by (intros r; destruct Hpc as [-> | [k ->]]; discriminate).
  assert (E1 : match pc (interrupt (set_deferred s false) CzPause) with
               | PcFinalSleep _ => set_ghost (interrupt (set_deferred s false) CzPause)
                                     (icause (interrupt (set_deferred s false) CzPause)) true
                                     (intr_err (interrupt (set_deferred s false) CzPause))
               | _ => interrupt (set_deferred s false) CzPause
               end = interrupt (set_deferred s false) CzPause).
  { cbn [pc interrupt set_ghost set_interrupted set_deferred upd]. destruct (pc s) eqn:E; try reflexivity. exfalso; eapply Hnf; reflexivity. }
  rewrite E1. unfold set_state. cbn [state interrupt set_ghost set_interrupted set_deferred upd]. rewrite Hs, allowed_running_pausing.
  unfold record_interruptions. cbn [bundlers set_state_raw interrupt set_ghost set_interrupted set_deferred upd].
  destruct (record_intr_list_ok _ Hb) as (bs & o0 & E & _ & _). rewrite E.
  pose proof (record_intr_list_dq _ _ _ _ E) as Q0.
  intros H; inv H. split; [reflexivity|]. split; [eexists; split; [reflexivity | exact Q0]|].
  unfold cancel_task. cbn [pc set_bundlers upd2 set_state_raw interrupt set_ghost set_interrupted set_deferred upd].
  destruct Hpc as [Hp | [k Hp]]; rewrite Hp; cbn; rewrite ?Hp; repeat split.
Qed.

Lemma suspend_request_spec (s : st) sid pre post s' o :
  state s = Running -> cache s = None -> (pc s = PcSleep0 \/ exists k, pc s = PcCmd k) ->
  step presume plan_of dev s (EvReqSuspend sid pre post) = (s', o) ->
  o = [OState Running Aborting; OReq false] /\ state s' = Aborting /\ exc_slot s' = Some EFailedPause /\
  interrupted s' = true /\ must_cancel s' = true /\ plans s' = plans s /\ resps s' = resps s /\ cache s' = None /\
  pc s' = pc s /\ permit s' = permit s /\ main_err s' = main_err s.
Proof.
  intros Hs Hc Hpc. cbn [step]. unfold resumable. cbn [cache set_futs upd2]. rewrite Hc. cbn [negb].
  unfold set_state. cbn [state set_exc_slot interrupt set_ghost set_interrupted set_futs upd upd2]. rewrite Hs.
  rewrite allowed_running_aborting'. cbn [rstate_eqb sname String.eqb Ascii.eqb Bool.eqb].
  unfold cancel_task. cbn [pc set_state_raw set_exc_slot interrupt set_ghost set_interrupted set_futs upd upd2].
  destruct Hpc as [Hp | [k Hp]]; rewrite Hp; cbn [state set_must_cancel set_state_raw upd]; rewrite allowed_aborting_suspending';
    unfold req_result; intros H; inv H; cbn; destruct (mreq s); cbn; rewrite ?Hp; repeat split; auto.
Qed.

Lemma failed_request (s : st) req s' o :
  (req = EvReqPause false \/ exists sid pre post, req = EvReqSuspend sid pre post) ->
  state s = Running -> cache s = None -> exc_slot s = None -> bintr_ok (bundlers s) = true ->
  (pc s = PcSleep0 \/ exists k, pc s = PcCmd k) ->
  step presume plan_of dev s req = (s', o) ->
  Forall np o /\ fin o = None /\ pc s' = pc s /\ plans s' = plans s /\ resps s' = resps s /\ must_cancel s' = true /\
  cache s' = None /\ permit s' = permit s /\ interrupted s' = true /\ main_err s' = main_err s /\
  ((state s' = Pausing /\ exc_slot s' = None) \/ (state s' = Aborting /\ exc_slot s' = Some EFailedPause)).
Proof.
  intros Hreq Hs Hc He Hb Hpc H.
  destruct Hreq as [->|(sid & pre & post & ->)].
  - cbn [step] in H. destruct (request_pause s false) as [[s1 e] o1] eqn:E1.
    destruct (pause_request_spec _ _ _ _ Hs Hb Hpc E1) as (-> & (o2 & -> & Q) & A1 & A2 & A3 & A4 & A5 & A6 & A7 & A8 & A9 & A10).
    unfold req_result in H. inv H.
    split; [fa; try exact I; eapply Forall_imp'; [exact dq_np | exact Q]|].
    split; [apply fin_quiet; fa; try exact I; eapply Forall_imp'; [exact dq_quietq | exact Q]|].
    destruct (mreq s1); cbn [pc plans resps must_cancel cache permit interrupted main_err state exc_slot set_mreq set_main];
      repeat split; try congruence; left; split; congruence.
  - destruct (suspend_request_spec _ _ _ _ _ _ Hs Hc Hpc H) as (-> & A1 & A2 & A3 & A4 & A5 & A6 & A7 & A8 & A9 & A10).
    split; [repeat constructor|]. split; [reflexivity|]. repeat split; auto.
Qed.


(* ------------------------------------------------------------------ the first step of the task after the request:
   FailedPause is armed at the top of the loop and travels down the plan stack until a running plan is handed it *)
Definition al (s : st) : Prop := List.length (resps s) = List.length (plans s).
Definition stk (p : bool) (s : st) : Prop := if p then S (List.length (resps s)) = List.length (plans s) else al s.
Definition pre_fall (s : st) : Prop :=
  cache s = None /\ permit s = true /\
  ((state s = Pausing /\ exc_slot s = None) \/ (state s = Aborting /\ exc_slot s = Some EFailedPause)).
Definition pausing0 (s : st) : Prop := state s = Pausing /\ cache s = None /\ exc_slot s = None.
Definition fal (s : st) : Prop :=
  state s = Aborting /\ permit s = true /\ stashed s <> None /\
  (exc_slot s = Some EFailedPause \/ (exc_slot s = None /\ stashed s = Some EFailedPause)).
Definition nolive_top (pl : list (frame P)) : Prop := match pl with FUser _ _ true :: _ => False | _ => True end.
Definition toppid (pl : list (frame P)) (pid : nat) : Prop := match pl with FUser pid' _ true :: _ => pid' = pid | _ => True end.

Definition Fall (pl0 : list (frame P)) (s : st) (c : ctl) : Prop :=
  (plans s = pl0 \/ nolive_top pl0) /\
  match c with
  | CCancelled p => pre_fall s /\ stk p s
  | CContinue p _ => (pausing0 s \/ fal s) /\ stk p s
  | CTop => (pausing0 s \/ fal s) /\ al s
  | CBody | CAfterSleep => fal s /\ al s
  | CExit x => x = XExn EFailedPause /\ plans s = [] /\ state s = Aborting
  | _ => False
  end.

Definition thrownFP (pl0 : list (frame P)) (o : list obs) : Prop :=
  exists pid, fin o = Some (OPlanIn pid (Throw EFailedPause)) /\ toppid pl0 pid.

Lemma nolive_toppid pl pid : nolive_top pl -> toppid pl pid.
Proof. destruct pl as [|[pid' p [|]| | |] tl]; cbn; tauto. Qed.

Lemma fall_dstep pl0 (s : st) c r0 :
  Fall pl0 s c -> dstep s c = r0 ->
  match r0 with
  | inl (s', c', o) => nb o -> Forall np o /\ ((fin o = None /\ Fall pl0 s' c') \/ (term_state (state s') = true /\ thrownFP pl0 o))
  | inr (s', o) => Forall np o /\ fin o = None /\ plans s' = [] /\ (exists r, pc s' = PcFinalSleep r) /\ nolive_top pl0 /\ state s' = Aborting
  end.
Proof.
  intros [HP HF] H. destruct c; cbn [RE_Small.dstep] in H; try contradiction.
  - (* CTop *)
    destruct HF as [[(S1 & S2 & S3)|(A1 & A2 & A3 & A4)] Hal].
    + rewrite S1 in H. change (rstate_eqb Pausing Pausing) with true in H. unfold resumable in H. rewrite S2 in H. cbn [orb andb negb] in H.
      unfold set_state in H. simp_st. rewrite S1, allowed_pausing_aborting' in H. subst r0. intros _.
      split; [repeat constructor|]. left. split; [reflexivity|]. split; [exact HP|]. split; [|exact Hal].
      right. unfold fal. simp_st. split; [reflexivity|]. split; [reflexivity|]. split; [discriminate|]. right. split; [exact S3 | reflexivity].
    + rewrite A1 in H. change (rstate_eqb Aborting Pausing) with false in H. change (rstate_eqb Aborting Suspending) with false in H.
      cbn [orb andb] in H. rewrite A2 in H. cbn [negb] in H. subst r0. intros _.
      split; [constructor|]. left. split; [reflexivity|]. split; [exact HP|]. split; [|exact Hal]. repeat split; assumption.
  - (* CBody *)
    destruct HF as [(A1 & A2 & A3 & A4) Hal]. unfold al in Hal. rewrite Hal, Nat.eqb_refl in H. cbn [negb] in H.
    destruct (stashed s) eqn:Est; [|contradiction A3; reflexivity]. subst r0. intros _.
    split; [constructor|]. left. split; [reflexivity|]. split; [exact HP|]. split; [|exact Hal]. unfold fal. rewrite Est. repeat split; auto.
  - (* CAfterSleep *)
    destruct HF as [(A1 & A2 & A3 & A4) Hal].
    destruct (resps s) as [|r rest] eqn:Er; [subst r0; intros Hb; exfalso; inv Hb; contradiction|].
    destruct (plans s) as [|top tl] eqn:Ep; [subst r0; intros Hb; exfalso; inv Hb; contradiction|].
    pose proof (dstep_aftersleep _ presume plan_of _ dev s r rest top tl Er Ep) as E. cbn [RE_Small.dstep] in E. rewrite Er, Ep in E.
    rewrite E in H. clear E. cbv zeta in H.
    destruct (as_state_fields P D s rest) as (F1 & F2 & F3 & F4 & F5 & F6 & F7 & F8 & F9 & F10).
    set (s2 := as_state P D s rest) in *. clearbody s2.
    assert (Hst : stashed s2 = Some EFailedPause).
    { rewrite F9. destruct A4 as [->|[-> B]]; [reflexivity | exact B]. }
    assert (Hin : as_input P D s2 r = Throw EFailedPause) by (unfold as_input; rewrite Hst; reflexivity).
    rewrite Hin in H. cbn [is_throw] in H.
    destruct (frame_resume presume top (Throw EFailedPause)) as [ou po] eqn:Ef.
    assert (Hlive : forall pid p, top = FUser pid p true -> po = [OPlanIn pid (Throw EFailedPause)]).
    { intros pid p ->. cbn [frame_resume] in Ef. destruct (presume p (Throw EFailedPause)); inv Ef; reflexivity. }
    destruct (frame_resume_throw _ presume _ _ _ _ Ef) as [[-> ->]|[[pid ->]|(pid & -> & -> & Hx)]]; [| |discriminate Hx].
    + (* not a running plan: the exception comes back and goes to the next frame *)
      assert (Hnl : nolive_top pl0).
      { destruct HP as [HP|HP]; [|exact HP]. rewrite <- HP. destruct top as [pid p [|]| | |]; try exact I.
        specialize (Hlive pid p eq_refl). discriminate Hlive. }
      cbn [as_post is_Exception] in H. cbv zeta in H. simp_st. rewrite F5, Ep in H. cbn [List.tl] in H.
      destruct tl as [|f2 tl2]; subst r0; intros _; (split; [constructor|]); left; (split; [reflexivity|]); (split; [right; exact Hnl|]).
      * simp_st. rewrite F5, Ep, F1. repeat split; auto.
      * split; [|unfold stk, al; simp_st; rewrite F5, Ep, F6; cbn [List.tl]; unfold al in Hal; rewrite Er, Ep in Hal; cbn [List.length] in *; lia].
        right. unfold fal. simp_st. rewrite F1, F4, F10. split; [exact A1|]. split; [exact A2|]. split; [discriminate|]. right. split; reflexivity.
    + (* a running plan is handed FailedPause *)
      destruct (as_post P D s2 true ou [OPlanIn pid (Throw EFailedPause)]) as [[s' c'] o] eqn:Ea. subst r0. intros _.
      assert (K : o = [OPlanIn pid (Throw EFailedPause)] /\ state s' = state s2).
      { unfold as_post in Ea. repeat (bmh Ea); inv Ea; simp_st; auto. }
      destruct K as [-> K]. split; [repeat constructor|]. right. split; [rewrite K, F1, A1; reflexivity|].
      exists pid. split; [reflexivity|]. destruct HP as [HP|HP]; [|apply nolive_toppid; exact HP].
      rewrite <- HP. destruct top as [pid' p [|]| | |]; try exact I. cbn. specialize (Hlive pid' p eq_refl). inv Hlive. reflexivity.
  - (* CContinue *)
    destruct HF as [HF Hs]. subst r0. intros _. split; [constructor|]. left. split; [reflexivity|].
    split; [destruct popped; exact HP|]. split.
    + destruct HF as [(S1 & S2 & S3)|(A1 & A2 & A3 & A4)]; [left | right]; destruct popped; repeat split; auto.
    + unfold stk, al in *. destruct popped; simp_st; cbn [List.length]; auto.
  - (* CCancelled *)
    destruct HF as [(C1 & C2 & [[S1 S2]|[S1 S2]]) Hs]; rewrite S1 in H; subst r0; intros _; (split; [constructor|]); left; (split; [reflexivity|]).
    + split; [exact HP|]. split; [|exact Hs]. left. repeat split; auto.
    + split; [destruct (stashed s); exact HP|]. split; [|destruct (stashed s); exact Hs].
      right. unfold fal. destruct (stashed s) eqn:Est; simp_st; rewrite ?Est; repeat split; auto; discriminate.
  - (* CExit *)
    destruct HF as (-> & Hpl & Hst). subst r0. simp_st. split; [repeat constructor|]. split; [reflexivity|]. split; [exact Hpl|].
    split; [eexists; reflexivity|]. split; [|exact Hst]. destruct HP as [HP|HP]; [rewrite <- HP, Hpl; exact I | exact HP].
Qed.


(* the engine between the accepted request and the next step of the task *)
Definition AB0 (s : st) : Prop :=
  ((pc s = PcSleep0 /\ al s) \/ (exists k, pc s = PcCmd k /\ S (List.length (resps s)) = List.length (plans s))) /\
  must_cancel s = true /\ pre_fall s.
(* FailedPause went through the whole stack without meeting a running plan: the loop is left, nothing to close *)
Definition endE (pl0 : list (frame P)) (s : st) : Prop :=
  plans s = [] /\ ((exists r, pc s = PcFinalSleep r) \/ dead s) /\ nolive_top pl0.

Lemma first_step pl0 (s : st) s' o :
  AB0 s -> plans s = pl0 -> task_step presume plan_of dev s = (s', o) -> nb o ->
  Forall np o /\ ZT s' /\ ((fin o = None /\ endE pl0 s') \/ thrownFP pl0 o).
Proof.
  intros (Hpc & Hmc & Hpre) Hpl H Hnb. rewrite RE_Inv.task_step_tentry in H.
  assert (Ht : exists p, RE_Inv.tentry P presume D dev s = inl (set_must_cancel s false, CCancelled p, []) /\
                         stk p (set_must_cancel s false)).
  { unfold RE_Inv.tentry. cbv zeta. rewrite Hmc. destruct Hpc as [[-> Ha]|(k & -> & Ha)]; [exists false | exists true]; split; auto. }
  destruct Ht as (p & Ht & Hstk). rewrite Ht in H. clear Ht.
  revert Hnb.
  refine (RE_Small.drive_inv P presume plan_of D dev
            (fun s c os => nb os -> Forall np os /\ ((fin os = None /\ Fall pl0 s c) \/ (term_state (state s) = true /\ thrownFP pl0 os)))
            (fun s' o => nb o -> Forall np o /\ ZT s' /\ ((fin o = None /\ endE pl0 s') \/ thrownFP pl0 o))
            _ _ _ _ _ _ _ _ _ _ H).
  - intros s0 c0 os0 s1 c1 o1 Q0 Hd Hb. apply nb_app in Hb. destruct Hb as [Hb0 Hb1]. destruct (Q0 Hb0) as (N0 & [[F0 HF]|[T0 TF]]).
    + pose proof (fall_dstep pl0 s0 c0 _ HF Hd Hb1) as (N1 & K). split; [apply Forall_app; split; assumption|].
      destruct K as [[K1 K2]|[K1 (pid & K2 & K3)]]; [left; rewrite fin_app, F0; auto | right; split; [exact K1 | exists pid; rewrite fin_app, F0; auto]].
    + pose proof (term_dstep s0 c0 _ T0 Hd) as [K1 K2]. split; [apply Forall_app; split; assumption|]. right. split; [exact K1|].
      destruct TF as (pid & TF1 & TF2). exists pid. rewrite fin_app, TF1. auto.
  - intros s0 c0 os0 s1 o1 Q0 Hd Hb. apply nb_app in Hb. destruct Hb as [Hb0 Hb1]. destruct (Q0 Hb0) as (N0 & [[F0 HF]|[T0 TF]]).
    + pose proof (fall_dstep pl0 s0 c0 _ HF Hd) as (N1 & K1 & K2 & K3 & K4 & K5).
      split; [apply Forall_app; split; assumption|]. split; [left; rewrite K5; reflexivity|]. left. rewrite fin_app, F0.
      split; [exact K1|]. split; [exact K2|]. split; [left; exact K3 | exact K4].
    + pose proof (term_dstep s0 c0 _ T0 Hd) as [K1 K2]. split; [apply Forall_app; split; assumption|].
      split; [destruct K1 as [K1|K1]; [left; exact K1 | right; right; exact K1]|]. right.
      destruct TF as (pid & TF1 & TF2). exists pid. rewrite fin_app, TF1. auto.
  - intros s0 c0 os0 _ Hb. exfalso. apply nb_app in Hb. destruct Hb as [_ Hb]. inv Hb. contradiction.
  - intros _. split; [constructor|]. left. split; [reflexivity|]. split; [left; simp_st; exact Hpl|].
    cbn. split; [|exact Hstk]. destruct Hpre as (C1 & C2 & C3). repeat split; auto.
Qed.

Lemma finalize_noplans (s : st) r pend s' o :
  plans s = [] -> finalize presume dev s r pend = (s', o) -> fin o = None /\ plans s' = [].
Proof.
  intros Hpl. unfold finalize.
  destruct (stop_movables dev (set_pardon s true)) as [s2 o2] eqn:E2.
  match goal with |- context [fold_left ?f ?l ?a] => destruct (fold_left f l a) as [s3 o3] eqn:E3 end.
  pose proof (stop_movables_dq _ _ _ _ _ _ E2) as Q2. pose proof (dloop_dq _ _ _ _ _ _ _ _ _ (Forall_nil _) E3) as Q3.
  apply RE_Inv.stop_movables_same in E2. apply RE_Inv.unstage_fold_same in E3.
  assert (Hp3 : plans s3 = []).
  { destruct E2 as [[E2 _] _]. destruct E3 as [[E3 _] _]. unfold RE_Inv.same in *. simp_st.
    destruct E2 as (_ & _ & _ & _ & _ & X & _). destruct E3 as (_ & _ & _ & _ & _ & Y & _). congruence. }
  assert (Hcf : close_frames presume (set_bundlers (set_staged s3 []) []) = []).
  { unfold close_frames. simp_st. rewrite Hp3. reflexivity. }
  unfold set_state. cbv zeta. rewrite Hcf.
  match goal with |- context [allowed ?a Idle] => destruct (allowed a Idle) end; intros H; inv H; simp_st; (split; [|exact Hp3]).
  all: apply fin_quiet; fa; try exact I; try (eapply Forall_imp'; [exact dq_quietq | first [eassumption | apply close_runs_dq]]).
  all: match goal with |- quietq (OTask _) => exact I | _ => idtac end.
Qed.

(* ------------------------------------------------------------------ the continuation, event by event *)
Definition Phase (pl0 : list (frame P)) (w : bool) (s : st) (oacc : list obs) : Prop :=
  Forall np oacc /\
  ((w = true /\ AB0 s /\ plans s = pl0 /\ fin oacc = None)
   \/ (ZT s /\ endE pl0 s /\ fin oacc = None)
   \/ (ZT s /\ thrownFP pl0 oacc)).

Lemma phase_step pl0 w (s : st) oacc e s' o :
  Phase pl0 w s oacc -> cont_ev e = true -> step presume plan_of dev s e = (s', o) -> nb o ->
  Phase pl0 (w && inert e) s' (oacc ++ o).
Proof.
  intros [N0 Ph] Hc H Hb. destruct e as [a|a| | |defer|rs| | |sid pre post|sid|sid ok| |]; try discriminate Hc.
  2:{ (* the task *)
      cbn [step] in H. rewrite andb_false_r.
      destruct Ph as [(_ & HA & Hpl & F0)|[(HZ & HE & F0)|(HZ & pid & F0 & T0)]].
      - destruct (first_step pl0 s s' o HA Hpl H Hb) as (N1 & Z1 & K). split; [apply Forall_app; split; assumption|].
        right. destruct K as [[K1 K2]|(pid & K1 & K2)]; [left; rewrite fin_app, F0; auto | right; split; [exact Z1 | exists pid; rewrite fin_app, F0; auto]].
      - destruct (ZT_task s s' o HZ H) as [Z1 N1]. split; [apply Forall_app; split; assumption|]. right; left.
        split; [exact Z1|]. destruct HE as (E1 & E2 & E3).
        unfold task_step in H. destruct E2 as [[r Epc]|[Epc|[r Epc]]]; rewrite Epc in H.
        + destruct (must_cancel s);
            (destruct (finalize_noplans (set_must_cancel s false) _ _ _ _ E1 H) as [K1 K2]; rewrite fin_app, F0; split; [|exact K1]; split; [exact K2|]; split; [|exact E3];
             right; right; eapply finalize_pc; exact H).
        + inv H. rewrite fin_app, F0. split; [|reflexivity]. split; [exact E1|]. split; [right; left; exact Epc | exact E3].
        + inv H. rewrite fin_app, F0. split; [|reflexivity]. split; [exact E1|]. split; [right; right; eexists; exact Epc | exact E3].
      - destruct (ZT_task s s' o HZ H) as [Z1 N1]. split; [apply Forall_app; split; assumption|]. right; right.
        split; [exact Z1|]. exists pid. rewrite fin_app, F0. auto. }
  all: assert (Hi : inert _ = true) by exact Hc; rewrite Hi, andb_true_r;
       destruct (step_inert _ _ _ _ Hi H) as (-> & A1 & A2 & A3 & A4 & A5 & A6 & A7 & A8 & A9 & _); rewrite app_nil_r; split; [exact N0|].
  all: assert (HZ' : ZT s -> ZT s') by (unfold ZT, dead; rewrite A1, A2; auto).
  all: destruct Ph as [(Hw & HA & Hpl & F0)|[(HZ & (E1 & E2 & E3) & F0)|(HZ & T0)]];
       [ left; split; [exact Hw|]; split; [|split; [congruence | exact F0]];
         destruct HA as (B1 & B2 & C1 & C2 & C3); unfold AB0, pre_fall, al; rewrite A1, A2, A3, A4, A5, A7, A8;
         repeat split; auto
       | right; left; split; [apply HZ'; exact HZ|]; split; [|exact F0]; unfold endE, dead; rewrite A4, A2; repeat split; assumption
       | right; right; split; [apply HZ'; exact HZ | exact T0] ].
Qed.


(* ------------------------------------------------------------------ no running plan is left suspended:
   every started user plan on the stack is resumed again (with the exception, a follow-up exception, a value if a
   plan above it swallowed the exception) or closed by the finally block, before the task is done *)
Definition live (pid : nat) (s : st) : Prop := exists p, In (FUser pid p true) (plans s).
Definition taskpc (p : pcs) : Prop := match p with PcSleep0 | PcCmd _ | PcPaused | PcFinalSleep _ => True | _ => False end.
Definition given (pid : nat) (o : list obs) : Prop := exists i, In (OPlanIn pid i) o.

Lemma given_app_l pid a b : given pid a -> given pid (a ++ b).
Proof. intros [i H]. exists i. apply in_or_app; left; exact H. Qed.
Lemma given_app_r pid a b : given pid b -> given pid (a ++ b).
Proof. intros [i H]. exists i. apply in_or_app; right; exact H. Qed.

Lemma close_frames_live (s : st) pid p : In (FUser pid p true) (plans s) -> In (OPlanIn pid Close) (close_frames presume s).
Proof.
  intros Hin. unfold close_frames. apply in_flat_map. exists (FUser pid p true). split; [apply in_rev; rewrite rev_involutive; exact Hin|].
  cbn [frame_resume]. destruct (presume p Close); left; reflexivity.
Qed.

Lemma finalize_live (s : st) r pend s' o pid :
  live pid s -> finalize presume dev s r pend = (s', o) -> given pid o.
Proof.
  intros [p Hin]. unfold finalize.
  destruct (stop_movables dev (set_pardon s true)) as [s2 o2] eqn:E2.
  match goal with |- context [fold_left ?f ?l ?a] => destruct (fold_left f l a) as [s3 o3] eqn:E3 end.
  apply RE_Inv.stop_movables_same in E2. apply RE_Inv.unstage_fold_same in E3.
  assert (Hp3 : plans s3 = plans s).
  { destruct E2 as [[E2 _] _]. destruct E3 as [[E3 _] _]. unfold RE_Inv.same in *. simp_st.
    destruct E2 as (_ & _ & _ & _ & _ & X & _). destruct E3 as (_ & _ & _ & _ & _ & Y & _). congruence. }
  assert (Hcf : In (OPlanIn pid Close) (close_frames presume (set_bundlers (set_staged s3 []) []))).
  { apply close_frames_live with (p := p). simp_st. rewrite Hp3. exact Hin. }
  unfold set_state. cbv zeta.
  match goal with |- context [allowed ?a Idle] => destruct (allowed a Idle) end; intros H; inv H; exists Close;
    apply in_or_app; right; apply in_or_app; right; apply in_or_app; right; apply in_or_app; left; exact Hcf.
Qed.

Lemma live_same pid (s s' : st) : plans s' = plans s -> live pid s -> live pid s'.
Proof. unfold live. intros ->. auto. Qed.
Lemma live_push pid (s s' : st) f : plans s' = f :: plans s -> live pid s -> live pid s'.
Proof. unfold live. intros -> [p H]. exists p. right; exact H. Qed.

Lemma live_dstep (s : st) c r0 pid :
  live pid s -> dstep s c = r0 ->
  match r0 with
  | inl (s', _, o) => live pid s' \/ given pid o
  | inr (s', o) => (live pid s' /\ taskpc (pc s')) \/ given pid o
  end.
Proof.
  intros HL H. destruct c; cbn [RE_Small.dstep] in H.
  - (* CTop *)
    unfold set_state in H. repeat (bmh H); subst r0;
      repeat match goal with
             | Hx : (if ?c then _ else _) = Some _ |- _ => destruct c; inv Hx
             | Hx : Some _ = Some _ |- _ => inv Hx
             | Hx : stop_movables _ _ = _ |- _ => apply RE_Inv.stop_movables_same in Hx; destruct Hx as [[Hx _] _]; unfold RE_Inv.same in Hx
             | Hx : call_pausables _ _ _ = _ |- _ => apply RE_Inv.call_pausables_same in Hx; destruct Hx as [[[Hx _] _] _]; unfold RE_Inv.same in Hx
             end; simp_st; left; try (split; [|exact I]);
      (eapply live_same; [|exact HL]); simp_st;
      repeat match goal with Hx : _ /\ _ |- _ => destruct Hx end; congruence.
  - repeat (bmh H); subst r0; simp_st; left; try (split; [|exact I]); exact HL.
  - (* CAfterSleep *)
    destruct (resps s) as [|r rest] eqn:Er; [subst r0; left; exact HL|].
    destruct (plans s) as [|top tl] eqn:Ep; [subst r0; left; exact HL|].
    pose proof (dstep_aftersleep _ presume plan_of _ dev s r rest top tl Er Ep) as E. cbn [RE_Small.dstep] in E. rewrite Er, Ep in E.
    rewrite E in H. clear E. cbv zeta in H.
    destruct (as_state_fields P D s rest) as (_ & _ & _ & _ & F5 & _).
    set (s2 := as_state P D s rest) in *. clearbody s2.
    destruct (frame_resume presume top (as_input P D s2 r)) as [ou po] eqn:Ef.
    destruct (as_post P D s2 (is_throw (as_input P D s2 r)) ou po) as [[s' c'] o] eqn:Ea. subst r0.
    unfold live in HL. rewrite Ep in HL. destruct HL as [p [HL|HL]].
    + (* the plan on top is resumed *)
      right. subst top. cbn [frame_resume] in Ef.
      assert (K : po = [OPlanIn pid (as_input P D s2 r)]).
      { destruct (as_input P D s2 r); destruct (presume p _); inv Ef; reflexivity. }
      assert (o = po) by (unfold as_post in Ea; repeat (bmh Ea); inv Ea; reflexivity). subst o. rewrite K. eexists; left; reflexivity.
    + (* a plan further down stays where it is *)
      left. exists p. unfold as_post in Ea. repeat (bmh Ea); inv Ea; simp_st; rewrite ?F5, ?Ep; cbn [List.tl]; try (right; exact HL); exact HL.
  - (* CProcess *)
    cbv zeta in H. destruct (process_pre_same P D s m) as (E2 & _). cbv zeta in E2.
    match type of E2 with RE_Inv.same _ _ _ ?x => set (s2 := x) in * end. clearbody s2.
    assert (HL2 : live pid s2) by (eapply live_same; [|exact HL]; unfold RE_Inv.same in E2; tauto).
    destruct (match mcmd m with
              | CStartSuspender sid pre post => exec_start_suspender plan_of dev s2 sid pre post
              | _ => exec_cmd dev s2 m
              end) as [[s3 cr] o3] eqn:Ex.
    assert (K : live pid s3).
    { destruct (mcmd m) eqn:Ec.
      all: try (assert (Hnp : forall d0, mcmd m <> CPause d0) by (intros d0 Hd; rewrite Ec in Hd; discriminate Hd);
                eapply live_same; [|exact HL2];
                destruct (RE_Inv.exec_cmd_same _ _ _ _ _ _ _ _ Hnp Ex) as (_ & _ & _ & _ & _ & X & _); exact X).
      - destruct (RE_Inv.exec_cmd_pause _ _ _ _ _ _ _ _ _ Ec Ex) as (e & o' & Hrp & _).
        eapply live_same; [|exact HL2]. destruct (RE_Inv.request_pause_in_task_spec _ _ _ _ _ _ _ Hrp) as [[[Hs _] _]|[[_ Hs]|[_ Hs]]].
        + unfold RE_Inv.same in Hs. tauto.
        + unfold RE_Inv.pause_acc in Hs. tauto.
        + unfold RE_Inv.pause_acc_nc in Hs. tauto.
      - destruct (RE_Inv.exec_start_suspender_spec _ _ _ _ _ _ _ _ _ _ _ Ex) as (_ & [E|[f E]]); unfold RE_Inv.same in E.
        + eapply live_same; [|exact HL2]. tauto.
        + eapply live_push; [|exact HL2]. destruct E as (_ & _ & _ & _ & _ & X & _). simp_st. exact X. }
    destruct cr; subst r0; left; simp_st; [exact K | split; [exact K | exact I]].
  - subst r0. left. destruct popped; exact HL.
  - repeat (bmh H); subst r0; left; simp_st; try destruct popped; exact HL.
  - repeat (bmh H); subst r0; left; simp_st; try (split; [|exact I]); exact HL.
  - subst r0. destruct (finalize presume dev s r pending) as [s' o] eqn:Ef. right. eapply finalize_live; eassumption.
Qed.

Lemma live_task (s : st) s' o pid :
  live pid s -> taskpc (pc s) -> task_step presume plan_of dev s = (s', o) -> nb o ->
  (live pid s' /\ taskpc (pc s')) \/ given pid o.
Proof.
  intros HL Hpc H Hb. rewrite RE_Inv.task_step_tentry in H.
  destruct (RE_Inv.tentry P presume D dev s) as [[[s1 c1] os1]|[s2 o2]] eqn:Et.
  - assert (HL1 : live pid s1).
    { unfold RE_Inv.tentry in Et. cbv zeta in Et. destruct (pc s) as [| | | | |k|r|r] eqn:Epc; try contradiction.
      - repeat (bmh Et); inv Et; exact HL.
      - unfold set_state in Et. repeat (bmh Et); inv Et; try exact HL.
        all: repeat match goal with Hx : (if ?c then _ else _) = Some _ |- _ => destruct c; inv Hx end; exact HL.
      - destruct (must_cancel s); [inv Et; exact HL|]. destruct k as [| |sids|fs|rn dd z].
        + inv Et; exact HL.
        + destruct (request_pause (set_must_cancel s false) false) as [[sx ex] ox] eqn:Erp. inv Et.
          eapply live_same; [|exact HL]. destruct (RE_Inv.request_pause_spec _ _ _ _ _ _ _ Erp) as [[[Hs _] _]|Hs].
          * unfold RE_Inv.same in Hs. simp_st. tauto.
          * unfold RE_Inv.pause_acc in Hs. simp_st. tauto.
        + inv Et; exact HL.
        + inv Et; exact HL.
        + destruct (finish_read (mark_cached (set_must_cancel s false) rn dd) rn dd z []) as [[sx cr] ox] eqn:Efr. inv Et.
          apply RE_Inv.finish_read_same in Efr. pose proof (RE_Inv.mark_cached_same P D (set_must_cancel s false) rn dd) as Em.
          eapply live_same; [|exact HL]. destruct Efr as [Efr _]. destruct Em as [Em _]. unfold RE_Inv.same in *. simp_st.
          destruct Efr as (_ & _ & _ & _ & _ & X & _). destruct Em as (_ & _ & _ & _ & _ & Y & _). congruence.
      - destruct (must_cancel s); discriminate Et. }
    revert Hb.
    refine (RE_Small.drive_inv P presume plan_of D dev
              (fun s c os => nb os -> live pid s \/ given pid os)
              (fun s' o => nb o -> (live pid s' /\ taskpc (pc s')) \/ given pid o) _ _ _ _ _ _ _ _ _ _ H).
    + intros s0 c0 os0 sa ca oa Q0 Hd Hbb. apply nb_app in Hbb. destruct Hbb as [Hb0 _].
      destruct (Q0 Hb0) as [Q1|Q1]; [|right; apply given_app_l; exact Q1].
      pose proof (live_dstep s0 c0 _ pid Q1 Hd) as [K|K]; [left; exact K | right; apply given_app_r; exact K].
    + intros s0 c0 os0 sa oa Q0 Hd Hbb. apply nb_app in Hbb. destruct Hbb as [Hb0 _].
      destruct (Q0 Hb0) as [Q1|Q1]; [|right; apply given_app_l; exact Q1].
      pose proof (live_dstep s0 c0 _ pid Q1 Hd) as [K|K]; [left; exact K | right; apply given_app_r; exact K].
    + intros s0 c0 os0 _ Hbb. exfalso. apply nb_app in Hbb. destruct Hbb as [_ Hbb]. inv Hbb. contradiction.
    + intros _. left. exact HL1.
  - inv H. unfold RE_Inv.tentry in Et. cbv zeta in Et. destruct (pc s) as [| | | | |k|r|r] eqn:Epc; try contradiction.
    + repeat (bmh Et); discriminate Et.
    + repeat (bmh Et); try discriminate Et. inv Et. exfalso. inv Hb. contradiction.
    + destruct (must_cancel s); [discriminate Et|]. destruct k; repeat (bmh Et); discriminate Et.
    + right. destruct (must_cancel s); inv Et; (eapply (finalize_live (set_must_cancel s false)); [exact HL | eassumption]).
Qed.

Lemma live_run pid evs : forall (s : st),
  forallb cont_ev evs = true -> live pid s -> taskpc (pc s) -> nb (snd (run presume plan_of dev s evs)) ->
  (live pid (fst (run presume plan_of dev s evs)) /\ taskpc (pc (fst (run presume plan_of dev s evs)))) \/
  given pid (snd (run presume plan_of dev s evs)).
Proof.
  induction evs as [|e evs IH]; intros s Hc HL Hpc Hb; cbn [run] in *; [left; auto|].
  cbn [forallb] in Hc. apply andb_true_iff in Hc. destruct Hc as [Hc1 Hc2].
  destruct (step presume plan_of dev s e) as [s1 o1] eqn:Es.
  destruct (run presume plan_of dev s1 evs) as [s2 o2] eqn:Er. cbn [fst snd] in *.
  apply nb_app in Hb. destruct Hb as [Hb1 Hb2].
  assert (K : (live pid s1 /\ taskpc (pc s1)) \/ given pid o1).
  { destruct e as [a|a| | |defer|rs| | |sid pre post|sid|sid ok| |]; try discriminate Hc1.
    2:{ cbn [step] in Es. eapply live_task; eassumption. }
    all: assert (Hi : inert _ = true) by exact Hc1;
         destruct (step_inert _ _ _ _ Hi Es) as (_ & _ & A2 & _ & A4 & _); left; split; [eapply live_same; eassumption | rewrite A2; exact Hpc]. }
  destruct K as [[K1 K2]|K]; [|right; apply given_app_l; exact K].
  specialize (IH s1 Hc2 K1 K2). rewrite Er in IH. cbn [fst snd] in IH.
  destruct (IH Hb2) as [IH'|IH']; [left; exact IH' | right; apply given_app_r; exact IH'].
Qed.


(* ------------------------------------------------------------------ the whole continuation *)
Lemma run_phase pl0 evs : forall w (s : st) oacc,
  Phase pl0 w s oacc -> forallb cont_ev evs = true -> nb (snd (run presume plan_of dev s evs)) ->
  Phase pl0 (w && forallb inert evs) (fst (run presume plan_of dev s evs)) (oacc ++ snd (run presume plan_of dev s evs)).
Proof.
  induction evs as [|e evs IH]; intros w s oacc Ph Hc Hb; cbn [run forallb fst snd] in *.
  - rewrite andb_true_r, app_nil_r. exact Ph.
  - apply andb_true_iff in Hc. destruct Hc as [Hc1 Hc2].
    destruct (step presume plan_of dev s e) as [s1 o1] eqn:Es.
    destruct (run presume plan_of dev s1 evs) as [s2 o2] eqn:Er. cbn [fst snd] in *.
    apply nb_app in Hb. destruct Hb as [Hb1 Hb2].
    pose proof (phase_step pl0 w s oacc e s1 o1 Ph Hc1 Es Hb1) as Ph1.
    specialize (IH _ _ _ Ph1 Hc2). rewrite Er in IH. cbn [fst snd] in IH. specialize (IH Hb2).
    rewrite app_assoc, andb_assoc. exact IH.
Qed.

Lemma run_interrupted evs : forall (s : st),
  forallb cont_ev evs = true -> interrupted s = true -> interrupted (fst (run presume plan_of dev s evs)) = true.
Proof.
  induction evs as [|e evs IH]; intros s Hc Hi; cbn [run forallb fst] in *; [exact Hi|].
  apply andb_true_iff in Hc. destruct Hc as [Hc1 Hc2].
  destruct (step presume plan_of dev s e) as [s1 o1] eqn:Es.
  specialize (IH s1 Hc2). destruct (run presume plan_of dev s1 evs) as [s2 o2]. cbn [fst] in *. apply IH.
  eapply RE_Exit.interrupted_sticky; [|exact Es|exact Hi].
  destruct e as [a|a| | |defer|rs| | |sid pre post|sid|sid ok| |]; try discriminate Hc1; exact I.
Qed.

Lemma run_main_err evs : forall (s : st),
  forallb cont_ev evs = true -> main_err (fst (run presume plan_of dev s evs)) = main_err s.
Proof.
  induction evs as [|e evs IH]; intros s Hc; cbn [run forallb fst] in *; [reflexivity|].
  apply andb_true_iff in Hc. destruct Hc as [Hc1 Hc2].
  destruct (step presume plan_of dev s e) as [s1 o1] eqn:Es.
  specialize (IH s1 Hc2). destruct (run presume plan_of dev s1 evs) as [s2 o2]. cbn [fst] in *. rewrite IH.
  destruct e as [a|a| | |defer|rs| | |sid pre post|sid|sid ok| |]; try discriminate Hc1.
  2:{ cbn [step] in Es. apply task_step_aux in Es. unfold aux in Es. inv Es. reflexivity. }
  all: assert (Hi : inert _ = true) by exact Hc1; destruct (step_inert _ _ _ _ Hi Es) as (_ & _ & _ & _ & _ & _ & _ & _ & _ & _ & _ & A); exact A.
Qed.

Definition raises (r : tres) : bool := match r with TRaise ECancelled => false | TRaise _ => true | TReturn _ => false end.
Definition is_task (e : event) : bool := match e with EvTask => true | _ => false end.

Lemma no_bad_nb (l : list obs) : no_bad l = true -> nb l.
Proof.
  unfold no_bad, nb. rewrite forallb_forall, Forall_forall. intros H x Hx. specialize (H x Hx). destruct x; try exact I. discriminate H.
Qed.
Lemma no_bad1 (l : list obs) : nb l -> ~ In (OBad 1) l.
Proof. intros H Hin. unfold nb in H. rewrite Forall_forall in H. exact (H _ Hin). Qed.

(* THE THEOREM *)
Theorem failed_pause_end_to_end d paus stag rec evs1 req evs2 :
  let s0 := init d paus stag rec in
  let s1 := fst (run presume plan_of dev s0 evs1) in
  let o1 := snd (run presume plan_of dev s0 evs1) in
  let s3 := fst (run presume plan_of dev s1 (req :: evs2)) in
  let o := snd (run presume plan_of dev s1 (req :: evs2)) in
  (req = EvReqPause false \/ exists sid pre post, req = EvReqSuspend sid pre post) ->
  state s1 = Running -> cache s1 = None -> exc_slot s1 = None ->
  (pc s1 = PcSleep0 \/ exists k, pc s1 = PcCmd k) ->
  forallb cont_ev evs2 = true ->
  no_bad (o1 ++ o) = true ->
  (* never paused *)
  Forall np o /\
  (* the first thing any plan is handed after the request is FailedPause, before any message is processed; it goes to
     the plan on top of the stack when that is a running plan *)
  match fin o with
  | None => existsb is_task evs2 = true -> nolive_top (plans s1)
  | Some x => exists pid, x = OPlanIn pid (Throw EFailedPause) /\ toppid (plans s1) pid
  end /\
  (* when the task has finished *)
  (forall r, pc s3 = PcDone r ->
     state s3 = Idle /\ bundlers s3 = [] /\ interrupted s3 = true /\
     (forall pid p, In (FUser pid p true) (plans s1) -> given pid o) /\
     (forall u, In (DStart u) (RE_DocsCor.docs_of (o1 ++ o)) ->
                exists xs rs n, In (DStop u xs rs n) (RE_DocsCor.docs_of (o1 ++ o))) /\
     (forall a, (a = AResume \/ exists pid, a = ACall pid) -> main_err s1 = None ->
        exists out, snd (step presume plan_of dev s3 (EvMainDone a)) = [OOut out Idle (deferred s3) (resumable s3)] /\
                    (raises r = false -> out = OutInterrupted) /\
                    (forall e, r = TRaise e -> e <> ECancelled -> out = OutRaise e))).
Proof.
  intros s0 s1 o1 s3 o Hreq Hs Hc He Hpc Hcont Hnb. apply no_bad_nb in Hnb.
  apply nb_app in Hnb. destruct Hnb as [Hnb1 Hnb].
  pose proof (RE_Inv.reach_Inv P presume plan_of D dev d paus stag rec evs1 (no_bad1 _ Hnb1)) as HI.
  fold s0 in HI. fold s1 in HI.
  pose proof (reachable_bintr_ok P presume plan_of D dev d paus stag rec evs1) as Hbo. fold s0 in Hbo. fold s1 in Hbo.
  subst s3 o. cbn [run] in *.
  destruct (step presume plan_of dev s1 req) as [s2 oq] eqn:Eq.
  destruct (run presume plan_of dev s2 evs2) as [s3 o2] eqn:Er. cbn [fst snd] in *.
  apply nb_app in Hnb. destruct Hnb as [Hnbq Hnb2].
  destruct (failed_request s1 req s2 oq Hreq Hs Hc He Hbo Hpc Eq) as (Nq & Fq & Q1 & Q2 & Q3 & Q4 & Q5 & Q6 & Q7 & Q8 & Q9).
  (* the state after the request *)
  assert (HA : AB0 s2).
  { destruct HI as (_ & _ & _ & I4 & I5 & _). unfold RE_Inv.stack_a, RE_Inv.aligned in I4. unfold AB0, pre_fall, al.
    rewrite Q1, Q2, Q3, Q6. split; [|split; [exact Q4|]].
    - destruct Hpc as [Hp|[k Hp]]; rewrite Hp in *; [left; split; [reflexivity | apply I4] | right; exists k; split; [reflexivity | exact I4]].
    - split; [exact Q5|]. split; [destruct Hpc as [Hp|[k Hp]]; rewrite Hp in I5; exact I5 | exact Q9]. }
  assert (Ph : Phase (plans s1) true s2 oq).
  { split; [exact Nq|]. left. split; [reflexivity|]. split; [exact HA|]. split; [exact Q2 | exact Fq]. }
  pose proof (run_phase (plans s1) evs2 true s2 oq Ph Hcont) as Ph2. rewrite Er in Ph2. cbn [fst snd] in Ph2. specialize (Ph2 Hnb2).
  destruct Ph2 as [N2 Ph2].
  split; [exact N2|]. split.
  - destruct Ph2 as [(Hw & _ & _ & F)|[(_ & (_ & _ & E3) & F)|(_ & pid & F & T)]]; rewrite F.
    + intros Ht. exfalso. cbn [andb] in Hw.
      assert (K : forall l, forallb inert l = true -> existsb is_task l = false).
      { induction l as [|x l IH]; cbn; [reflexivity|]. intros Hx. apply andb_true_iff in Hx. destruct Hx as [Hx1 Hx2].
        rewrite (IH Hx2), orb_false_r. destruct x; try discriminate Hx1; reflexivity. }
      rewrite (K _ Hw) in Ht. discriminate Ht.
    + intros _. exact E3.
    + exists pid. auto.
  - intros r Hdone.
    (* the whole schedule, from the initial state *)
    pose proof (RE_Small.run_app P presume plan_of D dev s0 evs1 (req :: evs2)) as Hw. cbv zeta in Hw.
    destruct (run presume plan_of dev s0 evs1) as [s1' o1'] eqn:E1. subst s1 o1. cbn [fst snd] in *.
    cbn [run] in Hw. rewrite Eq, Er in Hw.
    assert (Hnbw : ~ In (OBad 1) (snd (run presume plan_of dev s0 (evs1 ++ req :: evs2)))).
    { rewrite Hw. cbn [snd]. apply no_bad1. apply nb_app. split; [exact Hnb1 | apply nb_app; split; assumption]. }
    pose proof (RE_Inv.done_is_idle P presume plan_of D dev d paus stag rec (evs1 ++ req :: evs2) r) as Hd.
    fold s0 in Hd. cbv zeta in Hd. specialize (Hd Hnbw). rewrite Hw in Hd. cbn [fst] in Hd. destruct (Hd Hdone) as [Hidle Hbn].
    assert (Hint : interrupted s3 = true).
    { pose proof (run_interrupted evs2 s2 Hcont Q7) as K. rewrite Er in K. exact K. }
    split; [exact Hidle|]. split; [exact Hbn|]. split; [exact Hint|]. split; [|split].
    + intros pid p Hin.
      assert (HL : live pid s2) by (exists p; rewrite Q2; exact Hin).
      assert (Htp : taskpc (pc s2)) by (rewrite Q1; destruct Hpc as [->|[k ->]]; exact I).
      pose proof (live_run pid evs2 s2 Hcont HL Htp) as K. rewrite Er in K. cbn [fst snd] in K.
      destruct (K Hnb2) as [[_ K2]|K2]; [rewrite Hdone in K2; destruct K2|]. apply given_app_r. exact K2.
    + intros u Hu.
      pose proof (RE_DocsInv.done_all_stopped P presume plan_of D dev d paus stag rec (evs1 ++ req :: evs2) r) as K.
      fold s0 in K. cbv zeta in K. specialize (K Hnbw). rewrite Hw in K. cbn [fst snd] in K. exact (K Hdone u Hu).
    + intros a Ha Hme.
      assert (Hme3 : main_err s3 = None).
      { pose proof (run_main_err evs2 s2 Hcont) as K. rewrite Er in K. cbn [fst] in K. congruence. }
      rewrite (RE_Exit.outcome_of_call P presume plan_of D dev s3 a Ha Hme3). rewrite Hdone, Hint, Hidle.
      eexists. split; [reflexivity|]. split.
      * intros Hr. destruct r as [v|e]; [reflexivity|]. destruct e; try discriminate Hr; reflexivity.
      * intros e -> Hne. destruct e; try reflexivity. contradiction.
Qed.


(* ================================================================== any further requests
   The never-paused part and the idle end do not depend on what else arrives: whatever requests (abort, stop, halt,
   further pauses and suspensions), status completions and main-thread calls other than a new RE(...)/resume() follow
   the failed request, the engine does not become paused, and once the task has finished it is idle with every run
   stopped and marked interrupted. *)
Definition moved_to (x : rstate) : Prop := x = Pausing \/ x = Aborting \/ x = Stopping \/ x = Halting \/ x = Suspending.
Definition evstep (s s' : st) : Prop :=
  pc s' = pc s /\ cache s' = cache s /\ (must_cancel s = true -> must_cancel s' = true) /\
  (state s' = state s \/ (allowed (state s) (state s') = true /\ moved_to (state s'))).
Definition other_ev (e : event) : bool :=
  match e with EvTask | EvMain (ACall _) | EvMain AResume => false | _ => true end.

Lemma evstep_refl (s : st) : evstep s s.
Proof. unfold evstep. auto. Qed.
Lemma evstep_same (s s' : st) :
  pc s' = pc s -> cache s' = cache s -> must_cancel s' = must_cancel s -> state s' = state s -> evstep s s'.
Proof. unfold evstep. intros -> -> -> ->. auto. Qed.

Lemma set_state_obs (s : st) x s' o : set_state s x = Some (s', o) -> s' = set_state_raw s x /\ o = [OState (state s) x] /\ allowed (state s) x = true.
Proof. unfold set_state. destruct (allowed (state s) x); intros H; inv H. auto. Qed.

Lemma req_result_keep (s : st) e s' o :
  req_result s e = (s', o) ->
  pc s' = pc s /\ cache s' = cache s /\ must_cancel s' = must_cancel s /\ state s' = state s /\ Forall np o.
Proof. unfold req_result. intros H; inv H. destruct (mreq s); simp_st; repeat split; repeat constructor. Qed.

Lemma cancel_task_keep (s : st) :
  pc (cancel_task s) = pc s /\ cache (cancel_task s) = cache s /\ state (cancel_task s) = state s /\
  (must_cancel s = true -> must_cancel (cancel_task s) = true).
Proof. unfold cancel_task. destruct (pc s) eqn:E; simp_st; rewrite ?E; repeat split; auto. Qed.

Lemma step_other (s : st) e s' o :
  other_ev e = true -> step presume plan_of dev s e = (s', o) -> evstep s s' /\ Forall np o.
Proof.
  intros He H. destruct e as [a|a| | |defer|rs| | |sid pre post|sid|sid ok| |]; try discriminate He; cbn [step] in H.
  - destruct a; try discriminate He; inv H; (split; [apply evstep_same; reflexivity | apply Forall_nil]).
  - inv H. split; [apply evstep_same; reflexivity | repeat constructor].
  - inv H. split; [apply evstep_same; reflexivity | apply Forall_nil].
  - (* pause request *)
    destruct (request_pause s defer) as [[s1 e1] o1] eqn:E1. destruct (req_result s1 e1) as [s2 o2] eqn:E2. inv H.
    pose proof (request_pause_rpq _ _ _ _ _ _ _ E1) as Q1. destruct (req_result_keep _ _ _ _ E2) as (K1 & K2 & K3 & K4 & K5).
    split; [|apply Forall_app; split; [eapply Forall_imp'; [exact rpq_np | exact Q1] | exact K5]].
    destruct (RE_Inv.request_pause_spec _ _ _ _ _ _ _ E1) as [[[Hs Hc] _]|Hs].
    + unfold RE_Inv.same in Hs. destruct Hs as (X1 & X2 & X3 & _). unfold evstep. rewrite K1, K2, K3, K4, X1, X2, X3, Hc. auto.
    + unfold RE_Inv.pause_acc in Hs. destruct Hs as (Y1 & Y2 & Y3 & _ & _ & _ & _ & _ & Y9 & _ & _ & _ & Y13).
      unfold evstep. rewrite K1, K2, K3, K4, Y2, Y3, Y9, Y1. split; [reflexivity|]. split; [reflexivity|]. split.
      * intros Hm. destruct Y13 as [(_ & _ & Y)|(_ & _ & Y)]; rewrite Y; [destruct (pc s); auto | exact Hm].
      * right. split; [exact allowed_running_pausing | left; reflexivity].
  - (* abort *)
    destruct (rstate_eqb (state s) Idle).
    + destruct (req_result_keep _ _ _ _ H) as (K1 & K2 & K3 & K4 & K5). split; [|exact K5]. unfold evstep. rewrite K1, K2, K3, K4. auto.
    + destruct (set_state (set_exit (interrupt s CzAbort) XAbort rs) Aborting) as [[s2 o2]|] eqn:Ea.
      * apply set_state_obs in Ea. destruct Ea as (-> & -> & Ea). simp_st.
        match type of H with context [req_result ?sx None] => destruct (req_result sx None) as [s4 o4] eqn:E4 end. inv H.
        destruct (req_result_keep _ _ _ _ E4) as (K1 & K2 & K3 & K4 & K5). split; [|repeat constructor; exact K5].
        unfold evstep. rewrite K1, K2, K3, K4. destruct (rstate_eqb (state s) Paused); simp_st.
        -- repeat split; auto. right. split; [exact Ea | right; left; reflexivity].
        -- destruct (cancel_task_keep (set_state_raw (set_exit (interrupt s CzAbort) XAbort rs) Aborting)) as (C1 & C2 & C3 & C4).
           rewrite C1, C2, C3. simp_st. repeat split; auto. right. split; [exact Ea | right; left; reflexivity].
      * destruct (req_result_keep _ _ _ _ H) as (K1 & K2 & K3 & K4 & K5). split; [|exact K5]. unfold evstep. rewrite K1, K2, K3, K4. simp_st. auto.
  - (* stop *)
    destruct (rstate_eqb (state s) Idle).
    + destruct (req_result_keep _ _ _ _ H) as (K1 & K2 & K3 & K4 & K5). split; [|exact K5]. unfold evstep. rewrite K1, K2, K3, K4. auto.
    + destruct (set_state (interrupt s CzStop) Stopping) as [[s2 o2]|] eqn:Ea.
      * apply set_state_obs in Ea. destruct Ea as (-> & -> & Ea). simp_st.
        match type of H with context [req_result ?sx None] => destruct (req_result sx None) as [s4 o4] eqn:E4 end. inv H.
        destruct (req_result_keep _ _ _ _ E4) as (K1 & K2 & K3 & K4 & K5). split; [|repeat constructor; exact K5].
        unfold evstep. rewrite K1, K2, K3, K4. destruct (rstate_eqb (state s) Paused); simp_st.
        -- repeat split; auto. right. split; [exact Ea | right; right; left; reflexivity].
        -- destruct (cancel_task_keep (set_state_raw (interrupt s CzStop) Stopping)) as (C1 & C2 & C3 & C4).
           rewrite C1, C2, C3. simp_st. repeat split; auto. right. split; [exact Ea | right; right; left; reflexivity].
      * destruct (req_result_keep _ _ _ _ H) as (K1 & K2 & K3 & K4 & K5). split; [|exact K5]. unfold evstep. rewrite K1, K2, K3, K4. simp_st. auto.
  - (* halt *)
    destruct (rstate_eqb (state s) Idle).
    + destruct (req_result_keep _ _ _ _ H) as (K1 & K2 & K3 & K4 & K5). split; [|exact K5]. unfold evstep. rewrite K1, K2, K3, K4. auto.
    + destruct (set_state (interrupt s CzHalt) Halting) as [[s2 o2]|] eqn:Ea.
      * apply set_state_obs in Ea. destruct Ea as (-> & -> & Ea). simp_st.
        match type of H with context [req_result ?sx None] => destruct (req_result sx None) as [s4 o4] eqn:E4 end. inv H.
        destruct (req_result_keep _ _ _ _ E4) as (K1 & K2 & K3 & K4 & K5). split; [|repeat constructor; exact K5].
        unfold evstep. rewrite K1, K2, K3, K4. destruct (rstate_eqb (state s) Paused); simp_st.
        -- repeat split; auto. right. split; [exact Ea | right; right; right; left; reflexivity].
        -- destruct (cancel_task_keep (set_state_raw (interrupt s CzHalt) Halting)) as (C1 & C2 & C3 & C4).
           rewrite C1, C2, C3. simp_st. repeat split; auto. right. split; [exact Ea | right; right; right; left; reflexivity].
      * destruct (req_result_keep _ _ _ _ H) as (K1 & K2 & K3 & K4 & K5). split; [|exact K5]. unfold evstep. rewrite K1, K2, K3, K4. simp_st. auto.
  - (* suspension request *)
    cbv zeta in H.
    set (s0 := set_futs s (if amem sid (futs s) then futs s else aset sid false (futs s))) in *.
    assert (E0 : evstep s s0) by (apply evstep_same; reflexivity).
    assert (Hst0 : state s0 = state s) by reflexivity. clearbody s0.
    match type of H with
    | context [match ?x with _ => _ end] =>
        match x with context [resumable] => destruct x as [[s3 e3] o3] eqn:E1 end
    end.
    assert (K3 : (pc s3 = pc s0 /\ cache s3 = cache s0 /\ (must_cancel s0 = true -> must_cancel s3 = true) /\
                  (state s3 = state s0 \/ (allowed (state s0) Aborting = true /\ state s3 = Aborting))) /\ Forall np o3).
    { destruct (negb (resumable s0)); [|inv E1; split; [auto | apply Forall_nil]].
      destruct (set_state (set_exc_slot (interrupt s0 CzFailedPause) (Some EFailedPause)) Aborting) as [[s2 o2]|] eqn:Ea.
      - apply set_state_obs in Ea. destruct Ea as (-> & -> & Ea). simp_st. inv E1. split; [|repeat constructor].
        destruct (rstate_eqb (state s0) Paused); simp_st.
        + repeat split; auto.
        + destruct (cancel_task_keep (set_state_raw (set_exc_slot (interrupt s0 CzFailedPause) (Some EFailedPause)) Aborting)) as (C1 & C2 & C3 & C4).
          rewrite C1, C2, C3. simp_st. repeat split; auto.
      - inv E1. split; [|apply Forall_nil]. simp_st. auto. }
    destruct K3 as [K3 N3].
    assert (Ktr : forall s5 : st, evstep s3 s5 -> evstep s s5).
    { intros s5 (A1 & A2 & A3 & A4). destruct K3 as (B1 & B2 & B3 & B4). destruct E0 as (C1 & C2 & C3 & _).
      unfold evstep. rewrite A1, A2, B1, B2, C1, C2. repeat split; auto.
      destruct A4 as [A4|[A4 A5]].
      - rewrite A4. destruct B4 as [B4|[B4 B5]]; [left; congruence | right; split; [rewrite <- Hst0, B5; exact B4 | rewrite B5; right; left; reflexivity]].
      - destruct B4 as [B4|[B4 B5]].
        + right. split; [rewrite <- Hst0, <- B4; exact A4 | exact A5].
        + (* aborting first: nothing is allowed after it but idle *)
          exfalso. rewrite B5 in A4. destruct A5 as [A5|[A5|[A5|[A5|A5]]]]; rewrite A5 in A4; vm_compute in A4; discriminate A4. }
    destruct e3.
    + destruct (req_result s3 (Some e)) as [s4 o4] eqn:E4. destruct (req_result_keep _ _ _ _ E4) as (K1 & K2 & K4 & K5 & K6). inv H.
      split; [|apply Forall_app; split; assumption]. apply Ktr. unfold evstep. rewrite K1, K2, K4, K5. auto.
    + destruct (rstate_eqb (state s3) Paused).
      * match type of H with context [req_result ?sx None] => destruct (req_result sx None) as [s5 o5] eqn:E5 end.
        destruct (req_result_keep _ _ _ _ E5) as (K1 & K2 & K4 & K5 & K6). inv H.
        split; [|apply Forall_app; split; assumption]. apply Ktr. unfold evstep. rewrite K1, K2, K4, K5. simp_st. auto.
      * destruct (set_state s3 Suspending) as [[s5 o5]|] eqn:Ea.
        -- apply set_state_obs in Ea. destruct Ea as (-> & -> & Ea).
           match type of H with context [req_result ?sx None] => destruct (req_result sx None) as [s6 o6] eqn:E6 end.
           destruct (req_result_keep _ _ _ _ E6) as (K1 & K2 & K4 & K5 & K6). inv H.
           split; [|apply Forall_app; split; [exact N3 | repeat constructor; exact K6]]. apply Ktr.
           destruct (cancel_task_keep (push_frame (set_state_raw s3 Suspending) (FSingle (mk (CStartSuspender sid pre post)) false))) as (C1 & C2 & C3 & C4).
           unfold evstep. rewrite K1, K2, K4, K5, C1, C2, C3. simp_st. repeat split; auto.
           right. split; [exact Ea | right; right; right; right; reflexivity].
        -- destruct (req_result s3 (Some ETransition)) as [s5 o5] eqn:E5. destruct (req_result_keep _ _ _ _ E5) as (K1 & K2 & K4 & K5 & K6). inv H.
           split; [|apply Forall_app; split; assumption]. apply Ktr. unfold evstep. rewrite K1, K2, K4, K5. auto.
  - inv H. split; [apply evstep_same; reflexivity | apply Forall_nil].
  - destruct (negb ok && negb (pardon (set_statuses s (aset sid (Some ok) (statuses s))))); inv H; (split; [apply evstep_same; reflexivity | apply Forall_nil]).
  - inv H. split; [apply evstep_same; reflexivity | apply Forall_nil].
  - inv H. split; [|constructor]. destruct (pc s) as [| | | | |k|r|r] eqn:Epc; try apply evstep_refl. destruct k; try apply evstep_refl.
    unfold evstep, mark_cached. destruct (get_bundler s run); simp_st; rewrite ?Epc; auto.
Qed.


(* pausing without a checkpoint, the task cancelled (or already in its final sleep): the next step arms FailedPause *)
Definition Z3 (s : st) : Prop :=
  state s = Pausing /\ cache s = None /\
  ((must_cancel s = true /\ (pc s = PcSleep0 \/ exists k, pc s = PcCmd k)) \/ exists r, pc s = PcFinalSleep r).
Definition ZZ (s : st) : Prop := ZT s \/ Z3 s.

Lemma allowed_pausing_suspending : allowed Pausing Suspending = false. Proof. vm_compute. reflexivity. Qed.
Lemma allowed_pausing_pausing : allowed Pausing Pausing = false. Proof. vm_compute. reflexivity. Qed.

Lemma ZZ_other (s : st) e s' o :
  other_ev e = true -> ZZ s -> step presume plan_of dev s e = (s', o) -> ZZ s' /\ Forall np o.
Proof.
  intros He HZ H. destruct (step_other _ _ _ _ He H) as [(E1 & E2 & E3 & E4) N]. split; [|exact N].
  destruct HZ as [[Ht|Hd]|(Z1 & Z2 & Z3')].
  - left; left. destruct E4 as [E4|[E4 E5]]; [rewrite E4; exact Ht|].
    exfalso. destruct (term_no_move _ _ Ht E4) as [K|K]; rewrite K in E5; destruct E5 as [X|[X|[X|[X|X]]]]; discriminate X.
  - left; right. unfold dead in *. rewrite E1. exact Hd.
  - destruct E4 as [E4|[E4 E5]].
    + right. unfold Z3. rewrite E1, E2, E4. repeat split; auto. destruct Z3' as [[M Hp]|Hp]; [left; split; auto | right; exact Hp].
    + rewrite Z1 in E4. destruct E5 as [X|[X|[X|[X|X]]]]; rewrite X in E4.
      * rewrite allowed_pausing_pausing in E4. discriminate E4.
      * left; left. rewrite X. reflexivity.
      * left; left. rewrite X. reflexivity.
      * left; left. rewrite X. reflexivity.
      * rewrite allowed_pausing_suspending in E4. discriminate E4.
Qed.

Lemma Z3_task (s : st) s' o : Z3 s -> task_step presume plan_of dev s = (s', o) -> ZT s' /\ Forall np o.
Proof.
  intros (Z1 & Z2 & Z3') H. rewrite RE_Inv.task_step_tentry in H.
  destruct Z3' as [[Hm Hpc]|[r Hpc]].
  2:{ unfold RE_Inv.tentry in H. cbv zeta in H. rewrite Hpc in H.
      destruct (must_cancel s); (split; [right; right; eapply finalize_pc; exact H | eapply Forall_imp'; [exact finq_np | eapply finalize_finq; exact H]]). }
  assert (Ht : exists p, RE_Inv.tentry P presume D dev s = inl (set_must_cancel s false, CCancelled p, [])).
  { unfold RE_Inv.tentry. cbv zeta. rewrite Hm. destruct Hpc as [->|[k ->]]; eexists; reflexivity. }
  destruct Ht as [p Ht]. rewrite Ht in H. clear Ht.
  refine (RE_Small.drive_inv P presume plan_of D dev
            (fun s c os => Forall np os /\ (term_state (state s) = true \/
                             (state s = Pausing /\ cache s = None /\ match c with CCancelled _ | CContinue _ _ | CTop => True | _ => False end)))
            (fun s' o => ZT s' /\ Forall np o) _ _ _ _ _ _ _ _ _ _ H).
  - intros s0 c0 os0 s1 c1 o1 [N0 Q0] Hd. destruct Q0 as [T0|(A1 & A2 & A3)].
    + pose proof (term_dstep s0 c0 _ T0 Hd) as [K1 K2]. split; [apply Forall_app; split; assumption | left; exact K1].
    + destruct c0; try contradiction; cbn [RE_Small.dstep] in Hd.
      * rewrite A1 in Hd. change (rstate_eqb Pausing Pausing) with true in Hd. unfold resumable in Hd. rewrite A2 in Hd. cbn [orb andb negb] in Hd.
        unfold set_state in Hd. simp_st. rewrite A1, allowed_pausing_aborting' in Hd. inv Hd.
        split; [apply Forall_app; split; [exact N0 | repeat constructor] | left; reflexivity].
      * inv Hd. rewrite app_nil_r. split; [exact N0|]. right. destruct popped; simp_st; auto.
      * rewrite A1 in Hd. inv Hd. rewrite app_nil_r. split; [exact N0|]. right. simp_st. auto.
  - intros s0 c0 os0 s1 o1 [N0 Q0] Hd. destruct Q0 as [T0|(A1 & A2 & A3)].
    + pose proof (term_dstep s0 c0 _ T0 Hd) as [K1 K2]. split; [|apply Forall_app; split; assumption].
      destruct K1 as [K1|K1]; [left; exact K1 | right; right; exact K1].
    + exfalso. destruct c0; try contradiction; cbn [RE_Small.dstep] in Hd; try discriminate Hd.
      * rewrite A1 in Hd. change (rstate_eqb Pausing Pausing) with true in Hd. unfold resumable in Hd. rewrite A2 in Hd. cbn [orb andb negb] in Hd.
        destruct (set_state _ Aborting) as [[? ?]|]; discriminate Hd.
      * rewrite A1 in Hd. discriminate Hd.
  - intros s0 c0 os0 [N0 _]. split; [right; left; reflexivity | apply Forall_app; split; [exact N0 | repeat constructor]].
  - split; [constructor|]. right. simp_st. auto.
Qed.

Definition ok_ev (e : event) : bool := match e with EvMain (ACall _) | EvMain AResume => false | _ => true end.

Lemma ZZ_run evs : forall (s : st),
  forallb ok_ev evs = true -> ZZ s ->
  ZZ (fst (run presume plan_of dev s evs)) /\ Forall np (snd (run presume plan_of dev s evs)).
Proof.
  induction evs as [|e evs IH]; intros s Hc HZ; cbn [run forallb fst snd] in *; [split; [exact HZ | constructor]|].
  apply andb_true_iff in Hc. destruct Hc as [Hc1 Hc2].
  destruct (step presume plan_of dev s e) as [s1 o1] eqn:Es.
  assert (K : ZZ s1 /\ Forall np o1).
  { destruct e as [a|a| | |defer|rs| | |sid pre post|sid|sid ok| |].
    4:{ cbn [step] in Es. destruct HZ as [HZ|HZ].
        - destruct (ZT_task _ _ _ HZ Es) as [A B]. split; [left; exact A | exact B].
        - destruct (Z3_task _ _ _ HZ Es) as [A B]. split; [left; exact A | exact B]. }
    all: (eapply ZZ_other; [|exact HZ|exact Es]); first [reflexivity | destruct a; first [reflexivity | discriminate Hc1]]. }
  destruct K as [K1 K2]. specialize (IH s1 Hc2 K1). destruct (run presume plan_of dev s1 evs) as [s2 o2]. cbn [fst snd] in *.
  destruct IH as [I1 I2]. split; [exact I1 | apply Forall_app; split; assumption].
Qed.


Lemma pause_request_any (s : st) s1 e o :
  state s = Running -> bintr_ok (bundlers s) = true -> request_pause s false = (s1, e, o) ->
  state s1 = Pausing /\ cache s1 = cache s /\ pc s1 = pc s /\ interrupted s1 = true /\
  must_cancel s1 = (match pc s with PcNone | PcDone _ => must_cancel s | _ => true end) /\ Forall np o.
Proof.
  intros Hs Hb. unfold request_pause. rewrite Hs, allowed_running_pausing. cbn [negb]. cbv zeta.
  match goal with |- context [set_state ?x Pausing] => set (sx := x) end.
  assert (Hx : state sx = Running /\ bundlers sx = bundlers s /\ cache sx = cache s /\ pc sx = pc s /\ interrupted sx = true /\
               must_cancel sx = must_cancel s).
  { subst sx. cbn [pc interrupt set_ghost set_interrupted set_deferred upd]. destruct (pc s) eqn:E; cbn; rewrite ?E, ?Hs; repeat split; auto. }
  clearbody sx. destruct Hx as (X1 & X2 & X3 & X4 & X5 & X6).
  unfold set_state. rewrite X1, allowed_running_pausing. unfold record_interruptions. cbn [bundlers set_state_raw upd]. rewrite X2.
  destruct (record_intr_list_ok _ Hb) as (bs & o0 & E & _ & _). rewrite E. pose proof (record_intr_list_dq _ _ _ _ E) as Q0.
  intros H; inv H. unfold cancel_task. cbn [pc set_bundlers upd2 set_state_raw upd]. rewrite X4.
  assert (Q : Forall np ([OState Running Pausing] ++ o0)) by (fa; try exact I; eapply Forall_imp'; [exact dq_np | exact Q0]).
  destruct (pc s); cbn; rewrite ?X3, ?X5, ?X6; repeat split; auto.
Qed.

Lemma suspend_request_any (s : st) sid pre post s' o :
  state s = Running -> cache s = None -> step presume plan_of dev s (EvReqSuspend sid pre post) = (s', o) ->
  state s' = Aborting /\ interrupted s' = true /\ Forall np o.
Proof.
  intros Hs Hc. cbn [step]. unfold resumable. cbn [cache set_futs upd2]. rewrite Hc. cbn [negb].
  unfold set_state. cbn [state set_exc_slot interrupt set_ghost set_interrupted set_futs upd upd2]. rewrite Hs.
  rewrite allowed_running_aborting'. cbn [rstate_eqb sname String.eqb Ascii.eqb Bool.eqb].
  unfold cancel_task. cbn [pc set_state_raw set_exc_slot interrupt set_ghost set_interrupted set_futs upd upd2].
  destruct (pc s) eqn:Hp; cbn [state set_must_cancel set_state_raw upd]; rewrite allowed_aborting_suspending';
    unfold req_result; intros H; inv H; cbn; destruct (mreq s); cbn; repeat split; auto; repeat constructor.
Qed.

(* THE SECOND THEOREM: whatever follows the failed request *)
Theorem failed_pause_any_requests d paus stag rec evs1 req evs2 :
  let s0 := init d paus stag rec in
  let s1 := fst (run presume plan_of dev s0 evs1) in
  let o1 := snd (run presume plan_of dev s0 evs1) in
  let s3 := fst (run presume plan_of dev s1 (req :: evs2)) in
  let o := snd (run presume plan_of dev s1 (req :: evs2)) in
  (req = EvReqPause false \/ exists sid pre post, req = EvReqSuspend sid pre post) ->
  state s1 = Running -> cache s1 = None ->
  forallb ok_ev evs2 = true ->
  no_bad (o1 ++ o) = true ->
  Forall np o /\
  (forall r, pc s3 = PcDone r ->
     state s3 = Idle /\ bundlers s3 = [] /\ interrupted s3 = true /\
     (forall u, In (DStart u) (RE_DocsCor.docs_of (o1 ++ o)) ->
                exists xs rs n, In (DStop u xs rs n) (RE_DocsCor.docs_of (o1 ++ o)))).
Proof.
  intros s0 s1 o1 s3 o Hreq Hs Hc Hcont Hnb. apply no_bad_nb in Hnb.
  apply nb_app in Hnb. destruct Hnb as [Hnb1 Hnb].
  pose proof (RE_Inv.reach_Inv P presume plan_of D dev d paus stag rec evs1 (no_bad1 _ Hnb1)) as HI.
  fold s0 in HI. fold s1 in HI.
  pose proof (reachable_bintr_ok P presume plan_of D dev d paus stag rec evs1) as Hbo. fold s0 in Hbo. fold s1 in Hbo.
  subst s3 o. cbn [run] in *.
  destruct (step presume plan_of dev s1 req) as [s2 oq] eqn:Eq.
  destruct (run presume plan_of dev s2 evs2) as [s3 o2] eqn:Er. cbn [fst snd] in *.
  (* after the request *)
  assert (K : ZZ s2 /\ interrupted s2 = true /\ Forall np oq).
  { destruct Hreq as [->|(sid & pre & post & ->)].
    - cbn [step] in Eq. destruct (request_pause s1 false) as [[sx ex] ox] eqn:E1.
      destruct (pause_request_any _ _ _ _ Hs Hbo E1) as (A1 & A2 & A3 & A4 & A5 & A6).
      unfold req_result in Eq. inv Eq.
      assert (F : forall x : st, state x = state sx -> cache x = cache sx -> pc x = pc sx -> must_cancel x = must_cancel sx ->
                                 interrupted x = interrupted sx -> ZZ x /\ interrupted x = true).
      { intros x B1 B2 B3 B4 B5. split; [|congruence].
        destruct HI as (I1 & _). rewrite Hs in I1.
        destruct (pc s1) as [| | | | |k|r|r] eqn:Epc; try discriminate I1.
        - right. unfold Z3. rewrite B1, B2, B3, B4, A1, A2, A3, A5, Hc. split; [reflexivity|]. split; [reflexivity|]. left. split; [reflexivity | left; reflexivity].
        - right. unfold Z3. rewrite B1, B2, B3, B4, A1, A2, A3, A5, Hc. split; [reflexivity|]. split; [reflexivity|]. left. split; [reflexivity | right; eexists; reflexivity].
        - right. unfold Z3. rewrite B1, B2, B3, A1, A2, A3, Hc. split; [reflexivity|]. split; [reflexivity|]. right. eexists; reflexivity. }
      destruct (mreq sx); (destruct (F _ eq_refl eq_refl eq_refl eq_refl eq_refl) as [F1 F2]; split; [exact F1|]; split; [exact F2|]);
        (apply Forall_app; split; [exact A6 | repeat constructor]).
    - destruct (suspend_request_any _ _ _ _ _ _ Hs Hc Eq) as (A1 & A2 & A3). split; [left; left; rewrite A1; reflexivity | auto]. }
  destruct K as (K1 & K2 & K3).
  pose proof (ZZ_run evs2 s2 Hcont K1) as Hz. rewrite Er in Hz. cbn [fst snd] in Hz. destruct Hz as [Z3' N3].
  split; [apply Forall_app; split; assumption|].
  intros r Hdone.
  pose proof (RE_Small.run_app P presume plan_of D dev s0 evs1 (req :: evs2)) as Hw. cbv zeta in Hw.
  destruct (run presume plan_of dev s0 evs1) as [s1' o1'] eqn:E1. subst s1 o1. cbn [fst snd] in *.
  cbn [run] in Hw. rewrite Eq, Er in Hw.
  assert (Hnbw : ~ In (OBad 1) (snd (run presume plan_of dev s0 (evs1 ++ req :: evs2)))).
  { rewrite Hw. cbn [snd]. apply no_bad1. apply nb_app. split; assumption. }
  pose proof (RE_Inv.done_is_idle P presume plan_of D dev d paus stag rec (evs1 ++ req :: evs2) r) as Hd.
  fold s0 in Hd. cbv zeta in Hd. specialize (Hd Hnbw). rewrite Hw in Hd. cbn [fst] in Hd. destruct (Hd Hdone) as [Hidle Hbn].
  split; [exact Hidle|]. split; [exact Hbn|]. split.
  - (* the interruption mark is sticky *)
    clear - Hcont K2 Er. revert s2 s3 o2 K2 Er. induction evs2 as [|e evs IH]; intros s2 s3 o2 K2 Er; cbn [run forallb] in *.
    + inv Er. exact K2.
    + apply andb_true_iff in Hcont. destruct Hcont as [Hc1 Hc2].
      destruct (step presume plan_of dev s2 e) as [sa oa] eqn:Es.
      destruct (run presume plan_of dev sa evs) as [sb ob] eqn:Eb. inv Er.
      eapply (IH Hc2 sa); [|exact Eb]. eapply RE_Exit.interrupted_sticky; [|exact Es|exact K2].
      destruct e as [a|a| | |defer|rs| | |sid pre post|sid|sid ok| |]; try exact I. destruct a; try exact I; discriminate Hc1.
  - intros u Hu.
    pose proof (RE_DocsInv.done_all_stopped P presume plan_of D dev d paus stag rec (evs1 ++ req :: evs2) r) as K.
    fold s0 in K. cbv zeta in K. specialize (K Hnbw). rewrite Hw in K. cbn [fst snd] in K. exact (K Hdone u Hu).
Qed.

End C10.
