(* C14 - concurrent runs with different run keys stay independent.

   Model: Engine/RE.v.  (a) frame lemmas of the bundler-addressed messages on [exec_cmd], for every
   state: a create/read/save/drop message with run key k changes only the bundler under k and emits
   documents of that run only; close_run removes its run and touches the others only by the
   checkpoint snapshot (closing a run is a checkpoint: the one engine-wide coupling, with the rewind
   at a resume/suspension and the refusal of a checkpoint while any run is bundling); open_run on a
   free key leaves the others alone; open_run on an open key is refused with
   IllegalMessageSequence, changes nothing and emits nothing.  (b) every trace is accepted by the
   document monitor, whose state is one record per open run: a document of run u reads and writes the
   record of u only, so the lifecycle and numbering guarantees hold for each run on its own.
   set_run_key_wrapper is an instance of msg_mutator (C20). *)
From Coq Require Import List ZArith Bool.
From BV Require Import Engine.RE Engine.REInst Engine.DocMon Proofs.RE_Docs Proofs.RE_DocsMon Proofs.RE_DocsCor.
Import ListNotations.

Theorem C14_message_touches_only_its_run :
  forall (P : Type) (D : Type) (dev : D -> nat -> devmeth -> D * devres) (s : st P D) (m : msg) s' c o,
    bundler_msg (mcmd m) = true -> exec_cmd P D dev s m = (s', c, o) ->
    only_key P D (mrun m) s s' /\
    (forall d, In (ODoc d) o -> exists b, alookup (mrun m) (bundlers P D s) = Some b /\ run_of d = buid b).
Proof. exact frame_msg. Qed.
Print Assumptions C14_message_touches_only_its_run.

Theorem C14_close_run_frame :
  forall (P : Type) (D : Type) (dev : D -> nat -> devmeth -> D * devres) (s : st P D) (m : msg) es rs s' c o,
    mcmd m = CCloseRun es rs -> exec_cmd P D dev s m = (s', c, o) ->
    match alookup (mrun m) (bundlers P D s) with
    | None => s' = s /\ c = Done (RExn EIMS) /\ o = []
    | Some b =>
        (exists g, (g = b_snapshot \/ g = (fun x => x)) /\
                   forall k, k <> mrun m -> alookup k (bundlers P D s') = option_map g (alookup k (bundlers P D s))) /\
        uid_supply P D s' = uid_supply P D s /\ run_uids P D s' = run_uids P D s /\
        c = Done (RVal (VUid (buid b))) /\ exists xs n, o = [ODoc (DStop (buid b) xs rs n)]
    end.
Proof. exact frame_close. Qed.
Print Assumptions C14_close_run_frame.

Theorem C14_open_run_frame :
  forall (P : Type) (D : Type) (dev : D -> nat -> devmeth -> D * devres) (s : st P D) (m : msg) s' c o,
    mcmd m = COpenRun -> amem (mrun m) (bundlers P D s) = false -> exec_cmd P D dev s m = (s', c, o) ->
    (forall k, k <> mrun m -> alookup k (bundlers P D s') = alookup k (bundlers P D s)) /\
    c = Done (RVal (VUid (uid_supply P D s))) /\ uid_supply P D s' = S (uid_supply P D s) /\
    run_uids P D s' = run_uids P D s ++ [uid_supply P D s] /\
    (exists b, alookup (mrun m) (bundlers P D s') = Some b /\ buid b = uid_supply P D s) /\
    docs_for o (uid_supply P D s).
Proof. exact frame_open_new. Qed.
Print Assumptions C14_open_run_frame.

Theorem C14_duplicate_open_refused :
  forall (P : Type) (D : Type) (dev : D -> nat -> devmeth -> D * devres) (s : st P D) (m : msg),
    mcmd m = COpenRun -> amem (mrun m) (bundlers P D s) = true ->
    exec_cmd P D dev s m = (s, Done (RExn EIMS), []).
Proof. exact frame_open_dup. Qed.
Print Assumptions C14_duplicate_open_refused.

Theorem C14_runs_well_formed_separately :
  forall (P : Type) (presume : P -> input -> outcome P) (plan_of : nat -> P)
         (D : Type) (dev : D -> nat -> devmeth -> D * devres)
         (d : D) (paus stag : list nat) (rec : bool) (evs : list event),
    docs_ok rec (snd (run_steps P presume plan_of D dev (init P D d paus stag rec) evs)) = true.
Proof. exact run_docs_ok. Qed.
Print Assumptions C14_runs_well_formed_separately.

(* non-vacuity: two nested keyed runs under a pause/resume (recorded from the implementation):
   both runs get their own numbering and their own stop *)
(* exk: {"plan": ["seq", ["m", "open_run", null, [], {}, "a"], ["m", "checkpoint", null, [], {}, null], ["m", "create", null, [], {"name": "primary"}, "a"], ["m", "read", 1, [], {}, "a"], ["m", "save", null, [], {}, "a"], ["m", "open_run", null, [], {}, "b"], ["m", "create", null, [], {"name": "primary"}, "b"], ["m", "read", 1, [], {}, "b"], ["m", "save", null, [], {}, "b"], ["m", "close_run", null, [], {}, "b"], ["m", "create", null, [], {"name": "primary"}, "a"], ["m", "read", 1, [], {}, "a"], ["m", "save", null, [], {}, "a"], ["m", "close_run", null, [], {}, "a"]], "devs": [["stage"], [], ["pause"], ["stage"]], "inject": [{"at": 9, "req": "pause"}], "script": ["resume"], "record_interruptions": true, "tag": "ex keys"} *)
Definition exk_tapes := [(0, [TY {| mid := (Some 0); mcmd := COpenRun; mobj := None; mrun := 1 |}; TY {| mid := (Some 1); mcmd := CCheckpoint; mobj := None; mrun := 0 |}; TY {| mid := (Some 2); mcmd := (CCreate 0); mobj := None; mrun := 1 |}; TY {| mid := (Some 3); mcmd := CRead; mobj := (Some 1); mrun := 1 |}; TY {| mid := (Some 4); mcmd := CSave; mobj := None; mrun := 1 |}; TY {| mid := (Some 5); mcmd := COpenRun; mobj := None; mrun := 2 |}; TY {| mid := (Some 6); mcmd := (CCreate 0); mobj := None; mrun := 2 |}; TY {| mid := (Some 7); mcmd := CRead; mobj := (Some 1); mrun := 2 |}; TY {| mid := (Some 8); mcmd := CSave; mobj := None; mrun := 2 |}; TY {| mid := (Some 9); mcmd := (CCloseRun None RsEmpty); mobj := None; mrun := 2 |}; TY {| mid := (Some 10); mcmd := (CCreate 0); mobj := None; mrun := 1 |}; TY {| mid := (Some 11); mcmd := CRead; mobj := (Some 1); mrun := 1 |}; TY {| mid := (Some 12); mcmd := CSave; mobj := None; mrun := 1 |}; TY {| mid := (Some 13); mcmd := (CCloseRun None RsEmpty); mobj := None; mrun := 1 |}; TR (VUid 0)])].
Definition exk_ledger := [DVal (0)%Z; DVal (1)%Z; DVal (2)%Z; DVal (3)%Z].
Definition exk_paus := [2].
Definition exk_stag := [0; 3].
Definition exk_rec := true.
Definition exk_evs := [EvMain (ACall 0); EvPermit; EvTask; EvTask; EvTask; EvTask; EvTask; EvCacheDone; EvTask; EvTask; EvTask; EvTask; EvReqPause false; EvTask; EvMainDone (ACall 0); EvMain AResume; EvPermit; EvTask; EvTask; EvTask; EvTask; EvTask; EvTask; EvTask; EvCacheDone; EvTask; EvTask; EvTask; EvTask; EvTask; EvTask; EvTask; EvTask; EvTask; EvMainDone AResume].
Definition exk_obs : list obs := [(OState Idle Running); (OTask WSleep0); (OPlanIn 0 (Send VNone)); (OMsg {| mid := (Some 0); mcmd := COpenRun; mobj := None; mrun := 1 |}); (ODoc (DStart 0)); (ODoc (DDescr 0 1 [])); (OResp (RVal (VUid 0))); (OTask WSleep0); (OPlanIn 0 (Send (VUid 0))); (OMsg {| mid := (Some 1); mcmd := CCheckpoint; mobj := None; mrun := 0 |}); (OResp (RVal VNone)); (OTask WSleep0); (OPlanIn 0 (Send VNone)); (OMsg {| mid := (Some 2); mcmd := (CCreate 0); mobj := None; mrun := 1 |}); (OResp (RVal VNone)); (OTask WSleep0); (OPlanIn 0 (Send VNone)); (OMsg {| mid := (Some 3); mcmd := CRead; mobj := (Some 1); mrun := 1 |}); (ODev 1 MRead); (OTask WFuture); (OResp (RVal (VReading 1 (0)%Z))); (OTask WSleep0); (OPlanIn 0 (Send (VReading 1 (0)%Z))); (OMsg {| mid := (Some 4); mcmd := CSave; mobj := None; mrun := 1 |}); (ODoc (DDescr 0 0 [1])); (ODoc (DEvent 0 0 1 [(1, (0)%Z)])); (OResp (RVal VNone)); (OTask WSleep0); (OPlanIn 0 (Send VNone)); (OMsg {| mid := (Some 5); mcmd := COpenRun; mobj := None; mrun := 2 |}); (ODoc (DStart 1)); (ODoc (DDescr 1 1 [])); (OResp (RVal (VUid 1))); (OTask WSleep0); (OPlanIn 0 (Send (VUid 1))); (OMsg {| mid := (Some 6); mcmd := (CCreate 0); mobj := None; mrun := 2 |}); (OResp (RVal VNone)); (OTask WSleep0); (OState Running Pausing); (ODoc (DIntr 0 1)); (ODoc (DIntr 1 1)); (OReq true); (OState Pausing Paused); (OTask WFuture); (OOut OutInterrupted Paused false true); (ODoc (DIntr 0 2)); (ODoc (DIntr 1 2)); (OState Paused Running); (OTask WSleep0); (OMsg {| mid := (Some 2); mcmd := (CCreate 0); mobj := None; mrun := 1 |}); (OResp (RVal VNone)); (OTask WSleep0); (OMsg {| mid := (Some 3); mcmd := CRead; mobj := (Some 1); mrun := 1 |}); (ODev 1 MRead); (OResp (RVal (VReading 1 (1)%Z))); (OTask WSleep0); (OMsg {| mid := (Some 4); mcmd := CSave; mobj := None; mrun := 1 |}); (ODoc (DEvent 0 0 1 [(1, (1)%Z)])); (OResp (RVal VNone)); (OTask WSleep0); (OMsg {| mid := (Some 6); mcmd := (CCreate 0); mobj := None; mrun := 2 |}); (OResp (RVal VNone)); (OTask WSleep0); (OTask WSleep0); (OPlanIn 0 (Send VNone)); (OMsg {| mid := (Some 7); mcmd := CRead; mobj := (Some 1); mrun := 2 |}); (ODev 1 MRead); (OTask WFuture); (OResp (RVal (VReading 1 (2)%Z))); (OTask WSleep0); (OPlanIn 0 (Send (VReading 1 (2)%Z))); (OMsg {| mid := (Some 8); mcmd := CSave; mobj := None; mrun := 2 |}); (ODoc (DDescr 1 0 [1])); (ODoc (DEvent 1 0 1 [(1, (2)%Z)])); (OResp (RVal VNone)); (OTask WSleep0); (OPlanIn 0 (Send VNone)); (OMsg {| mid := (Some 9); mcmd := (CCloseRun None RsEmpty); mobj := None; mrun := 2 |}); (ODoc (DStop 1 XSuccess RsEmpty [(1, 2); (0, 1)])); (OResp (RVal (VUid 1))); (OTask WSleep0); (OPlanIn 0 (Send (VUid 1))); (OMsg {| mid := (Some 10); mcmd := (CCreate 0); mobj := None; mrun := 1 |}); (OResp (RVal VNone)); (OTask WSleep0); (OPlanIn 0 (Send VNone)); (OMsg {| mid := (Some 11); mcmd := CRead; mobj := (Some 1); mrun := 1 |}); (ODev 1 MRead); (OResp (RVal (VReading 1 (3)%Z))); (OTask WSleep0); (OPlanIn 0 (Send (VReading 1 (3)%Z))); (OMsg {| mid := (Some 12); mcmd := CSave; mobj := None; mrun := 1 |}); (ODoc (DEvent 0 0 2 [(1, (3)%Z)])); (OResp (RVal VNone)); (OTask WSleep0); (OPlanIn 0 (Send VNone)); (OMsg {| mid := (Some 13); mcmd := (CCloseRun None RsEmpty); mobj := None; mrun := 1 |}); (ODoc (DStop 0 XSuccess RsEmpty [(1, 2); (0, 2)])); (OResp (RVal (VUid 0))); (OTask WSleep0); (OPlanIn 0 (Send (VUid 0))); (OTask WSleep0); (OState Running Idle); (OTask WReturn); (OOut (OutReturn [0; 1]) Idle false true)].
Example C14_nonvacuous :
  let l := model_steps exk_tapes exk_ledger exk_paus exk_stag exk_rec exk_evs in
  check exk_tapes exk_ledger exk_paus exk_stag exk_rec exk_evs exk_obs = true /\ docs_ok exk_rec l = true /\
  In (DStop 1 XSuccess RsEmpty [(1, 2); (0, 1)]) (docs_of (flat_map snd l)) /\
  In (DStop 0 XSuccess RsEmpty [(1, 2); (0, 2)]) (docs_of (flat_map snd l)).
Proof. vm_compute. repeat split; auto 20. Qed.

(* the monitor keeps runs apart: an event numbered for the other run's counter is rejected *)
Example C14_monitor_rejects :
  docs_ok false [(EvTask, [ODoc (DStart 0); ODoc (DStart 1); ODoc (DDescr 0 0 [1]); ODoc (DEvent 0 0 1 []);
                           ODoc (DDescr 1 0 [1]); ODoc (DEvent 1 0 2 [])])] = false /\
  docs_ok false [(EvTask, [ODoc (DStart 0); ODoc (DStart 1); ODoc (DDescr 0 0 [1]); ODoc (DEvent 1 0 1 [])])] = false.
Proof. vm_compute. split; reflexivity. Qed.
