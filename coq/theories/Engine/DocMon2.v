(* Refined document monitor for the engine model Engine/RE.v: Engine/DocMon.v plus the checkpoint
   snapshot of the event counters.

   Per run and stream the monitor keeps, besides [s_c] (the next seq_num), [s_top] (1 + the largest
   one emitted) and [s_ex] (nothing was rolled back since the last event of the stream), the value
   [s_lo]: the next seq_num of the stream at the last `checkpoint` message that took effect (1 when
   the stream had no event then, and 1 again after `clear_checkpoint`).  Numbering discipline checked:
   - while s_ex holds an event carries exactly s_c: between two rewind points the seq_nums of a
     stream are consecutive;
   - after a rewind point (an accepted resume, a `_start_suspender`) the next event of the stream
     carries a number n with s_lo <= n <= s_c: a re-issued seq_num belongs to a data point begun after
     the last checkpoint, events saved before it keep their numbers for good, none is skipped;
   - RunStop.num_events as in DocMon.v.
   A `checkpoint` message takes effect when it is answered with a value or the task suspends in it
   (the grace sleep of a deferred pause); it has no effect when it is answered with an exception
   (IllegalMessageSequence inside an open bundle).  Everything else is DocMon.v unchanged: an
   accepted trace of this monitor is an accepted trace of DocMon.v with the same verdicts
   (Proofs/RE_DocsCor2.v).  No proofs in this file. *)
From Coq Require Import List ZArith Bool Arith.
From BV Require Import Engine.RE Engine.REInst.
From BV Require Engine.DocMon.
Import ListNotations.
Local Open Scope nat_scope.

Record sst := { s_top : nat; s_c : nat; s_ex : bool; s_lo : nat }.
Definition sst0 : sst := {| s_top := 1; s_c := 1; s_ex := true; s_lo := 1 |}.

Record rrec := { r_uid : nat; r_intr : bool; r_descs : list nat; r_streams : list (nat * sst) }.
Record mon := { m_open : list rrec; m_next : nat; m_st : rstate; m_expect : list doc; m_ck : bool; m_flag : bool; m_bad : bool }.

Definition mon0 : mon := {| m_open := []; m_next := 0; m_st := Idle; m_expect := []; m_ck := false; m_flag := false; m_bad := false |}.

Definition sget (r : rrec) (name : nat) : sst :=
  match alookup name (r_streams r) with Some x => x | None => sst0 end.

(* an event numbered n arrives on a stream *)
Definition s_event (x : sst) (n : nat) : option sst :=
  if (if s_ex x then Nat.eqb n (s_c x) else Nat.leb 1 n && Nat.leb (s_lo x) n && Nat.leb n (s_c x))
  then Some {| s_top := Nat.max (s_top x) (S n); s_c := S n; s_ex := true; s_lo := s_lo x |}
  else None.

(* num_events N reported for a stream *)
Definition s_stop_ok (x : sst) (N : nat) : bool :=
  Nat.leb (S N) (s_c x) && (if s_ex x then Nat.eqb (S N) (s_c x) else true).
Definition s_behind (x : sst) : bool := negb (s_ex x && Nat.eqb (s_c x) (s_top x)).

Definition r_new (u : nat) : rrec := {| r_uid := u; r_intr := false; r_descs := []; r_streams := [] |}.
Definition r_set_streams (r : rrec) (l : list (nat * sst)) : rrec :=
  {| r_uid := r_uid r; r_intr := r_intr r; r_descs := r_descs r; r_streams := l |}.
Definition r_add_desc (r : rrec) (name : nat) : rrec :=
  {| r_uid := r_uid r; r_intr := r_intr r; r_descs := r_descs r ++ [name]; r_streams := r_streams r |}.
Definition r_set_intr (r : rrec) : rrec :=
  {| r_uid := r_uid r; r_intr := true; r_descs := r_descs r; r_streams := r_streams r |}.

Definition r_event (name n : nat) (r : rrec) : option rrec :=
  match s_event (sget r name) n with
  | Some x => Some (r_set_streams r (aset name x (r_streams r)))
  | None => None
  end.

(* streams the RunStop must report: every described one *)
Definition r_described (r : rrec) : list nat := (if r_intr r then [INTR] else []) ++ r_descs r.
Definition r_stop_ok (r : rrec) (num : list (nat * nat)) : bool :=
  forallb (fun kv => s_stop_ok (sget r (fst kv)) (snd kv)) num
  && forallb (fun name => amem name num) (r_described r).
Definition r_behind (r : rrec) (num : list (nat * nat)) : bool :=
  existsb (fun kv => s_behind (sget r (fst kv))) num.
(* the property itself fails at this RunStop: num_events differs from the largest seq_num emitted *)
Definition r_miscount (r : rrec) (num : list (nat * nat)) : bool :=
  existsb (fun kv => negb (Nat.eqb (S (snd kv)) (s_top (sget r (fst kv))))) num.

Fixpoint on_run (u : nat) (f : rrec -> option rrec) (l : list rrec) : option (list rrec) :=
  match l with
  | [] => None
  | r :: l' => if Nat.eqb u (r_uid r) then option_map (fun r' => r' :: l') (f r)
               else option_map (cons r) (on_run u f l')
  end.

Fixpoint take_run (u : nat) (l : list rrec) : option (rrec * list rrec) :=
  match l with
  | [] => None
  | r :: l' => if Nat.eqb u (r_uid r) then Some (r, l')
               else match take_run u l' with Some (x, rest) => Some (x, r :: rest) | None => None end
  end.

Definition m_set_open (m : mon) (l : list rrec) : mon :=
  {| m_open := l; m_next := m_next m; m_st := m_st m; m_expect := m_expect m; m_ck := m_ck m; m_flag := m_flag m; m_bad := m_bad m |}.
Definition m_set_expect (m : mon) (q : list doc) : mon :=
  {| m_open := m_open m; m_next := m_next m; m_st := m_st m; m_expect := q; m_ck := m_ck m; m_flag := m_flag m; m_bad := m_bad m |}.
Definition m_set_ck (m : mon) (b : bool) : mon :=
  {| m_open := m_open m; m_next := m_next m; m_st := m_st m; m_expect := m_expect m; m_ck := b; m_flag := m_flag m; m_bad := m_bad m |}.

Definition lift_open (m : mon) (o : option (list rrec)) : option mon :=
  match o with Some l => Some (m_set_open m l) | None => None end.

(* the effect of one document on the runs (interruption records included) *)
Definition doc_effect (rec : bool) (m : mon) (d : doc) : option mon :=
  match d with
  | DStart u =>
      if Nat.eqb u (m_next m)
      then Some {| m_open := m_open m ++ [r_new u]; m_next := S u; m_st := m_st m;
                   m_expect := if rec then [DDescr u INTR []] else []; m_ck := m_ck m; m_flag := m_flag m; m_bad := m_bad m |}
      else None
  | DDescr u name _ =>
      lift_open m (on_run u (fun r => if mem_nat name (r_descs r) then None else Some (r_add_desc r name)) (m_open m))
  | DEvent u name n _ =>
      lift_open m (on_run u (fun r => if mem_nat name (r_descs r) then r_event name n r else None) (m_open m))
  | DIntr u n =>
      lift_open m (on_run u (fun r => if r_intr r then r_event INTR n r else None) (m_open m))
  | DStop u _ _ num =>
      match take_run u (m_open m) with
      | Some (r, rest) =>
          if r_stop_ok r num
          then Some {| m_open := rest; m_next := m_next m; m_st := m_st m; m_expect := m_expect m; m_ck := m_ck m;
                       m_flag := m_flag m || r_behind r num; m_bad := m_bad m || r_miscount r num |}
          else None
      | None => None
      end
  end.

(* the records a pause / suspension / resume must produce now *)
Definition intr_expect (m : mon) : list doc :=
  flat_map (fun r => if r_intr r then [DIntr (r_uid r) (s_c (sget r INTR))] else []) (m_open m).

(* a rewind point: every stream except 'interruptions' may have been rolled back *)
Definition s_weaken (kx : nat * sst) : nat * sst :=
  if Nat.eqb (fst kx) INTR then kx
  else (fst kx, {| s_top := s_top (snd kx); s_c := s_c (snd kx); s_ex := false; s_lo := s_lo (snd kx) |}).
Definition weaken (m : mon) : mon :=
  m_set_open m (map (fun r => r_set_streams r (map s_weaken (r_streams r))) (m_open m)).

(* a `checkpoint` that took effect: the snapshot of every exact stream is its next seq_num *)
Definition s_ckpt (kx : nat * sst) : nat * sst :=
  (fst kx, if s_ex (snd kx)
           then {| s_top := s_top (snd kx); s_c := s_c (snd kx); s_ex := true; s_lo := s_c (snd kx) |}
           else snd kx).
(* `clear_checkpoint`: no snapshot is left *)
Definition s_clear (kx : nat * sst) : nat * sst :=
  (fst kx, {| s_top := s_top (snd kx); s_c := s_c (snd kx); s_ex := s_ex (snd kx); s_lo := 1 |}).
Definition ckpt (m : mon) : mon :=
  m_set_open m (map (fun r => r_set_streams r (map s_ckpt (r_streams r))) (m_open m)).
Definition unckpt (m : mon) : mon :=
  m_set_open m (map (fun r => r_set_streams r (map s_clear (r_streams r))) (m_open m)).

Definition is_ckpt_msg (mm : msg) : bool := match mcmd mm with CCheckpoint => true | _ => false end.
Definition is_clear_msg (mm : msg) : bool := match mcmd mm with CClearCheckpoint => true | _ => false end.

Definition is_susp_msg (mm : msg) : bool :=
  match mcmd mm with CStartSuspender _ _ _ => true | _ => false end.

Definition mon_obs (rec : bool) (m : mon) (o : obs) : option mon :=
  match m_expect m with
  | d :: q =>
      match o with
      | ODoc d' =>
          if doc_eq_dec d' d then
            match d with
            | DDescr u _ _ => lift_open (m_set_expect m q) (on_run u (fun r => Some (r_set_intr r)) (m_open m))
            | DIntr _ _ => doc_effect rec (m_set_expect m q) d
            | _ => None
            end
          else None
      | _ => None
      end
  | [] =>
      if m_ck m then
        (* the answer to the `checkpoint` message just seen *)
        match o with
        | OResp (RVal _) | OTask WFuture => Some (m_set_ck (ckpt m) false)
        | OResp (RExn _) => Some (m_set_ck m false)
        | _ => None
        end
      else
      match o with
      | ODoc (DIntr _ _) => None
      | ODoc (DDescr _ 1 []) => None       (* the engine-made descriptor (INTR = 1) is only ever expected *)
      | ODoc d => doc_effect rec m d
      | OState a b =>
          if rstate_eqb a (m_st m) && (negb (rstate_eqb b Idle) || match m_open m with [] => true | _ => false end)
          then Some {| m_open := m_open m; m_next := m_next m; m_st := b;
                       m_expect := if rstate_eqb b Pausing then intr_expect m else []; m_ck := m_ck m; m_flag := m_flag m; m_bad := m_bad m |}
          else None
      | OMsg mm => if is_susp_msg mm then Some (m_set_expect (weaken m) (intr_expect m))
                   else if is_ckpt_msg mm then Some (m_set_ck m true)
                   else if is_clear_msg mm then Some (unckpt m)
                   else Some m
      | _ => Some m
      end
  end.

Fixpoint mon_run (rec : bool) (m : mon) (l : list obs) : option mon :=
  match l with
  | [] => Some m
  | o :: l' => match mon_obs rec m o with Some m' => mon_run rec m' l' | None => None end
  end.

(* one step of the schedule: a resume accepted by a paused engine is a rewind point and must
   produce the interruption records first; no expectation may be left at the end of a step *)
Definition mon_step (rec : bool) (m : mon) (eo : event * list obs) : option mon :=
  let m1 := match fst eo with
            | EvMain AResume => if rstate_eqb (m_st m) Paused then m_set_expect (weaken m) (intr_expect m) else m
            | _ => m
            end in
  match mon_run rec m1 (snd eo) with
  | Some m2 => match m_expect m2 with [] => if m_ck m2 then None else Some m2 | _ => None end
  | None => None
  end.

Fixpoint mon_steps (rec : bool) (m : mon) (l : list (event * list obs)) : option mon :=
  match l with
  | [] => Some m
  | eo :: l' => match mon_step rec m eo with Some m' => mon_steps rec m' l' | None => None end
  end.

(* ------------------------------------------------------------------ verdicts (the stepped trace is DocMon.run_steps) *)
Definition model_steps := DocMon.model_steps.

Definition docs_ok (rec : bool) (l : list (event * list obs)) : bool :=
  match mon_steps rec mon0 l with Some _ => true | None => false end.
Definition stopped_behind (rec : bool) (l : list (event * list obs)) : bool :=
  match mon_steps rec mon0 l with Some m => m_flag m | None => false end.
Definition miscounted (rec : bool) (l : list (event * list obs)) : bool :=
  match mon_steps rec mon0 l with Some m => m_bad m | None => false end.
