(* Proofs about Gen/Paired.v (C23): the wrapper machines produce the reference traces. *)
From Coq Require Import String.
From BV Require Import Base.Prelude Gen.Coalg Gen.PyGen Gen.Wrappers Gen.Paired Proofs.Coalg.

(* ------------------------------------------------------------------ generic facts about traces *)
Definition trace_from {X} (res : X -> input -> outcome X) (o : outcome X) (s : list input) : list obs :=
  match o with
  | Yielded m x' => OYield m :: trace res x' s
  | Returned v => [OReturn v]
  | Raised e => [ORaise e]
  | OutOfFuel => [OFuel]
  end.

Lemma trace_cons :
  forall X (res : X -> input -> outcome X) x i s, i <> Close -> trace res x (i :: s) = trace_from res (res x i) s.
Proof. intros X res x i s H. destruct i; [reflexivity|reflexivity|exfalso; apply H; reflexivity]. Qed.

Lemma plain_cons : forall i s, plain (i :: s) = true -> plain_input i = true /\ plain s = true.
Proof. intros i s H. apply andb_true_iff in H. exact H. Qed.

Lemma plain_not_close : forall i, plain_input i = true -> i <> Close.
Proof. intros [v|e|] H; cbn in H; congruence. Qed.

Section BisimTrace.
  Context {A B : Type}.
  Variable ra : A -> input -> outcome A.
  Variable rb : B -> input -> outcome B.
  Variable R : A -> B -> Prop.
  Hypothesis step : forall a b, R a b -> forall i, out_rel R (ra a i) (rb b i).

  Lemma bisim_trace : forall s a b, R a b -> trace ra a s = trace rb b s.
  Proof.
    induction s as [|i s IH]; intros a b H; [reflexivity|].
    pose proof (step a b H i) as Ho.
    destruct i as [v|e|]; cbn [trace];
      destruct (ra a _) as [m a'|v1|e1|], (rb b _) as [m' b'|v2|e2|]; cbn in Ho;
      try contradiction;
      try match type of Ho with _ /\ _ => destruct Ho as [Hm Ho] end; subst; try reflexivity.
    - f_equal. now apply IH.
    - f_equal. now apply IH.
  Qed.
End BisimTrace.

(* trace = the yields of [split], then how it ended *)
Lemma trace_split :
  forall X S (res : X -> input -> outcome X) (st : X -> input -> S) s x,
    plain s = true ->
    trace res x s =
    map OYield (fst (split res st x s)) ++
    match snd (split res st x s) with None => [] | Some (t, _, _) => [term_obs t] end.
Proof.
  induction s as [|i s IH]; intros x Hp; [reflexivity|].
  apply plain_cons in Hp as [Hi Hs].
  rewrite trace_cons by now apply plain_not_close.
  cbn [split]. destruct (res x i) as [m x'|v|e|]; cbn [trace_from]; try reflexivity.
  specialize (IH x' Hs). destruct (split res st x' s) as [ms e]. cbn [fst snd] in *. cbn [map app]. now rewrite IH.
Qed.

Lemma split_cons :
  forall X S (res : X -> input -> outcome X) (st : X -> input -> S) x i r,
    split res st x (i :: r) =
    match res x i with
    | Yielded m x' => let '(ms, e) := split res st x' r in (m :: ms, e)
    | Returned v => ([], Some (TRet v, st x i, r))
    | Raised e => ([], Some (TExc e, st x i, r))
    | OutOfFuel => ([], Some (TFuel, st x i, r))
    end.
Proof. reflexivity. Qed.

(* ------------------------------------------------------------------ body, then a follow-up plan *)
Section Seq2Proofs.
  Context {B F S : Type}.
  Variable bres : B -> input -> outcome B.
  Variable bstore : B -> input -> S.
  Variable fres : F -> input -> outcome F.
  Variable next : S -> term -> option (F * completion).

  Notation s2r := (s2_resume bres bstore fres next).

  Lemma s2_next_trace :
    forall s q c, plain s = true -> trace s2r (S2Next q c) s = next_ref fres q c s.
  Proof.
    induction s as [|i s IH]; intros q c Hp; [reflexivity|].
    apply plain_cons in Hp as [Hi Hs].
    rewrite trace_cons by now apply plain_not_close.
    unfold next_ref. cbn [split].
    assert (E : s2r (S2Next q c) i = s2_next_result c (fres q i)).
    { destruct i as [v|e|]; cbn in *; [reflexivity| |discriminate].
      apply negb_true_iff in Hi. now rewrite Hi. }
    rewrite E. destruct (fres q i) as [m q'|v|e|]; cbn [s2_next_result trace_from].
    - rewrite (IH q' c Hs). unfold next_ref. destruct (split fres no_store q' s) as [ms e]. reflexivity.
    - destruct c; reflexivity.
    - reflexivity.
    - reflexivity.
  Qed.

  (* the step in which the body terminates, followed by the rest of the script *)
  Lemma s2_after_trace :
    forall st t rest, plain rest = true ->
      trace_from s2r (s2_after fres next st t) rest =
      match next st t with
      | Some (q, c) => next_ref fres q c (Send VNone :: rest)
      | None => [term_obs t]
      end.
  Proof.
    intros st t rest Hp. unfold s2_after. destruct (next st t) as [[q c]|].
    - rewrite <- (s2_next_trace (Send VNone :: rest) q c) by exact Hp.
      rewrite trace_cons by discriminate. reflexivity.
    - destruct t; reflexivity.
  Qed.

  Theorem s2_body_trace :
    forall s b, plain s = true -> trace s2r (S2Body b) s = s2_ref bres bstore fres next b s.
  Proof.
    induction s as [|i s IH]; intros b Hp; [reflexivity|].
    apply plain_cons in Hp as [Hi Hs].
    rewrite trace_cons by now apply plain_not_close.
    assert (E : s2r (S2Body b) i = s2_body_result fres next (bstore b i) (bres b i)).
    { destruct i as [v|e|]; cbn in *; [reflexivity| |discriminate].
      apply negb_true_iff in Hi. now rewrite Hi. }
    rewrite E. unfold s2_ref. cbn [split].
    destruct (bres b i) as [m b'|v|e|]; cbn [s2_body_result].
    - cbn [trace_from]. rewrite (IH b' Hs). unfold s2_ref.
      destruct (split bres bstore b' s) as [ms e]. reflexivity.
    - rewrite s2_after_trace by exact Hs. cbn [map app]. reflexivity.
    - rewrite s2_after_trace by exact Hs. cbn [map app]. reflexivity.
    - reflexivity.
  Qed.

  Theorem s2_start_trace :
    forall s b, plain s = true ->
      trace s2r (S2Start b) (Send VNone :: s) = s2_ref bres bstore fres next b (Send VNone :: s).
  Proof.
    intros s b Hp. rewrite <- (s2_body_trace (Send VNone :: s) b) by exact Hp. reflexivity.
  Qed.
End Seq2Proofs.

(* ------------------------------------------------------------------ return (yield from X) *)
Section DelegProofs.
  Context {X : Type}.
  Variable xres : X -> input -> outcome X.

  Lemma d_run_trace : forall s x, plain s = true -> trace (d_resume xres) (DRun x) s = trace xres x s.
  Proof.
    induction s as [|i s IH]; intros x Hp; [reflexivity|].
    apply plain_cons in Hp as [Hi Hs].
    rewrite !trace_cons by now apply plain_not_close.
    assert (E : d_resume xres (DRun x) i = map_outcome DRun (xres x i)).
    { destruct i as [v|e|]; cbn in *; [reflexivity| |discriminate].
      apply negb_true_iff in Hi. now rewrite Hi. }
    rewrite E. destruct (xres x i); cbn; try reflexivity. now rewrite IH.
  Qed.

  Lemma d_start_trace :
    forall s x, plain s = true -> trace (d_resume xres) (DStart x) (Send VNone :: s) = trace xres x (Send VNone :: s).
  Proof.
    intros s x Hp. rewrite !trace_cons by discriminate. cbn [d_resume].
    destruct (xres x (Send VNone)); cbn; try reflexivity. now rewrite d_run_trace.
  Qed.
End DelegProofs.

(* ------------------------------------------------------------------ C22's machine is this machine *)
Ltac cw_tac hres :=
  repeat (cbn; rewrite ?andb_false_r, ?andb_true_r, ?orb_true_r, ?orb_false_r;
          match goal with
          | H : hres ?a ?b = _ |- context [hres ?a ?b] => rewrite H
          | |- context [match hres ?a ?b with _ => _ end] => destruct (hres a b) eqn:?
          | |- context [if is_GeneratorExit ?e then _ else _] => destruct (is_GeneratorExit e) eqn:?
          | |- context [if is_Exception ?e then _ else _] => destruct (is_Exception e) eqn:?
          | |- context [if ?b then _ else _] => is_var b; destruct b
          end);
  cbn; repeat split; try reflexivity; try constructor.

(* finalize_wrapper (pause_for_debug = False) with a fixed final plan; the store is not looked at *)
Section CwFinalize.
  Context {P S : Type}.
  Variable hres : P -> input -> outcome P.
  Variable bstore : P -> input -> S.
  Variable bh : bool.
  Variable e1 e2 : nat.
  Variable excp : exn -> P.
  Variable elsep finp : P.

  Notation cw := (cw_resume hres true (finalize_opts false) bh e1 e2 1 excp elsep finp).
  Notation s2f := (s2_resume hres bstore hres (fw_next (fun _ : S => finp))).

  Inductive Rfin : @phase P -> @s2 P P -> Prop :=
    | Rf_start p : Rfin (PhStart p) (S2Start p)
    | Rf_body p : Rfin (PhBody p) (S2Body p)
    | Rf_ret q v : Rfin (PhFinal q (CRet v)) (S2Next q (CRet v))
    | Rf_exc q e : Rfin (PhFinal q (CExc e)) (S2Next q (CExc e)).

  Lemma cw_finalize_step : forall a b, Rfin a b -> forall i, out_rel Rfin (cw a i) (s2f b i).
  Proof.
    intros a b H i. unfold cw_resume.
    destruct H; destruct i as [[|z]|e'|];
      unfold cw_lresume, s2_resume, close_delegate, s2_close_body, s2_close_next, body_result, s2_body_result,
        after_return, after_raise, handle, s2_after, fw_next, enter_final, final_result, s2_next_result, finish,
        finalize_opts, close_result, compl_outcome, term_outcome;
      cw_tac hres.
  Qed.

  Theorem cw_finalize_trace : forall s p, trace cw (PhStart p) s = trace s2f (S2Start p) s.
  Proof. intros s p. apply (bisim_trace _ _ Rfin cw_finalize_step). constructor. Qed.
End CwFinalize.

(* contingency_wrapper(plan, except_plan=f, else_plan=g) with auto_raise, no final plan, no debugging pause *)
Definition cw_run_next {P} (excp : exn -> P) (elsep : P) (_ : unit) (t : term) : option (P * completion) :=
  match t with
  | TRet v => Some (elsep, CRet v)
  | TExc e =>
      if is_GeneratorExit e then None
      else if is_Exception e then Some (excp e, CExc e) else None
  | TFuel => None
  end.

Section CwRun.
  Context {P : Type}.
  Variable hres : P -> input -> outcome P.
  Variable excp : exn -> P.
  Variable elsep finp : P.

  Notation cw := (cw_resume hres true (mkOpts true true false true false) false 1 2 3 excp elsep finp).
  Notation s2c := (s2_resume hres no_store hres (cw_run_next excp elsep)).

  Inductive Rrun : @phase P -> @s2 P P -> Prop :=
    | Rr_start p : Rrun (PhStart p) (S2Start p)
    | Rr_body p : Rrun (PhBody p) (S2Body p)
    | Rr_exc q e : Rrun (PhExcept q e) (S2Next q (CExc e))
    | Rr_else q v : Rrun (PhElse q v) (S2Next q (CRet v)).

  Lemma cw_run_step : forall a b, Rrun a b -> forall i, out_rel Rrun (cw a i) (s2c b i).
  Proof.
    intros a b H i. unfold cw_resume.
    destruct H; destruct i as [[|z]|e'|];
      unfold cw_lresume, s2_resume, close_delegate, s2_close_body, s2_close_next, body_result, s2_body_result,
        after_return, after_raise, handle, s2_after, cw_run_next, enter_final, final_result, s2_next_result, finish,
        except_result, else_result, close_result, compl_outcome, term_outcome, no_store;
      cw_tac hres.
  Qed.

  Theorem cw_run_trace : forall s ph b, Rrun ph b -> trace cw ph s = trace s2c b s.
  Proof. intros s ph b H. now apply (bisim_trace _ _ Rrun cw_run_step). Qed.
End CwRun.

(* ------------------------------------------------------------------ split through an embedding of states *)
Lemma split_map :
  forall X Y S (rx : X -> input -> outcome X) (ry : Y -> input -> outcome Y) (f : X -> Y)
         (stx : X -> input -> S) (sty : Y -> input -> S),
    (forall x i, ry (f x) i = map_outcome f (rx x i)) -> (forall x i, sty (f x) i = stx x i) ->
    forall s x, split ry sty (f x) s = split rx stx x s.
Proof.
  intros X Y S rx ry f stx sty Hr Hs. induction s as [|i s IH]; intros x; [reflexivity|].
  cbn [split]. rewrite Hr, Hs. destruct (rx x i); cbn [map_outcome]; try reflexivity. now rewrite IH.
Qed.

(* ------------------------------------------------------------------ prefix; plan *)
Section PPProofs.
  Context {P : Type}.
  Variable resume : P -> input -> outcome P.
  Variable is_status : val -> bool.

  Notation pp := (pp_resume resume is_status).
  Notation lp := (lp_resume is_status).

  Lemma pp_split_plan :
    forall s acc p, plain s = true ->
      split pp pp_store (PPPlan acc p) s =
      (fst (split resume no_store p s), retag acc (snd (split resume no_store p s))).
  Proof.
    induction s as [|i s IH]; intros acc p Hp; [reflexivity|].
    apply plain_cons in Hp as [Hi Hs]. cbn [split].
    assert (E : pp (PPPlan acc p) i = map_outcome (PPPlan acc) (resume p i)).
    { destruct i as [v|e|]; cbn in *; [reflexivity| |discriminate].
      apply negb_true_iff in Hi. now rewrite Hi. }
    rewrite E. destruct (resume p i) as [m p'|v|e|]; cbn [map_outcome pp_store]; try reflexivity.
    rewrite (IH acc p' Hs). destruct (split resume no_store p' s) as [ms e]. reflexivity.
  Qed.

  Notation pp_pre_spec := (body_ref resume is_status).

  Lemma pp_pre_spec_cons :
    forall l p i s,
      pp_pre_spec l p (i :: s) =
      match lp l i with
      | Yielded m l' => let '(ms, e) := pp_pre_spec l' p s in (m :: ms, e)
      | Returned _ =>
          let '(ms2, e2) := split resume no_store p (Send VNone :: s) in (ms2, retag (lp_store l i) e2)
      | Raised e => ([], Some (TExc e, lp_store l i, s))
      | OutOfFuel => ([], Some (TFuel, lp_store l i, s))
      end.
  Proof.
    intros l p i s. unfold body_ref, lp_split. rewrite (split_cons _ _ lp lp_store l i s).
    destruct (lp l i) as [m l'|v|e|]; try reflexivity.
    destruct (split lp lp_store l' s) as [ms1 [[[t acc] rest]|]]; [|reflexivity].
    destruct t; try reflexivity.
    destruct (split resume no_store p (Send VNone :: rest)). reflexivity.
  Qed.

  Lemma pp_split_pre :
    forall s l p, plain s = true -> split pp pp_store (PPPre l p) s = pp_pre_spec l p s.
  Proof.
    induction s as [|i s IH]; intros l p Hp; [reflexivity|].
    apply plain_cons in Hp as [Hi Hs]. rewrite pp_pre_spec_cons, split_cons.
    assert (E : pp (PPPre l p) i = pp_pre_result resume (lp l i) (lp_store l i) p).
    { destruct i as [v|e|]; cbn in *; [reflexivity| |discriminate].
      destruct l; reflexivity. }
    rewrite E.
    destruct (lp l i) as [m l'|v|e|]; cbn [pp_pre_result pp_store].
    - now rewrite (IH l' p Hs).
    - (* the prefix is done: the plan starts in the same step *)
      change (pp_plan_result (lp_store l i) (resume p (Send VNone)))
        with (map_outcome (PPPlan (lp_store l i)) (resume p (Send VNone))).
      rewrite split_cons.
      destruct (resume p (Send VNone)) as [m p'|w|e|]; cbn [map_outcome]; try reflexivity.
      rewrite (pp_split_plan s (lp_store l i) p' Hs).
      destruct (split resume no_store p' s) as [ms e]. reflexivity.
    - reflexivity.
    - reflexivity.
  Qed.

  Lemma pp_split_start :
    forall s l p, plain s = true ->
      split pp pp_store (PPStart l p) (Send VNone :: s) = pp_pre_spec l p (Send VNone :: s).
  Proof.
    intros s l p Hp. rewrite <- (pp_split_pre (Send VNone :: s) l p) by exact Hp. reflexivity.
  Qed.
End PPProofs.
