(* C44 - peak statistics describe the data they were given.
   Model: Pure/PeakStats.v (PeakStats._calc_stats + center_of_mass).  Arithmetic: exact rationals.
   Entries of  combine ys (combine x y)  are (subtracted y_i, (x_i, original y_i)). *)
From Coq Require Import ZArith QArith Qabs List.
From BV Require Import Base.Prelude Base.OrdField Pure.PeakStats Proofs.PeakStats.

(* min / max are (x_i, y_i) at the FIRST index minimising / maximising the (background-subtracted) y *)
Theorem C44_min_max :
  forall x y ec s, calc_stats QO x y ec = Done s ->
  exists ys lb, background QO x y ec = Done (ys, lb) /\ length ys = length x /\
    (exists pre e post, combine ys (combine x y) = pre ++ e :: post /\ st_min s = snd e /\
       (forall u, In u pre -> fst e < fst u) /\ (forall u, In u post -> fst e <= fst u)) /\
    (exists pre e post, combine ys (combine x y) = pre ++ e :: post /\ st_max s = snd e /\
       (forall u, In u pre -> fst u < fst e) /\ (forall u, In u post -> fst u <= fst e)).
Proof. exact min_max_spec. Qed.
Print Assumptions C44_min_max.

(* one crossing for every adjacent sample pair lying on different sides of mid = (max + min)/2, in order,
   and it lies between the two x of that pair *)
Theorem C44_crossings :
  forall x y ec s, adj_distinct x -> calc_stats QO x y ec = Done s ->
  exists ys lb vmax vmin,
    background QO x y ec = Done (ys, lb) /\ In vmax ys /\ In vmin ys /\
    (forall v, In v ys -> vmin <= v <= vmax) /\
    Forall2 (fun pr c => between (fst (fst pr)) (fst (snd pr)) c)
            (filter (straddle ((vmax + vmin) / 2)) (adj (combine x ys))) (st_crossings s).
Proof. exact crossings_thm. Qed.
Print Assumptions C44_crossings.

(* cen is the mean of the crossings and lies within the x range; fwhm = |last - first| *)
Theorem C44_cen_fwhm :
  forall x y ec s, adj_distinct x -> calc_stats QO x y ec = Done s ->
  let cs := st_crossings s in
  (cs = [] -> st_cen s = None) /\
  (cs <> [] -> exists c, st_cen s = Some c /\ c == qmean cs /\ in_hull x c) /\
  (forall c0 mid cl, cs = c0 :: mid ++ [cl] -> st_fwhm s = Some (Qabs (cl - c0))) /\
  ((length cs < 2)%nat -> st_fwhm s = None).
Proof. exact cen_fwhm_thm. Qed.
Print Assumptions C44_cen_fwhm.

(* outside finding class C44-a the centre of mass is a number within the x range (any x, any y) *)
Theorem C44_com_in_range :
  forall x y ec s, calc_stats QO x y ec = Done s -> finding_a QO x y ec = false ->
  exists c, st_com s = ComVal c /\ in_hull x c.
Proof. exact com_in_range. Qed.
Print Assumptions C44_com_in_range.

(* the fuel given to the pairwise summation is always enough (any instance, floats included), and only
   empty / ragged input is rejected *)
Theorem C44_fuel_sufficient :
  forall (F : Type) (O : Ops F) x y ec,
    calc_stats O x y ec <> OutOfFuel /\
    (x <> [] -> length x = length y -> calc_stats O x y ec <> BadInput).
Proof. exact @calc_stats_total. Qed.
Print Assumptions C44_fuel_sufficient.

(* strictly monotone x and 1 <= edge_count < n: statistics are always produced (never Degenerate) *)
Theorem C44_stats_produced :
  forall x y k, strict_mono x -> (1 <= k < length x)%nat -> length x = length y ->
  exists s, calc_stats QO x y (Some k) = Done s.
Proof. exact stats_produced. Qed.
Print Assumptions C44_stats_produced.

(* what is subtracted: the line through (mean x, mean y) of the first and of the last k samples *)
Theorem C44_background :
  forall x y k ys lb, background QO x y (Some k) = Done (ys, lb) ->
  exists m b, lb = Some (m, b) /\
    let lx := qmean (firstn k x) in let ly := qmean (firstn k y) in
    let rx := qmean (skipn (length x - k) x) in let ry := qmean (skipn (length x - k) y) in
    ~ rx == lx /\ m == (ry - ly) / (rx - lx) /\ b == ly - m * lx /\
    ys = map (fun p => snd p - (m * fst p + b)) (combine x y).
Proof. exact background_spec. Qed.
Print Assumptions C44_background.

(* the finding class in words: >= 2 samples and sum(y) = sum(i * y) = 0 on the subtracted data *)
Theorem C44_finding_a_class :
  forall x y ec, finding_a QO x y ec = true <->
  (2 <= length x)%nat /\ length x = length y /\
  exists ys lb, background QO x y ec = Done (ys, lb) /\ qsum ys == 0 /\ qwsum 0 ys == 0.
Proof. exact finding_a_spec. Qed.
Print Assumptions C44_finding_a_class.

(* finding C44-a: inside the class the reported centre of mass is NaN although x is strictly monotone
   and y finite (witness: flat signal, edge_count = 1) *)
Theorem C44_a_refuted :
  exists x y ec s, strict_mono x /\ length x = length y /\ finding_a QO x y ec = true /\
                   calc_stats QO x y ec = Done s /\ st_com s = ComNaN.
Proof. exact a_refuted. Qed.
Print Assumptions C44_a_refuted.

Lemma C44_strict_mono_suffices : forall x, strict_mono x -> adj_distinct x.
Proof. exact strict_mono_adj_distinct. Qed.

(* ---- the hypotheses are met by a concrete non-trivial input: a peak with two crossings *)
Example C44_nonvacuous :
  let x := [0; 1; 2; 3; 4] in let y := [0; 1; 4; 1; 0] in
  match calc_stats QO x y None, calc_stats QO x y (Some 1%nat) with
  | Done s, Done s' =>
      (length (st_crossings s) =? 2)%nat && (length (st_crossings s') =? 2)%nat
      && negb (finding_a QO x y None) && negb (finding_a QO x y (Some 1%nat))
      && match st_com s with ComVal c => Qeq_bool c 2 | ComNaN => false end
      && match st_fwhm s with Some w => Qeq_bool w (4 # 3) | None => false end
  | _, _ => false
  end = true.
Proof. vm_compute. reflexivity. Qed.

Example C44_nonvacuous_mono : strict_mono [0; 1; 2; 3; 4].
Proof.
  left. intros a b H. cbn in H.
  destruct H as [H|[H|[H|[H|[]]]]]; inversion H; subst; reflexivity.
Qed.
