(* binary64 instance of Ops, used only by generated correspondence cases (never by a theorem). *)
From Coq Require Import PrimFloat Uint63 ZArith List Bool.
From BV Require Import Base.OrdFieldS.

Definition float_of_nat (n : nat) : float := of_uint63 (Uint63.of_Z (Z.of_nat n)).

Definition FOps : Ops float := {|
  o_zero := 0%float;
  o_add := PrimFloat.add; o_sub := PrimFloat.sub; o_mul := PrimFloat.mul; o_div := PrimFloat.div;
  o_of_nat := float_of_nat;
  o_eqb := PrimFloat.eqb;
  o_ltb := PrimFloat.ltb
|}.

(* bit-level equality of two binary64 values (all NaNs identified): what float.hex() compares *)
Definition fbits_eqb (x y : float) : bool :=
  if is_nan x then is_nan y
  else if is_nan y then false
  else PrimFloat.eqb x y && Bool.eqb (get_sign x) (get_sign y).
