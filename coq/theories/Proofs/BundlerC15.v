(* Proofs for C15 (events contain exactly the readings bundled between create and save; guards). *)
From BV Require Import Base.Prelude Engine.Bundler Engine.BundlerSpec Proofs.BundlerFrame.
From Coq Require Import ZArith List Bool Lia Btauto.
Import ListNotations.

(* ------------------------------------------------------------------ guards: direct computation *)
Lemma checkpoint_while_bundling E s : b_bundling s = true ->
  step E s OCheckpoint = (clear_buffers s, [], RErr EIllegalMessageSequence).
Proof. intros H. unfold step. cbn. unfold checkpoint, bind, get, guard. cbn. rewrite H. reflexivity. Qed.

Lemma configure_while_bundling E s o v : b_bundling s = true ->
  step E s (OConfigure o v) = (clear_buffers s, [], RErr EIllegalMessageSequence).
Proof. intros H. unfold step. cbn. unfold configure, bind, get, guard. cbn. rewrite H. reflexivity. Qed.

Lemma create_while_bundling E s kw args : b_bundling s = true ->
  step E s (OCreate kw args) = (clear_buffers s, [], RErr EIllegalMessageSequence).
Proof. intros H. unfold step. cbn. unfold create, bind, get, guard. cbn. rewrite H. reflexivity. Qed.

Lemma save_without_create E s : b_bundling s = false ->
  step E s OSave = (clear_buffers s, [], RErr EIllegalMessageSequence).
Proof. intros H. unfold step. cbn. unfold save, bind, get, guard. cbn. rewrite H. reflexivity. Qed.

Lemma drop_without_create E s : b_bundling s = false ->
  step E s ODrop = (clear_buffers s, [], RErr EIllegalMessageSequence).
Proof. intros H. unfold step. cbn. unfold drop, bind, get, guard. cbn. rewrite H. reflexivity. Qed.

(* drop and a save with nothing read: nothing emitted, only the bundle is closed *)
Lemma drop_ok E s : b_bundling s = true ->
  step E s ODrop = (set_b_bundle_name None (set_b_bundling false (clear_buffers s)), [], ROk).
Proof. intros H. unfold step. cbn. unfold drop, bind, get, guard, modify. cbn. rewrite H. reflexivity. Qed.

Lemma save_empty E s : b_bundling s = true -> b_objs_read s = [] ->
  step E s OSave = (set_b_bundle_name None (set_b_bundling false (clear_buffers s)), [], ROk).
Proof.
  intros H H0. unfold step. cbn. unfold save, bind, get, guard, modify. cbn. rewrite H. cbn. rewrite H0. reflexivity.
Qed.

(* a reading taken while no bundle is open is not recorded anywhere *)
Lemma read_outside_bundle E s o r a : b_bundling s = false ->
  step E s (ORead o r a) = (clear_buffers s, [], ROk).
Proof. intros H. unfold step. cbn. unfold read, bind, get. cbn. rewrite H. reflexivity. Qed.

(* ------------------------------------------------------------------ the bundle invariant *)

(* modify-goals for an invariant over fields the modification does not touch *)
Ltac inv_untouched := let H := fresh in intro H; exact H.

Lemma pairwise_disjoint_snoc l c :
  pairwise_disjoint (l ++ [c]) = pairwise_disjoint l && forallb (fun x => disjointb x c) l.
Proof.
  induction l as [|x l IH]; [reflexivity|].
  change ((x :: l) ++ [c]) with (x :: (l ++ [c])).
  cbn [pairwise_disjoint forallb].
  rewrite forallb_app, IH. cbn [forallb]. unfold key in *. btauto.
Qed.

Lemma binv_cache_describe E o : rel (inv_pre (bundle_inv E)) (cache_describe E o).
Proof.
  intros s. unfold cache_describe, bind, guard, call, modify. destruct (dv_readable (E o)); cbn; [|auto].
  unfold bundle_inv, cache_ok; cbn.
  intros (H1 & H2 & H3 & H4). repeat split; auto.
  - intros o' dk. rewrite dget_dset. destruct (Nat.eqb o o') eqn:Eo.
    + apply Nat.eqb_eq in Eo; subst. intros H; inversion H; reflexivity.
    + apply H1.
  - intros o' Hin. rewrite dmem_dset. rewrite (H3 o' Hin). apply orb_true_r.
Qed.
#[export] Hint Resolve binv_cache_describe : rel_db.

Lemma binv_ensure_cached E o c : rel (inv_pre (bundle_inv E)) (ensure_cached E o c).
Proof. unfold ensure_cached. rel_go inv_untouched. Qed.
#[export] Hint Resolve binv_ensure_cached : rel_db.

Lemma binv_ensure_all E l c : rel (inv_pre (bundle_inv E)) (ensure_cached_all E l c).
Proof. rel_fix inv_untouched l. Qed.
Lemma binv_pack_loop E nm d l acc : rel (inv_pre (bundle_inv E)) (pack_loop nm d l acc).
Proof. revert acc. induction l; intro acc; cbn -[bind ret]; rel_go inv_untouched. Qed.
Lemma binv_collect_all E l i : rel (inv_pre (bundle_inv E)) (collect_all_assets E l i).
Proof. rel_fix inv_untouched l. Qed.
#[export] Hint Resolve binv_ensure_all binv_pack_loop binv_collect_all : rel_db.

Lemma binv_create E kw args : rel (inv_pre (bundle_inv E)) (create kw args).
Proof.
  intros s I. unfold create. rewrite bind_get_eq, bind_guard_eq.
  destruct (negb (b_bundling s)); cbn [fst]; [|exact I].
  rewrite bind_modify_eq.
  match goal with |- bundle_inv E (fst (?m ?s0)) =>
    assert (R : rel (inv_pre (bundle_inv E)) m) by (rel_go inv_untouched); apply (R s0) end.
  destruct I as (H1 & _). unfold bundle_inv, cache_ok. cbn. repeat split; auto; intros o [].
Qed.

(* check_collisions does not move the state; it succeeds iff every earlier object is cached and disjoint *)
Lemma check_collisions_state cache cur l s : fst (check_collisions cache cur l s) = s.
Proof.
  unfold check_collisions. apply iterM_pure. intros x s0. unfold bind.
  destruct (dget cache x); cbn; [|reflexivity]. destruct (disjointb _ _); reflexivity.
Qed.
Lemma check_collisions_ok cache cur l s s' :
  check_collisions cache cur l s = (s', Ok tt) ->
  forallb (fun ro => match dget cache ro with Some known => disjointb (dkeys known) (dkeys cur) | None => false end) l = true.
Proof.
  unfold check_collisions. revert s. induction l as [|x l IH]; intros s; cbn -[bind]; [reflexivity|].
  intros H. apply bind_ok in H. destruct H as (a & s1 & H1 & H2).
  apply bind_ok in H1. destruct H1 as (known & s2 & H3 & H4).
  apply of_opt_ok in H3. destruct H3 as [-> Hk]. apply guard_ok in H4. destruct H4 as [-> Hd].
  rewrite Hk, Hd. cbn. eapply IH; eauto.
Qed.

Lemma binv_read E o r a : rel (inv_pre (bundle_inv E)) (read E o r a).
Proof.
  intros s I. unfold read. rewrite bind_get_eq. destruct (b_bundling s); [|exact I].
  unfold bind at 1. pose proof (binv_ensure_cached E o false s I) as I1.
  destruct (ensure_cached E o false s) as [s1 [[]|e]]; cbn [fst] in *; [|exact I1].
  rewrite bind_get_eq, bind_of_opt_eq.
  destruct (dget (b_desc_cache s1) o) as [cur|] eqn:Ecur; cbn [fst]; [|exact I1].
  unfold bind at 1.
  pose proof (check_collisions_state (b_desc_cache s1) cur (b_objs_read s1) s1) as Hst.
  destruct (check_collisions (b_desc_cache s1) cur (b_objs_read s1) s1) as [s2 [[]|e]] eqn:Ecc;
    cbn [fst] in Hst; subst s2; [|exact I1].
  apply check_collisions_ok in Ecc.
  rewrite bind_modify_eq.
  match goal with |- bundle_inv E (fst (?m ?s0)) =>
    assert (R : rel (inv_pre (bundle_inv E)) m) by (rel_go inv_untouched); apply (R s0) end.
  destruct I1 as (H1 & H2 & H3 & H4). unfold bundle_inv, cache_ok. cbn.
  repeat split; auto.
  - rewrite !app_length, H2. reflexivity.
  - intros o' Hin. apply in_app_or in Hin. destruct Hin as [Hin|[<-|[]]]; [auto|].
    unfold dmem. rewrite Ecur. reflexivity.
  - rewrite map_app. cbn. rewrite pairwise_disjoint_snoc, H4. cbn.
    rewrite forallb_forall. intros ks Hin. apply in_map_iff in Hin. destruct Hin as (o' & <- & Hin).
    rewrite forallb_forall in Ecc. specialize (Ecc o' Hin).
    specialize (H3 o' Hin). unfold dmem in H3. destruct (dget (b_desc_cache s1) o') as [known|] eqn:Ek; [|discriminate].
    unfold describe_keys. rewrite <- (H1 _ _ Ek), <- (H1 _ _ Ecur). exact Ecc.
Qed.

Lemma binv_exec E o : rel (inv_pre (bundle_inv E)) (exec E o).
Proof.
  destruct o; cbn [exec]; try apply binv_create; try apply binv_read; rel_go inv_untouched.
Qed.

Lemma bundle_inv_init E st ri : bundle_inv E (init st ri).
Proof. unfold bundle_inv, cache_ok; cbn. repeat split; auto. intros ? ? H; discriminate. Qed.

Lemma bundle_inv_clear E s : bundle_inv E s -> bundle_inv E (clear_buffers s).
Proof. intro H; exact H. Qed.

Lemma bundle_inv_reachable E s tr : reachable E s tr -> bundle_inv E s.
Proof.
  intros (st & ri & h & -> & _).
  apply (reach_ind (fun s _ => bundle_inv E s)).
  - apply bundle_inv_init.
  - intros s tr0 o I. unfold step. cbn [fst]. apply binv_exec. apply bundle_inv_clear. exact I.
Qed.

(* ------------------------------------------------------------------ descriptors: registered => emitted; save *)

(* ---- frames *)
Definition descr_out_frame : preorder.
Proof.
  refine (mkPre (fun s s' => b_descriptors s' = b_descriptors s /\ b_out s' = b_out s /\
                             b_bundling s' = b_bundling s) _ _).
  - auto.
  - intros a b c (H1 & H2 & H5) (H3 & H4 & H6); repeat split; congruence.
Defined.
Ltac dof := cbn; auto.

Definition out_ext_noev : preorder.
Proof.
  refine (mkPre (fun s s' => exists l, b_out s' = b_out s ++ l /\ no_event l) _ _).
  - intros s. exists []. rewrite app_nil_r. split; reflexivity.
  - intros a b c (l1 & H1 & N1) (l2 & H2 & N2). exists (l1 ++ l2). rewrite H2, H1, app_assoc. split; [reflexivity|].
    unfold no_event in *. rewrite forallb_app, N1, N2. reflexivity.
Defined.

(* compose_descriptor only touches the counters, the stream table and the uid supply *)
Definition cd_norm (s : bstate) : bstate := set_b_seq [] (set_b_streams [] (set_b_next_uid 0 s)).
Definition cd_frame : preorder.
Proof.
  refine (mkPre (fun s s' => cd_norm s' = cd_norm s) _ _); [auto | intros a b c H1 H2; congruence].
Defined.
Lemma cdf_compose_descriptor u nm dk ok cfg : rel cd_frame (compose_descriptor u nm dk ok cfg).
Proof. unfold compose_descriptor. rel_go reflexivity. Qed.
Lemma cd_norm_fields s s' : cd_norm s' = cd_norm s ->
  b_descriptors s' = b_descriptors s /\ b_out s' = b_out s /\ b_descriptor_objs s' = b_descriptor_objs s /\
  b_cfgval_cache s' = b_cfgval_cache s /\ b_desc_cache s' = b_desc_cache s /\ b_run_uid s' = b_run_uid s /\
  b_seq_copy s' = b_seq_copy s /\ b_bundling s' = b_bundling s /\ b_objs_read s' = b_objs_read s /\
  b_read_cache s' = b_read_cache s /\ b_asset_cache s' = b_asset_cache s /\ b_sres_keys s' = b_sres_keys s.
Proof.
  intros H.
  repeat split;
    [ apply (f_equal b_descriptors) in H | apply (f_equal b_out) in H | apply (f_equal b_descriptor_objs) in H
    | apply (f_equal b_cfgval_cache) in H | apply (f_equal b_desc_cache) in H | apply (f_equal b_run_uid) in H
    | apply (f_equal b_seq_copy) in H | apply (f_equal b_bundling) in H | apply (f_equal b_objs_read) in H
    | apply (f_equal b_read_cache) in H | apply (f_equal b_asset_cache) in H | apply (f_equal b_sres_keys) in H ];
    exact H.
Qed.

Lemma compose_descriptor_ok u nm dk ok cfg s s' d :
  compose_descriptor u nm dk ok cfg s = (s', Ok d) ->
  de_name d = nm /\ de_keys d = dk /\ de_objkeys d = ok /\ de_cfg d = cfg /\
  b_run_uid s = Some (de_run d) /\
  de_uid d = match u with Some x => x | None => UGen (b_next_uid s) end.
Proof.
  unfold compose_descriptor. intros H. minv. cbn. repeat split; auto.
  destruct u; [minv; reflexivity | unfold fresh_uid in *; minv; reflexivity].
Qed.

(* the loop of _prepare_stream over the objects only looks things up *)
Lemma prepare_loop_state (od : dict dks) s :
  fst (iterM (fun od0 : obj * dks =>
           bind get (fun s => bind (of_opt (dget (b_cfgval_cache s) (fst od0)) EKeyError)
             (fun _ => guard (nmem (fst od0) (b_cfgdesc_cache s)) EKeyError))) od s) = s.
Proof.
  apply iterM_pure. intros x s0. rewrite bind_get_eq, bind_of_opt_eq.
  destruct (dget _ _); [|reflexivity]. destruct (nmem _ _); reflexivity.
Qed.

Lemma prepare_stream_spec nm od s s' r :
  prepare_stream nm od s = (s', r) ->
  match r with
  | Ok d => de_name d = nm /\ de_keys d = stream_data_keys od /\
            de_objkeys d = stream_objkeys od /\ de_cfg d = stream_cfg (b_cfgval_cache s) od /\
            b_run_uid s = Some (de_run d) /\ de_uid d = UGen (b_next_uid s) /\
            b_descriptors s' = dset (b_descriptors s) nm d /\ b_out s' = b_out s ++ [DDescr d] /\
            b_descriptor_objs s' = dset (b_descriptor_objs s) nm od /\ b_bundling s' = b_bundling s
  | Err _ => b_descriptors s' = b_descriptors s /\ b_out s' = b_out s
  end.
Proof.
  unfold prepare_stream. unfold bind at 1.
  pose proof (prepare_loop_state od s) as Hl.
  match goal with |- context [iterM ?f od s] => destruct (iterM f od s) as [s1 [[]|e]] end;
    cbn [fst] in Hl; subst s1.
  2:{ intros H; inversion H; subst. auto. }
  rewrite bind_get_eq. unfold bind at 1.
  pose proof (cdf_compose_descriptor None nm (stream_data_keys od) (stream_objkeys od)
                (stream_cfg (b_cfgval_cache s) od) s) as Hf.
  destruct (compose_descriptor None nm (stream_data_keys od) (stream_objkeys od)
              (stream_cfg (b_cfgval_cache s) od) s) as [s2 [d|e]] eqn:Hcd; cbn [fst pr_R cd_frame] in Hf;
    apply cd_norm_fields in Hf; destruct Hf as (F1 & F2 & F3 & _ & _ & _ & _ & F4 & _).
  2:{ intros H; inversion H; subst. auto. }
  apply compose_descriptor_ok in Hcd. destruct Hcd as (D1 & D2 & D3 & D4 & D5 & D6).
  rewrite !bind_modify_eq. unfold emit. rewrite !bind_modify_eq. unfold ret.
  intros H; inversion H; subst s' r; clear H. cbn.
  rewrite F1, F2, F3, F4. repeat split; auto.
Qed.

Lemma dget_ddel_eq {V} (d : dict V) k : dget (ddel d k) k = None.
Proof.
  induction d as [|[k0 v0] d IH]; cbn; [reflexivity|].
  destruct (Nat.eqb k k0) eqn:Ek; cbn; [exact IH | rewrite Ek; exact IH].
Qed.
Lemma dget_ddel_some {V} (d : dict V) k k' v : dget (ddel d k) k' = Some v -> dget d k' = Some v.
Proof.
  destruct (Nat.eqb k k') eqn:Ekk.
  - apply Nat.eqb_eq in Ekk; subst. rewrite dget_ddel_eq. discriminate.
  - induction d as [|[k0 v0] d IH]; cbn; [auto|].
    destruct (Nat.eqb k k0) eqn:Ek; cbn.
    + apply Nat.eqb_eq in Ek; subst k0. rewrite Nat.eqb_sym, Ekk. exact IH.
    + destruct (Nat.eqb k' k0); auto.
Qed.

(* ---- the descriptor invariant is kept by every op *)
Ltac dinv_mod :=
  first
    [ inv_untouched
    | (* emit *) let H := fresh in intros H nm0 d0 Hg; cbn in *; destruct (H nm0 d0 Hg) as [? Hin]; split; [assumption|];
      rewrite app_assoc; apply in_or_app; left; exact Hin
    | (* del *) let H := fresh in intros H nm0 d0 Hg; cbn in *; apply dget_ddel_some in Hg; exact (H nm0 d0 Hg) ].

Lemma dinv_prepare_stream tr nm od : rel (inv_pre (descr_inv tr)) (prepare_stream nm od).
Proof.
  intros s I. destruct (prepare_stream nm od s) as [s' r] eqn:H. apply prepare_stream_spec in H. cbn [fst].
  destruct r as [d|e].
  - destruct H as (D1 & _ & _ & _ & _ & _ & F1 & F2 & _ & _). intros n d0. rewrite F1, F2, dget_dset.
    destruct (Nat.eqb nm n) eqn:En.
    + apply Nat.eqb_eq in En; subst n. intros Hd; inversion Hd; subst d0. split; [exact D1|].
      rewrite app_assoc. apply in_or_app. right. left. reflexivity.
    + intros Hg. destruct (I n d0 Hg) as [? Hin]. split; [assumption|].
      rewrite app_assoc. apply in_or_app. left. exact Hin.
  - destruct H as [F1 F2]. intros n d0. rewrite F1, F2. apply I.
Qed.
#[export] Hint Resolve dinv_prepare_stream : rel_db.

Lemma dinv_ensure_all tr E l c : rel (inv_pre (descr_inv tr)) (ensure_cached_all E l c).
Proof. rel_fix dinv_mod l. Qed.
Lemma dinv_pack_loop tr nm d l acc : rel (inv_pre (descr_inv tr)) (pack_loop nm d l acc).
Proof. revert acc. induction l; intro acc; cbn -[bind ret]; rel_go dinv_mod. Qed.
Lemma dinv_collect_all tr E l i : rel (inv_pre (descr_inv tr)) (collect_all_assets E l i).
Proof. rel_fix dinv_mod l. Qed.
#[export] Hint Resolve dinv_ensure_all dinv_pack_loop dinv_collect_all : rel_db.

Lemma dinv_exec tr E o : rel (inv_pre (descr_inv tr)) (exec E o).
Proof. destruct o; cbn [exec]; rel_go dinv_mod. Qed.

(* ---- pack_external_assets: emits no event, leaves descriptors and counters alone *)
Definition pack_frame : preorder.
Proof.
  refine (mkPre (fun s s' => b_descriptors s' = b_descriptors s /\ b_seq s' = b_seq s /\
                             b_bundling s' = b_bundling s /\
                             exists l, b_out s' = b_out s ++ l /\ no_event l) _ _).
  - intros s. repeat split. exists []. rewrite app_nil_r. split; reflexivity.
  - intros a b c (D1 & S1 & U1 & l1 & H1 & N1) (D2 & S2 & U2 & l2 & H2 & N2). repeat split; try congruence.
    exists (l1 ++ l2). rewrite H2, H1, app_assoc. split; [reflexivity|].
    unfold no_event in *. rewrite forallb_app, N1, N2. reflexivity.
Defined.
Ltac pf_mod :=
  cbn; repeat split;
  first [ exists []; rewrite app_nil_r; split; reflexivity
        | eexists [_]; split; reflexivity ].
Lemma pf_pack_loop nm d l acc : rel pack_frame (pack_loop nm d l acc).
Proof. revert acc. induction l; intro acc; cbn -[bind ret]; rel_go pf_mod. Qed.
#[export] Hint Resolve pf_pack_loop : rel_db.
Lemma pf_pack nm l : rel pack_frame (pack_external_assets l nm).
Proof. unfold pack_external_assets. rel_go pf_mod. Qed.

(* ---- compose_event *)
Lemma compose_event_ok d data filled s s' ev :
  compose_event d data filled s = (s', Ok ev) ->
  exists seq, dget (b_seq s) (de_name d) = Some seq /\
    ev = DEvent (UGen (b_next_uid s)) (de_uid d) seq data filled /\
    keys_match d data /\ subsetb filled (dkeys data) = true /\
    b_seq s' = dset (b_seq s) (de_name d) (seq + 1)%Z /\ b_out s' = b_out s /\
    b_descriptors s' = b_descriptors s /\ b_bundling s' = b_bundling s.
Proof.
  unfold compose_event, fresh_uid. intros H. minv. cbn. eexists. repeat split; eauto.
Qed.

Lemma dof_ensure_cached E o c : rel descr_out_frame (ensure_cached E o c).
Proof. unfold ensure_cached. rel_go dof. Qed.
#[export] Hint Resolve dof_ensure_cached : rel_db.

Lemma make_descriptor_ok tr E nm objs s s' d :
  descr_inv tr s ->
  bind (iterM (fun o => ensure_cached E o (dv_collectable (E o))) objs)
       (fun _ => bind get (fun s => bind (of_opt (lookup_dks (b_desc_cache s) objs []) EKeyError)
                                        (fun objs_dks => prepare_stream nm objs_dks))) s = (s', Ok d) ->
  dget (b_descriptors s') nm = Some d /\ de_name d = nm /\ In (DDescr d) (tr ++ b_out s') /\ descr_inv tr s' /\
  b_out s' = b_out s ++ [DDescr d] /\ b_bundling s' = b_bundling s.
Proof.
  intros I H. minv.
  match goal with H : iterM ?f objs s = (?x, Ok _) |- _ =>
    assert (R1 : rel (inv_pre (descr_inv tr)) (iterM f objs)) by (rel_go dinv_mod);
    assert (R2 : rel descr_out_frame (iterM f objs)) by (rel_go dof);
    pose proof (R1 s I) as I1; pose proof (R2 s) as F; rewrite H in I1, F; cbn in I1, F
  end.
  destruct F as (F1 & F2 & F3).
  match goal with H : prepare_stream ?n ?od ?s0 = _ |- _ =>
    pose proof (dinv_prepare_stream tr n od s0 I1) as I2; rewrite H in I2; cbn in I2;
    apply prepare_stream_spec in H; destruct H as (D1 & _ & _ & _ & _ & _ & P1 & P2 & _ & P3) end.
  rewrite P1, P2, P3, F2, F3, dget_dset_eq.
  split; [reflexivity|]. split; [exact D1|]. split; [|split; [exact I2 | split; reflexivity]].
  rewrite !app_assoc. apply in_or_app. right. left. reflexivity.
Qed.

Lemma bundle_descriptor_ok tr E nm objs s s' d :
  descr_inv tr s -> bundle_descriptor E nm objs s = (s', Ok d) ->
  dget (b_descriptors s') nm = Some d /\ de_name d = nm /\ In (DDescr d) (tr ++ b_out s') /\ descr_inv tr s' /\
  b_bundling s' = b_bundling s /\
  exists l, b_out s' = b_out s ++ l /\ no_event l.
Proof.
  intros I. unfold bundle_descriptor. rewrite bind_get_eq.
  destruct (dget (b_descriptors s) nm) as [d0|] eqn:Ed; [destruct (dget (b_descriptor_objs s) nm) as [dobjs|]|].
  - intros H. minv. destruct (I _ _ Ed) as [N Hin].
    split; [exact Ed|]. split; [exact N|]. split; [exact Hin|]. split; [exact I|]. split; [reflexivity|].
    exists []. rewrite app_nil_r. split; reflexivity.
  - intros H. apply (make_descriptor_ok tr) in H; [|exact I]. destruct H as (A & B & C & D & F & G).
    split; [exact A|]. split; [exact B|]. split; [exact C|]. split; [exact D|]. split; [exact G|].
    exists [DDescr d]. split; [exact F | reflexivity].
  - intros H. apply (make_descriptor_ok tr) in H; [|exact I]. destruct H as (A & B & C & D & F & G).
    split; [exact A|]. split; [exact B|]. split; [exact C|]. split; [exact D|]. split; [exact G|].
    exists [DDescr d]. split; [exact F | reflexivity].
Qed.

Lemma descr_inv_reachable E s tr : reachable E s tr -> descr_inv tr (clear_buffers s).
Proof.
  intros (st & ri & h & -> & ->).
  apply (reach_ind (fun s tr => descr_inv tr (clear_buffers s))).
  - intros nm d H; discriminate.
  - intros s tr o I. unfold step. cbn [fst snd].
    pose proof (dinv_exec tr E o (clear_buffers s) I) as I1.
    intros nm d Hg. destruct (I1 nm d Hg) as [N Hin]. split; [exact N|]. cbn. rewrite app_nil_r. exact Hin.
Qed.

Lemma save_emits_bundle_inv E s tr s' docs :
  descr_inv tr (clear_buffers s) -> b_objs_read s <> [] -> step E s OSave = (s', docs, ROk) ->
  exists nm d pre seq u,
    b_bundling s = true /\ b_bundle_name s = Some nm /\
    docs = pre ++ [DEvent u (de_uid d) seq (merge_readings (b_read_cache s)) (filled_keys d)] /\
    no_event pre /\ In (DDescr d) (tr ++ pre) /\ de_name d = nm /\ dget (b_descriptors s') nm = Some d /\
    keys_match d (merge_readings (b_read_cache s)) /\
    dget (b_seq s') nm = Some (seq + 1)%Z /\ b_bundling s' = false.
Proof.
  intros Hr Hne Hs.
  apply step_inv in Hs. destruct Hs as (r0 & He & -> & Hr0). symmetry in Hr0. apply to_result_ok in Hr0. subst r0.
  cbn [exec] in He. unfold save in He. rewrite bind_get_eq, bind_guard_eq in He.
  change (b_bundling (clear_buffers s)) with (b_bundling s) in He.
  change (b_objs_read (clear_buffers s)) with (b_objs_read s) in He.
  change (b_bundle_name (clear_buffers s)) with (b_bundle_name s) in He.
  change (b_asset_cache (clear_buffers s)) with (b_asset_cache s) in He.
  change (b_read_cache (clear_buffers s)) with (b_read_cache s) in He.
  destruct (b_bundling s) eqn:Hb; [|discriminate].
  destruct (b_objs_read s) as [|o0 objs0] eqn:Ho; [contradiction|].
  minv.
  match goal with H : bundle_descriptor _ _ _ ?s1 = _ |- _ =>
    assert (I1 : descr_inv tr s1) by exact Hr;
    apply (bundle_descriptor_ok tr) in H; [|exact I1];
    destruct H as (B1 & B2 & B3 & B4 & B7 & l1 & B5 & B6) end.
  match goal with H : pack_external_assets ?a ?n ?s2 = (?s3, _) |- _ =>
    pose proof (pf_pack n a s2) as P; rewrite H in P; cbn in P; destruct P as (P1 & P2 & P5 & l2 & P3 & P4) end.
  match goal with H : compose_event _ _ _ _ = _ |- _ =>
    apply compose_event_ok in H; destruct H as (seq & C1 & -> & C3 & C4 & C5 & C6 & C7 & C8) end.
  match goal with H : dget (b_descriptors _) _ = Some ?cur |- _ =>
    rewrite P1, B1 in H; inversion H; subst cur end.
  unfold emit in *. minv. cbn.
  match goal with H : b_bundle_name s = Some (de_name ?d) |- _ =>
    exists (de_name d), d, (l1 ++ l2), seq end. eexists.
  rewrite C6, C7, C8, C5, P5, B7, P3, P1, B5. cbn.
  split; [reflexivity|]. split; [assumption|]. split; [rewrite <- ?app_assoc; reflexivity|].
  split; [unfold no_event in *; rewrite forallb_app, B6, P4; reflexivity|].
  split; [rewrite B5 in B3; cbn in B3; rewrite app_assoc; apply in_or_app; left; exact B3|].
  split; [reflexivity|]. split; [exact B1|]. split; [exact C3|].
  split; [rewrite dget_dset_eq; reflexivity | reflexivity].
Qed.

Theorem save_emits_bundle E s tr s' docs :
  reachable E s tr -> b_objs_read s <> [] -> step E s OSave = (s', docs, ROk) ->
  exists nm d pre seq u,
    b_bundling s = true /\ b_bundle_name s = Some nm /\
    docs = pre ++ [DEvent u (de_uid d) seq (merge_readings (b_read_cache s)) (filled_keys d)] /\
    no_event pre /\ In (DDescr d) (tr ++ pre) /\ de_name d = nm /\ dget (b_descriptors s') nm = Some d /\
    keys_match d (merge_readings (b_read_cache s)) /\
    dget (b_seq s') nm = Some (seq + 1)%Z /\ b_bundling s' = false.
Proof. intros Hr. apply save_emits_bundle_inv. apply (descr_inv_reachable E). exact Hr. Qed.


(* ------------------------------------------------------------------ evolution of the bundle; collisions *)

(* ---- how the bundle under construction evolves *)
Lemma create_ok E s s' docs kw args :
  step E s (OCreate kw args) = (s', docs, ROk) ->
  b_bundling s = false /\ docs = [] /\
  exists nm, create_name kw args = Some nm /\ b_bundle_name s' = Some nm /\
             b_bundling s' = true /\ b_objs_read s' = [] /\ b_read_cache s' = [] /\ b_asset_cache s' = [] /\
             b_seq s' = b_seq s.
Proof.
  intros Hs. apply step_inv in Hs. destruct Hs as (r0 & He & -> & Hr0). symmetry in Hr0. apply to_result_ok in Hr0. subst r0.
  cbn [exec] in He. unfold create in He. minv.
  match goal with H : negb (b_bundling _) = true |- _ => cbn in H; apply negb_true_iff in H end.
  split; [assumption|].
  match goal with H : match kw with _ => _ end ?s0 = (?s1, Ok ?n) |- _ =>
    assert (N : create_name kw args = Some n /\ s1 = s0) by
      (unfold create_name; destruct kw as [k|]; [minv; auto|]; destruct args as [|k [|? ?]]; minv; auto);
    destruct N as [N1 ->]; clear H end.
  match goal with H : (if ?b then _ else _) _ = (s', Ok tt) |- _ => destruct b; minv end;
    cbn; (split; [reflexivity|]); eexists; repeat split; eauto.
Qed.

(* frames used below *)
Definition nocache_frame : preorder.
Proof. refine (mkPre (fun s s' => nocache s' = nocache s) _ _); [auto | intros a b c H1 H2; congruence]. Defined.
Lemma ncf_ensure_cached E o c : rel nocache_frame (ensure_cached E o c).
Proof. unfold ensure_cached. rel_go reflexivity. Qed.

Definition read_frame : preorder.
Proof.
  refine (mkPre (fun s s' => b_out s' = b_out s /\ b_seq s' = b_seq s /\ b_bundling s' = b_bundling s /\
                             b_bundle_name s' = b_bundle_name s) _ _).
  - auto.
  - intros a b c (A1 & A2 & A3 & A4) (B1 & B2 & B3 & B4). repeat split; congruence.
Defined.
Lemma rf_read E o r a : rel read_frame (read E o r a).
Proof. unfold read. rel_go ltac:(cbn; auto). Qed.

(* an accepted read appends (object, reading) to the bundle; a rejected one leaves the bundle alone *)
Lemma read_in_bundle E s s' docs res o r a :
  b_bundling s = true -> step E s (ORead o r a) = (s', docs, res) ->
  docs = [] /\ b_seq s' = b_seq s /\ b_bundling s' = true /\ b_bundle_name s' = b_bundle_name s /\
  match res with
  | ROk => b_objs_read s' = b_objs_read s ++ [o] /\ b_read_cache s' = b_read_cache s ++ [r]
  | RErr _ => nocache s' = nocache s
  end.
Proof.
  intros Hb Hs. apply step_inv in Hs. destruct Hs as (r0 & He & -> & ->).
  cbn [exec] in He.
  pose proof (rf_read E o r a (clear_buffers s)) as F. rewrite He in F. cbn in F.
  destruct F as (F1 & F2 & F3 & F4). rewrite F1, F2, F3, F4, Hb.
  do 4 (split; [reflexivity|]).
  unfold read in He. rewrite bind_get_eq in He.
  change (b_bundling (clear_buffers s)) with (b_bundling s) in He. rewrite Hb in He.
  unfold bind at 1 in He.
  pose proof (ncf_ensure_cached E o false (clear_buffers s)) as N.
  destruct (ensure_cached E o false (clear_buffers s)) as [s1 [[]|e]]; cbn in N.
  2:{ inversion He; subst. exact N. }
  rewrite bind_get_eq, bind_of_opt_eq in He.
  destruct (dget (b_desc_cache s1) o) as [cur|]; [|inversion He; subst; exact N].
  unfold bind at 1 in He.
  pose proof (check_collisions_state (b_desc_cache s1) cur (b_objs_read s1) s1) as Hst.
  destruct (check_collisions (b_desc_cache s1) cur (b_objs_read s1) s1) as [s2 [[]|e]];
    cbn [fst] in Hst; subst s2; [|inversion He; subst; exact N].
  rewrite bind_modify_eq in He.
  assert (O1 : b_objs_read s1 = b_objs_read s) by (apply (f_equal b_objs_read) in N; exact N).
  assert (O2 : b_read_cache s1 = b_read_cache s) by (apply (f_equal b_read_cache) in N; exact N).
  unfold collect_asset_docs, call in He.
  destruct (dv_wsa (E o)); [|destruct (dv_wea (E o))]; cbn in He; inversion He; subst; cbn; rewrite O1, O2; auto.
Qed.

Lemma config_part_ok E o s : exists s2, config_part E o s = (s2, Ok tt) /\ b_desc_cache s2 = b_desc_cache s.
Proof.
  unfold config_part. rewrite bind_get_eq. destruct (negb (nmem o (b_cfgdesc_cache s))); [|eexists; split; reflexivity].
  unfold cache_describe_config, cache_read_config, call.
  destruct (dv_configurable (E o)); cbn; eexists; split; reflexivity.
Qed.

Lemma ensure_cached_readable E o s : dv_readable (E o) = true ->
  exists s1, ensure_cached E o false s = (s1, Ok tt) /\ dmem (b_desc_cache s1) o = true.
Proof.
  intros Hr. unfold ensure_cached, gather2, describe_part. rewrite bind_get_eq. cbn [negb andb].
  destruct (dmem (b_desc_cache s) o) eqn:Em; cbn [negb].
  - cbn -[config_part]. destruct (config_part_ok E o s) as (s2 & -> & Hc). exists s2. split; [reflexivity|]. rewrite Hc. exact Em.
  - unfold cache_describe, call. rewrite Hr. cbn -[config_part].
    match goal with |- context [config_part E o ?s0] => destruct (config_part_ok E o s0) as (s2 & -> & Hc) end.
    exists s2. split; [reflexivity|]. rewrite Hc. cbn. rewrite dmem_dset, Nat.eqb_refl. reflexivity.
Qed.

Lemma check_collisions_collide (cache : dict dks) (cur : dks) l s o' (known : dks) :
  (forall ro, In ro l -> dmem cache ro = true) -> In o' l -> dget cache o' = Some known ->
  disjointb (dkeys known) (dkeys cur) = false ->
  snd (check_collisions cache cur l s) = Err EValueError.
Proof.
  unfold check_collisions. intros Hall Hin Hk Hd. induction l as [|x l IH]; [destruct Hin|].
  cbn [iterM]. cbv beta.
  pose proof (Hall x (or_introl eq_refl)) as Hx. unfold dmem in Hx.
  destruct (dget cache x) as [kx|] eqn:Ex; [|discriminate].
  unfold bind at 1 2. cbn [of_opt ret].
  destruct (disjointb (dkeys kx) (dkeys cur)) eqn:Edx; cbn [guard ret fail]; [|reflexivity].
  apply IH.
  - intros ro Hro. apply Hall. right. exact Hro.
  - destruct Hin as [->|Hin]; [|exact Hin]. rewrite Hk in Ex. inversion Ex; subst. congruence.
Qed.

Theorem read_collision E s tr o r a o' s' docs res :
  reachable E s tr -> b_bundling s = true -> dv_readable (E o) = true ->
  In o' (b_objs_read s) -> disjointb (describe_keys E o') (describe_keys E o) = false ->
  step E s (ORead o r a) = (s', docs, res) ->
  res = RErr EValueError /\ docs = [] /\ nocache s' = nocache s.
Proof.
  intros Hr Hb Hread Hin Hcol Hs.
  pose proof (read_in_bundle _ _ _ _ _ _ _ _ Hb Hs) as (D & _ & _ & _ & Hres).
  apply bundle_inv_reachable in Hr.
  apply step_inv in Hs. destruct Hs as (r0 & He & _ & ->).
  cbn [exec] in He. unfold read in He. rewrite bind_get_eq in He.
  change (b_bundling (clear_buffers s)) with (b_bundling s) in He. rewrite Hb in He.
  unfold bind at 1 in He.
  pose proof (binv_ensure_cached E o false (clear_buffers s) Hr) as I1.
  pose proof (ncf_ensure_cached E o false (clear_buffers s)) as N.
  destruct (ensure_cached_readable E o (clear_buffers s) Hread) as (s1 & Hec & Hm).
  rewrite Hec in He, I1, N. cbn in I1, N.
  rewrite bind_get_eq, bind_of_opt_eq in He.
  destruct I1 as (C1 & C2 & C3 & C4).
  unfold dmem in Hm. destruct (dget (b_desc_cache s1) o) as [cur|] eqn:Ecur; [|discriminate].
  assert (O1 : b_objs_read s1 = b_objs_read s) by (apply (f_equal b_objs_read) in N; exact N).
  assert (Hin1 : In o' (b_objs_read s1)) by (rewrite O1; exact Hin).
  pose proof (C3 o' Hin1) as Hm'. unfold dmem in Hm'.
  destruct (dget (b_desc_cache s1) o') as [known|] eqn:Ek; [|discriminate].
  unfold bind at 1 in He.
  assert (Hc : snd (check_collisions (b_desc_cache s1) cur (b_objs_read s1) s1) = Err EValueError).
  { eapply check_collisions_collide; eauto.
    unfold describe_keys in Hcol. rewrite (C1 _ _ Ek), (C1 _ _ Ecur). exact Hcol. }
  pose proof (check_collisions_state (b_desc_cache s1) cur (b_objs_read s1) s1) as Hst.
  destruct (check_collisions (b_desc_cache s1) cur (b_objs_read s1) s1) as [s2 rc]. cbn in Hc, Hst. subst.
  inversion He; subst. cbn in *. auto.
Qed.

(* ------------------------------------------------------------------ the bundle is only touched by create / read *)

Definition bundle_frame : preorder.
Proof.
  refine (mkPre (fun s s' => b_objs_read s' = b_objs_read s /\ b_read_cache s' = b_read_cache s) _ _).
  - auto.
  - intros a b c [H1 H2] [H3 H4]. split; congruence.
Defined.

Ltac bf := cbn; auto.

Lemma bf_ensure_all E l c : rel bundle_frame (ensure_cached_all E l c).
Proof. rel_fix bf l. Qed.
Lemma bf_pack_loop nm d l acc : rel bundle_frame (pack_loop nm d l acc).
Proof. revert acc. induction l; intro acc; cbn -[bind ret]; rel_go bf. Qed.
Lemma bf_collect_all E l i : rel bundle_frame (collect_all_assets E l i).
Proof. rel_fix bf l. Qed.
#[export] Hint Resolve bf_ensure_all bf_pack_loop bf_collect_all : rel_db.

Lemma bf_exec E o : bundle_op o = false -> rel bundle_frame (exec E o).
Proof.
  intros H. destruct o; try discriminate; cbn [exec]; rel_go bf.
Qed.

(* ops other than create / read never touch the bundle under construction *)
Lemma bundle_untouched E s o s' docs r :
  bundle_op o = false -> step E s o = (s', docs, r) ->
  b_objs_read s' = b_objs_read s /\ b_read_cache s' = b_read_cache s.
Proof.
  intros Ho Hs. apply step_inv in Hs. destruct Hs as (r0 & He & _ & _).
  pose proof (bf_exec E o Ho (clear_buffers s)) as F. rewrite He in F. exact F.
Qed.

(* ------------------------------------------------------------------ summaries used by Props/C15.v *)
Lemma guards_all E s :
  (b_bundling s = true ->
     step E s OCheckpoint = (clear_buffers s, [], RErr EIllegalMessageSequence) /\
     (forall o v, step E s (OConfigure o v) = (clear_buffers s, [], RErr EIllegalMessageSequence)) /\
     (forall kw args, step E s (OCreate kw args) = (clear_buffers s, [], RErr EIllegalMessageSequence))) /\
  (b_bundling s = false ->
     step E s OSave = (clear_buffers s, [], RErr EIllegalMessageSequence) /\
     step E s ODrop = (clear_buffers s, [], RErr EIllegalMessageSequence) /\
     (forall o r a, step E s (ORead o r a) = (clear_buffers s, [], ROk))).
Proof.
  split; intros H.
  - split; [apply checkpoint_while_bundling; exact H|].
    split; intros; [apply configure_while_bundling | apply create_while_bundling]; exact H.
  - split; [apply save_without_create; exact H|].
    split; [apply drop_without_create; exact H | intros; apply read_outside_bundle; exact H].
Qed.

Lemma drop_and_empty_save E s : b_bundling s = true ->
  step E s ODrop = (set_b_bundle_name None (set_b_bundling false (clear_buffers s)), [], ROk) /\
  (b_objs_read s = [] ->
   step E s OSave = (set_b_bundle_name None (set_b_bundling false (clear_buffers s)), [], ROk)).
Proof. intros H. split; [apply drop_ok; exact H | intros H0; apply save_empty; assumption]. Qed.

(* ------------------------------------------------------------------ several open runs: the engine-side guards *)
From BV Require Import Engine.BundlerMulti.

Lemma any_bundling_spec ms :
  any_bundling ms = true <-> exists k s, In (k, s) ms /\ b_bundling s = true.
Proof.
  unfold any_bundling. rewrite existsb_exists. split.
  - intros ([k s] & Hin & Hb). exists k, s. auto.
  - intros (k & s & Hin & Hb). exists (k, s). auto.
Qed.

Lemma multi_guards E ms k :
  (* checkpoint, whatever run key it carries: refused while ANY registered run has a bundle open ... *)
  ((exists k' s', In (k', s') ms /\ b_bundling s' = true) ->
     mstep E ms (k, OCheckpoint) = (ms, [], [], RErr EIllegalMessageSequence)) /\
  (* ... otherwise it snapshots the counters of every run and emits nothing *)
  ((forall k' s', In (k', s') ms -> b_bundling s' = false) ->
     mstep E ms (k, OCheckpoint) =
       (map (fun ks => (fst ks, fst (fst (step E (snd ks) OResetCheckpoint)))) ms, [], [], ROk)) /\
  (* configure: refused while the run it belongs to has a bundle open *)
  (forall s o v, dget ms k = Some s -> b_bundling s = true ->
     mstep E ms (k, OConfigure o v) = (ms, [], [], RErr EIllegalMessageSequence)) /\
  (* every other message is handled by the bundler of its run (so the single-run statements apply to it) *)
  (forall s o, dget ms k = Some s -> o <> OCheckpoint -> (forall ob v, o <> OConfigure ob v) ->
     mstep E ms (k, o) =
       (dset ms k (fst (fst (step E s o))), map (retag_doc k) (snd (fst (step E s o))),
        b_ledger (fst (fst (step E s o))), snd (step E s o))).
Proof.
  split; [|split; [|split]].
  - intros H. apply any_bundling_spec in H. cbn. rewrite H. reflexivity.
  - intros H. cbn.
    assert (A : any_bundling ms = false).
    { destruct (any_bundling ms) eqn:A; [|reflexivity]. apply any_bundling_spec in A.
      destruct A as (k' & s' & Hin & Hb). rewrite (H k' s' Hin) in Hb. discriminate Hb. }
    rewrite A. reflexivity.
  - intros s o v Hk Hb. cbn. rewrite Hk, Hb. reflexivity.
  - intros s o Hk Hc Hcf. unfold mstep. rewrite Hk.
    destruct o; try reflexivity; [exfalso; eapply Hcf; reflexivity | exfalso; apply Hc; reflexivity].
Qed.
