(* C03, layer B: the bundler of Engine/RE.v against the abstract bundler of Engine/PointSpec.v.
   [Rb]/[BR] relate the engine's bundler to the abstract one up to what an interrupted, earlier attempt at the same
   point left behind (descriptors already emitted, their counters at 1, a longer snapshot);
   [exec_body]/[exec_head]: executing one message of the plan class keeps the relation and emits the events the
   reference semantics prescribes; [rewind_BR]: a rewind puts the engine back at the start of the point. *)
From Coq Require Import List ZArith Bool Arith Lia.
From BV Require Import Engine.RE Engine.PointSpec Proofs.RE_PointsA.
Import ListNotations.
Local Open Scope nat_scope.

(* unfold setters / projections only *)
Ltac simp_st :=
  cbn [RE.state RE.pc RE.must_cancel RE.permit RE.blocking RE.task_set RE.plans RE.resps RE.cache RE.rewindable
       RE.exc_slot RE.stashed RE.interrupted RE.deferred RE.exit_status RE.reason RE.bundlers RE.staged RE.moved
       RE.pausables RE.stageables RE.seen RE.groups RE.statuses RE.failed_seen RE.futs RE.uid_supply RE.run_uids
       RE.record_intr RE.pardon RE.mreq RE.was_paused RE.main_err RE.exit_reason_set RE.icause RE.late_pause
       RE.intr_err RE.dst
       RE.upd RE.upd2 RE.set_ghost RE.set_main RE.set_mreq RE.set_ers RE.interrupt
       RE.set_state_raw RE.set_pc RE.set_must_cancel RE.set_permit RE.set_blocking RE.set_plans RE.set_resps
       RE.set_cache RE.set_rewindable RE.set_exc_slot RE.set_stashed RE.set_interrupted RE.set_deferred RE.set_exit
       RE.set_bundlers RE.set_staged RE.set_moved RE.set_seen RE.set_groups RE.set_statuses RE.set_futs RE.set_uids
       RE.set_pardon RE.set_dst RE.set_task_set RE.map_bundlers RE.put_bundler RE.push_frame RE.pop_plan
       RE.replace_top RE.resumable RE.add_status RE.clear_call RE.get_bundler] in *.

Definition devdoc (x : obs) : bool := match x with ODev _ _ | ODoc _ => true | _ => false end.

Lemma devdoc_last_msg o : forallb devdoc o = true -> forall cur, last_msg cur o = cur.
Proof.
  induction o as [|x o IH]; intros H cur; cbn in *; [reflexivity|].
  apply andb_true_iff in H. destruct H as [H1 H2]. destruct x; try discriminate H1; apply IH; exact H2.
Qed.
Lemma devdoc_reads_ok rdm o : forallb devdoc o = true -> forall cur, reads_ok rdm cur o = true.
Proof.
  induction o as [|x o IH]; intros H cur; cbn in *; [reflexivity|].
  apply andb_true_iff in H. destruct H as [H1 H2]. destruct x; try discriminate H1; apply IH; exact H2.
Qed.
Lemma devdoc_no_raise o : forallb devdoc o = true -> no_raise o = true.
Proof.
  induction o as [|x o IH]; intros H; cbn in *; [reflexivity|].
  apply andb_true_iff in H. destruct H as [H1 H2]. destruct x; try discriminate H1; cbn; apply IH; exact H2.
Qed.

Lemma prefix_map {A B} (f : A -> B) l1 l2 : prefix l1 l2 -> prefix (map f l1) (map f l2).
Proof. intros [r ->]. exists (map f r). apply map_app. Qed.

Section B.
Variable P : Type.
Variable presume : P -> input -> outcome P.
Variable plan_of : nat -> P.
Variable D : Type.
Variable dev : D -> nat -> devmeth -> D * devres.
Variable rk : nat.
Variable rdm : msg -> Z.

Local Notation st := (RE.st P D).
Local Notation state := (RE.state P D).
Local Notation pc := (RE.pc P D).
Local Notation must_cancel := (RE.must_cancel P D).
Local Notation permit := (RE.permit P D).
Local Notation plans := (RE.plans P D).
Local Notation resps := (RE.resps P D).
Local Notation cache := (RE.cache P D).
Local Notation rewindable := (RE.rewindable P D).
Local Notation exc_slot := (RE.exc_slot P D).
Local Notation stashed := (RE.stashed P D).
Local Notation interrupted := (RE.interrupted P D).
Local Notation deferred := (RE.deferred P D).
Local Notation bundlers := (RE.bundlers P D).
Local Notation uid_supply := (RE.uid_supply P D).
Local Notation record_intr := (RE.record_intr P D).
Local Notation main_err := (RE.main_err P D).
Local Notation exec_cmd := (RE.exec_cmd P D dev).
Local Notation dcall := (RE.dcall P D dev).
Local Notation astep := (astep rk rdm).
Local Notation arun := (arun rk rdm).

(* the fields the control flow of `_run` and of the requests reads: untouched by the commands of the class *)
Definition keeps (s s' : st) : Prop :=
  state s' = state s /\ pc s' = pc s /\ must_cancel s' = must_cancel s /\ permit s' = permit s /\
  plans s' = plans s /\ resps s' = resps s /\ stashed s' = stashed s /\ exc_slot s' = exc_slot s /\
  interrupted s' = interrupted s /\ deferred s' = deferred s /\ rewindable s' = rewindable s /\
  record_intr s' = record_intr s /\ main_err s' = main_err s.

Lemma keeps_refl s : keeps s s.
Proof. unfold keeps. repeat split. Qed.
Lemma keeps_trans a b c : keeps a b -> keeps b c -> keeps a c.
Proof. unfold keeps. intros H1 H2. decompose [and] H1. decompose [and] H2. repeat split; congruence. Qed.

Ltac keeps_tac := unfold keeps, RE.put_bundler; simp_st; repeat split; reflexivity.
Ltac sb := unfold RE.get_bundler, RE.put_bundler in *; simp_st.

(* ------------------------------------------------------------------ the bundler relation *)
Definition Rb (b : bundler) (r : ab) (X : list (nat * list nat)) : Prop :=
  buid b = ab_uid r /\ bintr b = false /\
  match ab_bund r with
  | None => bbundling b = false
  | Some (n, o, rd) => bbundling b = true /\ bname b = n /\ bobjs b = o /\ breads b = rd
  end /\
  bdescs b = ab_descs r ++ X /\ bseq b = ab_seq r ++ ones X.

(* [a0]: abstract state at the last checkpoint-like message, [acur]: now, [aend]: at the end of this point *)
Definition BR (bs : list (nat * bundler)) (a0 acur aend : abs) : Prop :=
  match a_run acur with
  | None => bs = []
  | Some r =>
      exists b X Y r0 rend,
        bs = [(rk, b)] /\ a_run a0 = Some r0 /\ a_run aend = Some rend /\ ab_bund r0 = None /\
        Rb b r X /\ bseqcopy b = ab_seq r0 ++ ones Y /\
        prefix (ab_descs r0 ++ Y) (bdescs b) /\ prefix (bdescs b) (ab_descs rend)
  end.

Hypothesis Hdev : dev_typed D dev.

Lemma dcall_set (s : st) d : exists d' sid ok, dcall s d MSet = (RE.set_dst P D s d', DStatus sid ok, [ODev d MSet]).
Proof.
  destruct (Hdev (RE.dst P D s) d) as ((d' & sid & ok & E) & _). exists d', sid, ok. unfold RE.dcall. rewrite E. reflexivity.
Qed.
Lemma dcall_trigger (s : st) d : exists d' sid ok, dcall s d MTrigger = (RE.set_dst P D s d', DStatus sid ok, [ODev d MTrigger]).
Proof.
  destruct (Hdev (RE.dst P D s) d) as (_ & (d' & sid & ok & E) & _). exists d', sid, ok. unfold RE.dcall. rewrite E. reflexivity.
Qed.
Lemma dcall_read (s : st) d : exists d' z, dcall s d MRead = (RE.set_dst P D s d', DVal z, [ODev d MRead]).
Proof.
  destruct (Hdev (RE.dst P D s) d) as (_ & _ & (d' & z & E) & _). exists d', z. unfold RE.dcall. rewrite E. reflexivity.
Qed.

Definition kmatch (acur : abs) (k : pending) (m : msg) : Prop :=
  match k with
  | KSleep => mcmd m = CSleep
  | KWait _ => exists g, mcmd m = CWait g
  | KReadCache run d _ => run = rk /\ mcmd m = CRead /\ mobj m = Some d /\ exists r nb, a_run acur = Some r /\ ab_bund r = Some nb
  | _ => False
  end.

Ltac rw_run :=
  repeat match goal with
         | E : a_run ?a = _, H : context [a_run ?a] |- _ => rewrite E in H
         | E : ab_bund ?a = _, H : context [ab_bund ?a] |- _ => rewrite E in H
         | E : a_run ?a = _ |- context [a_run ?a] => rewrite E
         | E : ab_bund ?a = _ |- context [ab_bund ?a] => rewrite E
         end.

(* BR is insensitive to what the abstract state records besides its run *)
Lemma BR_run bs a0 acur acur' aend : a_run acur' = a_run acur -> BR bs a0 acur aend -> BR bs a0 acur' aend.
Proof. unfold BR. intros E H. rewrite E. exact H. Qed.

(* the result of one `read` inside an open bundle *)
Lemma Rb_read b r X n o rd d z :
  ab_bund r = Some (n, o, rd) -> Rb b r X ->
  Rb (b_set_bundle b true (bname b) (bobjs b ++ [d]) (breads b ++ [(d, z)])) (ab_set_bund r (Some (n, o ++ [d], rd ++ [(d, z)]))) X.
Proof.
  intros E (R1 & R2 & R3 & R4 & R5). rewrite E in R3. destruct R3 as (R31 & R32 & R33 & R34).
  unfold Rb. cbn. rewrite R32, R33, R34. repeat split; assumption.
Qed.

(* ------------------------------------------------------------------ body messages *)
Lemma BR_intro bs a0 acur aend r b X Y r0 rend :
  a_run acur = Some r -> bs = [(rk, b)] -> a_run a0 = Some r0 -> a_run aend = Some rend -> ab_bund r0 = None ->
  Rb b r X -> bseqcopy b = ab_seq r0 ++ ones Y -> prefix (ab_descs r0 ++ Y) (bdescs b) -> prefix (bdescs b) (ab_descs rend) ->
  BR bs a0 acur aend.
Proof. intros E. intros. unfold BR. rewrite E. exists b, X, Y, r0, rend. repeat (split; [assumption|]). assumption. Qed.

Ltac six := split; [keeps_tac|]; split; [reflexivity|]; split; [reflexivity|]; split; [reflexivity|]; split; [|split; [reflexivity|]].

Lemma exec_body (s : st) m a0 acur aend acur' dm :
  BR (bundlers s) a0 acur aend -> wfa acur -> wfa aend ->
  bodym m = true -> astep acur m = Some (acur', dm) -> run_rel acur' aend ->
  exists s' cr o,
    exec_cmd s m = (s', cr, o) /\ keeps s s' /\ cache s' = cache s /\ uid_supply s' = uid_supply s /\
    forallb devdoc o = true /\ final_events o = doc_events dm /\ rundocs o = [] /\
    match cr with
    | Done (RVal v) => (forall d z, v = VReading d z -> z = rdm m) -> BR (bundlers s') a0 acur' aend
    | Done (RExn _) => False
    | Susp k => kmatch acur k m /\ bundlers s' = bundlers s
    end.
Proof.
  intros HBR Hwc Hwe Hbm Hst Hrr. pose proof HBR as HBR0.
  pose proof (astep_mrun _ _ _ _ _ _ Hst) as Hrun.
  unfold bodym in Hbm. unfold PointSpec.astep in Hst. rewrite Hrun, Nat.eqb_refl in Hst. cbn [negb] in Hst.
  unfold RE.exec_cmd. destruct (mcmd m) eqn:Ecmd; cbn in Hbm; try discriminate Hbm; clear Hbm.
  - (* null *) injection Hst as Ha Hd; subst acur' dm. do 3 eexists. split; [reflexivity|]. six; [reflexivity|].
    intros _. eapply BR_run; [|exact HBR]. reflexivity.
  - (* sleep *) injection Hst as Ha Hd; subst acur' dm. do 3 eexists. split; [reflexivity|]. six; [reflexivity|].
    split; [exact Ecmd | reflexivity].
  - (* create *)
    destruct (a_run acur) as [r|] eqn:Er; [|discriminate]. destruct (ab_bund r) eqn:Eb; [discriminate|].
    destruct (Nat.eqb name INTR) eqn:En; [discriminate|]. injection Hst as Ha Hd; subst acur' dm.
    unfold BR in HBR. rewrite Er in HBR. destruct HBR as (b & X & Y & r0 & rend & Hbs & H0 & He & Hb0 & HR & Hsc & Hp1 & Hp2).
    pose proof HR as (R1 & R2 & R3 & R4 & R5). rewrite Eb in R3.
    sb. rewrite Hbs, Hrun. cbn [alookup]. rewrite Nat.eqb_refl, R3.
    do 3 eexists. split; [reflexivity|]. six; [reflexivity|].
    intros _. sb. cbn [aset]. rewrite Nat.eqb_refl.
    eapply BR_intro; [reflexivity | reflexivity | exact H0 | exact He | exact Hb0 | | exact Hsc | exact Hp1 | exact Hp2].
    unfold Rb. cbn. repeat split; first [eassumption | reflexivity].
  - (* read *)
    destruct (mobj m) as [d|] eqn:Eo; [|discriminate].
    destruct (dcall_read s d) as (d' & z & Edc). rewrite Edc.
    destruct (a_run acur) as [r|] eqn:Er.
    + unfold BR in HBR. rewrite Er in HBR. destruct HBR as (b & X & Y & r0 & rend & Hbs & H0 & He & Hb0 & HR & Hsc & Hp1 & Hp2).
      pose proof HR as (R1 & R2 & R3 & R4 & R5).
      sb. rewrite Hbs, Hrun. cbn [alookup]. rewrite Nat.eqb_refl.
      destruct (ab_bund r) as [[[n o] rd]|] eqn:Eb.
      * destruct R3 as (R31 & R32 & R33 & R34). rewrite R31.
        destruct (mem_nat d o) eqn:Emem; [discriminate|]. injection Hst as Ha Hd; subst acur' dm.
        destruct (negb (mem_nat d (bcached b))) eqn:Ecd.
        -- do 3 eexists. split; [reflexivity|]. six; [reflexivity|]. split; [repeat split; try assumption; eauto | exact Hbs].
        -- unfold RE.finish_read. sb. rewrite ?Hbs. cbn [alookup]. rewrite Nat.eqb_refl, R33, Emem.
           do 3 eexists. split; [reflexivity|]. six; [reflexivity|].
           intros Hz. sb. cbn [aset]. rewrite Nat.eqb_refl.
           eapply BR_intro; [reflexivity | reflexivity | exact H0 | exact He | exact Hb0 | | exact Hsc | exact Hp1 | exact Hp2].
           unfold Rb. cbn. rewrite <- (Hz d z eq_refl), R32, R34. repeat split; first [eassumption | reflexivity].
      * rewrite R3. injection Hst as Ha Hd; subst acur' dm. do 3 eexists. split; [reflexivity|]. six; [reflexivity|].
        intros _. sb. eapply BR_run; [|exact HBR0]. reflexivity.
    + injection Hst as Ha Hd; subst acur' dm. unfold BR in HBR. rewrite Er in HBR. sb. rewrite HBR. cbn [alookup].
      do 3 eexists. split; [reflexivity|]. six; [reflexivity|].
      intros _. sb. eapply BR_run; [|exact HBR0]. reflexivity.
  - (* save *)
    destruct (a_run acur) as [r|] eqn:Er; [|discriminate]. destruct (ab_bund r) as [[[name o] rd]|] eqn:Eb; [|discriminate].
    unfold BR in HBR. rewrite Er in HBR. destruct HBR as (b & X & Y & r0 & rend & Hbs & H0 & He & Hb0 & HR & Hsc & Hp1 & Hp2).
    pose proof HR as (R1 & R2 & R3 & R4 & R5). rewrite Eb in R3. destruct R3 as (R31 & R32 & R33 & R34).
    unfold wfa in Hwc. rewrite Er in Hwc. destruct Hwc as (W1 & W2 & W3 & W4).
    sb. rewrite Hbs, Hrun. cbn [alookup]. rewrite Nat.eqb_refl, R31. cbn [negb]. rewrite R33.
    destruct o as [|o1 o].
    + injection Hst as Ha Hd; subst acur' dm. do 3 eexists. split; [reflexivity|]. six; [reflexivity|].
      intros _. sb. cbn [aset]. rewrite Nat.eqb_refl.
      eapply BR_intro; [reflexivity | reflexivity | exact H0 | exact He | exact Hb0 | | exact Hsc | exact Hp1 | exact Hp2].
      unfold Rb. cbn. repeat split; first [eassumption | reflexivity].
    + cbn [b_set_bundle bdescs bname bobjs breads bseq bintr buid]. rewrite R32, R4, R5, alookup_app.
      destruct (alookup name (ab_descs r)) as [objs0|] eqn:Ed.
      * (* the stream has its descriptor *)
        destruct (negb (list_eq_sorted objs0 (o1 :: o))) eqn:Eeq; [discriminate|]. injection Hst as Ha Hd; subst acur' dm.
        cbn [negb].
        assert (Hin : In name (keys (ab_seq r))) by (rewrite W2; eapply alookup_some_keys; exact Ed).
        destruct (alookup_in_keys _ _ Hin) as [n0 En0]. rewrite alookup_app, En0.
        do 3 eexists. split; [reflexivity|]. six; [cbn; rewrite R1, R34; reflexivity|].
        intros _. sb. cbn [aset]. rewrite Nat.eqb_refl.
        eapply BR_intro; [reflexivity | reflexivity | exact H0 | exact He | exact Hb0 | | exact Hsc | cbn; rewrite <- R4; exact Hp1 | cbn; rewrite <- R4; exact Hp2].
        unfold Rb. cbn. repeat split; try assumption. rewrite aset_app_in by exact Hin. reflexivity.
      * (* first save of the stream in the reference run *)
        injection Hst as Ha Hd; subst acur' dm.
        assert (Hni : ~ In name (keys (ab_seq r))) by (rewrite W2; apply alookup_none_keys; exact Ed).
        unfold run_rel in Hrr. cbn [a_run with_run] in Hrr. rewrite He in Hrr. destruct Hrr as [_ Hpe]. cbn [ab_descs] in Hpe.
        assert (Hl : alookup name (ab_seq r) = None) by (apply alookup_none_keys; exact Hni).
        destruct X as [|[k ok] X].
        -- (* not taken before *)
           cbn [alookup ones map app]. rewrite !app_nil_r.
           assert (Hm : amem name (ab_seq r) = false) by (apply amem_false_keys; exact Hni). rewrite Hm.
           rewrite (aset_notin name 1) by exact Hni. rewrite alookup_app, Hl.
           cbn [alookup]. rewrite Nat.eqb_refl.
           do 3 eexists. split; [reflexivity|]. six; [cbn; rewrite R1, R34; reflexivity|].
           intros _. sb. cbn [aset]. rewrite Nat.eqb_refl.
           eapply BR_intro with (X := []); [reflexivity | reflexivity | exact H0 | exact He | exact Hb0 | | exact Hsc | | ].
           ++ unfold Rb. cbn. rewrite !app_nil_r. repeat split; try assumption.
              rewrite aset_app_notin by exact Hni. cbn. rewrite Nat.eqb_refl. reflexivity.
           ++ cbn. rewrite R4, app_nil_r in Hp1. eapply prefix_trans; [exact Hp1 | apply prefix_app].
           ++ cbn. exact Hpe.
        -- (* taken by an interrupted attempt: descriptor and counter are already there *)
           rewrite R4 in Hp2. pose proof (prefix_next _ _ _ _ _ Hpe Hp2) as Hx. injection Hx as Hx1 Hx2. subst k ok.
           cbn [alookup ones map fst]. rewrite Nat.eqb_refl. rewrite list_eq_sorted_refl. cbn [negb].
           rewrite alookup_app, Hl. cbn [alookup]. rewrite Nat.eqb_refl.
           do 3 eexists. split; [reflexivity|]. six; [cbn; rewrite R1, R34; reflexivity|].
           intros _. sb. cbn [aset]. rewrite Nat.eqb_refl.
           eapply BR_intro with (X := X); [reflexivity | reflexivity | exact H0 | exact He | exact Hb0 | | exact Hsc | | ].
           ++ unfold Rb. cbn. repeat split; try assumption.
              ** rewrite <- app_assoc. reflexivity.
              ** rewrite aset_app_notin by exact Hni. cbn. rewrite Nat.eqb_refl, <- app_assoc. reflexivity.
           ++ cbn. rewrite R4 in Hp1. exact Hp1.
           ++ cbn. exact Hp2.
  - (* drop *)
    destruct (a_run acur) as [r|] eqn:Er; [|discriminate]. destruct (ab_bund r) as [[[name o] rd]|] eqn:Eb; [|discriminate].
    injection Hst as Ha Hd; subst acur' dm.
    unfold BR in HBR. rewrite Er in HBR. destruct HBR as (b & X & Y & r0 & rend & Hbs & H0 & He & Hb0 & HR & Hsc & Hp1 & Hp2).
    pose proof HR as (R1 & R2 & R3 & R4 & R5). rewrite Eb in R3. destruct R3 as (R31 & R32 & R33 & R34).
    sb. rewrite Hbs, Hrun. cbn [alookup]. rewrite Nat.eqb_refl, R31. cbn [negb].
    do 3 eexists. split; [reflexivity|]. six; [reflexivity|].
    intros _. sb. cbn [aset]. rewrite Nat.eqb_refl.
    eapply BR_intro; [reflexivity | reflexivity | exact H0 | exact He | exact Hb0 | | exact Hsc | exact Hp1 | exact Hp2].
    unfold Rb. cbn. repeat split; first [eassumption | reflexivity].
  - (* set *)
    destruct (mobj m) as [d|] eqn:Eo; [|discriminate]. injection Hst as Ha Hd; subst acur' dm.
    destruct (dcall_set (RE.set_moved P D s (insert_sorted d (RE.moved P D s))) d) as (d' & sid & ok & Edc). rewrite Edc.
    do 3 eexists. split; [reflexivity|]. six; [reflexivity|].
    intros _. simp_st. eapply BR_run; [|exact HBR]. reflexivity.
  - (* trigger *)
    destruct (mobj m) as [d|] eqn:Eo; [|discriminate]. injection Hst as Ha Hd; subst acur' dm.
    destruct (dcall_trigger s d) as (d' & sid & ok & Edc). rewrite Edc.
    do 3 eexists. split; [reflexivity|]. six; [reflexivity|].
    intros _. simp_st. eapply BR_run; [|exact HBR]. reflexivity.
  - (* wait *)
    injection Hst as Ha Hd; subst acur' dm. destruct (alookup g (RE.groups P D s)) as [[|sid sids]|] eqn:Eg.
    + do 3 eexists. split; [reflexivity|]. six; [reflexivity|].
      intros _. simp_st. eapply BR_run; [|exact HBR]. reflexivity.
    + do 3 eexists. split; [reflexivity|]. six; [reflexivity|]. split; [eexists; exact Ecmd | reflexivity].
    + do 3 eexists. split; [reflexivity|]. six; [reflexivity|].
      intros _. simp_st. eapply BR_run; [|exact HBR]. reflexivity.
Qed.


(* ------------------------------------------------------------------ the read whose caching tasks were awaited *)
Lemma mark_cached_BR (s : st) run d a0 acur aend :
  BR (bundlers s) a0 acur aend -> BR (bundlers (RE.mark_cached P D s run d)) a0 acur aend.
Proof.
  intros HBR. unfold RE.mark_cached, RE.get_bundler. destruct (alookup run (bundlers s)) as [b0|] eqn:El; [|exact HBR].
  unfold BR in *. destruct (a_run acur) as [r|] eqn:Er.
  - destruct HBR as (b & X & Y & r0 & rend & Hbs & H0 & He & Hb0 & HR & Hsc & Hp1 & Hp2).
    rewrite Hbs in El. cbn in El. destruct (Nat.eqb run rk) eqn:E; [|discriminate]. injection El as <-.
    apply Nat.eqb_eq in E. subst run. sb. rewrite Hbs. cbn [aset]. rewrite Nat.eqb_refl.
    exists (b_add_cached b d), X, Y, r0, rend. repeat (split; [first [assumption | reflexivity]|]). assumption.
  - rewrite HBR in El. discriminate.
Qed.

Lemma resume_read (s : st) m a0 acur aend acur' dm d z :
  BR (bundlers s) a0 acur aend -> astep acur m = Some (acur', dm) -> kmatch acur (KReadCache rk d z) m ->
  exists s1,
    RE.finish_read P D (RE.mark_cached P D s rk d) rk d z [] = (s1, Done (RVal (VReading d z)), []) /\
    keeps s s1 /\ cache s1 = cache s /\ uid_supply s1 = uid_supply s /\ dm = [] /\
    (z = rdm m -> BR (bundlers s1) a0 acur' aend).
Proof.
  intros HBR Hst (_ & Ecmd & Eo & r & nb & Er & Eb).
  pose proof (astep_mrun _ _ _ _ _ _ Hst) as Hrun.
  unfold PointSpec.astep in Hst. rewrite Hrun, Nat.eqb_refl, Ecmd, Eo, Er, Eb in Hst. cbn [negb] in Hst.
  destruct nb as [[n o] rd]. destruct (mem_nat d o) eqn:Emem; [discriminate|]. injection Hst as Ha Hd; subst acur' dm.
  unfold BR in HBR. rewrite Er in HBR. destruct HBR as (b & X & Y & r0 & rend & Hbs & H0 & He & Hb0 & HR & Hsc & Hp1 & Hp2).
  pose proof HR as (R1 & R2 & R3 & R4 & R5). rewrite Eb in R3. destruct R3 as (R31 & R32 & R33 & R34).
  unfold RE.finish_read, RE.mark_cached. sb. rewrite Hbs. cbn [alookup aset]. rewrite Nat.eqb_refl. simp_st. cbn [alookup aset]. rewrite Nat.eqb_refl.
  cbn [b_add_cached bobjs bname breads]. rewrite R33, Emem.
  eexists. split; [reflexivity|]. split; [keeps_tac|]. split; [reflexivity|]. split; [reflexivity|]. split; [reflexivity|].
  intros Hz. sb.
  eapply BR_intro; [reflexivity | reflexivity | exact H0 | exact He | exact Hb0 | | exact Hsc | exact Hp1 | exact Hp2].
  unfold Rb. cbn. rewrite Hz, R32, R34. repeat split; first [eassumption | reflexivity].
Qed.

(* a snapshot taken when nothing has been done since the last checkpoint-like message (what the rewindable toggles
   of the suspender plan do): the relation is kept *)
Lemma snapshot_BR bs a0 aend :
  BR bs a0 a0 aend -> wfa a0 -> wfa aend ->
  BR (map (fun kb => (fst kb, b_snapshot (snd kb))) bs) a0 a0 aend.
Proof.
  intros HBR Hw0 Hwe. unfold BR in *. destruct (a_run a0) as [r0|] eqn:E0.
  - destruct HBR as (b & X & Y & r0' & rend & Hbs & H0 & He & Hb0 & HR & Hsc & Hp1 & Hp2). injection H0 as <-.
    destruct HR as (R1 & R2 & R3 & R4 & R5).
    unfold wfa in Hw0, Hwe. rewrite E0 in Hw0. rewrite He in Hwe.
    destruct Hw0 as (V1 & V2 & V3 & V4). destruct Hwe as (W1 & W2 & W3 & W4).
    assert (Hnd : NoDup (keys (bdescs b))).
    { destruct Hp2 as [q Hq]. rewrite W2, Hq, keys_app in W1. apply NoDup_app_inv in W1. apply W1. }
    subst bs. cbn [map fst snd].
    exists (b_snapshot b), X, X, r0, rend.
    split; [reflexivity|]. split; [reflexivity|]. split; [exact He|]. split; [exact Hb0|].
    split; [unfold Rb; cbn; repeat split; assumption|].
    split; [|split; [cbn; rewrite R4; apply prefix_refl | cbn; exact Hp2]].
    cbn. change (fold_set (bseq b) (bseqcopy b) = ab_seq r0 ++ ones X). rewrite <- R5.
    apply fold_set_prefix.
    + rewrite R5, keys_app, keys_ones, V2, <- keys_app, <- R4. exact Hnd.
    + rewrite Hsc, R5, !keys_app, !keys_ones, V2, <- !keys_app, <- R4. apply prefix_map. exact Hp1.
  - subst bs. reflexivity.
Qed.

(* ------------------------------------------------------------------ head messages *)
Lemma BR_aend bs a aend' : BR bs a a a -> run_rel a aend' -> BR bs a a aend'.
Proof.
  unfold BR, run_rel. destruct (a_run a) as [r|] eqn:Er; [|auto].
  intros (b & X & Y & r0 & rend & Hbs & H0 & He & Hb0 & HR & Hsc & Hp1 & Hp2) Hrr.
  injection H0 as <-. injection He as <-. destruct (a_run aend') as [rend'|]; [|contradiction]. destruct Hrr as [_ Hpe].
  pose proof HR as (R1 & R2 & R3 & R4 & R5). rewrite R4 in Hp2. apply prefix_app_same in Hp2. subst X. rewrite app_nil_r in R4.
  exists b, [], Y, r, rend'. repeat (split; [first [assumption | reflexivity]|]). rewrite R4. exact Hpe.
Qed.

Lemma exec_head (s : st) m a0 acur acur' aend' dm cc :
  BR (bundlers s) a0 acur acur -> wfa a0 -> wfa acur -> is_head (mcmd m) = true -> astep acur m = Some (acur', dm) ->
  run_rel acur' aend' ->
  uid_supply s = a_next acur -> record_intr s = false -> cache s = Some cc ->
  (needs_fresh (mcmd m) = true -> a0 = acur) ->
  exists s' o cr,
    exec_cmd s m = (s', cr, o) /\
    ((exists v, cr = Done (RVal v)) \/ (cr = Susp KCkptSleep /\ mcmd m = CCheckpoint)) /\ keeps s s' /\
    (cache s' = Some [] \/ needs_fresh (mcmd m) = true /\ cache s' = cache s) /\ uid_supply s' = a_next acur' /\
    forallb devdoc o = true /\ final_events o = doc_events dm /\ rundocs o = doc_rundocs dm /\
    BR (bundlers s') acur' acur' aend'.
Proof.
  intros HBR Hw0 Hwc Hh Hst Hrr Hu Hri Hc Hfr.
  pose proof (astep_mrun _ _ _ _ _ _ Hst) as Hrun.
  unfold PointSpec.astep in Hst. rewrite Hrun, Nat.eqb_refl in Hst. cbn [negb] in Hst.
  unfold RE.exec_cmd. destruct (mcmd m) eqn:Ecmd; cbn in Hh; try discriminate Hh; clear Hh.
  - (* checkpoint *)
    unfold RE.any_bundling, RE.reset_checkpoint. rewrite Hc.
    destruct (a_run acur) as [r|] eqn:Er.
    + destruct (ab_bund r) eqn:Eb; [discriminate|]. injection Hst as Ha Hd; subst acur' dm.
      unfold BR in HBR. rewrite Er in HBR. destruct HBR as (b & X & Y & r0 & rend & Hbs & H0 & He & Hb0 & HR & Hsc & Hp1 & Hp2).
      injection He as <-.
      pose proof HR as (R1 & R2 & R3 & R4 & R5). rewrite Eb in R3.
      rewrite R4 in Hp2. apply prefix_app_same in Hp2. subst X. cbn [ones map] in R5. rewrite app_nil_r in R4, R5.
      unfold wfa in Hwc. rewrite Er in Hwc. destruct Hwc as (W1 & W2 & W3 & W4).
      rewrite Hbs. cbn [existsb snd]. rewrite R3. cbn [orb]. rewrite Hc. simp_st.
      assert (HB : BR [(rk, b_snapshot b)] (freshen acur) (freshen acur) aend').
      { unfold run_rel in Hrr. cbn [a_run freshen] in Hrr. rewrite Er in Hrr. destruct (a_run aend') as [rend'|] eqn:Ee; [|contradiction].
        destruct Hrr as [_ Hpe].
        eapply BR_intro with (X := []) (Y := []); [exact Er | reflexivity | exact Er | exact Ee | exact Eb | | | | ].
        * unfold Rb. cbn. rewrite Eb, !app_nil_r. repeat split; assumption.
        * cbn. rewrite app_nil_r. change (fold_set (bseq b) (bseqcopy b) = ab_seq r). rewrite R5. apply fold_set_prefix; [exact W1|].
          unfold wfa in Hw0. rewrite H0 in Hw0. destruct Hw0 as (V1 & V2 & V3 & V4).
          rewrite Hsc, keys_app, keys_ones, V2, <- keys_app, W2. rewrite R4 in Hp1. apply prefix_map. exact Hp1.
        * cbn. rewrite R4, app_nil_r. apply prefix_refl.
        * cbn. rewrite R4. exact Hpe. }
      destruct (deferred s) eqn:Hdf.
      * do 3 eexists. split; [reflexivity|]. split; [right; split; reflexivity|].
        split; [keeps_tac|]. split; [left; reflexivity|]. split; [exact Hu|].
        split; [reflexivity|]. split; [reflexivity|]. split; [reflexivity|].
        simp_st. rewrite Hbs. cbn [map fst snd]. exact HB.
      * do 3 eexists. split; [reflexivity|]. split; [left; eexists; reflexivity|].
        split; [keeps_tac|]. split; [left; reflexivity|]. split; [exact Hu|].
        split; [reflexivity|]. split; [reflexivity|]. split; [reflexivity|].
        simp_st. rewrite Hbs. cbn [map fst snd]. exact HB.
    + injection Hst as Ha Hd; subst acur' dm. unfold BR in HBR. rewrite Er in HBR. rewrite HBR. cbn [existsb]. rewrite Hc. simp_st.
      destruct (deferred s) eqn:Hdf.
      * do 3 eexists. split; [reflexivity|]. split; [right; split; reflexivity|].
        split; [keeps_tac|]. split; [left; reflexivity|]. split; [exact Hu|].
        split; [reflexivity|]. split; [reflexivity|]. split; [reflexivity|].
        simp_st. rewrite HBR. unfold BR. cbn [a_run freshen]. rewrite Er. reflexivity.
      * do 3 eexists. split; [reflexivity|]. split; [left; eexists; reflexivity|].
        split; [keeps_tac|]. split; [left; reflexivity|]. split; [exact Hu|].
        split; [reflexivity|]. split; [reflexivity|]. split; [reflexivity|].
        simp_st. rewrite HBR. unfold BR. cbn [a_run freshen]. rewrite Er. reflexivity.
  - (* open_run *)
    destruct (a_run acur) as [r|] eqn:Er; [discriminate|]. destruct (a_fresh acur); [|discriminate]. injection Hst as Ha Hd; subst acur' dm.
    unfold BR in HBR. rewrite Er in HBR. rewrite HBR, Hri. cbn [amem alookup].
    do 3 eexists. split; [reflexivity|]. split; [left; eexists; reflexivity|]. split; [keeps_tac|]. split; [right; split; reflexivity|]. split; [sb; rewrite Hu; reflexivity|].
    split; [reflexivity|]. split; [cbn; reflexivity|]. split; [cbn; rewrite Hu; reflexivity|].
    sb. rewrite HBR, Hrun, Hu. cbn [aset].
    unfold run_rel in Hrr. cbn [a_run] in Hrr. destruct (a_run aend') as [rend'|] eqn:Ee; [|contradiction].
    eapply BR_intro with (X := []) (Y := []); [reflexivity | reflexivity | reflexivity | exact Ee | reflexivity | | reflexivity | | ].
    * unfold Rb. cbn. repeat split; reflexivity.
    * cbn. apply prefix_refl.
    * cbn. exists (ab_descs rend'). reflexivity.
  - (* close_run *)
    destruct (a_run acur) as [r|] eqn:Er; [|discriminate]. destruct (ab_bund r) eqn:Eb; [discriminate|]. injection Hst as Ha Hd; subst acur' dm.
    unfold BR in HBR. rewrite Er in HBR. destruct HBR as (b & X & Y & r0 & rend & Hbs & H0 & He & Hb0 & HR & Hsc & Hp1 & Hp2).
    injection He as <-.
    pose proof HR as (R1 & R2 & R3 & R4 & R5). rewrite Eb in R3.
    rewrite R4 in Hp2. apply prefix_app_same in Hp2. subst X. cbn [ones map] in R5. rewrite app_nil_r in R4, R5.
    sb. rewrite Hbs, Hrun. cbn [alookup aremove]. rewrite Nat.eqb_refl.
    unfold RE.reset_checkpoint. simp_st. rewrite Hc. simp_st.
    do 3 eexists. split; [reflexivity|]. split; [left; eexists; reflexivity|]. split; [keeps_tac|]. split; [left; reflexivity|]. split; [exact Hu|].
    split; [reflexivity|]. split; [reflexivity|].
    split; [cbn; unfold num_events, ab_num_events; rewrite R1, R5; reflexivity|].
    simp_st. unfold BR. cbn [a_run map]. reflexivity.
  - (* stage *)
    destruct (a_fresh acur) eqn:Efr; [|discriminate]. injection Hst as Ha Hd; subst acur' dm.
    rewrite <- (Hfr eq_refl) in *.
    destruct (mobj m) as [d|] eqn:Eo.
    + destruct (negb (mem_nat d (RE.stageables P D s))) eqn:Est.
      * do 3 eexists. split; [reflexivity|]. split; [left; eexists; reflexivity|]. split; [apply keeps_refl|].
        split; [right; split; reflexivity|]. split; [exact Hu|]. split; [reflexivity|]. split; [reflexivity|]. split; [reflexivity|].
        apply BR_aend; assumption.
      * destruct (dcall s d MStage) as [[s1 r1] o1] eqn:Edc. unfold RE.dcall in Edc. destruct (dev (RE.dst P D s) d MStage) as [d' r'] eqn:Ed.
        injection Edc as <- <- <-.
        assert (Hnr : forall e, r' <> DRaise e).
        { intros e He. destruct (Hdev (RE.dst P D s) d) as (_ & _ & _ & _ & _ & Hs & _). apply (Hs e). rewrite Ed. exact He. }
        unfold RE.reset_checkpoint. simp_st. rewrite Hc.
        destruct r'; try (exfalso; eapply Hnr; reflexivity);
          (do 3 eexists; split; [reflexivity|]; split; [left; eexists; reflexivity|]; split; [keeps_tac|];
           split; [left; reflexivity|]; split; [exact Hu|]; split; [reflexivity|]; split; [reflexivity|]; split; [reflexivity|];
           simp_st; apply BR_aend; [apply snapshot_BR; assumption | assumption]).
    + do 3 eexists. split; [reflexivity|]. split; [left; eexists; reflexivity|]. split; [apply keeps_refl|].
      split; [right; split; reflexivity|]. split; [exact Hu|]. split; [reflexivity|]. split; [reflexivity|]. split; [reflexivity|].
      apply BR_aend; assumption.
  - (* unstage *)
    destruct (a_fresh acur) eqn:Efr; [|discriminate]. injection Hst as Ha Hd; subst acur' dm.
    rewrite <- (Hfr eq_refl) in *.
    destruct (mobj m) as [d|] eqn:Eo.
    + destruct (negb (mem_nat d (RE.stageables P D s))) eqn:Est.
      * do 3 eexists. split; [reflexivity|]. split; [left; eexists; reflexivity|]. split; [apply keeps_refl|].
        split; [right; split; reflexivity|]. split; [exact Hu|]. split; [reflexivity|]. split; [reflexivity|]. split; [reflexivity|].
        apply BR_aend; assumption.
      * destruct (dcall s d MUnstage) as [[s1 r1] o1] eqn:Edc. unfold RE.dcall in Edc. destruct (dev (RE.dst P D s) d MUnstage) as [d' r'] eqn:Ed.
        injection Edc as <- <- <-.
        assert (Hnr : forall e, r' <> DRaise e).
        { intros e He. destruct (Hdev (RE.dst P D s) d) as (_ & _ & _ & _ & _ & _ & Hs). apply (Hs e). rewrite Ed. exact He. }
        unfold RE.reset_checkpoint. simp_st. rewrite Hc.
        destruct r'; try (exfalso; eapply Hnr; reflexivity);
          (do 3 eexists; split; [reflexivity|]; split; [left; eexists; reflexivity|]; split; [keeps_tac|];
           split; [left; reflexivity|]; split; [exact Hu|]; split; [reflexivity|]; split; [reflexivity|]; split; [reflexivity|];
           simp_st; apply BR_aend; [apply snapshot_BR; assumption | assumption]).
    + do 3 eexists. split; [reflexivity|]. split; [left; eexists; reflexivity|]. split; [apply keeps_refl|].
      split; [right; split; reflexivity|]. split; [exact Hu|]. split; [reflexivity|]. split; [reflexivity|]. split; [reflexivity|].
      apply BR_aend; assumption.
Qed.

(* ------------------------------------------------------------------ rewind *)
Lemma rewind_BR bs a0 acur aend :
  BR bs a0 acur aend -> run_rel a0 acur -> wfa a0 -> wfa acur -> wfa aend ->
  BR (map (fun kb => (fst kb, b_rewind (snd kb))) bs) a0 a0 aend.
Proof.
  intros HBR Hrr Hw0 Hwc Hwe. unfold BR in *. unfold run_rel in Hrr.
  destruct (a_run acur) as [r|] eqn:Er.
  - destruct HBR as (b & X & Y & r0 & rend & Hbs & H0 & He & Hb0 & HR & Hsc & Hp1 & Hp2).
    rewrite H0 in *. destruct Hrr as [Hu _].
    destruct HR as (R1 & R2 & R3 & R4 & R5).
    destruct Hp1 as [Z HZ]. rewrite <- app_assoc in HZ.
    unfold wfa in Hw0, Hwe, Hwc. rewrite H0 in Hw0. rewrite He in Hwe. rewrite Er in Hwc.
    destruct Hw0 as (V1 & V2 & V3 & V4). destruct Hwe as (W1 & W2 & W3 & W4). destruct Hwc as (U1 & U2 & U3 & U4).
    assert (Hnd : NoDup (keys (bdescs b))).
    { destruct Hp2 as [q Hq]. rewrite W2, Hq, keys_app in W1. apply NoDup_app_inv in W1. apply W1. }
    assert (Hintr : alookup INTR (bseq b) = None).
    { apply alookup_none_keys. rewrite R5, keys_app, keys_ones, U2, <- keys_app, <- R4. intros Hi.
      destruct Hp2 as [q Hq]. apply W3. rewrite Hq, keys_app. apply in_or_app. left. exact Hi. }
    subst bs. cbn [map fst snd].
    exists (b_rewind b), (Y ++ Z), (Y ++ Z), r0, rend.
    assert (Hfill : fold_left fill (bdescs b) (bseqcopy b, bseqcopy b) = (ab_seq r0 ++ ones (Y ++ Z), ab_seq r0 ++ ones (Y ++ Z))).
    { rewrite HZ, Hsc. apply fill_closed; [rewrite <- HZ; exact Hnd | exact V2]. }
    split; [reflexivity|]. split; [reflexivity|]. split; [exact He|]. split; [exact Hb0|].
    unfold b_rewind. rewrite Hintr. change (fold_left _ (bdescs b) (bseqcopy b, bseqcopy b)) with (fold_left fill (bdescs b) (bseqcopy b, bseqcopy b)).
    rewrite Hfill. cbn [fst snd].
    split; [|split; [reflexivity | split; [cbn; rewrite HZ; apply prefix_refl | cbn; exact Hp2]]].
    unfold Rb. cbn. rewrite Hb0. repeat split; try assumption. congruence.
  - subst bs. destruct (a_run a0); [contradiction | reflexivity].
Qed.


End B.
