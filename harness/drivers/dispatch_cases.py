"""Case generation shared by C18 and C19: operation histories over three callables.

Symbols are resolved into concrete ops by a tiny token counter (tokens are 0,1,2,... per successful
subscribe), so that "unsubscribe the token of the 2nd subscription made" can be written down statically.
"""
import itertools

from harness.drivers.dispatch_driver import SIGS

NAMES = ["all", "start", "descriptor", "event", "stop"]

# pools of three callables: functions / bound methods / callable objects, all distinct, and
# equal-but-distinct callable objects (fn 1 == fn 2 as Python objects)
POOLS = {
    "fmo": [("func", 0), ("method", 1), ("obj", 2)],
    "foo=": [("func", 0), ("obj", 5), ("obj", 5)],
    "mmo": [("method", 0), ("method", 1), ("obj", 2)],
    "o=o=o=": [("obj", 7), ("obj", 7), ("obj", 7)],
}


def mk_fns(pool, raises=None):
    raises = raises or [[], [], []]
    return [{"kind": k, "eq": e, "raises": [list(p) for p in r]} for (k, e), r in zip(POOLS[pool], raises)]


def no_subs():
    return {"form": "none", "items": []}


def call(items=None, msgs=None, form=None):
    if not items:
        spec = no_subs()
    else:
        spec = {"form": form or "dict", "items": [[n, list(fs)] for n, fs in items]}
    return ["call", spec, [list(m) for m in (msgs or [])]]


PROBE = [["open"], ["event"], ["close"]]


class Resolver:
    """Turns symbolic ops into concrete ones, tracking the public token counter.
    Symbolic tokens: ["unsub", "#k"] = token of the k-th successful subscription of the history (0-based,
    counted over permanent, per-call and in-plan ones); ["unsub", n] literal."""

    def __init__(self):
        self.n = 0

    def _sub(self, name):
        if name == "all" or name in SIGS:
            self.n += 1

    def tok(self, t):
        if isinstance(t, str) and t.startswith("#"):
            return int(t[1:])
        if isinstance(t, str) and t.startswith("+"):
            return self.n + int(t[1:])          # relative to the next token to be handed out
        if isinstance(t, str) and t.startswith("-"):
            return max(0, self.n - int(t[1:]))
        return int(t)

    def op(self, op):
        k = op[0]
        if k == "sub":
            self._sub(op[2])
            return list(op)
        if k == "unsub":
            return ["unsub", self.tok(op[1])]
        if k == "call":
            spec, msgs = op[1], op[2]
            from harness.drivers.dispatch_oracle import per_call_subs
            pcs = per_call_subs(spec)
            for n, _ in (pcs or []):        # pcs is None: KeyError before anything is subscribed
                self._sub(n)
            out = []
            for m in msgs:
                if m[0] == "sub":
                    out.append(list(m))
                    self._sub(m[2])      # counted even if the plan was aborted earlier: only used for symbols
                elif m[0] == "unsub":
                    out.append(["unsub", self.tok(m[1]), m[2] if len(m) > 2 else "arg"])
                else:
                    out.append(list(m))
            return ["call", spec, out]
        return list(op)


def resolve(ops):
    r = Resolver()
    return [r.op(o) for o in ops]


# ---------------------------------------------------------------- small-scope alphabet (C18)

def alphabet():
    return [
        ["sub", 0, "all"],
        ["sub", 1, "all"],
        ["sub", 2, "all"],
        ["sub", 0, "stop"],
        ["unsub", 0],
        ["unsub", 1],
        ["unsub", "-1"],                                        # the most recent token
        call(None, [["open"], ["close"]]),
        call([("all", [0])], [["open"], ["close"]], form="callable"),
        call([("stop", [1]), ("all", [2])], [["open"], ["close"]]),
        call(None, [["open"], ["sub", 0, "all"], ["event"], ["close"]]),
        call(None, [["sub", 1, "event"], ["open"], ["event"], ["unsub", "+0"], ["event"], ["close"]]),
    ]


def enumerate_histories(maxlen, pools):
    alpha = alphabet()
    for pool in pools:
        for n in range(1, maxlen + 1):
            for combo in itertools.product(range(len(alpha)), repeat=n):
                ops = [alpha[i] for i in combo] + [call(None, PROBE)]
                yield {"fns": mk_fns(pool), "ops": resolve(ops), "pool": pool, "gen": "enum%d" % n}


# ---------------------------------------------------------------- random histories

def rand_name(rng, bad=0.03):
    x = rng.random()
    if x < bad:
        return "bogus"
    if x < 0.5:
        return "all"
    if x < 0.9:
        return rng.choice(NAMES[1:])
    return rng.choice(SIGS)


def rand_plan(rng, maxlen=7, malformed=0.08):
    msgs = []
    is_open = False
    n = rng.randint(0, maxlen)
    for _ in range(n):
        x = rng.random()
        if x < malformed:
            msgs.append(rng.choice([["open"], ["close"], ["event"], ["unsub", str(rng.randint(0, 9)), "arg"]]))
            continue
        if not is_open and x < 0.45:
            msgs.append(["open"])
            is_open = True
        elif is_open and x < 0.4:
            msgs.append(["event"])
        elif is_open and x < 0.55:
            msgs.append(["close"])
            is_open = False
        elif x < 0.75:
            msgs.append(["sub", rng.randint(0, 2), rand_name(rng)])
        elif x < 0.9:
            msgs.append(["unsub", rng.choice(["-1", "-2", "-1", "#%d" % rng.randint(0, 6)]), rng.choice(["arg", "kw"])])
        else:
            msgs.append(["null"])
    if is_open and rng.random() < 0.8:
        msgs.append(["close"])
    return msgs


def rand_subs(rng):
    x = rng.random()
    if x < 0.35:
        return no_subs()
    if x < 0.5:
        return {"form": "callable", "items": [["all", [rng.randint(0, 2)]]]}
    if x < 0.65:
        return {"form": "list", "items": [["all", [rng.randint(0, 2) for _ in range(rng.randint(0, 3))]]]}
    keys = ["all", "start", "stop", "event", "descriptor"]
    rng.shuffle(keys)
    keys = keys[:rng.randint(1, 3)]
    if rng.random() < 0.04:
        keys.append(rng.choice(["bogus", "datum"]))
    return {"form": "dict", "items": [[k, [rng.randint(0, 2) for _ in range(rng.randint(1, 2))]] for k in keys]}


def rand_raises(rng, p):
    out = []
    for _ in range(3):
        r = []
        if rng.random() < p:
            for _ in range(rng.randint(1, 2)):
                s = rng.choice(["start", "descriptor", "event", "stop"])
                run = rng.choice([None, None, 0, 1])
                seq = rng.choice([None, 1, 2]) if s == "event" else None
                r.append([s, run, seq])
        out.append(r)
    return out


def rand_history(rng, maxops=6, p_raise=0.0, p_ignore=0.1, distinct_only=False):
    pool = rng.choice(["fmo", "mmo"] if distinct_only else list(POOLS))
    ops = []
    for _ in range(rng.randint(1, maxops)):
        x = rng.random()
        if x < 0.3:
            f = rng.randint(0, 2)
            ops.append(["sub", f, rand_name(rng)])
        elif x < 0.45:
            ops.append(["unsub", rng.choice(["-1", "-2", "#0", "#1", "#2", "#%d" % rng.randint(0, 8), "+0"])])
        elif x < 0.45 + p_ignore:
            ops.append(["ignore", rng.random() < 0.6])
        elif x < 0.93:
            ops.append(["call", rand_subs(rng), rand_plan(rng)])
        elif x < 0.97:
            ops.append(["unsub_all"])
        else:
            ops.append(["reset"])
    ops.append(call(None, PROBE))
    return {"fns": mk_fns(pool, rand_raises(rng, p_raise)), "ops": resolve(ops), "pool": pool, "gen": "random"}
