(* Model of bluesky.callbacks.tiled_writer._RunWriter (src/bluesky/callbacks/tiled_writer.py:496-727)
   and concatenate_stream_datums (:87-108) against an APPEND-LOG CLIENT: every call the writer makes on
   the Tiled client (create_container / update_metadata / create_appendable_table / append_partition /
   new / PUT data_source) is recorded as one log entry; nothing else of Tiled is modelled.

   State mirrors the fields of _RunWriter:
     root_node (None or the container key) and its metadata, access_tags,
     _desc_nodes            ONE string-keyed dict holding descriptor uids AND stream names -> node
                            (a node is identified by its item["id"], the stream name it was created with),
     node metadata          data_keys of the creating descriptor and the "_config_updates" list,
     _internal_tables       (keys), _internal_data_cache (insertion-ordered dict name -> rows),
     _external_data_cache   (insertion-ordered dict sres_uid -> StreamDatum; pop + re-insert moves to the end),
     _stream_resource_cache, _sres_nodes / _consolidators (ONE string-keyed dict holding sres uids AND
                            full data keys "<descname>_<datakey>"; the two Python dicts always have the same
                            keys, so they are one map key -> consolidator id, id = full data key at creation),
     data_keys, _batch_size (any Z).
   A consolidator (HDF5Consolidator, consolidators.py) is (node, data_key, dataset, leading datum dim,
   consumed stream datums, _num_rows, number of assets).
   Python exceptions are the enum [err]; a handler that raises leaves the state exactly as the Python code
   leaves it (effects before the raise are kept, e.g. the pop from the external cache).
   Not modelled (kept out of generated cases): the "_validate" parameter branch of stop, pyarrow
   (rows are the dicts handed to pyarrow.Table.from_pylist), Tiled errors (duplicate keys ...),
   non-HDF5 consolidators, chunk_shape.
   No proofs in this file. *)
From Coq Require Import String.
From BV Require Import Base.Prelude.

(* ------------------------------------------------------------------ values, dicts *)

Inductive value := VZ (z : Z) | VS (s : string).
Definition md := list (string * value).       (* a (flat) JSON object, in dict order *)
Definition row := list (string * value).      (* one row dict handed to pyarrow, in dict order *)

Definition seqb (a b : string) : bool := String.eqb a b.

Fixpoint lookup {A} (k : string) (d : list (string * A)) : option A :=
  match d with
  | [] => None
  | (k', v) :: r => if seqb k k' then Some v else lookup k r
  end.

(* d[k] = v : replace in place, or append at the end (Python dict order) *)
Fixpoint dict_set {A} (k : string) (v : A) (d : list (string * A)) : list (string * A) :=
  match d with
  | [] => [(k, v)]
  | (k', v') :: r => if seqb k k' then (k, v) :: r else (k', v') :: dict_set k v r
  end.

(* del d[k] (first and only occurrence) *)
Fixpoint dict_remove {A} (k : string) (d : list (string * A)) : list (string * A) :=
  match d with
  | [] => []
  | (k', v') :: r => if seqb k k' then r else (k', v') :: dict_remove k r
  end.

(* d.update(l) *)
Definition dict_update {A} (d l : list (string * A)) : list (string * A) :=
  fold_left (fun acc kv => dict_set (fst kv) (snd kv) acc) l d.

Fixpoint smem (k : string) (l : list string) : bool :=
  match l with [] => false | x :: r => seqb k x || smem k r end.

(* Z-keyed dict for _seqnums_to_indices_map *)
Fixpoint zdict_set (k v : Z) (d : list (Z * Z)) : list (Z * Z) :=
  match d with
  | [] => [(k, v)]
  | (k', v') :: r => if Z.eqb k k' then (k, v) :: r else (k', v') :: zdict_set k v r
  end.

(* range(a, b) *)
Definition zrange (a b : Z) : list Z := map (fun i => (a + Z.of_nat i)%Z) (seq 0 (Z.to_nat (b - a))).

(* truncate_json_overflow on an int (bluesky.utils) *)
Definition trunc_z (z : Z) : Z := Z.min (Z.max z (1 - 2 ^ 53)) (2 ^ 53 - 1).
Definition trunc_v (v : value) : value := match v with VZ z => VZ (trunc_z z) | VS s => VS s end.
Definition trunc_md (m : md) : md := map (fun kv => (fst kv, trunc_v (snd kv))) m.

(* ------------------------------------------------------------------ documents *)

Record sdatum := mkSD { sd_uid : string; sd_sres : string; sd_desc : string;
                        sd_i0 : Z; sd_i1 : Z;      (* indices  start, stop *)
                        sd_q0 : Z; sd_q1 : Z }.    (* seq_nums start, stop *)
Record sres := mkSR { sr_uid : string; sr_dk : string; sr_dataset : string }.
Record event := mkEv { ev_desc : string; ev_seq : Z; ev_time : Z;
                       ev_data : list (string * value); ev_ts : list (string * value) }.
(* d_keys: data_keys with the leading dimension of "shape"; d_conf: None = empty/missing "configuration",
   Some z = a non-empty one (digest z) *)
Record descriptor := mkDesc { d_uid : string; d_name : string; d_time : Z;
                              d_keys : list (string * Z); d_conf : option Z }.
(* the start document is {"uid": st_uid, **st_md} (+ "tiled_access_tags": st_tags when present) *)
Record startdoc := mkStart { st_uid : string; st_md : md; st_tags : option (list string) }.

Inductive doc :=
| DStart (s : startdoc)
| DDescriptor (d : descriptor)
| DEvent (e : event)
| DEventPage (es : list event)         (* unpacked by event_model.unpack_event_page *)
| DSres (r : sres)
| DSdatum (d : sdatum)
| DStop (m : md).                      (* the whole stop document *)

Inductive err := EKey | ERuntime | EValue.

(* ------------------------------------------------------------------ client log *)

Definition cfgupd := (string * Z * option Z)%type.       (* uid, time, configuration digest *)

Inductive entry :=
| LCreateRoot (key : string) (start : md) (tags : option (list string))
| LCreateStream (root name uid : string) (time : Z) (keys : list (string * Z)) (conf : option Z)
                (tags : option (list string))
| LUpdateConfig (name : string) (upds : list cfgupd)
| LCreateTable (name : string) (cols : list string) (mdkeys : list (string * Z)) (tags : option (list string))
| LAppend (name : string) (rows : list row)
| LNewArray (node dk : string) (shape0 : Z) (nassets : nat) (dataset : string) (tags : option (list string))
| LUpdSres (node dk sres_uid : string)             (* consolidator.update_from_stream_resource called *)
| LPut (node dk : string) (consumed : sdatum) (shape0 : Z) (nassets : nat)
                                                   (* consume_stream_datum + PUT of the data source *)
| LUpdateRoot (start stop : md).                   (* root.update_metadata({"stop":..,"start":..}) *)

(* ------------------------------------------------------------------ state *)

Record cons := mkCons { c_node : string; c_dk : string; c_dataset : string; c_mult : Z;
                        c_consumed : list sdatum; c_rows : Z; c_assets : nat }.

Record state := mkSt {
  s_root : option string;
  s_rootmd : md * option md;                          (* root_node.metadata: "start", "stop" *)
  s_tags : option (list string);
  s_desc_nodes : list (string * string);              (* uid or name -> node id *)
  s_node_md : list (string * (list (string * Z) * list cfgupd));  (* node id -> data_keys, _config_updates *)
  s_tables : list string;
  s_icache : list (string * list row);
  s_ecache : list (string * sdatum);
  s_srcache : list (string * sres);
  s_sres_nodes : list (string * string);              (* sres uid or full data key -> consolidator id *)
  s_cons : list (string * cons);                      (* consolidator id -> consolidator *)
  s_data_keys : list (string * Z);
  s_log : list entry }.

Definition init : state := mkSt None ([], None) None [] [] [] [] [] [] [] [] [] [].

Definition set_root st x := mkSt x (s_rootmd st) (s_tags st) (s_desc_nodes st) (s_node_md st) (s_tables st)
  (s_icache st) (s_ecache st) (s_srcache st) (s_sres_nodes st) (s_cons st) (s_data_keys st) (s_log st).
Definition set_rootmd st x := mkSt (s_root st) x (s_tags st) (s_desc_nodes st) (s_node_md st) (s_tables st)
  (s_icache st) (s_ecache st) (s_srcache st) (s_sres_nodes st) (s_cons st) (s_data_keys st) (s_log st).
Definition set_tags st x := mkSt (s_root st) (s_rootmd st) x (s_desc_nodes st) (s_node_md st) (s_tables st)
  (s_icache st) (s_ecache st) (s_srcache st) (s_sres_nodes st) (s_cons st) (s_data_keys st) (s_log st).
Definition set_desc_nodes st x := mkSt (s_root st) (s_rootmd st) (s_tags st) x (s_node_md st) (s_tables st)
  (s_icache st) (s_ecache st) (s_srcache st) (s_sres_nodes st) (s_cons st) (s_data_keys st) (s_log st).
Definition set_node_md st x := mkSt (s_root st) (s_rootmd st) (s_tags st) (s_desc_nodes st) x (s_tables st)
  (s_icache st) (s_ecache st) (s_srcache st) (s_sres_nodes st) (s_cons st) (s_data_keys st) (s_log st).
Definition set_tables st x := mkSt (s_root st) (s_rootmd st) (s_tags st) (s_desc_nodes st) (s_node_md st) x
  (s_icache st) (s_ecache st) (s_srcache st) (s_sres_nodes st) (s_cons st) (s_data_keys st) (s_log st).
Definition set_icache st x := mkSt (s_root st) (s_rootmd st) (s_tags st) (s_desc_nodes st) (s_node_md st)
  (s_tables st) x (s_ecache st) (s_srcache st) (s_sres_nodes st) (s_cons st) (s_data_keys st) (s_log st).
Definition set_ecache st x := mkSt (s_root st) (s_rootmd st) (s_tags st) (s_desc_nodes st) (s_node_md st)
  (s_tables st) (s_icache st) x (s_srcache st) (s_sres_nodes st) (s_cons st) (s_data_keys st) (s_log st).
Definition set_srcache st x := mkSt (s_root st) (s_rootmd st) (s_tags st) (s_desc_nodes st) (s_node_md st)
  (s_tables st) (s_icache st) (s_ecache st) x (s_sres_nodes st) (s_cons st) (s_data_keys st) (s_log st).
Definition set_sres_nodes st x := mkSt (s_root st) (s_rootmd st) (s_tags st) (s_desc_nodes st) (s_node_md st)
  (s_tables st) (s_icache st) (s_ecache st) (s_srcache st) x (s_cons st) (s_data_keys st) (s_log st).
Definition set_cons st x := mkSt (s_root st) (s_rootmd st) (s_tags st) (s_desc_nodes st) (s_node_md st)
  (s_tables st) (s_icache st) (s_ecache st) (s_srcache st) (s_sres_nodes st) x (s_data_keys st) (s_log st).
Definition set_data_keys st x := mkSt (s_root st) (s_rootmd st) (s_tags st) (s_desc_nodes st) (s_node_md st)
  (s_tables st) (s_icache st) (s_ecache st) (s_srcache st) (s_sres_nodes st) (s_cons st) x (s_log st).
Definition emit (e : entry) st := mkSt (s_root st) (s_rootmd st) (s_tags st) (s_desc_nodes st) (s_node_md st)
  (s_tables st) (s_icache st) (s_ecache st) (s_srcache st) (s_sres_nodes st) (s_cons st) (s_data_keys st)
  (s_log st ++ [e]).

(* ------------------------------------------------------------------ concatenate_stream_datums(a, b) *)

Definition concat2 (a b : sdatum) : err + sdatum :=
  if negb (seqb (sd_desc a) (sd_desc b)) then inl EValue
  else if negb (seqb (sd_sres a) (sd_sres b)) then inl EValue
  else
    (* sorted(docs, key=indices.start) is stable: b goes first only when strictly smaller *)
    let x := if (sd_i0 b <? sd_i0 a)%Z then b else a in
    let y := if (sd_i0 b <? sd_i0 a)%Z then a else b in
    if negb (sd_i1 x =? sd_i0 y)%Z then inl EValue
    else inr (mkSD (sd_uid y) (sd_sres y) (sd_desc y) (sd_i0 x) (sd_i1 y) (sd_q0 x) (sd_q1 y)).

(* ------------------------------------------------------------------ handlers *)

(* row = {"seq_num":.., "time":.., **doc["data"]}; row.update({"ts_"+k: v for k, v in doc["timestamps"]}) *)
Definition event_row (e : event) : row :=
  dict_update
    (dict_update [("seq_num"%string, VZ (ev_seq e)); ("time"%string, VZ (ev_time e))] (ev_data e))
    (map (fun kv => (String.append "ts_" (fst kv), snd kv)) (ev_ts e)).

(* _write_internal_data(rows, node): first write creates the table (columns = keys of the first row,
   metadata = the known data_keys that are columns), then append_partition *)
Definition write_internal (st : state) (rows : list row) (node : string) : state :=
  let cols := match rows with r :: _ => map fst r | [] => [] end in
  let st1 := if smem node (s_tables st) then st
             else emit (LCreateTable node cols (filter (fun kv => smem (fst kv) cols) (s_data_keys st)) (s_tags st))
                       (set_tables st (s_tables st ++ [node])) in
  emit (LAppend node rows) st1.

Definition cache_of (name : string) (c : list (string * list row)) : list row :=
  match lookup name c with Some r => r | None => [] end.

Definition h_event (bs : Z) (st : state) (e : event) : state * option err :=
  match lookup (ev_desc e) (s_desc_nodes st) with
  | None => (st, Some EKey)
  | Some node =>
      let cache := cache_of node (s_icache st) ++ [event_row e] in
      if (Z.of_nat (length cache) >=? bs)%Z
      then (set_icache (write_internal st cache node) (dict_set node [] (s_icache st)), None)  (* write, clear *)
      else (set_icache st (dict_set node cache (s_icache st)), None)
  end.

Fixpoint h_events (bs : Z) (st : state) (es : list event) : state * option err :=
  match es with
  | [] => (st, None)
  | e :: r => match h_event bs st e with
              | (st', None) => h_events bs st' r
              | bad => bad
              end
  end.

Definition h_start (st : state) (s : startdoc) : state * option err :=
  let mdv := trunc_md (("uid"%string, VS (st_uid s)) :: st_md s) in
  (emit (LCreateRoot (st_uid s) mdv (st_tags s))
        (set_root (set_rootmd (set_tags st (st_tags s)) (mdv, None)) (Some (st_uid s))), None).

Definition h_descriptor (st : state) (d : descriptor) : state * option err :=
  match s_root st with
  | None => (st, Some ERuntime)
  | Some rootkey =>
      let st1 := set_data_keys st (dict_update (s_data_keys st) (d_keys d)) in
      let upd := (d_uid d, trunc_z (d_time d), option_map trunc_z (d_conf d)) in
      let stn :=
        match lookup (d_name d) (s_desc_nodes st1) with
        | None =>
            (emit (LCreateStream rootkey (d_name d) (d_uid d) (trunc_z (d_time d)) (d_keys d)
                                 (option_map trunc_z (d_conf d)) (s_tags st1))
                  (set_node_md st1 (dict_set (d_name d) (d_keys d, []) (s_node_md st1))), d_name d)
        | Some node =>
            let km := match lookup node (s_node_md st1) with Some x => x | None => ([], []) end in
            let upds := snd km ++ [upd] in
            (emit (LUpdateConfig node upds)
                  (set_node_md st1 (dict_set node (fst km, upds) (s_node_md st1))), node)
        end in
      (* self._desc_nodes[uid] = self._desc_nodes[name] = node : uid is assigned first *)
      (set_desc_nodes (fst stn)
         (dict_set (d_name d) (snd stn) (dict_set (d_uid d) (snd stn) (s_desc_nodes (fst stn)))), None)
  end.

Definition h_sres (st : state) (r : sres) : state * option err :=
  (set_srcache st (dict_set (sr_uid r) r (s_srcache st)), None).

Definition fdk (node dk : string) : string := String.append node (String.append "_" dk).

Definition register (st : state) (sres_uid key cid : string) : state :=
  set_sres_nodes st (dict_set key cid (dict_set sres_uid cid (s_sres_nodes st))).

Definition get_sres_node (st : state) (sres_uid desc_uid : string) : state * (err + string) :=
  match lookup sres_uid (s_sres_nodes st) with
  | Some cid => (st, inr cid)
  | None =>
      match lookup sres_uid (s_srcache st) with
      | None => (st, inl ERuntime)                    (* referenced before being received *)
      | Some r =>
          if seqb desc_uid "" then (st, inl ERuntime)   (* `if not desc_uid` *)
          else
            match lookup desc_uid (s_desc_nodes st) with
            | None => (st, inl EKey)
            | Some node =>
                let key := fdk node (sr_dk r) in
                match lookup key (s_sres_nodes st) with
                | Some cid =>
                    (* additional StreamResource for the same full data key *)
                    match lookup cid (s_cons st) with
                    | None => (st, inl EKey)
                    | Some c =>
                        let st1 := emit (LUpdSres (c_node c) (c_dk c) sres_uid) st in
                        if negb (seqb (sr_dataset r) (c_dataset c)) then (st1, inl EValue)
                        else
                          let c' := mkCons (c_node c) (c_dk c) (c_dataset c) (c_mult c) (c_consumed c)
                                           (c_rows c) (S (c_assets c)) in
                          (register (set_cons st1 (dict_set cid c' (s_cons st1))) sres_uid key cid, inr cid)
                    end
                | None =>
                    (* consolidator_factory(sres_doc, desc_node.metadata): data_keys[data_key] *)
                    let keys := match lookup node (s_node_md st) with Some x => fst x | None => [] end in
                    match lookup (sr_dk r) keys with
                    | None => (st, inl EKey)
                    | Some m =>
                        let c := mkCons node (sr_dk r) (sr_dataset r) m [] 0 1 in
                        let st1 := emit (LNewArray node (sr_dk r) 0 1 (sr_dataset r) (s_tags st))
                                        (set_cons st (dict_set key c (s_cons st))) in
                        (register st1 sres_uid key key, inr key)
                    end
                end
            end
      end
  end.

Definition consume (c : cons) (d : sdatum) : cons :=
  mkCons (c_node c) (c_dk c) (c_dataset c) (c_mult c) (c_consumed c ++ [d])
         (c_rows c + (sd_i1 d - sd_i0 d)) (c_assets c).

(* _write_external_data(doc) *)
Definition write_external (st : state) (d : sdatum) : state * option err :=
  match get_sres_node st (sd_sres d) (sd_desc d) with
  | (st1, inl e) => (st1, Some e)
  | (st1, inr cid) =>
      match lookup cid (s_cons st1) with
      | None => (st1, Some EKey)
      | Some c =>
          let c' := consume c d in
          (emit (LPut (c_node c') (c_dk c') d (c_rows c' * c_mult c') (c_assets c'))
                (set_cons st1 (dict_set cid c' (s_cons st1))), None)
      end
  end.

Definition h_sdatum (bs : Z) (st : state) (d : sdatum) : state * option err :=
  if (bs <=? 1)%Z then write_external st d
  else
    match lookup (sd_sres d) (s_ecache st) with
    | None => (set_ecache st (dict_set (sd_sres d) d (s_ecache st)), None)
    | Some cached =>
        let st1 := set_ecache st (dict_remove (sd_sres d) (s_ecache st)) in       (* pop *)
        let handler (s : state) :=                                                (* except ValueError: *)
          match write_external s cached with
          | (s', None) => write_external s' d
          | bad => bad
          end in
        match concat2 cached d with
        | inl _ => handler st1
        | inr m =>
            if (sd_i1 m - sd_i0 m >=? bs)%Z then
              match write_external st1 m with
              | (s', Some EValue) => handler s'      (* the write is inside the try block *)
              | other => other
              end
            else (set_ecache st1 (dict_set (sd_sres d) m (s_ecache st1)), None)
        end
    end.

(* stop: for desc_name, data_cache in self._internal_data_cache.items(): write non-empty ones, clear *)
Fixpoint flush_internal (st : state) (snapshot : list (string * list row)) : state * option err :=
  match snapshot with
  | [] => (st, None)
  | (name, rows) :: rest =>
      match rows with
      | [] => flush_internal st rest
      | _ :: _ =>
          match lookup name (s_desc_nodes st) with
          | None => (st, Some EKey)
          | Some node =>
              flush_internal (set_icache (write_internal st rows node) (dict_set name [] (s_icache st))) rest
          end
      end
  end.

(* stop: for doc in self._external_data_cache.values(): _write_external_data(doc)  (cache is not cleared) *)
Fixpoint flush_external (st : state) (snapshot : list (string * sdatum)) : state * option err :=
  match snapshot with
  | [] => (st, None)
  | (_, d) :: rest =>
      match write_external st d with
      | (st', None) => flush_external st' rest
      | bad => bad
      end
  end.

Definition h_stop (st : state) (m : md) : state * option err :=
  match s_root st with
  | None => (st, Some ERuntime)
  | Some _ =>
      match flush_internal st (s_icache st) with
      | (st1, Some e) => (st1, Some e)
      | (st1, None) =>
          match flush_external st1 (s_ecache st1) with
          | (st2, Some e) => (st2, Some e)
          | (st2, None) =>
              (* {"stop": doc, **dict(root.metadata)} : an existing "stop" wins *)
              let stopv := match snd (s_rootmd st2) with Some o => o | None => m end in
              (emit (LUpdateRoot (fst (s_rootmd st2)) stopv)
                    (set_rootmd st2 (fst (s_rootmd st2), Some stopv)), None)
          end
      end
  end.

Definition handle (bs : Z) (st : state) (d : doc) : state * option err :=
  match d with
  | DStart s => h_start st s
  | DDescriptor x => h_descriptor st x
  | DEvent e => h_event bs st e
  | DEventPage es => h_events bs st es
  | DSres r => h_sres st r
  | DSdatum x => h_sdatum bs st x
  | DStop m => h_stop st m
  end.

Fixpoint run_from (bs : Z) (st : state) (docs : list doc) : state * option err :=
  match docs with
  | [] => (st, None)
  | d :: r => match handle bs st d with
              | (st', None) => run_from bs st' r
              | bad => bad
              end
  end.

Definition run (bs : Z) (docs : list doc) : state * option err := run_from bs init docs.

(* _seqnums_to_indices_map after consuming the datums in order *)
Definition seqmap_step (m : list (Z * Z)) (d : sdatum) : list (Z * Z) :=
  fold_left (fun acc kv => zdict_set (fst kv) (snd kv) acc)
            (combine (zrange (sd_q0 d) (sd_q1 d)) (zrange (sd_i0 d) (sd_i1 d))) m.
Definition seqmap_of (consumed : list sdatum) : list (Z * Z) := fold_left seqmap_step consumed [].

(* ------------------------------------------------------------------ vocabulary of the property *)

(* projections of the client log *)
Definition partitions (n : string) (l : list entry) : list (list row) :=
  flat_map (fun e => match e with LAppend n' rows => if seqb n n' then [rows] else [] | _ => [] end) l.
Definition created_tables (l : list entry) : list string :=
  flat_map (fun e => match e with LCreateTable n _ _ _ => [n] | _ => [] end) l.
Definition puts (l : list entry) : list (string * sdatum) :=          (* (full data key, consumed datum) *)
  flat_map (fun e => match e with LPut node dk d _ _ => [(fdk node dk, d)] | _ => [] end) l.
Definition puts_of (cid : string) (l : list entry) : list sdatum :=
  flat_map (fun e => match e with LPut node dk d _ _ => if seqb cid (fdk node dk) then [d] else [] | _ => [] end) l.
Definition new_arrays (l : list entry) : list string :=
  flat_map (fun e => match e with LNewArray node dk _ _ _ _ => [fdk node dk] | _ => [] end) l.
Definition root_updates (l : list entry) : list (md * md) :=
  flat_map (fun e => match e with LUpdateRoot a b => [(a, b)] | _ => [] end) l.

(* what was received *)
Definition is_body (d : doc) : bool := match d with DStart _ | DStop _ => false | _ => true end.
Definition doc_events (d : doc) : list event :=
  match d with DEvent e => [e] | DEventPage es => es | _ => [] end.
Definition stream_datums (docs : list doc) : list sdatum :=
  flat_map (fun d => match d with DSdatum x => [x] | _ => [] end) docs.
Definition desc_names (docs : list doc) : list string :=
  flat_map (fun d => match d with DDescriptor x => [d_name x] | _ => [] end) docs.
(* descriptor uids and references to them from events *)
Definition desc_refs (docs : list doc) : list string :=
  flat_map (fun d => match d with DDescriptor x => [d_uid x] | _ => map ev_desc (doc_events d) end) docs.

(* the plain reading of "the events of stream n": descriptor uid -> name of the (latest) descriptor with
   that uid; rows in arrival order.  dm is the uid -> name association so far. *)
Fixpoint spec_rows (dm : list (string * string)) (docs : list doc) (n : string) : list row :=
  match docs with
  | [] => []
  | DDescriptor x :: r => spec_rows (dict_set (d_uid x) (d_name x) dm) r n
  | d :: r =>
      map event_row (filter (fun e => match lookup (ev_desc e) dm with Some n' => seqb n n' | None => false end)
                            (doc_events d))
      ++ spec_rows dm r n
  end.

Definition width (d : sdatum) : Z := sd_i1 d - sd_i0 d.
Definition expand_ind (d : sdatum) : list Z := zrange (sd_i0 d) (sd_i1 d).
Definition expand_seq (d : sdatum) : list Z := zrange (sd_q0 d) (sd_q1 d).
Definition zsum (l : list Z) : Z := fold_right Z.add 0%Z l.
(* the rows of a stream datum, each tagged with the uid of its stream resource *)
Definition tag_ind (d : sdatum) : list (string * Z) := map (pair (sd_sres d)) (expand_ind d).
Definition tag_seq (d : sdatum) : list (string * Z) := map (pair (sd_sres d)) (expand_seq d).

(* stream datums received for the stream resources that ended up mapped to consolidator cid *)
Definition received_for (cid : string) (st : state) (docs : list doc) : list sdatum :=
  filter (fun d => match lookup (sd_sres d) (s_sres_nodes st) with Some c => seqb cid c | None => false end)
         (stream_datums docs).

(* ------------------------------------------------------------------ boolean equalities (generated cases) *)

Definition value_beq (a b : value) : bool :=
  match a, b with VZ x, VZ y => Z.eqb x y | VS x, VS y => seqb x y | _, _ => false end.
Definition md_beq : md -> md -> bool := list_beq (prod_beq seqb value_beq).
Definition sdatum_beq (a b : sdatum) : bool :=
  seqb (sd_uid a) (sd_uid b) && seqb (sd_sres a) (sd_sres b) && seqb (sd_desc a) (sd_desc b)
  && Z.eqb (sd_i0 a) (sd_i0 b) && Z.eqb (sd_i1 a) (sd_i1 b) && Z.eqb (sd_q0 a) (sd_q0 b) && Z.eqb (sd_q1 a) (sd_q1 b).
Definition tags_beq : option (list string) -> option (list string) -> bool := option_beq (list_beq seqb).
Definition keys_beq : list (string * Z) -> list (string * Z) -> bool := list_beq (prod_beq seqb Z.eqb).
Definition cfgupd_beq : cfgupd -> cfgupd -> bool := prod_beq (prod_beq seqb Z.eqb) (option_beq Z.eqb).
Definition err_beq (a b : err) : bool :=
  match a, b with EKey, EKey | ERuntime, ERuntime | EValue, EValue => true | _, _ => false end.

Definition entry_beq (a b : entry) : bool :=
  match a, b with
  | LCreateRoot k m t, LCreateRoot k' m' t' => seqb k k' && md_beq m m' && tags_beq t t'
  | LCreateStream r n u tm ks c t, LCreateStream r' n' u' tm' ks' c' t' =>
      seqb r r' && seqb n n' && seqb u u' && Z.eqb tm tm' && keys_beq ks ks' && option_beq Z.eqb c c' && tags_beq t t'
  | LUpdateConfig n u, LUpdateConfig n' u' => seqb n n' && list_beq cfgupd_beq u u'
  | LCreateTable n c m t, LCreateTable n' c' m' t' => seqb n n' && list_beq seqb c c' && keys_beq m m' && tags_beq t t'
  | LAppend n r, LAppend n' r' => seqb n n' && list_beq md_beq r r'
  | LNewArray n k s a d t, LNewArray n' k' s' a' d' t' =>
      seqb n n' && seqb k k' && Z.eqb s s' && Nat.eqb a a' && seqb d d' && tags_beq t t'
  | LUpdSres n k u, LUpdSres n' k' u' => seqb n n' && seqb k k' && seqb u u'
  | LPut n k d s a, LPut n' k' d' s' a' => seqb n n' && seqb k k' && sdatum_beq d d' && Z.eqb s s' && Nat.eqb a a'
  | LUpdateRoot a1 b1, LUpdateRoot a2 b2 => md_beq a1 a2 && md_beq b1 b2
  | _, _ => false
  end.

(* what the harness reads from the real object after the run *)
Record final := mkFinal {
  f_icache : list (string * list row);                (* _internal_data_cache *)
  f_ecache : list (string * sdatum);                  (* _external_data_cache *)
  f_desc_nodes : list (string * string);              (* _desc_nodes: key -> node.item["id"] *)
  f_sres_nodes : list (string * string);              (* _sres_nodes: key -> parentid_key of the node *)
  f_cons : list (string * (Z * nat * nat));           (* per node: _num_rows, len(_seqnums_to_indices_map), len(assets) *)
  f_tables : list string;                             (* _internal_tables keys *)
  f_srcache : list string;                            (* _stream_resource_cache keys *)
  f_data_keys : list string }.                        (* data_keys keys *)

Definition final_of (st : state) : final :=
  mkFinal (s_icache st) (s_ecache st) (s_desc_nodes st)
          (map (fun kc => (fst kc, match lookup (snd kc) (s_cons st) with
                                   | Some c => fdk (c_node c) (c_dk c) | None => ""%string end)) (s_sres_nodes st))
          (map (fun kc => (fdk (c_node (snd kc)) (c_dk (snd kc)),
                           (c_rows (snd kc), length (seqmap_of (c_consumed (snd kc))), c_assets (snd kc)))) (s_cons st))
          (s_tables st) (map fst (s_srcache st)) (map fst (s_data_keys st)).

Definition final_beq (a b : final) : bool :=
  list_beq (prod_beq seqb (list_beq md_beq)) (f_icache a) (f_icache b)
  && list_beq (prod_beq seqb sdatum_beq) (f_ecache a) (f_ecache b)
  && list_beq (prod_beq seqb seqb) (f_desc_nodes a) (f_desc_nodes b)
  && list_beq (prod_beq seqb seqb) (f_sres_nodes a) (f_sres_nodes b)
  && list_beq (prod_beq seqb (prod_beq (prod_beq Z.eqb Nat.eqb) Nat.eqb)) (f_cons a) (f_cons b)
  && list_beq seqb (f_tables a) (f_tables b)
  && list_beq seqb (f_srcache a) (f_srcache b)
  && list_beq seqb (f_data_keys a) (f_data_keys b).

(* "the model run on this case yields exactly this log / exception / final caches" *)
Definition agrees (bs : Z) (docs : list doc) (log : list entry) (e : option err) (fin : final) : bool :=
  let r := run bs docs in
  list_beq entry_beq (s_log (fst r)) log && option_beq err_beq (snd r) e && final_beq (final_of (fst r)) fin.

(* ------------------------------------------------------------------ hypotheses of the theorems, as booleans *)

Definition is_run_b (docs : list doc) : bool :=
  match docs with
  | DStart _ :: rest =>
      match rev rest with
      | DStop _ :: body => forallb is_body body
      | _ => false
      end
  | _ => false
  end.

(* uid namespace (descriptor uids and the events' references to them) disjoint from the stream names *)
Definition ns_disjoint_b (docs : list doc) : bool :=
  forallb (fun r => negb (smem r (desc_names docs))) (desc_refs docs).

Definition sd_wf_b (docs : list doc) : bool :=
  forallb (fun d => (sd_i0 d <=? sd_i1 d)%Z) (stream_datums docs).

(* seq_nums = indices + a constant per stream resource (RunNormalizer: + 1) *)
Definition off_of (docs : list doc) (s : string) : Z :=
  match filter (fun d => seqb s (sd_sres d)) (stream_datums docs) with
  | d :: _ => (sd_q0 d - sd_i0 d)%Z
  | [] => 0%Z
  end.
Definition aligned_b (docs : list doc) : bool :=
  forallb (fun d => (sd_q0 d =? sd_i0 d + off_of docs (sd_sres d))%Z && (sd_q1 d =? sd_i1 d + off_of docs (sd_sres d))%Z)
          (stream_datums docs).

(* finding class a: two different (stream name, data_key) pairs that receive stream datums and have the same
   full data key "<name>_<key>".  Pairs are read off the documents: descriptor uid -> name, sres uid -> data_key. *)
Definition final_dm (docs : list doc) : list (string * string) :=
  fold_left (fun dm d => match d with DDescriptor x => dict_set (d_uid x) (d_name x) dm | _ => dm end) docs [].
Definition final_sr (docs : list doc) : list (string * string) :=
  fold_left (fun m d => match d with DSres r => dict_set (sr_uid r) (sr_dk r) m | _ => m end) docs [].
Definition ext_pairs (docs : list doc) : list (string * string) :=
  flat_map (fun d => match lookup (sd_desc d) (final_dm docs), lookup (sd_sres d) (final_sr docs) with
                     | Some n, Some k => [(n, k)]
                     | _, _ => []
                     end) (stream_datums docs).
Definition pair_beq (p q : string * string) : bool := seqb (fst p) (fst q) && seqb (snd p) (snd q).
Definition finding_C46_a_b (bs : Z) (docs : list doc) : bool :=
  existsb (fun p => existsb (fun q => negb (pair_beq p q) && seqb (fdk (fst p) (snd p)) (fdk (fst q) (snd q)))
                            (ext_pairs docs)) (ext_pairs docs).

(* ------------------------------------------------------------------ boolean restatement of the conclusions *)

Fixpoint zcount (x : Z) (l : list Z) : nat :=
  match l with [] => 0 | y :: r => (if Z.eqb x y then 1 else 0) + zcount x r end.
Definition perm_b (l1 l2 : list Z) : bool :=
  Nat.eqb (length l1) (length l2) && forallb (fun x => Nat.eqb (zcount x l1) (zcount x l2)) l1.

Fixpoint snodup_b (l : list string) : bool :=
  match l with [] => true | x :: r => negb (smem x r) && snodup_b r end.

Definition is_nil {A} (l : list A) : bool := match l with [] => true | _ => false end.

Definition appended_names (l : list entry) : list string :=
  flat_map (fun e => match e with LAppend n _ => [n] | _ => [] end) l.

Definition internal_b (docs : list doc) (st : state) : bool :=
  let L := s_log st in
  let names := desc_names docs ++ appended_names L ++ created_tables L ++ map fst (s_icache st) in
  forallb (fun n => list_beq md_beq (concat (partitions n L)) (spec_rows [] docs n)) names
  && forallb (fun e => match e with LAppend _ rows => negb (is_nil rows) | _ => true end) L
  && forallb (fun kv => is_nil (snd kv)) (s_icache st)
  && snodup_b (created_tables L)
  && forallb (fun n => Bool.eqb (smem n (created_tables L)) (negb (is_nil (partitions n L)))) names.

Definition put_shapes (cid : string) (l : list entry) : list Z :=
  flat_map (fun e => match e with LPut node dk _ s _ => if seqb cid (fdk node dk) then [s] else [] | _ => [] end) l.

Definition external_b (docs : list doc) (st : state) : bool :=
  let L := s_log st in
  let cids := map fst (s_cons st) ++ map fst (puts L) in
  forallb (fun cid => perm_b (flat_map expand_ind (puts_of cid L)) (flat_map expand_ind (received_for cid st docs))) cids
  && forallb (fun kc => list_beq sdatum_beq (c_consumed (snd kc)) (puts_of (fst kc) L)
                        && Z.eqb (c_rows (snd kc)) (zsum (map width (received_for (fst kc) st docs)))
                        && seqb (fst kc) (fdk (c_node (snd kc)) (c_dk (snd kc)))
                        && (is_nil (put_shapes (fst kc) L)
                            || Z.eqb (last (put_shapes (fst kc) L) 0%Z) (c_rows (snd kc) * c_mult (snd kc)))) (s_cons st)
  && forallb (fun cid => match lookup cid (s_cons st) with Some _ => true | None => false end) (map fst (puts L))
  && forallb (fun d => match lookup (sd_sres d) (s_sres_nodes st) with
                       | Some cid => match lookup cid (s_cons st) with Some _ => true | None => false end
                       | None => false end) (filter (fun d => (sd_i0 d <? sd_i1 d)%Z) (stream_datums docs))
  && forallb (fun s => perm_b (flat_map expand_ind (filter (fun d => seqb s (sd_sres d)) (map snd (puts L))))
                              (flat_map expand_ind (filter (fun d => seqb s (sd_sres d)) (stream_datums docs))))
             (map sd_sres (stream_datums docs) ++ map (fun p => sd_sres (snd p)) (puts L))
  && forallb (fun kd => existsb (fun p => sdatum_beq (snd kd) (snd p)) (puts L)) (s_ecache st)
  && snodup_b (new_arrays L)
  && forallb (fun kc => smem (fst kc) (new_arrays L)) (s_cons st).

Definition seq_b (docs : list doc) (st : state) : bool :=
  let L := s_log st in
  forallb (fun cid => perm_b (flat_map expand_seq (puts_of cid L)) (flat_map expand_seq (received_for cid st docs)))
          (map fst (s_cons st) ++ map fst (puts L)).

Definition is_create_root (e : entry) : bool := match e with LCreateRoot _ _ _ => true | _ => false end.

Definition metadata_b (docs : list doc) (st : state) : bool :=
  match docs, s_log st with
  | DStart s :: rest, first :: more =>
      let startmd := trunc_md (("uid"%string, VS (st_uid s)) :: st_md s) in
      entry_beq first (LCreateRoot (st_uid s) startmd (st_tags s))
      && match rev rest, rev more with
         | DStop m :: _, lst :: mid =>
             entry_beq lst (LUpdateRoot startmd m) && is_nil (root_updates mid) && negb (existsb is_create_root mid)
         | _, _ => false
         end
  | _, _ => false
  end.

Definition c46_holds_b (bs : Z) (docs : list doc) : bool :=
  let r := run bs docs in
  match snd r with
  | Some _ => true
  | None =>
      if negb (is_run_b docs) then true
      else
        let st := fst r in
        metadata_b docs st
        && (if ns_disjoint_b docs then internal_b docs st else true)
        && (if sd_wf_b docs then external_b docs st else true)
        && (if sd_wf_b docs && aligned_b docs then seq_b docs st else true)
  end.

(* ------------------------------------------------------------------ hypotheses of the theorems, as propositions *)

(* a run: one start, then documents other than start/stop, then one stop *)
Definition is_run (docs : list doc) : Prop :=
  exists s body m, docs = DStart s :: body ++ [DStop m] /\ forallb is_body body = true.

(* no descriptor uid (or reference to one from an event) is also a stream name *)
Definition ns_disjoint (docs : list doc) : Prop :=
  forall r n, In r (desc_refs docs) -> In n (desc_names docs) -> r <> n.

(* received stream datums have start <= stop *)
Definition sd_wf (docs : list doc) : Prop :=
  forall d, In d (stream_datums docs) -> (sd_i0 d <= sd_i1 d)%Z.

(* seq_nums = indices + a constant per stream resource *)
Definition seq_aligned (off : string -> Z) (docs : list doc) : Prop :=
  forall d, In d (stream_datums docs) ->
    sd_q0 d = (sd_i0 d + off (sd_sres d))%Z /\ sd_q1 d = (sd_i1 d + off (sd_sres d))%Z.

(* ------------------------------------------------------------------ "one array per external data key", by pair *)

(* the (stream name, data_key) pair of a received stream datum, read off the documents *)
Definition pair_of (docs : list doc) (d : sdatum) : option (string * string) :=
  match lookup (sd_desc d) (final_dm docs), lookup (sd_sres d) (final_sr docs) with
  | Some n, Some k => Some (n, k)
  | _, _ => None
  end.

(* every pair that received stream datums has its own array node <name>/<key>, whose consolidator counted
   exactly the rows of the stream datums of that pair *)
Definition arrays_by_pair_b (docs : list doc) (st : state) : bool :=
  forallb (fun p =>
    match lookup (fdk (fst p) (snd p)) (s_cons st) with
    | Some c => seqb (c_node c) (fst p) && seqb (c_dk c) (snd p)
                && Z.eqb (c_rows c)
                         (zsum (map width (filter (fun d => option_beq pair_beq (pair_of docs d) (Some p))
                                                  (stream_datums docs))))
    | None => false
    end) (ext_pairs docs).

(* extra well-formedness under which the pair reading is meaningful: descriptor uids and stream resource uids
   are declared once, every stream datum names a declared descriptor and resource, the stream datums of one
   stream resource all belong to one stream, and no stream resource uid is itself a full data key
   "<name>_<key>" of a pair (_sres_nodes holds uids and full data keys in one dict) *)
Definition desc_uids (docs : list doc) : list string :=
  flat_map (fun d => match d with DDescriptor x => [d_uid x] | _ => [] end) docs.
Definition sres_uids (docs : list doc) : list string :=
  flat_map (fun d => match d with DSres r => [sr_uid r] | _ => [] end) docs.
Definition sf_disjoint_b (docs : list doc) : bool :=
  forallb (fun s => negb (existsb (fun p => seqb s (fdk (fst p) (snd p))) (ext_pairs docs))) (sres_uids docs).
Definition wf_ext_b (docs : list doc) : bool :=
  snodup_b (desc_uids docs) && snodup_b (sres_uids docs) && sf_disjoint_b docs
  && forallb (fun d => match pair_of docs d with Some _ => true | None => false end) (stream_datums docs)
  && forallb (fun d => forallb (fun d' => negb (seqb (sd_sres d) (sd_sres d'))
                                          || option_beq pair_beq (pair_of docs d) (pair_of docs d'))
                               (stream_datums docs)) (stream_datums docs).
