(* Recorded runs of the REAL RunEngine (harness/drivers/wait_driver.py; the event order is the one logged from the
   run, the inputs are what the plan's yields received) replayed on Engine/WaitGroup.v: non-vacuity of the theorems
   of Proofs/WaitGroup.v and the witnesses of the two finding classes. *)
From Coq Require Import List Bool Arith.
From BV Require Import Engine.WaitGroup Engine.WaitGroupSpec Proofs.WaitGroup.
Import ListNotations.

(* {"fam": "waitgroup", "plan": [{"msg": ["add", 0, "set"]}, {"msg": ["add", 0, "trigger"]}, {"msg": ["wait", 0, false, true, []], "during": [[["complete", 0, false]]]}, {"msg": ["other"]}, {"msg": ["wait", 0, false, true, []]}, {"msg": ["other"]}]}
   one status of the group fails while the other is pending: FailedStatus at the yield of the wait; the group is put
   back whole, a second wait on it raises WaitForTimeoutError at once (no timeout was ever given) *)
Definition ex_pend_evs : list event :=
  [EMsg (MAdd 0); EMsg (MAdd 0); EMsg (MWait 0 false true []); EFinish 0 false; EDone 0; EWakeS; EResume; EMsg MOther; EMsg (MWait 0 false true []); EWakeS; EResume; EMsg MOther; EEnd].
Definition ex_pend_ins : list input :=
  [IVal VNone; IVal VNone; IVal VNone; IThrow (XFailed 0); IVal VNone; IThrow (XTimeout); IVal VNone].
Definition ex_pend_gs : list (list nat) := [[0; 1]].

(* {"fam": "waitgroup", "plan": [{"msg": ["add", 0, "set"]}, {"msg": ["add", 1, "stage"]}, {"msg": ["wait", 0, true, true, [1]], "during": [[["complete", 1, false]]]}, {"msg": ["other"]}, {"msg": ["wait", 0, false, true, []]}, {"msg": ["other"], "acts": [["complete", 0, false]]}, {"msg": ["other"]}, {"msg": ["other"]}]}
   class b: the watched status fails, the wait is cancelled (FailedStatus 1 at its yield) and group 0 is forgotten:
   the next wait on group 0 answers True while status 0 is pending; status 0 then fails and is thrown two messages
   after "the wait on its group" *)
Definition ex_f2_evs : list event :=
  [EMsg (MAdd 0); EMsg (MAdd 1); EMsg (MWait 0 true true [1]); EFinish 1 false; EDone 1; EWakeW; ECancelCb; EMsg MOther; EMsg (MWait 0 false true []); EFinish 0 false; EMsg MOther; EDone 0; EMsg MOther; EMsg MOther; EEnd].
Definition ex_f2_ins : list input :=
  [IVal VNone; IVal VNone; IVal VNone; IThrow (XFailed 1); IVal VNone; IVal (VBool true); IThrow (XFailed 0); IVal VNone; IVal VNone].
Definition ex_f2_gs : list (list nat) := [[]; [1]].

(* {"fam": "waitgroup", "plan": [{"msg": ["add", 0, "set"]}, {"msg": ["wait", 0, true, false, []], "during": [[["finish", 0, false]]]}, {"msg": ["other"]}, {"msg": ["other"], "acts": [["done", 0]]}, {"msg": ["other"]}]}
   class a: the status object is done (failed) when the timeout fires but its completion has not reached the loop:
   wait(error_on_timeout=False) answers True; the failure is thrown two messages later *)
Definition ex_f1_evs : list event :=
  [EMsg (MAdd 0); EMsg (MWait 0 true false []); EFinish 0 false; ETimeout; EWakeS; EResume; EMsg MOther; EMsg MOther; EDone 0; EMsg MOther; EEnd].
Definition ex_f1_ins : list input :=
  [IVal VNone; IVal VNone; IVal (VBool true); IVal VNone; IThrow (XFailed 0); IVal VNone].
Definition ex_f1_gs : list (list nat) := [[0]].

(* {"fam": "waitgroup", "plan": [{"msg": ["add", 0, "set"]}, {"msg": ["add", 0, "set"]}, {"msg": ["wait", 0, true, true, []], "during": [[["complete", 0, true]]]}, {"msg": ["other"]}, {"msg": ["wait", 0, true, false, []]}, {"msg": ["wait", 0, true, false, []], "during": [[["complete", 1, true]]]}, {"msg": ["other"]}]}
   timeouts: with error_on_timeout the timeout error at the wait; without it False while a status is pending, True
   once the last one completed *)
Definition ex_tmo_evs : list event :=
  [EMsg (MAdd 0); EMsg (MAdd 0); EMsg (MWait 0 true true []); EFinish 0 true; EDone 0; ETimeout; EWakeS; EResume; EMsg MOther; EMsg (MWait 0 true false []); ETimeout; EWakeS; EResume; EMsg (MWait 0 true false []); EFinish 1 true; EDone 1; EWakeS; EResume; EMsg MOther; EEnd].
Definition ex_tmo_ins : list input :=
  [IVal VNone; IVal VNone; IVal VNone; IThrow (XTimeout); IVal VNone; IVal (VBool false); IVal (VBool true); IVal VNone].
Definition ex_tmo_gs : list (list nat) := [[]].

Definition tr_of (evs : list event) := snd (run_tr init evs).

(* the model reproduces the four recorded runs: inputs, no impossible event, groups left behind, slot *)
Example recorded_runs_reproduced :
  agrees ex_pend_evs ex_pend_ins 1 ex_pend_gs None = true /\ agrees ex_f2_evs ex_f2_ins 2 ex_f2_gs None = true /\
  agrees ex_f1_evs ex_f1_ins 1 ex_f1_gs None = true /\ agrees ex_tmo_evs ex_tmo_ins 1 ex_tmo_gs None = true.
Proof. vm_compute. repeat split. Qed.

(* non-vacuity of [failures_reach_plan]: a run in which a failure is recorded and thrown (not every input is a value) *)
Example failures_nonvacuous :
  mon_fail (tr_of ex_pend_evs) = true /\ has_skip (tr_of ex_pend_evs) = false /\
  existsb failed_throw (inputs_of (tr_of ex_pend_evs)) = true /\
  mon_fail (tr_of ex_f2_evs) = true /\ mon_fail (tr_of ex_f1_evs) = true.
Proof. vm_compute. repeat split. Qed.

(* non-vacuity of [wait_true_sound] / [wait_true_strict]: waits that answer True, False and raise; the run meets the
   hypotheses of the strict form up to its last wait-free suffix *)
Example wait_nonvacuous :
  mon_wait false (tr_of ex_tmo_evs) = true /\ has_skip (tr_of ex_tmo_evs) = false /\
  existsb (input_eqb (IVal (VBool true))) (inputs_of (tr_of ex_tmo_evs)) = true /\
  existsb (input_eqb (IVal (VBool false))) (inputs_of (tr_of ex_tmo_evs)) = true /\
  no_cancel (tr_of ex_pend_evs) = true /\ eot_only (tr_of ex_pend_evs) = true /\ mon_wait true (tr_of ex_pend_evs) = true.
Proof. vm_compute. repeat split. Qed.

(* the strict reading (every status of the group has completed when the wait answers True) fails in both classes *)
Definition wait_true_strict_full : Prop := forall evs : list event, mon_wait true (tr_of evs) = true.

Lemma strict_refuted_a :
  exists evs, finding_F1 (tr_of evs) = true /\ has_skip (tr_of evs) = false /\ mon_wait true (tr_of evs) = false.
Proof. exists ex_f1_evs. vm_compute. repeat split. Qed.
Lemma strict_refuted_b :
  exists evs, finding_F2 (tr_of evs) = true /\ has_skip (tr_of evs) = false /\ mon_wait true (tr_of evs) = false.
Proof. exists ex_f2_evs. vm_compute. repeat split. Qed.
Lemma strict_full_refuted : ~ wait_true_strict_full.
Proof. intros H. specialize (H ex_f1_evs). vm_compute in H. discriminate. Qed.

(* non-vacuity of [fail_while_pending]: the state of the first recorded run just before status 0's completion reaches
   the loop meets its hypotheses *)
Example fail_while_pending_instance :
  let s := run init [EMsg (MAdd 0); EMsg (MAdd 0); EMsg (MWait 0 false true []); EFinish 0 false] in
  exists w, ended s = false /\ blk s = Some w /\ w_sp w = SWait false /\ w_eot w = true /\ In 0 (w_futs w) /\
            sget (stat s) 0 = Some (SFin false) /\ In 1 (w_futs w) /\ 1 <> 0 /\ resolved (stat s) 1 = false.
Proof. vm_compute. eexists. repeat split; auto. discriminate. Qed.
