(* C10 - interrupting a non-resumable section aborts cleanly.

   Model: Engine/RE.v (all plan coalgebras, device oracles, schedules).
   Proved for ALL schedules: the engine becomes `paused` only while a checkpoint is in effect according to the trace
   specification [mon] (cache <> None) -- so a pause or suspension that lands after clear_checkpoint never ends in
   `paused`.  Step level: at the top of the `_run` loop pausing/suspending without a checkpoint arms FailedPause and
   moves to aborting (the pause branch is not taken); FailedPause is thrown into the plan on top of the stack (its
   cleanup message runs next / it propagates); leaving the loop with FailedPause sets exit status abort; the finally
   block emits a RunStop with that status for every run still open, empties the bundlers and goes idle; a suspension
   requested without checkpoint arms FailedPause, goes aborting, cancels the task and leaves nothing on the stack.
   Partial: these steps are not composed into one end-to-end theorem ("the call ends Interrupted with state idle"):
   that needs the state invariant of Proofs/RE_Inv.v (stack alignment, pc typing); the implementation-side oracle
   checks the end-to-end statement on the corpus.  The window opened by clear_checkpoint ends at the next EXPLICIT
   checkpoint (repaired defect C09-a, fixes/C09-a.diff); implicit checkpoints (stage, close_run, ...) do not end it. *)
From Coq Require Import List.
From BV Require Import Engine.RE Engine.REInst Proofs.RE_Ctl Proofs.RE_Replay Proofs.RE_CtlExamples.
Import ListNotations.

Theorem C10_paused_only_when_resumable :
  forall (P : Type) (presume : P -> input -> outcome P) (plan_of : nat -> P) (D : Type) (dev : D -> nat -> devmeth -> D * devres)
         (d : D) (paus stag : list nat) (rec : bool) (evs : list event) (l1 : list titem) (a : rstate) (l2 : list titem),
    trace P presume plan_of D dev (init P D d paus stag rec) evs = l1 ++ TObs (OState a Paused) :: l2 ->
    mcache (mon_run mon0 l1) <> None.
Proof. exact paused_needs_checkpoint. Qed.
Print Assumptions C10_paused_only_when_resumable.

Theorem C10_failed_pause_at_top_of_loop :
  forall (P : Type) (presume : P -> input -> outcome P) (plan_of : nat -> P) (D : Type) (dev : D -> nat -> devmeth -> D * devres)
         (fuel : nat) (s : st P D) (os : list obs),
    (state P D s = Pausing \/ state P D s = Suspending) -> cache P D s = None ->
    drive P presume plan_of D dev (S fuel) s CTop os =
    drive P presume plan_of D dev fuel
          (set_state_raw P D (set_ghost P D (set_stashed P D (set_permit P D s true) (Some EFailedPause))
                                        (Some CzFailedPause) (late_pause P D s) (intr_err P D s)) Aborting)
          CTop (os ++ [OState (state P D s) Aborting]).
Proof. exact failed_pause_at_top_of_loop. Qed.
Print Assumptions C10_failed_pause_at_top_of_loop.

Theorem C10_failed_pause_runs_cleanup :
  forall (P : Type) (presume : P -> input -> outcome P) (plan_of : nat -> P) (D : Type) (dev : D -> nat -> devmeth -> D * devres)
         (fuel : nat) (s : st P D) (os : list obs) (r : resp) (rest : list resp) (pid : nat) (p : P) (tlp : list (frame P)) (m : msg) (p' : P),
    stashed P D s = Some EFailedPause -> exc_slot P D s = None ->
    resps P D s = r :: rest -> plans P D s = FUser pid p true :: tlp ->
    presume p (Throw EFailedPause) = Yielded m p' ->
    drive P presume plan_of D dev (S fuel) s CAfterSleep os =
    drive P presume plan_of D dev fuel (set_stashed P D (replace_top P D (set_resps P D s rest) (FUser pid p' true)) None)
          (CProcess m) (os ++ [OPlanIn pid (Throw EFailedPause)]).
Proof. exact failed_pause_runs_cleanup. Qed.
Print Assumptions C10_failed_pause_runs_cleanup.

Theorem C10_failed_pause_exit_aborts :
  forall (P : Type) (presume : P -> input -> outcome P) (plan_of : nat -> P) (D : Type) (dev : D -> nat -> devmeth -> D * devres)
         (fuel : nat) (s : st P D) (os : list obs),
    drive P presume plan_of D dev (S fuel) s (CExit (XExn EFailedPause)) os =
    (set_pc P D (set_exit P D s XAbort (reason P D s)) (PcFinalSleep (TReturn NO_RETURN)), os ++ [OTask WSleep0]).
Proof. exact failed_pause_exit_aborts. Qed.
Print Assumptions C10_failed_pause_exit_aborts.

Theorem C10_finalize_closes_open_runs :
  forall (P : Type) (presume : P -> input -> outcome P) (D : Type) (dev : D -> nat -> devmeth -> D * devres)
         (s : st P D) (r : tres) (pend : option exn) (s' : st P D) (o : list obs),
    finalize P presume D dev s r pend = (s', o) ->
    bundlers P D s' = [] /\ staged P D s' = [] /\
    (forall k b, In (k, b) (bundlers P D s) -> bopen b = true ->
       In (ODoc (DStop (buid b) (exit_status P D s) (if exit_reason_set P D s then RsExnText else reason P D s) (num_events b))) o) /\
    (allowed (state P D s) Idle = true -> state P D s' = Idle /\ blocking P D s' = true /\ exists res, pc P D s' = PcDone res).
Proof. exact finalize_closes_open_runs. Qed.
Print Assumptions C10_finalize_closes_open_runs.

Theorem C10_suspend_request_without_checkpoint_aborts :
  forall (P : Type) (presume : P -> input -> outcome P) (plan_of : nat -> P) (D : Type) (dev : D -> nat -> devmeth -> D * devres)
         (s : st P D) (sid : nat) (pre post : bool) (s' : st P D) (o : list obs),
    state P D s = Running -> cache P D s = None -> pc P D s = PcSleep0 \/ (exists k, pc P D s = PcCmd k) ->
    step P presume plan_of D dev s (EvReqSuspend sid pre post) = (s', o) ->
    o = [OState Running Aborting; OReq false] /\ state P D s' = Aborting /\ exc_slot P D s' = Some EFailedPause /\
    interrupted P D s' = true /\ must_cancel P D s' = true /\ plans P D s' = plans P D s /\ resps P D s' = resps P D s /\
    cache P D s' = None.
Proof. exact suspend_request_without_checkpoint_aborts. Qed.
Print Assumptions C10_suspend_request_without_checkpoint_aborts.

(* the end-to-end statement (not proved as one theorem: see header) *)
Definition C10_full : Prop :=
  forall (P : Type) (presume : P -> input -> outcome P) (plan_of : nat -> P) (D : Type) (dev : D -> nat -> devmeth -> D * devres)
         (d : D) (paus stag : list nat) (rec : bool) (evs1 evs2 : list event) (req : event) (a : mainact),
    (req = EvReqPause false \/ exists sid pre post, req = EvReqSuspend sid pre post) ->
    let s1 := fst (run P presume plan_of D dev (init P D d paus stag rec) evs1) in
    state P D s1 = Running -> cache P D s1 = None ->
    Forall (fun e => e = EvTask) evs2 ->
    let o := snd (run P presume plan_of D dev s1 (req :: evs2 ++ [EvMainDone a])) in
    (forall x, In x o -> match x with OBad _ => False | _ => True end) ->
    (exists w, In (OTask w) o /\ (w = WReturn \/ exists e, w = WRaise e)) ->
    (forall x, In x o -> match x with OState _ Paused => False | _ => True end) /\
    exists out dfr rsm, In (OOut out Idle dfr rsm) o /\ out <> OutReturn (run_uids P D s1).

Example C10_nonvacuous :
  let o := snd (irun ex_nockpt_tapes ex_nockpt_ledger ex_nockpt_paus ex_nockpt_stag ex_nockpt_rec ex_nockpt_evs) in
  In (OPlanIn 0 (Throw EFailedPause)) o /\ In (ODoc (DStop 0 XAbort RsEmpty [])) o /\ In (OOut OutInterrupted Idle false false) o /\
  forallb (fun x => match x with OState _ Paused => false | _ => true end) o = true /\ In (OState Running Pausing) o.
Proof. exact c10_pause_without_checkpoint_aborts. Qed.
