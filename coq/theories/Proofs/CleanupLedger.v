(* C06 - proofs about Engine/CleanupLedger.v: the ledger only grows; whatever still needs a collection attempt /
   a clear_sub is in the bookkeeping of an open run (or, for flyers, was dropped by a plan's close_run: class C06-a);
   the finally block empties both; temporary tokens in the dispatcher are always in _temp_callback_ids, so
   _clear_call_cache removes them all and nothing else. *)
From Coq Require Import List NArith Bool Lia.
From BV Require Import Base.Prelude Engine.CleanupLedger.
Import ListNotations.

(* ------------------------------------------------------------------ flags over a growing ledger *)

Section Flags.
Context {I : Type} (on off : I -> entry -> bool).

Definition fstep (i : I) (a : bool) (e : entry) : bool := if on i e then true else if off i e then false else a.

Lemma fold_true : forall i l acc,
  fold_left (fstep i) l acc = true ->
  (exists e, In e l /\ on i e = true) \/ (acc = true /\ forall e, In e l -> off i e = false).
Proof.
  intros i l; induction l as [|e t IH]; intros acc H; cbn in *.
  - right; split; [exact H | intros e []].
  - apply IH in H as [(e' & Hin & Hon) | (Hacc & Hoff)].
    + left; exists e'; auto.
    + unfold fstep in Hacc. destruct (on i e) eqn:Eon.
      * left; exists e; auto.
      * destruct (off i e) eqn:Eoff; [discriminate|].
        right; split; [exact Hacc|]. intros e' [<-|Hin]; auto.
Qed.

(* a transition of the bookkeeping M -> M' that is sound for the entries l: whatever flag is up afterwards is in M'
   (R: a frame that is left alone) *)
Definition T (M M' : I -> Prop) (l : list entry) : Prop :=
  forall (R : I -> Prop) i acc, (acc = true -> M i \/ R i) -> fold_left (fstep i) l acc = true -> M' i \/ R i.

Lemma T_nil : forall (M M' : I -> Prop), (forall i, M i -> M' i) -> T M M' [].
Proof. intros M M' H R i acc Hacc Hf; cbn in Hf. destruct (Hacc Hf); auto. Qed.

Lemma T_app : forall M M' M'' l1 l2, T M M' l1 -> T M' M'' l2 -> T M M'' (l1 ++ l2).
Proof.
  intros M M' M'' l1 l2 H1 H2 R i acc Hacc Hf. rewrite fold_left_app in Hf.
  eapply H2; [|exact Hf]. intros Hacc'. eapply H1; eauto.
Qed.

Lemma T_one : forall (M M' : I -> Prop) e,
  (forall i, on i e = true -> M' i) ->
  (forall i, on i e = false -> off i e = false -> M i -> M' i) ->
  T M M' [e].
Proof.
  intros M M' e Hon Hkeep R i acc Hacc Hf; cbn in Hf; unfold fstep in Hf.
  destruct (on i e) eqn:Eon; [left; auto|].
  destruct (off i e) eqn:Eoff; [discriminate|].
  destruct (Hacc Hf); auto.
Qed.

Lemma T_weaken : forall (M0 M M' M1 : I -> Prop) l,
  T M M' l -> (forall i, M0 i -> M i) -> (forall i, M' i -> M1 i) -> T M0 M1 l.
Proof.
  intros M0 M M' M1 l H H0 H1 R i acc Hacc Hf.
  destruct (H R i acc) as [HM|HR]; auto.
  intros Ha; destruct (Hacc Ha); auto.
Qed.

Lemma T_frame : forall (M M' Q : I -> Prop) l,
  T M M' l -> T (fun i => M i \/ Q i) (fun i => M' i \/ Q i) l.
Proof.
  intros M M' Q l H R i acc Hacc Hf.
  destruct (H (fun j => Q j \/ R j) i acc) as [HM|[HQ|HR]]; auto.
  intros Ha; destruct (Hacc Ha) as [[HM|HQ]|HR]; auto.
Qed.

Definition quiet (l : list entry) : Prop := forall e, In e l -> forall i, on i e = false.

Lemma T_quiet : forall (M : I -> Prop) l, quiet l -> T M M l.
Proof.
  intros M l; induction l as [|e t IH]; intros Hq.
  - apply T_nil; auto.
  - change (e :: t) with ([e] ++ t). eapply T_app.
    + apply T_one; [|intros; eassumption]. intros i Hon. rewrite (Hq e (or_introl eq_refl) i) in Hon; discriminate.
    + apply IH. intros e' Hin; apply Hq; right; exact Hin.
Qed.

Lemma quiet_fold : forall l i acc, quiet l ->
  fold_left (fstep i) l acc = true -> acc = true /\ forall e, In e l -> off i e = false.
Proof.
  intros l i acc Hq Hf. apply fold_true in Hf as [(e & Hin & Hon)|H]; [|exact H].
  rewrite (Hq e Hin i) in Hon; discriminate.
Qed.

Lemma T_sound : forall (M M' : I -> Prop) l0 l,
  T M M' l -> (forall i, fold_left (fstep i) l0 false = true -> M i) ->
  forall i, fold_left (fstep i) (l0 ++ l) false = true -> M' i.
Proof.
  intros M M' l0 l HT H0 i Hf. rewrite fold_left_app in Hf.
  destruct (HT (fun _ => False) i _ (fun Ha => or_introl (H0 i Ha)) Hf) as [H|[]]; exact H.
Qed.

End Flags.

(* the two flags of the model *)
Definition on_m (p : dev * cbid) (e : entry) := is_sub_ok (fst p) (snd p) e.
Definition off_m (p : dev * cbid) (e : entry) := is_clear (fst p) (snd p) e.
Definition Tm := T on_m off_m.
Definition Tf := T is_kick_ok is_attempt.

Lemma needs_clear_fold : forall l d c, needs_clear l d c = fold_left (fstep on_m off_m (d, c)) l false.
Proof. reflexivity. Qed.
Lemma needs_collect_fold : forall l f, needs_collect l f = fold_left (fstep is_kick_ok is_attempt f) l false.
Proof. reflexivity. Qed.

(* ------------------------------------------------------------------ list helpers *)

Lemma memN_In : forall x l, memN x l = true <-> In x l.
Proof.
  intros x l; unfold memN; rewrite existsb_exists; split.
  - intros (y & Hin & E). apply N.eqb_eq in E; subst; exact Hin.
  - intros H; exists x; split; [exact H | apply N.eqb_refl].
Qed.

Lemma delN_In : forall x y l, In y (delN x l) <-> In y l /\ y <> x.
Proof.
  intros x y l; unfold delN; rewrite filter_In; split; intros [H1 H2]; split; auto.
  - intros ->. rewrite N.eqb_refl in H2; discriminate.
  - destruct (N.eqb x y) eqn:E; [apply N.eqb_eq in E; congruence | reflexivity].
Qed.

Lemma insN_In : forall x y l, In y (insN x l) <-> y = x \/ In y l.
Proof.
  intros x y l; induction l as [|z t IH]; cbn.
  - split; intros [H|H]; auto; contradiction.
  - destruct (N.ltb x z); [cbn; split; intros [H|H]; auto|].
    destruct (N.eqb x z) eqn:E.
    + apply N.eqb_eq in E; subst; cbn; split; [intros [H|H]; auto | intros [H|[H|H]]; auto].
    + cbn; rewrite IH; split; [intros [H|[H|H]]; auto | intros [H|[H|H]]; auto].
Qed.

Lemma split_lookup : forall {A} k (rs : list (N * A)) b, lookup k rs = Some b ->
  exists l1 l2, rs = l1 ++ (k, b) :: l2 /\ (forall b', update k b' rs = l1 ++ (k, b') :: l2) /\ remove_key k rs = l1 ++ l2.
Proof.
  intros A k rs; induction rs as [|[k' a] t IH]; intros b H; cbn in *; [discriminate|].
  destruct (N.eqb k k') eqn:E.
  - apply N.eqb_eq in E; subst. inversion H; subst. exists [], t; cbn; auto.
  - destruct (IH b H) as (l1 & l2 & -> & Hu & Hr). exists ((k', a) :: l1), l2; cbn. repeat split.
    + intros b'; rewrite Hu; reflexivity.
    + rewrite Hr; reflexivity.
Qed.

Lemma lookup_remove_other : forall (l : list (N * N)) d c p, lookup d l = Some c -> In p l -> p <> (d, c) -> In p (remove_key d l).
Proof.
  induction l as [|[d' c'] t IH]; intros d c p H Hin Hne; cbn in *; [contradiction|].
  destruct (N.eqb d d') eqn:E.
  - apply N.eqb_eq in E; subst. inversion H; subst. destruct Hin as [<-|Hin]; [congruence | exact Hin].
  - destruct Hin as [<-|Hin]; [left; reflexivity | right; eapply IH; eauto].
Qed.

Lemma lookup_In : forall (l : list (N * N)) d c, lookup d l = Some c -> In (d, c) l.
Proof.
  induction l as [|[d' c'] t IH]; intros d c H; cbn in *; [discriminate|].
  destruct (N.eqb d d') eqn:E.
  - apply N.eqb_eq in E; subst. inversion H; subst; left; reflexivity.
  - right; apply IH; exact H.
Qed.

(* ------------------------------------------------------------------ specifications of the device-calling code *)

Definition is_dev (e : entry) : Prop := match e with EDev _ _ _ => True | _ => False end.
Definition inl {A} (l : list A) : A -> Prop := fun a => In a l.

(* the ledger grows by device entries for which the change of (monitor params, uncollected) is sound *)
Definition Spec (mon : list (dev * cbid)) (unc : list dev) (mon' : list (dev * cbid)) (unc' : list dev)
           (x x' : world) : Prop :=
  exists l, wl x' = wl x ++ l /\ Forall is_dev l /\ Tm (inl mon) (inl mon') l /\ Tf (inl unc) (inl unc') l.

Lemma Spec_refl_incl : forall mon unc mon' unc' x, incl mon mon' -> incl unc unc' -> Spec mon unc mon' unc' x x.
Proof.
  intros mon unc mon' unc' x Hm Hu. exists []. rewrite app_nil_r. repeat split; auto.
  - apply T_nil; exact Hm.
  - apply T_nil; exact Hu.
Qed.

Lemma Spec_trans : forall m0 u0 m1 u1 m2 u2 x0 x1 x2,
  Spec m0 u0 m1 u1 x0 x1 -> Spec m1 u1 m2 u2 x1 x2 -> Spec m0 u0 m2 u2 x0 x2.
Proof.
  intros m0 u0 m1 u1 m2 u2 x0 x1 x2 (l1 & E1 & F1 & A1 & B1) (l2 & E2 & F2 & A2 & B2).
  exists (l1 ++ l2). rewrite E2, E1, app_assoc. repeat split; auto.
  - apply Forall_app; auto.
  - eapply T_app; eauto.
  - eapply T_app; eauto.
Qed.

Arguments dcall : simpl never.
Ltac splits := repeat match goal with |- _ /\ _ => split end.

Section Specs.
Variable fails : N -> bool.

Lemma dcall_wl : forall x d m x' ok, dcall fails x d m = (x', ok) -> wl x' = wl x ++ [EDev d m ok].
Proof. intros x d m x' ok H; unfold dcall in H; inversion H; subst; reflexivity. Qed.

Lemma Spec_one : forall mon unc mon' unc' x d m x' ok,
  dcall fails x d m = (x', ok) ->
  Tm (inl mon) (inl mon') [EDev d m ok] -> Tf (inl unc) (inl unc') [EDev d m ok] ->
  Spec mon unc mon' unc' x x'.
Proof.
  intros. exists [EDev d m ok]. repeat split; auto.
  - eapply dcall_wl; eauto.
  - constructor; [exact I | constructor].
Qed.

(* a call that neither subscribes nor kicks off; the bookkeeping stays *)
Lemma Spec_neutral : forall mon unc x d m x' ok,
  dcall fails x d m = (x', ok) ->
  match m with MSubscribe _ | MKickoff => False | _ => True end ->
  Spec mon unc mon unc x x'.
Proof.
  intros mon unc x d m x' ok H Hm. eapply Spec_one; eauto.
  - apply T_one; [|auto]. intros [d0 c0] Hon; destruct m; cbn in Hon; try discriminate; contradiction.
  - apply T_one; [|auto]. intros f Hon; destruct m; cbn in Hon; try discriminate; try contradiction;
      destruct ok; discriminate.
Qed.

Lemma Spec_clear : forall mon mon' unc x d c x' ok,
  dcall fails x d (MClearSub c) = (x', ok) ->
  (forall p, p <> (d, c) -> In p mon -> In p mon') ->
  Spec mon unc mon' unc x x'.
Proof.
  intros mon mon' unc x d c x' ok H Hk. eapply Spec_one; eauto.
  - apply T_one; [intros [d0 c0] Hon; cbn in Hon; discriminate|].
    intros [d0 c0] _ Hoff Hin. apply Hk; [|exact Hin]. intros E; inversion E; subst.
    unfold off_m in Hoff; cbn in Hoff. rewrite !N.eqb_refl in Hoff; discriminate.
  - apply T_one; [intros f Hon; cbn in Hon; discriminate | auto].
Qed.

Lemma Spec_sub : forall mon unc x d c x' ok,
  dcall fails x d (MSubscribe c) = (x', ok) -> In (d, c) mon -> Spec mon unc mon unc x x'.
Proof.
  intros mon unc x d c x' ok H Hin. eapply Spec_one; eauto.
  - apply T_one; [|auto]. intros [d0 c0] Hon. unfold on_m in Hon; cbn in Hon. destruct ok; [|discriminate].
    apply andb_true_iff in Hon as [E1 E2]. apply N.eqb_eq in E1, E2; subst. exact Hin.
  - apply T_one; [intros f Hon; cbn in Hon; discriminate | auto].
Qed.

Lemma Spec_kick : forall mon unc unc' x f x' ok,
  dcall fails x f MKickoff = (x', ok) -> (ok = true -> In f unc') -> incl unc unc' -> Spec mon unc mon unc' x x'.
Proof.
  intros mon unc unc' x f x' ok H Hok Hinc. eapply Spec_one; eauto.
  - apply T_one; [intros [d0 c0] Hon; cbn in Hon; discriminate | auto].
  - apply T_one.
    + intros g Hon; cbn in Hon. destruct ok; [|discriminate]. apply N.eqb_eq in Hon; subst. apply Hok; reflexivity.
    + intros g _ _ Hin; apply Hinc; exact Hin.
Qed.

(* a collection attempt on f: f may leave the uncollected set *)
Lemma Spec_attempt : forall mon unc unc' x f m x' ok,
  dcall fails x f m = (x', ok) -> is_attempt f (EDev f m ok) = true ->
  (forall g, g <> f -> In g unc -> In g unc') ->
  Spec mon unc mon unc' x x'.
Proof.
  intros mon unc unc' x f m x' ok H Ha Hk. eapply Spec_one; eauto.
  - apply T_one; [|auto]. intros [d0 c0] Hon. destruct m; cbn in Ha, Hon; try discriminate.
  - apply T_one.
    + intros g Hon. destruct m; cbn in Ha, Hon; try discriminate.
    + intros g _ Hoff Hin. apply Hk; [|exact Hin]. intros ->. rewrite Ha in Hoff; discriminate.
Qed.

Definition BSpec (b b' : bund) (x x' : world) : Prop := Spec (b_mon b) (b_unc b) (b_mon b') (b_unc b') x x'.

Lemma BSpec_same : forall b b' x, b_mon b' = b_mon b -> b_unc b' = b_unc b -> BSpec b b' x x.
Proof. intros b b' x Hm Hu; unfold BSpec; rewrite Hm, Hu; apply Spec_refl_incl; apply incl_refl. Qed.

Lemma BSpec_refl : forall b x, BSpec b b x x.
Proof. intros; apply BSpec_same; reflexivity. Qed.

Lemma clear_strict_spec : forall mon unc x mon' x' ok,
  clear_strict fails mon x = (mon', x', ok) -> Spec mon unc mon' unc x x' /\ (ok = true -> mon' = []).
Proof.
  induction mon as [|[d c] t IH]; intros unc x mon' x' ok H; cbn in H.
  - inversion H; subst. split; [apply Spec_refl_incl; apply incl_refl | auto].
  - destruct (dcall fails x d (MClearSub c)) as [x1 ok1] eqn:E. destruct ok1.
    + destruct (IH unc _ _ _ _ H) as [S1 S2]. split; [|exact S2].
      eapply Spec_trans; [|exact S1]. eapply Spec_clear; eauto.
      intros p Hne [<-|Hin]; [congruence | exact Hin].
    + inversion H; subst. split; [|discriminate]. eapply Spec_clear; eauto.
Qed.

Lemma call_all_clear_spec : forall mon0 unc mon x x' ok,
  call_all fails MClearSub mon x = (x', ok) -> Spec mon0 unc mon0 unc x x'.
Proof.
  intros mon0 unc; induction mon as [|[d c] t IH]; intros x x' ok H; cbn in H.
  - inversion H; subst. apply Spec_refl_incl; apply incl_refl.
  - destruct (dcall fails x d (MClearSub c)) as [x1 ok1] eqn:E.
    assert (S0 : Spec mon0 unc mon0 unc x x1) by (eapply Spec_neutral; eauto; exact I).
    destruct ok1; [eapply Spec_trans; [exact S0 | eapply IH; eauto] | inversion H; subst; exact S0].
Qed.

Lemma call_all_sub_spec : forall mon0 unc mon x x' ok,
  incl mon mon0 -> call_all fails MSubscribe mon x = (x', ok) -> Spec mon0 unc mon0 unc x x'.
Proof.
  intros mon0 unc; induction mon as [|[d c] t IH]; intros x x' ok Hinc H; cbn in H.
  - inversion H; subst. apply Spec_refl_incl; apply incl_refl.
  - destruct (dcall fails x d (MSubscribe c)) as [x1 ok1] eqn:E.
    assert (S0 : Spec mon0 unc mon0 unc x x1) by (eapply Spec_sub; eauto; apply Hinc; left; reflexivity).
    destruct ok1; [eapply Spec_trans; [exact S0 | eapply IH; eauto; intros p Hp; apply Hinc; right; exact Hp]
                  | inversion H; subst; exact S0].
Qed.

Lemma suspend_b_spec : forall b x b' x' ok, suspend_b fails b x = (b', x', ok) -> BSpec b b' x x'.
Proof.
  intros b x b' x' ok H; unfold suspend_b in H. destruct (b_susp b).
  - destruct (call_all fails MClearSub (b_mon b) x) as [x1 ok1] eqn:E.
    pose proof (call_all_clear_spec (b_mon b) (b_unc b) _ _ _ _ E) as S0.
    destruct ok1; inversion H; subst; exact S0.
  - inversion H; subst. apply BSpec_same; reflexivity.
Qed.

Lemma restore_b_spec : forall b x b' x' ok, restore_b fails b x = (b', x', ok) -> BSpec b b' x x'.
Proof.
  intros b x b' x' ok H; unfold restore_b in H. destruct (b_susp b) as [|[|n]].
  - inversion H; subst; apply BSpec_refl.
  - destruct (call_all fails MSubscribe (b_mon b) x) as [x1 ok1] eqn:E. inversion H; subst.
    exact (call_all_sub_spec (b_mon b) (b_unc b) _ _ _ _ (incl_refl _) E).
  - inversion H; subst; apply BSpec_same; reflexivity.
Qed.

Lemma close_b_spec : forall b x b' x' ok,
  close_b fails b x = (b', x', ok) -> BSpec b b' x x' /\ b_unc b' = b_unc b /\ (ok = true -> b_mon b' = []).
Proof.
  intros b x b' x' ok H; unfold close_b in H.
  destruct (clear_strict fails (b_mon b) x) as [[mon' x1] ok1] eqn:E. inversion H; subst.
  destruct (clear_strict_spec _ (b_unc b) _ _ _ _ E) as [S1 S2]. repeat split; auto.
Qed.

Lemma kickoff_b_spec : forall b f x b' x' ok, kickoff_b fails b f x = (b', x', ok) -> BSpec b b' x x'.
Proof.
  intros b f x b' x' ok H; unfold kickoff_b in H.
  destruct (dcall fails x f MKickoff) as [x1 ok1] eqn:E. destruct ok1; inversion H; subst; unfold BSpec; cbn.
  - eapply Spec_kick; eauto; [intros _; apply insN_In; auto | intros g Hg; apply insN_In; auto].
  - eapply Spec_kick; eauto; [discriminate | apply incl_refl].
Qed.

Lemma collect_b_spec : forall b f x b' x' ok,
  collect_b fails b f x = (b', x', ok) ->
  exists l, wl x' = wl x ++ l /\ Forall is_dev l /\
            Tm (inl (b_mon b)) (inl (b_mon b')) l /\ Tf (inl (b_unc b)) (inl (b_unc b')) l /\
            quiet on_m l /\ quiet is_kick_ok l /\ (exists e, In e l /\ is_attempt f e = true) /\
            b_mon b' = b_mon b /\ b_unc b' = delN f (b_unc b).
Proof.
  intros b f x b' x' ok H; unfold collect_b in H.
  change (b_dcol (set_unc b (delN f (b_unc b)))) with (b_dcol b) in H.
  assert (Hdel : forall g, g <> f -> In g (b_unc b) -> In g (delN f (b_unc b))) by (intros g Hg Hin; apply delN_In; auto).
  assert (Q1 : forall m ok0, match m with MSubscribe _ | MKickoff => False | _ => True end ->
               quiet on_m [EDev f m ok0] /\ quiet is_kick_ok [EDev f m ok0]).
  { intros m ok0 Hm; split; intros e [<-|[]] i; destruct m; cbn; try reflexivity; try contradiction; destruct ok0; reflexivity. }
  assert (A1 : forall x0 m x1 ok1, dcall fails x0 f m = (x1, ok1) -> is_attempt f (EDev f m ok1) = true ->
               Tm (inl (b_mon b)) (inl (b_mon b)) [EDev f m ok1] /\
               Tf (inl (b_unc b)) (inl (delN f (b_unc b))) [EDev f m ok1]).
  { intros x0 m x1 ok1 E Ha.
    destruct (Spec_attempt (b_mon b) (b_unc b) (delN f (b_unc b)) _ _ _ _ _ E Ha Hdel) as (l & E1 & _ & A & B).
    rewrite (dcall_wl _ _ _ _ _ E) in E1. apply app_inv_head in E1; subst l. split; assumption. }
  assert (Hdev : forall m ok0, Forall is_dev [EDev f m ok0]) by (intros; constructor; [exact I | constructor]).
  destruct (memN f (b_dcol b)) eqn:Em.
  - destruct (dcall fails x f MCollect) as [x1 ok1] eqn:E. inversion H; subst; cbn.
    destruct (A1 _ _ _ _ E) as [A B]; [cbn; apply N.eqb_refl|].
    destruct (Q1 MCollect ok I). exists [EDev f MCollect ok]; splits; auto.
    + eapply dcall_wl; eauto.
    + exists (EDev f MCollect ok); split; [left; reflexivity | cbn; apply N.eqb_refl].
  - destruct (dcall fails x f MDescribeCollect) as [x1 ok1] eqn:E. destruct ok1.
    + destruct (dcall fails x1 f MCollect) as [x2 ok2] eqn:E2. inversion H; subst; cbn.
      pose proof (dcall_wl _ _ _ _ _ E) as W1. pose proof (dcall_wl _ _ _ _ _ E2) as W2.
      destruct (A1 _ _ _ _ E2) as [A2 B2]; [cbn; apply N.eqb_refl|].
      destruct (Q1 MDescribeCollect true I) as [Qa Qb]. destruct (Q1 MCollect ok I) as [Qc Qd].
      exists ([EDev f MDescribeCollect true] ++ [EDev f MCollect ok]).
      split; [rewrite W2, W1, <- app_assoc; reflexivity|].
      split; [apply Forall_app; auto|].
      split; [unfold Tm in *; eapply T_app; [apply (T_quiet on_m off_m _ _ Qa) | exact A2]|].
      split; [unfold Tf in *; eapply T_app; [apply (T_quiet is_kick_ok is_attempt _ _ Qb) | exact B2]|].
      split; [intros e Hin; apply in_app_or in Hin as [Hin|Hin]; auto|].
      split; [intros e Hin; apply in_app_or in Hin as [Hin|Hin]; auto|].
      split; [exists (EDev f MCollect ok); split; [right; left; reflexivity | cbn; apply N.eqb_refl]|].
      split; reflexivity.
    + inversion H; subst; cbn.
      destruct (A1 _ _ _ _ E) as [A B]; [cbn; apply N.eqb_refl|].
      destruct (Q1 MDescribeCollect false I). exists [EDev f MDescribeCollect false]; splits; auto.
      * eapply dcall_wl; eauto.
      * exists (EDev f MDescribeCollect false); split; [left; reflexivity | cbn; apply N.eqb_refl].
Qed.

Lemma collect_b_bspec : forall b f x b' x' ok, collect_b fails b f x = (b', x', ok) -> BSpec b b' x x'.
Proof.
  intros b f x b' x' ok H. destruct (collect_b_spec _ _ _ _ _ _ H) as (l & E & F & A & B & _).
  exists l; auto.
Qed.

Lemma monitor_b_spec : forall b d c x b' x' ok, monitor_b fails b d c x = (b', x', ok) -> BSpec b b' x x'.
Proof.
  intros b d c x b' x' ok H; unfold monitor_b in H.
  destruct (has_mon d (b_mon b)); [inversion H; subst; apply BSpec_refl|].
  assert (Hsub : forall b1 x1, b_mon b1 = b_mon b -> b_unc b1 = b_unc b -> BSpec b b1 x x1 ->
            (let b2 := set_mon b1 (b_mon b1 ++ [(d, c)]) in
             match b_susp b2 with
             | O => let '(x2, ok2) := dcall fails x1 d (MSubscribe c) in (b2, x2, ok2)
             | S _ => (b2, x1, true)
             end) = (b', x', ok) -> BSpec b b' x x').
  { intros b1 x1 Hm Hu S1 H2; cbn in H2.
    assert (S2 : BSpec b1 (set_mon b1 (b_mon b1 ++ [(d, c)])) x1 x1).
    { apply Spec_refl_incl; cbn; [apply incl_appl | ]; apply incl_refl. }
    destruct (b_susp b1).
    - destruct (dcall fails x1 d (MSubscribe c)) as [x2 ok2] eqn:E2. inversion H2; subst.
      eapply Spec_trans; [exact S1|]. eapply Spec_trans; [exact S2|]. cbn.
      eapply Spec_sub; eauto. apply in_or_app; right; left; reflexivity.
    - inversion H2; subst. eapply Spec_trans; [exact S1 | exact S2]. }
  destruct (memN d (b_desc b)).
  - eapply (Hsub b x); auto. apply BSpec_refl.
  - destruct (dcall fails x d MDescribe) as [x1 ok1] eqn:E. destruct ok1.
    + eapply (Hsub (set_desc b (d :: b_desc b)) x1); auto. unfold BSpec; cbn. eapply Spec_neutral; eauto; exact I.
    + inversion H; subst. unfold BSpec. eapply Spec_neutral; eauto; exact I.
Qed.

Lemma unmonitor_b_spec : forall b d x b' x' ok, unmonitor_b fails b d x = (b', x', ok) -> BSpec b b' x x'.
Proof.
  intros b d x b' x' ok H; unfold unmonitor_b in H. destruct (lookup d (b_mon b)) as [c|] eqn:L.
  - destruct (dcall fails x d (MClearSub c)) as [x1 ok1] eqn:E. destruct ok1; inversion H; subst; unfold BSpec; cbn.
    + eapply Spec_clear; eauto. intros p Hne Hin. eapply lookup_remove_other; eauto.
    + eapply Spec_clear; eauto.
  - inversion H; subst; apply BSpec_refl.
Qed.

End Specs.

(* ------------------------------------------------------------------ lists of bundlers *)

Definition monitored (rs : list (key * bund)) (p : dev * cbid) : Prop := exists k b, In (k, b) rs /\ In p (b_mon b).
Definition pend (rs : list (key * bund)) (f : dev) : Prop := exists k b, In (k, b) rs /\ In f (b_unc b).

Lemma monitored_mid : forall l1 k b l2 p, monitored (l1 ++ (k, b) :: l2) p <-> In p (b_mon b) \/ monitored (l1 ++ l2) p.
Proof.
  intros l1 k b l2 p; unfold monitored; split.
  - intros (k0 & b0 & Hin & Hp). apply in_app_or in Hin as [Hin|[E|Hin]].
    + right; exists k0, b0; split; auto. apply in_or_app; auto.
    + inversion E; subst; auto.
    + right; exists k0, b0; split; auto. apply in_or_app; auto.
  - intros [Hp|(k0 & b0 & Hin & Hp)].
    + exists k, b; split; auto. apply in_or_app; right; left; reflexivity.
    + exists k0, b0; split; auto. apply in_app_or in Hin as [Hin|Hin]; apply in_or_app; [left|right; right]; auto.
Qed.

Lemma pend_mid : forall l1 k b l2 f, pend (l1 ++ (k, b) :: l2) f <-> In f (b_unc b) \/ pend (l1 ++ l2) f.
Proof.
  intros l1 k b l2 p; unfold pend; split.
  - intros (k0 & b0 & Hin & Hp). apply in_app_or in Hin as [Hin|[E|Hin]].
    + right; exists k0, b0; split; auto. apply in_or_app; auto.
    + inversion E; subst; auto.
    + right; exists k0, b0; split; auto. apply in_or_app; auto.
  - intros [Hp|(k0 & b0 & Hin & Hp)].
    + exists k, b; split; auto. apply in_or_app; right; left; reflexivity.
    + exists k0, b0; split; auto. apply in_app_or in Hin as [Hin|Hin]; apply in_or_app; [left|right; right]; auto.
Qed.

Definition LSpec (rs rs' : list (key * bund)) (x x' : world) : Prop :=
  exists l, wl x' = wl x ++ l /\ Forall is_dev l /\ Tm (monitored rs) (monitored rs') l /\ Tf (pend rs) (pend rs') l.

Lemma LSpec_refl : forall rs x, LSpec rs rs x x.
Proof.
  intros rs x; exists []; rewrite app_nil_r; repeat split; auto; apply T_nil; auto.
Qed.

Lemma LSpec_trans : forall r0 r1 r2 x0 x1 x2, LSpec r0 r1 x0 x1 -> LSpec r1 r2 x1 x2 -> LSpec r0 r2 x0 x2.
Proof.
  intros r0 r1 r2 x0 x1 x2 (l1 & E1 & F1 & A1 & B1) (l2 & E2 & F2 & A2 & B2).
  exists (l1 ++ l2). rewrite E2, E1, app_assoc. repeat split; auto.
  - apply Forall_app; auto.
  - eapply T_app; eauto.
  - eapply T_app; eauto.
Qed.

(* one bundler of the list changes *)
Lemma LSpec_mid : forall l1 k b b' l2 x x',
  BSpec b b' x x' -> LSpec (l1 ++ (k, b) :: l2) (l1 ++ (k, b') :: l2) x x'.
Proof.
  intros l1 k b b' l2 x x' (l & E & F & A & B). exists l; repeat split; auto.
  - eapply T_weaken; [apply (T_frame on_m off_m _ _ (monitored (l1 ++ l2)) _ A) | |];
      intros p Hp; cbn beta in *; unfold inl in *; [apply monitored_mid in Hp | apply monitored_mid]; exact Hp.
  - eapply T_weaken; [apply (T_frame is_kick_ok is_attempt _ _ (pend (l1 ++ l2)) _ B) | |];
      intros p Hp; cbn beta in *; unfold inl in *; [apply pend_mid in Hp | apply pend_mid]; exact Hp.
Qed.

Lemma LSpec_update : forall rs k b b' x x',
  lookup k rs = Some b -> BSpec b b' x x' -> LSpec rs (update k b' rs) x x'.
Proof.
  intros rs k b b' x x' L S. destruct (split_lookup k rs b L) as (l1 & l2 & -> & Hu & _).
  rewrite Hu. apply LSpec_mid; exact S.
Qed.

(* the tail of the list changes *)
Lemma LSpec_cons : forall k b t t' x x', LSpec t t' x x' -> LSpec ((k, b) :: t) ((k, b) :: t') x x'.
Proof.
  intros k b t t' x x' (l & E & F & A & B). exists l; repeat split; auto.
  - eapply T_weaken; [apply (T_frame on_m off_m _ _ (fun p => In p (b_mon b)) _ A) | |]; intros p Hp.
    + apply (monitored_mid [] k b t p) in Hp. cbn beta in *; cbn in Hp; tauto.
    + apply (monitored_mid [] k b t' p). cbn beta in *; cbn; tauto.
  - eapply T_weaken; [apply (T_frame is_kick_ok is_attempt _ _ (fun p => In p (b_unc b)) _ B) | |]; intros p Hp.
    + apply (pend_mid [] k b t p) in Hp. cbn beta in *; cbn in Hp; tauto.
    + apply (pend_mid [] k b t' p). cbn beta in *; cbn; tauto.
Qed.

Section Steps.
Variable fails : N -> bool.

Lemma for_runs_spec : forall (f : bund -> world -> bund * world * bool),
  (forall b x b' x' ok, f b x = (b', x', ok) -> BSpec b b' x x') ->
  forall rs x rs' x' ok, for_runs f rs x = (rs', x', ok) -> LSpec rs rs' x x'.
Proof.
  intros f Hf; induction rs as [|[k b] t IH]; intros x rs' x' ok H; cbn in H.
  - inversion H; subst; apply LSpec_refl.
  - destruct (f b x) as [[b1 x1] ok1] eqn:E. pose proof (Hf _ _ _ _ _ E) as S1.
    pose proof (LSpec_mid [] k b b1 t x x1 S1) as S2; cbn in S2.
    destruct ok1.
    + destruct (for_runs f t x1) as [[t' x2] ok2] eqn:E2. inversion H; subst.
      eapply LSpec_trans; [exact S2|]. apply LSpec_cons. eapply IH; eauto.
    + inversion H; subst; exact S2.
Qed.

(* ------------------------------------------------------------------ the invariant *)

Definition led (s : st) : list entry := wl (w s).
Definition heldf (s : st) (f : dev) : Prop := pend (runs s) f \/ In f (g_lost s).

(* whatever still needs a clear_sub is a monitor of an open run; whatever still needs a collection attempt is in
   _uncollected of an open run or was dropped by a plan's close_run *)
Definition SInv (s : st) : Prop :=
  (forall d c, needs_clear (led s) d c = true -> monitored (runs s) (d, c)) /\
  (forall f, needs_collect (led s) f = true -> heldf s f).

Definition SSpec (s s' : st) : Prop :=
  exists l, led s' = led s ++ l /\ Tm (monitored (runs s)) (monitored (runs s')) l /\ Tf (heldf s) (heldf s') l.

Lemma SSpec_inv : forall s s', SSpec s s' -> SInv s -> SInv s'.
Proof.
  intros s s' (l & E & A & B) [I1 I2]; split.
  - intros d c H. rewrite E, needs_clear_fold in H.
    refine (T_sound on_m off_m _ _ (led s) l A _ (d, c) H). intros [d0 c0]; apply I1.
  - intros f H. rewrite E, needs_collect_fold in H.
    exact (T_sound is_kick_ok is_attempt _ _ (led s) l B I2 f H).
Qed.

(* an extension by dispatcher entries (or none) with the runs untouched *)
Lemma SSpec_notes : forall s s' l,
  led s' = led s ++ l -> (forall e, In e l -> ~ is_dev e) -> runs s' = runs s -> g_lost s' = g_lost s -> SSpec s s'.
Proof.
  intros s s' l E Hl Hr Hg. exists l; split; [exact E|].
  unfold heldf; rewrite Hr, Hg. split; apply T_quiet; intros e Hin i; specialize (Hl e Hin); destruct e; cbn in *; tauto.
Qed.

Lemma LSpec_SSpec : forall s s' , LSpec (runs s) (runs s') (w s) (w s') -> g_lost s' = g_lost s -> SSpec s s'.
Proof.
  intros s s' (l & E & F & A & B) Hg. exists l; split; [exact E|]. split; [exact A|].
  unfold heldf; rewrite Hg. apply T_frame; exact B.
Qed.

End Steps.

(* ------------------------------------------------------------------ every step but the finally block *)

Definition same_tok (s s' : st) : Prop := temp s' = temp s /\ disp s' = disp s /\ ntok s' = ntok s.

(* a step that talks to devices only *)
Definition DSpec (s s' : st) : Prop :=
  same_tok s s' /\
  exists l, led s' = led s ++ l /\ Forall is_dev l /\
            Tm (monitored (runs s)) (monitored (runs s')) l /\ Tf (heldf s) (heldf s') l.

Lemma DSpec_SSpec : forall s s', DSpec s s' -> SSpec s s'.
Proof. intros s s' (_ & l & E & _ & A & B); exists l; auto. Qed.

Lemma LSpec_DSpec : forall s s', LSpec (runs s) (runs s') (w s) (w s') -> g_lost s' = g_lost s -> same_tok s s' -> DSpec s s'.
Proof.
  intros s s' (l & E & F & A & B) Hg Ht. split; [exact Ht|]. exists l; repeat split; auto.
  unfold heldf; rewrite Hg. apply T_frame; exact B.
Qed.

Section Steps2.
Variable fails : N -> bool.

Lemma on_run_dspec : forall s k f s' r,
  (forall b x b' x' ok, f b x = (b', x', ok) -> BSpec b b' x x') ->
  on_run s k f = (s', r) -> DSpec s s'.
Proof.
  intros s k f s' r Hf H; unfold on_run in H. destruct (lookup k (runs s)) as [b|] eqn:L.
  - destruct (f b (w s)) as [[b1 x1] ok] eqn:E. inversion H; subst.
    apply LSpec_DSpec; cbn; [|reflexivity|repeat split].
    eapply LSpec_update; eauto.
  - inversion H; subst. apply LSpec_DSpec; [apply LSpec_refl | reflexivity | repeat split].
Qed.

Lemma dspec_ncb : forall s s1 s', runs s1 = runs s -> w s1 = w s -> g_lost s1 = g_lost s -> same_tok s s1 -> DSpec s1 s' -> DSpec s s'.
Proof.
  intros s s1 s' Hr Hw Hg (T1 & T2 & T3) ((U1 & U2 & U3) & l & E & F & A & B).
  split; [repeat split; congruence|]. exists l. unfold led, heldf in *. rewrite Hr, Hw, Hg in *. auto.
Qed.

Lemma step_dev : forall s o s' r,
  match o with
  | OOpen _ | OClose _ | OKickoff _ _ | OComplete _ | OCollect _ _ | OMonitor _ _ | OUnmonitor _ _ | OPause | OWake => True
  | _ => False
  end ->
  step fails s o = (s', r) -> DSpec s s'.
Proof.
  intros s o s' r Ho H; destruct o; try contradiction; cbn in H.
  - (* open *)
    destruct (lookup k (runs s)) eqn:L; inversion H; subst.
    + apply LSpec_DSpec; [apply LSpec_refl | reflexivity | repeat split].
    + split; [repeat split|]. exists []; unfold led, heldf; cbn; rewrite app_nil_r. repeat split; auto.
      * apply T_nil. intros p (k0 & b0 & Hin & Hp). exists k0, b0; split; auto. apply in_or_app; auto.
      * apply T_nil. intros f [(k0 & b0 & Hin & Hp)|Hl]; [left|right; exact Hl].
        exists k0, b0; split; auto. apply in_or_app; auto.
  - (* close *)
    destruct (lookup k (runs s)) as [b|] eqn:L.
    + destruct (close_b fails b (w s)) as [[b1 x1] ok] eqn:E.
      destruct (close_b_spec _ _ _ _ _ _ E) as (S1 & Hu & Hm).
      pose proof (LSpec_update _ _ _ _ _ _ L S1) as (l & E1 & F1 & A1 & B1).
      destruct (split_lookup k (runs s) b L) as (l1 & l2 & Hrs & Hupd & Hrem).
      destruct ok; inversion H; subst.
      * split; [repeat split|]. exists l; unfold led, heldf; cbn. repeat split; auto.
        -- eapply T_weaken; [exact A1 | auto |]. intros p Hp. rewrite Hupd in Hp. rewrite Hrem.
           apply monitored_mid in Hp as [Hp|Hp]; [rewrite (Hm eq_refl) in Hp; contradiction | exact Hp].
        -- eapply T_weaken; [apply (T_frame is_kick_ok is_attempt _ _ (fun f => In f (g_lost s)) _ B1) | auto |].
           intros f [Hp|Hl]; [|right; apply in_or_app; auto]. rewrite Hupd in Hp. rewrite Hrem.
           apply pend_mid in Hp as [Hp|Hp]; [right; apply in_or_app; auto | left; exact Hp].
      * apply LSpec_DSpec; cbn; [exists l; auto | reflexivity | repeat split].
    + inversion H; subst. apply LSpec_DSpec; [apply LSpec_refl | reflexivity | repeat split].
  - (* kickoff *) eapply on_run_dspec; [|exact H]. intros ? ? ? ? ? Hk; cbn beta in Hk; eapply kickoff_b_spec; exact Hk.
  - (* complete *)
    destruct (dcall fails (w s) f MComplete) as [x1 ok] eqn:E. inversion H; subst.
    apply LSpec_DSpec; cbn; [|reflexivity|repeat split].
    exists [EDev f MComplete r]. split; [eapply dcall_wl; eauto|]. split; [constructor; [exact I|constructor]|].
    split; apply T_quiet; intros e [<-|[]] i; reflexivity.
  - (* collect *) eapply on_run_dspec; [|exact H]. intros ? ? ? ? ? Hk; cbn beta in Hk; eapply collect_b_bspec; exact Hk.
  - (* monitor *)
    eapply dspec_ncb; [| | | |eapply on_run_dspec; [|exact H]]; try reflexivity; [repeat split|].
    intros ? ? ? ? ? Hk; cbn beta in Hk; eapply monitor_b_spec; exact Hk.
  - (* unmonitor *) eapply on_run_dspec; [|exact H]. intros ? ? ? ? ? Hk; cbn beta in Hk; eapply unmonitor_b_spec; exact Hk.
  - (* pause *)
    destruct (for_runs (suspend_b fails) (runs s) (w s)) as [[l1 x1] ok] eqn:E. inversion H; subst.
    apply LSpec_DSpec; cbn; [|reflexivity|repeat split].
    eapply for_runs_spec; [|exact E]. intros ? ? ? ? ? Hk; cbn beta in Hk; eapply suspend_b_spec; exact Hk.
  - (* wake *)
    destruct (for_runs (restore_b fails) (runs s) (w s)) as [[l1 x1] ok] eqn:E. inversion H; subst.
    apply LSpec_DSpec; cbn; [|reflexivity|repeat split].
    eapply for_runs_spec; [|exact E]. intros ? ? ? ? ? Hk; cbn beta in Hk; eapply restore_b_spec; exact Hk.
Qed.

(* ------------------------------------------------------------------ the dispatcher steps *)

Definition notes_only (l : list entry) : Prop := forall e, In e l -> ~ is_dev e.

(* a step that talks to the dispatcher only: runs and lost flyers untouched *)
Definition NSpec (s s' : st) : Prop :=
  runs s' = runs s /\ g_lost s' = g_lost s /\ exists l, led s' = led s ++ l /\ notes_only l.

Lemma NSpec_SSpec : forall s s', NSpec s s' -> SSpec s s'.
Proof. intros s s' (Hr & Hg & l & E & Hl). eapply SSpec_notes; eauto. Qed.

Lemma NSpec_refl : forall s, NSpec s s.
Proof. intros s; repeat split; auto. exists []; rewrite app_nil_r; split; [reflexivity | intros e []]. Qed.

Lemma NSpec_trans : forall s0 s1 s2, NSpec s0 s1 -> NSpec s1 s2 -> NSpec s0 s2.
Proof.
  intros s0 s1 s2 (R1 & G1 & l1 & E1 & N1) (R2 & G2 & l2 & E2 & N2). repeat split; try congruence.
  exists (l1 ++ l2). rewrite E2, E1, app_assoc. split; [reflexivity|].
  intros e Hin; apply in_app_or in Hin as [Hin|Hin]; auto.
Qed.

Lemma new_sub_nspec : forall o b s, NSpec s (new_sub o b s).
Proof.
  intros o b s; repeat split; auto. exists [ESub o (ntok s)]; split; [reflexivity|]. intros e [<-|[]]; cbn; auto.
Qed.

Lemma do_unsub_nspec : forall o t s, NSpec s (do_unsub o t s).
Proof.
  intros o t s; repeat split; auto. exists [EUnsub o t]; split; [reflexivity|]. intros e [<-|[]]; cbn; auto.
Qed.

Lemma fold_note_wl : forall ts x, wl (fold_left (fun x t => note x (EUnsub UClear t)) ts x) = wl x ++ map (EUnsub UClear) ts.
Proof.
  induction ts as [|t ts IH]; intros x; cbn; [rewrite app_nil_r; reflexivity|].
  rewrite IH; cbn. rewrite <- app_assoc; reflexivity.
Qed.

Lemma clear_cache_led : forall s, led (clear_cache s) = led s ++ map (EUnsub UClear) (temp s).
Proof. intros s; unfold led, clear_cache; cbn. apply fold_note_wl. Qed.

Lemma clear_cache_nspec : forall s, NSpec s (clear_cache s).
Proof.
  intros s; repeat split; auto. exists (map (EUnsub UClear) (temp s)); split; [apply clear_cache_led|].
  intros e Hin; apply in_map_iff in Hin as (t & <- & _); cbn; auto.
Qed.

Lemma call_subs_nspec : forall n s, NSpec s (call_subs n s).
Proof.
  induction n as [|n IH]; intros s; cbn; [apply NSpec_refl|].
  eapply NSpec_trans; [apply new_sub_nspec | apply IH].
Qed.

Lemma step_note : forall s o s' r,
  match o with
  | OStart _ | OSubscribe _ | OUnsubscribe _ | OMainSub | OMainUnsub _ => True
  | _ => False
  end ->
  step fails s o = (s', r) -> NSpec s s'.
Proof.
  intros s o s' r Ho H; destruct o; try contradiction; unfold step in H.
  - inversion H; subst. unfold start_call. eapply NSpec_trans; [apply clear_cache_nspec | apply call_subs_nspec].
  - destruct valid; inversion H; subst; [apply new_sub_nspec | apply NSpec_refl].
  - destruct (do_unsub_nspec UPlan t s) as (R & G & l & E & Nl).
    destruct (memN t (temp (do_unsub UPlan t s))); inversion H; subst.
    + split; [exact R|]. split; [exact G|]. exists l; auto.
    + split; [exact R|]. split; [exact G|]. exists l; auto.
  - inversion H; subst; apply new_sub_nspec.
  - inversion H; subst; apply do_unsub_nspec.
Qed.

Lemma step_sspec : forall s o s' r, o <> OFinally -> step fails s o = (s', r) -> SSpec s s'.
Proof.
  intros s o s' r Ho H.
  destruct o; try congruence;
    first [ apply DSpec_SSpec; eapply step_dev; [|exact H]; exact I
          | apply NSpec_SSpec; eapply step_note; [|exact H]; exact I ].
Qed.

End Steps2.

(* ------------------------------------------------------------------ the finally block *)

(* entries that neither subscribe nor kick off *)
Definition Q (l : list entry) : Prop := Forall is_dev l /\ quiet on_m l /\ quiet is_kick_ok l.

Lemma Q_nil : Q [].
Proof. repeat split; [constructor | intros e [] | intros e []]. Qed.

Lemma Q_app : forall l1 l2, Q l1 -> Q l2 -> Q (l1 ++ l2).
Proof.
  intros l1 l2 (F1 & A1 & B1) (F2 & A2 & B2). repeat split.
  - apply Forall_app; auto.
  - intros e Hin; apply in_app_or in Hin as [Hin|Hin]; auto.
  - intros e Hin; apply in_app_or in Hin as [Hin|Hin]; auto.
Qed.

Lemma Q_clear : forall d c ok, Q [EDev d (MClearSub c) ok].
Proof. intros; repeat split; [constructor; [exact I|constructor] | intros e [<-|[]] i; reflexivity | intros e [<-|[]] i; reflexivity]. Qed.

Section Fin.
Variable fails : N -> bool.

Lemma clear_lenient_spec : forall mon x mon' x',
  clear_lenient fails mon x = (mon', x') ->
  exists l, wl x' = wl x ++ l /\ Q l /\ forall p, In p mon -> exists e, In e l /\ off_m p e = true.
Proof.
  induction mon as [|[d c] t IH]; intros x mon' x' H; cbn in H.
  - inversion H; subst. exists []; rewrite app_nil_r; repeat split; try apply Q_nil. intros p [].
  - destruct (dcall fails x d (MClearSub c)) as [x1 ok] eqn:E.
    destruct (clear_lenient fails t x1) as [t' x2] eqn:E2. inversion H; subst.
    destruct (IH _ _ _ E2) as (l & E3 & Ql & Hc).
    exists ([EDev d (MClearSub c) ok] ++ l). split; [rewrite E3, (dcall_wl _ _ _ _ _ _ E), <- app_assoc; reflexivity|].
    split; [apply Q_app; [apply Q_clear | exact Ql]|].
    intros p [<-|Hin].
    + exists (EDev d (MClearSub c) ok); split; [left; reflexivity | unfold off_m; cbn; rewrite !N.eqb_refl; reflexivity].
    + destruct (Hc p Hin) as (e & He & Ho). exists e; split; [right; exact He | exact Ho].
Qed.

Lemma clear_strict_Q : forall mon x mon' x' ok,
  clear_strict fails mon x = (mon', x', ok) -> exists l, wl x' = wl x ++ l /\ Q l.
Proof.
  induction mon as [|[d c] t IH]; intros x mon' x' ok H; cbn in H.
  - inversion H; subst. exists []; rewrite app_nil_r; split; [reflexivity | apply Q_nil].
  - destruct (dcall fails x d (MClearSub c)) as [x1 ok1] eqn:E. destruct ok1.
    + destruct (IH _ _ _ _ H) as (l & E3 & Ql). exists ([EDev d (MClearSub c) true] ++ l).
      split; [rewrite E3, (dcall_wl _ _ _ _ _ _ E), <- app_assoc; reflexivity | apply Q_app; [apply Q_clear | exact Ql]].
    + inversion H; subst. exists [EDev d (MClearSub c) false]. split; [eapply dcall_wl; eauto | apply Q_clear].
Qed.

Lemma backstop_spec : forall fs b x b' x',
  backstop fails fs b x = (b', x') ->
  exists l, wl x' = wl x ++ l /\ Q l /\ forall f, In f fs -> exists e, In e l /\ is_attempt f e = true.
Proof.
  induction fs as [|f t IH]; intros b x b' x' H; cbn in H.
  - inversion H; subst. exists []; rewrite app_nil_r; repeat split; try apply Q_nil. intros p [].
  - destruct (collect_b fails b f x) as [[b1 x1] ok] eqn:E.
    destruct (collect_b_spec _ _ _ _ _ _ _ E) as (l1 & E1 & F1 & _ & _ & Qa & Qb & (e1 & He1 & Ha1) & _).
    destruct (IH _ _ _ _ H) as (l2 & E2 & Q2 & Hc).
    exists (l1 ++ l2). split; [rewrite E2, E1, <- app_assoc; reflexivity|].
    split; [apply Q_app; [repeat split; assumption | exact Q2]|].
    intros g [<-|Hin].
    + exists e1; split; [apply in_or_app; left; exact He1 | exact Ha1].
    + destruct (Hc g Hin) as (e & He & Ho). exists e; split; [apply in_or_app; right; exact He | exact Ho].
Qed.

Lemma fin_clear_spec : forall rs x rs1 x1,
  fin_clear fails rs x = (rs1, x1) ->
  exists l, wl x1 = wl x ++ l /\ Q l /\
            (forall p, monitored rs p -> exists e, In e l /\ off_m p e = true) /\
            (forall f, pend rs f -> exists e, In e l /\ is_attempt f e = true).
Proof.
  induction rs as [|[k b] t IH]; intros x rs1 x1 H; cbn in H.
  - inversion H; subst. exists []; rewrite app_nil_r. split; [reflexivity|]. split; [apply Q_nil|].
    split; intros p (k0 & b0 & [] & _).
  - destruct (clear_lenient fails (b_mon b) x) as [mon' xa] eqn:Ea.
    destruct (backstop fails (b_unc b) (set_mon b mon') xa) as [b2 xb] eqn:Eb.
    destruct (fin_clear fails t xb) as [t' xc] eqn:Ec. inversion H; subst.
    destruct (clear_lenient_spec _ _ _ _ Ea) as (la & Wa & Qa & Ca).
    destruct (backstop_spec _ _ _ _ _ Eb) as (lb & Wb & Qb & Cb).
    destruct (IH _ _ _ Ec) as (lc & Wc & Qc & Cm & Cf).
    exists (la ++ lb ++ lc). split; [rewrite Wc, Wb, Wa, <- !app_assoc; reflexivity|].
    split; [apply Q_app; [exact Qa | apply Q_app; [exact Qb | exact Qc]]|]. split.
    + intros p Hp. apply (monitored_mid [] k b t p) in Hp as [Hp|Hp].
      * destruct (Ca p Hp) as (e & He & Ho). exists e; split; [apply in_or_app; left; exact He | exact Ho].
      * destruct (Cm p Hp) as (e & He & Ho). exists e; split; [apply in_or_app; right; apply in_or_app; right; exact He | exact Ho].
    + intros f Hp. apply (pend_mid [] k b t f) in Hp as [Hp|Hp].
      * destruct (Cb f Hp) as (e & He & Ho). exists e; split; [apply in_or_app; right; apply in_or_app; left; exact He | exact Ho].
      * destruct (Cf f Hp) as (e & He & Ho). exists e; split; [apply in_or_app; right; apply in_or_app; right; exact He | exact Ho].
Qed.

Lemma fin_close_spec : forall rs x bs x', fin_close fails rs x = (bs, x') -> exists l, wl x' = wl x ++ l /\ Q l.
Proof.
  induction rs as [|[k b] t IH]; intros x bs x' H; cbn in H.
  - inversion H; subst. exists []; rewrite app_nil_r; split; [reflexivity | apply Q_nil].
  - unfold close_b in H. destruct (clear_strict fails (b_mon b) x) as [[mon' x1] ok] eqn:E.
    destruct (fin_close fails t x1) as [t' x2] eqn:E2. inversion H; subst.
    destruct (clear_strict_Q _ _ _ _ _ E) as (l1 & W1 & Q1). destruct (IH _ _ _ E2) as (l2 & W2 & Q2).
    exists (l1 ++ l2). split; [rewrite W2, W1, <- app_assoc; reflexivity | apply Q_app; assumption].
Qed.

(* after the finally block: no run is open, nothing needs a clear_sub, and a flyer that still needs a collection
   attempt is one a plan's close_run dropped *)
Lemma finally_clean : forall s, SInv s ->
  let s' := finally_block fails s in
  runs s' = [] /\ g_lost s' = g_lost s /\ same_tok s s' /\
  (exists l, led s' = led s ++ l /\ Forall is_dev l) /\
  (forall d c, needs_clear (led s') d c = false) /\
  (forall f, needs_collect (led s') f = true -> In f (g_lost s)).
Proof.
  intros s [I1 I2]; unfold finally_block.
  destruct (fin_clear fails (runs s) (w s)) as [l1 x1] eqn:E1.
  destruct (fin_close fails l1 x1) as [bs x2] eqn:E2. cbn.
  destruct (fin_clear_spec _ _ _ _ E1) as (la & Wa & (Fa & Qa1 & Qa2) & Cm & Cf).
  destruct (fin_close_spec _ _ _ _ E2) as (lb & Wb & (Fb & Qb1 & Qb2)).
  assert (W : wl x2 = wl (w s) ++ (la ++ lb)) by (rewrite Wb, Wa, <- app_assoc; reflexivity).
  split; [reflexivity|]. split; [reflexivity|]. split; [repeat split|].
  split; [exists (la ++ lb); split; [exact W | apply Forall_app; auto]|].
  unfold led; cbn. rewrite W. split.
  - intros d c. destruct (needs_clear (wl (w s) ++ la ++ lb) d c) eqn:Hn; [|reflexivity]. exfalso.
    rewrite needs_clear_fold, fold_left_app in Hn.
    apply (quiet_fold on_m off_m) in Hn as [Hacc Hoff];
      [|intros e Hin; apply in_app_or in Hin as [Hin|Hin]; auto].
    destruct (Cm (d, c) (I1 d c Hacc)) as (e & He & Ho).
    rewrite (Hoff e (in_or_app _ _ _ (or_introl He))) in Ho; discriminate.
  - intros f Hn. rewrite needs_collect_fold, fold_left_app in Hn.
    apply (quiet_fold is_kick_ok is_attempt) in Hn as [Hacc Hoff];
      [|intros e Hin; apply in_app_or in Hin as [Hin|Hin]; auto].
    destruct (I2 f Hacc) as [Hp|Hl]; [|exact Hl]. exfalso.
    destruct (Cf f Hp) as (e & He & Ho).
    rewrite (Hoff e (in_or_app _ _ _ (or_introl He))) in Ho; discriminate.
Qed.

Lemma finally_inv : forall s, SInv s -> SInv (finally_block fails s).
Proof.
  intros s HI. destruct (finally_clean s HI) as (Hr & Hg & _ & _ & Hc & Hf). split.
  - intros d c H. rewrite Hc in H; discriminate.
  - intros f H. right. rewrite Hg. apply Hf; exact H.
Qed.

(* ------------------------------------------------------------------ whole sessions *)

Lemma exec_nil : forall s, exec fails s [] = s.
Proof. reflexivity. Qed.

Lemma exec_cons : forall s o t, exec fails s (o :: t) = exec fails (fst (step fails s o)) t.
Proof.
  intros s o t; unfold exec; cbn. destruct (step fails s o) as [s1 r]; cbn.
  destruct (run fails s1 t) as [[s2 rs] sn]; reflexivity.
Qed.

Lemma exec_app : forall l1 s l2, exec fails s (l1 ++ l2) = exec fails (exec fails s l1) l2.
Proof.
  induction l1 as [|o t IH]; intros s l2; [reflexivity|].
  cbn [app]. rewrite !exec_cons. apply IH.
Qed.

Lemma step_inv : forall s o, SInv s -> SInv (fst (step fails s o)).
Proof.
  intros s o HI. destruct (step fails s o) as [s' r] eqn:E; cbn.
  destruct o; try (eapply SSpec_inv; [eapply step_sspec; [|exact E]; discriminate | exact HI]).
  cbn in E; inversion E; subst. apply finally_inv; exact HI.
Qed.

Lemma init_inv : SInv init.
Proof. split; intros; discriminate. Qed.

Lemma exec_inv : forall l s, SInv s -> SInv (exec fails s l).
Proof.
  induction l as [|o t IH]; intros s HI; [exact HI|]. rewrite exec_cons. apply IH. apply step_inv; exact HI.
Qed.

End Fin.

(* ------------------------------------------------------------------ tokens *)

Definition is_temp_sub (e : entry) : bool :=
  match e with ESub SPerCall _ | ESub SInPlan _ => true | _ => false end.

Lemma temp_made_app : forall l l' t, temp_made (l ++ l') t = temp_made l t || temp_made l' t.
Proof. intros; unfold temp_made; apply existsb_app. Qed.

Lemma temp_made_none : forall l t, (forall e, In e l -> is_temp_sub e = false) -> temp_made l t = false.
Proof.
  intros l t H; unfold temp_made. destruct (existsb _ l) eqn:E; [|reflexivity].
  apply existsb_exists in E as (e & Hin & He). specialize (H e Hin). destruct e as [| [] |]; cbn in *; congruence.
Qed.

Lemma temp_made_dev : forall l t, Forall is_dev l -> temp_made l t = false.
Proof.
  intros l t F; apply temp_made_none. intros e Hin. rewrite Forall_forall in F. specialize (F e Hin).
  destruct e; cbn in *; [reflexivity | contradiction | contradiction].
Qed.

Lemma new_sub_led : forall o b s, led (new_sub o b s) = led s ++ [ESub o (ntok s)].
Proof. reflexivity. Qed.
Lemma do_unsub_led : forall o t s, led (do_unsub o t s) = led s ++ [EUnsub o t].
Proof. reflexivity. Qed.
Lemma temp_made_one_sub : forall o t0 t, temp_made [ESub o t0] t = (match o with SMain => false | _ => true end && N.eqb t0 t).
Proof. intros o t0 t; destruct o; cbn; rewrite ?orb_false_r; reflexivity. Qed.

(* a temporary token still in the dispatcher is in _temp_callback_ids; tokens are never reused *)
Definition TInv (s : st) : Prop :=
  (forall t, In t (temp s) -> temp_made (led s) t = true) /\
  (forall t, In t (disp s) -> temp_made (led s) t = true -> In t (temp s)) /\
  (forall t, temp_made (led s) t = true -> (t < ntok s)%N) /\
  (forall t, In t (disp s) -> (t < ntok s)%N).

Lemma TInv_init : TInv init.
Proof. repeat split; cbn; intros; try contradiction; discriminate. Qed.

Lemma TInv_quiet : forall s s' l, TInv s -> same_tok s s' -> led s' = led s ++ l ->
  (forall e, In e l -> is_temp_sub e = false) -> TInv s'.
Proof.
  intros s s' l (A & B & C & D) (T1 & T2 & T3) E Hl.
  assert (Hm : forall t, temp_made (led s') t = temp_made (led s) t).
  { intros t; rewrite E, temp_made_app, (temp_made_none l t Hl), orb_false_r; reflexivity. }
  repeat split; intros t; rewrite ?T1, ?T2, ?T3, ?Hm; auto.
Qed.

Lemma TInv_new_sub : forall s o, TInv s ->
  TInv (new_sub o (match o with SMain => false | _ => true end) s).
Proof.
  intros s o (A & B & C & D).
  assert (Hm : forall t, temp_made (led (new_sub o (match o with SMain => false | _ => true end) s)) t
                        = temp_made (led s) t || (match o with SMain => false | _ => true end && N.eqb (ntok s) t)).
  { intros t; rewrite new_sub_led, temp_made_app, temp_made_one_sub; reflexivity. }
  assert (Hfresh : temp_made (led s) (ntok s) = false).
  { destruct (temp_made (led s) (ntok s)) eqn:E; [|reflexivity]. apply C in E. lia. }
  repeat split; intros t; rewrite ?Hm; cbn.
  - intros Hin. destruct o; cbn in *; try (apply insN_In in Hin as [->|Hin]; [rewrite N.eqb_refl, orb_true_r; reflexivity|]);
      rewrite (A t Hin); reflexivity.
  - intros Hin Ht. apply in_app_or in Hin as [Hin|[<-|[]]].
    + apply orb_true_iff in Ht as [Ht|Ht].
      * destruct o; cbn; try apply insN_In; auto.
      * apply andb_true_iff in Ht as [_ Ht]. apply N.eqb_eq in Ht; subst. specialize (D _ Hin); lia.
    + rewrite Hfresh in Ht; cbn in Ht. destruct o; cbn in *; try discriminate; apply insN_In; auto.
  - intros Ht. apply orb_true_iff in Ht as [Ht|Ht]; [specialize (C _ Ht); lia|].
    apply andb_true_iff in Ht as [_ Ht]. apply N.eqb_eq in Ht; subst; lia.
  - intros Hin. apply in_app_or in Hin as [Hin|[<-|[]]]; [specialize (D _ Hin)|]; lia.
Qed.

Lemma TInv_do_unsub : forall s o t, TInv s -> TInv (do_unsub o t s).
Proof.
  intros s o t (A & B & C & D).
  assert (Hm : forall t', temp_made (led (do_unsub o t s)) t' = temp_made (led s) t').
  { intros t'; rewrite do_unsub_led, temp_made_app; cbn. apply orb_false_r. }
  repeat split; intros t'; rewrite ?Hm; cbn; auto.
  - intros Hin; apply delN_In in Hin as [Hin _]; auto.
  - intros Hin; apply delN_In in Hin as [Hin _]; auto.
Qed.

Lemma TInv_clear_cache : forall s, TInv s -> TInv (clear_cache s).
Proof.
  intros s (A & B & C & D).
  assert (Hm : forall t, temp_made (led (clear_cache s)) t = temp_made (led s) t).
  { intros t; rewrite clear_cache_led, temp_made_app, (temp_made_none (map _ _)), orb_false_r; [reflexivity|].
    intros e Hin; apply in_map_iff in Hin as (t' & <- & _); reflexivity. }
  split; [|split; [|split]]; intros t; rewrite ?Hm; cbn.
  - contradiction.
  - intros Hin Ht. apply filter_In in Hin as [Hin Hn]. apply negb_true_iff in Hn.
    rewrite (proj2 (memN_In t (temp s)) (B t Hin Ht)) in Hn; discriminate.
  - apply C.
  - intros Hin. apply filter_In in Hin as [Hin _]; auto.
Qed.

Lemma TInv_call_subs : forall n s, TInv s -> TInv (call_subs n s).
Proof. induction n as [|n IH]; intros s H; cbn; [exact H|]. apply IH. exact (TInv_new_sub s SPerCall H). Qed.

Lemma call_subs_disp : forall n s t, In t (disp (call_subs n s)) -> In t (disp s) \/ (ntok s <= t)%N.
Proof.
  induction n as [|n IH]; intros s t H; cbn in H; [left; exact H|].
  apply IH in H as [H|H]; cbn in H.
  - apply in_app_or in H as [H|[<-|[]]]; [left; exact H | right; lia].
  - right; lia.
Qed.

Lemma classic_op_finally : forall o : op, o = OFinally \/ o <> OFinally.
Proof. intros o; destruct o; try (right; discriminate); left; reflexivity. Qed.

Lemma call_subs_keeps : forall n s0 t,
  In t (disp s0) -> temp_made (led s0) t = false -> (t < ntok s0)%N ->
  In t (disp (call_subs n s0)) /\ temp_made (led (call_subs n s0)) t = false.
Proof.
  induction n as [|n IH]; intros s0 t H1 H2 H3; cbn; [auto|].
  apply IH; [cbn; apply in_or_app; auto | | cbn; lia].
  rewrite new_sub_led, temp_made_app, H2, temp_made_one_sub; cbn. apply N.eqb_neq; lia.
Qed.

Definition Inv (s : st) : Prop := SInv s /\ TInv s.

Section Tok.
Variable fails : N -> bool.

Lemma step_tinv : forall s o, Inv s -> TInv (fst (step fails s o)).
Proof.
  intros s o [HS HT]. destruct (step fails s o) as [s' r] eqn:E; cbn.
  assert (Hdev : DSpec s s' -> TInv s').
  { intros (Ht & l & El & F & _). eapply TInv_quiet; eauto. intros e Hin. rewrite Forall_forall in F.
    specialize (F e Hin). destruct e; cbn in *; [reflexivity | contradiction | contradiction]. }
  destruct o; try (apply Hdev; eapply step_dev; [|exact E]; exact I); unfold step in E.
  - inversion E; subst. unfold start_call. apply TInv_call_subs, TInv_clear_cache, HT.
  - destruct valid; inversion E; subst; [exact (TInv_new_sub s SInPlan HT) | exact HT].
  - pose proof (TInv_do_unsub s UPlan t HT) as (A & B & C & D).
    destruct (memN t (temp (do_unsub UPlan t s))); inversion E; subst; [|repeat split; assumption].
    repeat split; cbn in *; intros t'.
    + intros Hin; apply delN_In in Hin as [Hin _]; auto.
    + intros Hin Ht. pose proof Hin as Hin'. apply delN_In in Hin' as [_ Hne]. apply delN_In; split; auto.
    + auto.
    + auto.
  - inversion E; subst. exact (TInv_new_sub s SMain HT).
  - inversion E; subst. apply TInv_do_unsub, HT.
  - inversion E; subst. destruct (finally_clean fails s HS) as (_ & _ & Ht & (l & El & F) & _).
    eapply TInv_quiet; eauto. intros e Hin. rewrite Forall_forall in F.
    specialize (F e Hin). destruct e; cbn in *; [reflexivity | contradiction | contradiction].
Qed.

Lemma step_Inv : forall s o, Inv s -> Inv (fst (step fails s o)).
Proof. intros s o H; split; [apply step_inv, H | apply step_tinv, H]. Qed.

Lemma exec_Inv : forall l s, Inv s -> Inv (exec fails s l).
Proof.
  induction l as [|o t IH]; intros s HI; [exact HI|]. rewrite exec_cons. apply IH. apply step_Inv; exact HI.
Qed.

Lemma init_Inv : Inv init.
Proof. split; [apply init_inv | apply TInv_init]. Qed.

(* ------------------------------------------------------------------ the theorems *)

(* (1) flyers *)
Theorem flyers_after_finally : forall h f,
  let s := exec fails init (h ++ [OFinally]) in
  needs_collect (led s) f = true -> In f (g_lost s).
Proof.
  intros h f s H. subst s. rewrite exec_app in *. rewrite exec_cons, exec_nil in *. cbn [step fst] in *.
  pose proof (exec_Inv h init init_Inv) as [HS _].
  destruct (finally_clean fails _ HS) as (_ & Hg & _ & _ & _ & Hf). rewrite Hg. apply Hf; exact H.
Qed.

Lemma on_run_lost : forall s k f, g_lost (fst (on_run s k f)) = g_lost s.
Proof.
  intros s k f; unfold on_run. destruct (lookup k (runs s)) as [b|]; [|reflexivity].
  destruct (f b (w s)) as [[b1 x1] ok]; reflexivity.
Qed.

Lemma call_subs_lost : forall n s, g_lost (call_subs n s) = g_lost s.
Proof. induction n as [|n IH]; intros s; cbn; [reflexivity | rewrite IH; reflexivity]. Qed.

(* lost flyers come from close_run messages only: the flyer was uncollected in the run the message closed *)
Theorem lost_only_by_close : forall s o f,
  In f (g_lost (fst (step fails s o))) -> In f (g_lost s) \/
  exists k b, o = OClose k /\ lookup k (runs s) = Some b /\ In f (b_unc b) /\ snd (step fails s o) = true.
Proof.
  intros s o f H. destruct o; unfold step in *.
  - unfold start_call in H; cbn [fst] in H. rewrite call_subs_lost in H. left; exact H.
  - destruct (lookup k (runs s)) as [b|] eqn:L; left; exact H.
  - destruct (lookup k (runs s)) as [b|] eqn:L; [|left; exact H].
    destruct (close_b fails b (w s)) as [[b1 x1] ok] eqn:E.
    destruct (close_b_spec _ _ _ _ _ _ E) as (_ & Hu & _).
    destruct ok; cbn in H; [|left; exact H].
    apply in_app_or in H as [H|H]; [left; exact H|]. right. exists k, b. repeat split; auto.
    rewrite <- Hu; exact H.
  - rewrite on_run_lost in H; left; exact H.
  - destruct (dcall fails (w s) f0 MComplete); left; exact H.
  - rewrite on_run_lost in H; left; exact H.
  - rewrite on_run_lost in H; left; exact H.
  - rewrite on_run_lost in H; left; exact H.
  - destruct valid; left; exact H.
  - destruct (memN t (temp (do_unsub UPlan t s))); left; exact H.
  - destruct (for_runs (suspend_b fails) (runs s) (w s)) as [[? ?] ?]; left; exact H.
  - destruct (for_runs (restore_b fails) (runs s) (w s)) as [[? ?] ?]; left; exact H.
  - left; exact H.
  - left; exact H.
  - unfold finally_block in H. destruct (fin_clear fails (runs s) (w s)) as [l1 x1].
    destruct (fin_close fails l1 x1) as [bs x2]. left; exact H.
Qed.

(* (2) monitors *)
Theorem monitors_after_finally : forall h,
  let s := exec fails init (h ++ [OFinally]) in
  runs s = [] /\ forall d c, needs_clear (led s) d c = false.
Proof.
  intros h s. subst s. rewrite exec_app. rewrite exec_cons, exec_nil. cbn [step fst].
  pose proof (exec_Inv h init init_Inv) as [HS _].
  destruct (finally_clean fails _ HS) as (Hr & _ & _ & _ & Hc & _). split; assumption.
Qed.

(* at every moment: what still needs cleaning is in the bookkeeping *)
Theorem ledger_tracked : forall h,
  let s := exec fails init h in
  (forall d c, needs_clear (led s) d c = true -> monitored (runs s) (d, c)) /\
  (forall f, needs_collect (led s) f = true -> pend (runs s) f \/ In f (g_lost s)).
Proof. intros h s. exact (proj1 (exec_Inv h init init_Inv)). Qed.

(* (3) temporary tokens *)
Theorem temp_tokens_removed : forall h n t,
  let s := exec fails init h in
  temp_made (led s) t = true ->
  ~ In t (disp (clear_cache s)) /\ ~ In t (disp (start_call n s)) /\ temp (clear_cache s) = [].
Proof.
  intros h n t s Ht. pose proof (exec_Inv h init init_Inv) as [_ (A & B & C & D)]. fold s in A, B, C, D.
  assert (H1 : ~ In t (disp (clear_cache s))).
  { cbn. intros Hin. apply filter_In in Hin as [Hin Hn]. apply negb_true_iff in Hn.
    rewrite (proj2 (memN_In t (temp s)) (B t Hin Ht)) in Hn; discriminate. }
  split; [exact H1|]. split; [|reflexivity].
  unfold start_call. intros Hin. apply call_subs_disp in Hin as [Hin|Hin]; [exact (H1 Hin)|].
  cbn in Hin. specialize (C t Ht). lia.
Qed.

(* permanent subscriptions: a token that is not temporary survives every step that is not an unsubscribe of it *)
Theorem permanent_kept : forall h o t,
  let s := exec fails init h in
  In t (disp s) -> temp_made (led s) t = false -> o <> OUnsubscribe t -> o <> OMainUnsub t ->
  In t (disp (fst (step fails s o))) /\ temp_made (led (fst (step fails s o))) t = false.
Proof.
  intros h o t s Hin Hnt Ho1 Ho2. pose proof (exec_Inv h init init_Inv) as HI. fold s in HI.
  pose proof HI as [HS (A & B & C & D)].
  destruct (step fails s o) as [s' r] eqn:E; cbn.
  assert (Hdev : DSpec s s' -> In t (disp s') /\ temp_made (led s') t = false).
  { intros ((T1 & T2 & T3) & l & El & F & _). rewrite T2, El, temp_made_app, Hnt, (temp_made_dev l t F). auto. }
  assert (Hnew : forall o0 b, In t (disp (new_sub o0 b s)) /\ temp_made (led (new_sub o0 b s)) t = false).
  { intros o0 b; split; [cbn; apply in_or_app; auto|]. rewrite new_sub_led, temp_made_app, Hnt, temp_made_one_sub; cbn.
    destruct o0; try reflexivity; cbn; apply N.eqb_neq; specialize (D t Hin); lia. }
  assert (Hun : forall o0 t0, t0 <> t -> In t (disp (do_unsub o0 t0 s)) /\ temp_made (led (do_unsub o0 t0 s)) t = false).
  { intros o0 t0 Hne; split; [cbn; apply delN_In; auto|]. rewrite do_unsub_led, temp_made_app, Hnt; reflexivity. }
  destruct o; try (apply Hdev; eapply step_dev; [|exact E]; exact I); unfold step in E.
  - inversion E; subst. unfold start_call.
    assert (H0 : In t (disp (clear_cache s)) /\ temp_made (led (clear_cache s)) t = false /\ (t < ntok (clear_cache s))%N).
    { split; [|split].
      - cbn. apply filter_In; split; [exact Hin|]. apply negb_true_iff. destruct (memN t (temp s)) eqn:Em; [|reflexivity].
        apply memN_In in Em. rewrite (A t Em) in Hnt; discriminate.
      - rewrite clear_cache_led, temp_made_app, Hnt, (temp_made_none (map _ _)); [reflexivity|].
        intros e He; apply in_map_iff in He as (t' & <- & _); reflexivity.
      - cbn. apply D; exact Hin. }
    destruct H0 as (H1 & H2 & H3). apply call_subs_keeps; assumption.
  - destruct valid; inversion E; subst; [apply Hnew | auto].
  - assert (Hne : t0 <> t) by congruence. destruct (Hun UPlan t0 Hne) as [U1 U2].
    destruct (memN t0 (temp (do_unsub UPlan t0 s))); inversion E; subst; auto.
  - inversion E; subst; apply Hnew.
  - inversion E; subst; apply Hun; congruence.
  - inversion E; subst. destruct (finally_clean fails s HS) as (_ & _ & (T1 & T2 & T3) & (l & El & F) & _).
    rewrite T2, El, temp_made_app, Hnt, (temp_made_dev l t F). auto.
Qed.

(* the ledger only grows *)
Theorem ledger_grows : forall h o,
  let s := exec fails init h in exists l, led (fst (step fails s o)) = led s ++ l.
Proof.
  intros h o s. pose proof (exec_Inv h init init_Inv) as [HS _]. fold s in HS.
  destruct (step fails s o) as [s' r] eqn:E; cbn.
  destruct (classic_op_finally o) as [->|Hne].
  - cbn in E; inversion E; subst. destruct (finally_clean fails s HS) as (_ & _ & _ & (l & El & _) & _). exists l; exact El.
  - destruct (step_sspec fails s o s' r Hne E) as (l & El & _). exists l; exact El.
Qed.

End Tok.

(* ------------------------------------------------------------------ a message for run key k leaves the other runs alone *)

Definition op_key (o : op) : option key :=
  match o with
  | OOpen k | OClose k | OKickoff k _ | OCollect k _ | OMonitor k _ | OUnmonitor k _ => Some k
  | _ => None
  end.

Lemma lookup_update_other : forall {A} (l : list (N * A)) k k' a, k' <> k -> lookup k' (update k a l) = lookup k' l.
Proof.
  induction l as [|[k0 a0] t IH]; intros k k' a Hne; cbn; [reflexivity|].
  destruct (N.eqb k k0) eqn:E; cbn.
  - apply N.eqb_eq in E; subst. destruct (N.eqb k' k0) eqn:E2; [apply N.eqb_eq in E2; congruence | reflexivity].
  - destruct (N.eqb k' k0); [reflexivity | apply IH; exact Hne].
Qed.

Lemma lookup_remove_key_other : forall {A} (l : list (N * A)) k k', k' <> k -> lookup k' (remove_key k l) = lookup k' l.
Proof.
  induction l as [|[k0 a0] t IH]; intros k k' Hne; cbn; [reflexivity|].
  destruct (N.eqb k k0) eqn:E; cbn.
  - apply N.eqb_eq in E; subst. destruct (N.eqb k' k0) eqn:E2; [apply N.eqb_eq in E2; congruence | reflexivity].
  - destruct (N.eqb k' k0); [reflexivity | apply IH; exact Hne].
Qed.

Lemma lookup_app_other : forall {A} (l : list (N * A)) k k' a, k' <> k -> lookup k' (l ++ [(k, a)]) = lookup k' l.
Proof.
  induction l as [|[k0 a0] t IH]; intros k k' a Hne; cbn.
  - destruct (N.eqb k' k) eqn:E; [apply N.eqb_eq in E; congruence | reflexivity].
  - destruct (N.eqb k' k0); [reflexivity | apply IH; exact Hne].
Qed.

Lemma on_run_other : forall s k f k', k' <> k -> lookup k' (runs (fst (on_run s k f))) = lookup k' (runs s).
Proof.
  intros s k f k' Hne; unfold on_run. destruct (lookup k (runs s)) as [b|]; [|reflexivity].
  destruct (f b (w s)) as [[b1 x1] ok]; cbn. apply lookup_update_other; exact Hne.
Qed.

Theorem other_runs_untouched : forall fails s o k k',
  op_key o = Some k -> k' <> k -> lookup k' (runs (fst (step fails s o))) = lookup k' (runs s).
Proof.
  intros fails s o k k' Hk Hne; destruct o; cbn in Hk; inversion Hk; subst; unfold step.
  - destruct (lookup k (runs s)); cbn; [reflexivity | apply lookup_app_other; exact Hne].
  - destruct (lookup k (runs s)) as [b|]; [|reflexivity].
    destruct (close_b fails b (w s)) as [[b1 x1] ok]. destruct ok; cbn;
      [apply lookup_remove_key_other | apply lookup_update_other]; exact Hne.
  - apply on_run_other; exact Hne.
  - apply on_run_other; exact Hne.
  - rewrite on_run_other; [reflexivity | exact Hne].
  - apply on_run_other; exact Hne.
Qed.

(* ------------------------------------------------------------------ witnesses *)
Local Open Scope N_scope.

Definition no_faults : N -> bool := fun _ => false.

(* C06-a: kickoff in a run that the plan closes without collecting *)
Definition wit_a : list op := call 0%nat [OOpen 0; OKickoff 0 0; OClose 0].

Lemma a_refuted :
  let s := exec no_faults init wit_a in
  g_lost s = [0%N] /\ needs_collect (led s) 0 = true /\ runs s = [] /\
  led s = [EDev 0 MKickoff true].
Proof. vm_compute. repeat split. Qed.

(* a session with two calls: a flyer and a monitor left to the finally block (one clear_sub raising), a per-call and an
   in-plan subscription removed when the next call starts, a permanent one kept *)
Definition ex_faults : N -> bool := fails_at [5%N].
Definition ex_session : list op :=
  OMainSub :: call 1%nat [OOpen 0; OKickoff 0 0; OKickoff 0 1; OMonitor 0 10; OCollect 0 0; OSubscribe true; OPause; OWake]
  ++ call 1%nat [OOpen 1; OMonitor 1 10].

Lemma ex_session_runs :
  let s := exec ex_faults init ex_session in
  g_lost s = [] /\ runs s = [] /\ disp s = [0; 3]%N /\ temp s = [3%N] /\
  led s = [ESub SMain 0; ESub SPerCall 1; EDev 0 MKickoff true; EDev 1 MKickoff true; EDev 10 MDescribe true;
           EDev 10 (MSubscribe 0) true; EDev 0 MDescribeCollect true; EDev 0 MCollect false; ESub SInPlan 2;
           EDev 10 (MClearSub 0) true; EDev 10 (MSubscribe 0) true; EDev 10 (MClearSub 0) true;
           EDev 1 MDescribeCollect true; EDev 1 MCollect true;
           EUnsub UClear 1; EUnsub UClear 2; ESub SPerCall 3; EDev 10 MDescribe true; EDev 10 (MSubscribe 1) true;
           EDev 10 (MClearSub 1) true]%N.
Proof. vm_compute. repeat split. Qed.

Lemma ex_midway :
  let s := exec ex_faults init (firstn 8%nat ex_session) in
  needs_collect (led s) 1 = true /\ needs_clear (led s) 10 0 = true /\ temp_made (led s) 1 = true /\
  temp_made (led s) 2 = true /\ temp_made (led s) 0 = false /\ disp s = [0; 1; 2]%N.
Proof. vm_compute. repeat split. Qed.

(* outside class C06-a (no plan close_run dropped an uncollected flyer) every kicked-off flyer got a collection attempt *)
Theorem flyers_clean_outside_a : forall fails h,
  let s := exec fails init (h ++ [OFinally]) in
  g_lost s = [] -> forall f, needs_collect (led s) f = false.
Proof.
  intros fails h s Hl f. destruct (needs_collect (led s) f) eqn:E; [|reflexivity].
  apply (flyers_after_finally fails h f) in E. fold s in E. rewrite Hl in E. contradiction.
Qed.

Theorem a_refuted_thm :
  exists h, let s := exec no_faults init (h ++ [OFinally]) in
            g_lost s <> [] /\ ~ (forall f, needs_collect (led s) f = false).
Proof.
  exists [OStart 0; OOpen 0; OKickoff 0 0; OClose 0]. cbv zeta.
  change ([OStart 0; OOpen 0; OKickoff 0 0; OClose 0] ++ [OFinally]) with wit_a.
  destruct a_refuted as (Hl & Hn & _). split; [rewrite Hl; discriminate|].
  intros H. rewrite (H 0) in Hn. discriminate.
Qed.
