(* Proofs about Engine/Dispatcher.v: the model of CallbackRegistry + Dispatcher + the RunEngine's
   temporary tokens refines the "live subscriptions" specification whenever no cid is shared (C18),
   and the delivery / error policy facts of C19. *)
From Coq Require Import List Arith Bool Lia.
From BV Require Import Base.Prelude Engine.Dispatcher.
Import ListNotations.

(* ------------------------------------------------------------------ small facts *)

Lemma sig_eqb_eq : forall a b, sig_eqb a b = true <-> a = b.
Proof.
  intros a b; split.
  - unfold sig_eqb; intros H; apply Nat.eqb_eq in H; destruct a, b; cbn in H; try discriminate; reflexivity.
  - intros ->; unfold sig_eqb; apply Nat.eqb_refl.
Qed.

Lemma sig_eqb_refl : forall a, sig_eqb a a = true.
Proof. intros; now apply sig_eqb_eq. Qed.

Lemma sig_eqb_sym : forall a b, sig_eqb a b = sig_eqb b a.
Proof. intros; unfold sig_eqb; apply Nat.eqb_sym. Qed.

Lemma filter_id {A} (p : A -> bool) (l : list A) :
  (forall x, In x l -> p x = true) -> filter p l = l.
Proof.
  induction l as [|a l IH]; cbn; intros H; [reflexivity|].
  rewrite (H a (or_introl eq_refl)). f_equal. apply IH. intros; apply H; now right.
Qed.

Lemma filter_nil {A} (p : A -> bool) (l : list A) :
  (forall x, In x l -> p x = false) -> filter p l = [].
Proof.
  induction l as [|a l IH]; cbn; intros H; [reflexivity|].
  rewrite (H a (or_introl eq_refl)). apply IH. intros; apply H; now right.
Qed.

Lemma filter_filter_comm {A} (p q : A -> bool) (l : list A) :
  filter p (filter q l) = filter q (filter p l).
Proof.
  induction l as [|a l IH]; cbn; [reflexivity|].
  destruct (p a) eqn:Hp, (q a) eqn:Hq; cbn; rewrite ?Hp, ?Hq, IH; reflexivity.
Qed.

Lemma filter_map_comm {A B} (f : A -> B) (p : B -> bool) (l : list A) :
  filter p (map f l) = map f (filter (fun x => p (f x)) l).
Proof.
  induction l as [|a l IH]; cbn; [reflexivity|]. destruct (p (f a)); cbn; now rewrite IH.
Qed.

Lemma filter_flat_map {A B} (f : A -> list B) (p : B -> bool) (l : list A) :
  filter p (flat_map f l) = flat_map (fun x => filter p (f x)) l.
Proof.
  induction l as [|a l IH]; cbn; [reflexivity|]. now rewrite filter_app, IH.
Qed.

Lemma existsb_false_filter {A} (p : A -> bool) (l : list A) :
  existsb p l = false -> filter (fun x => negb (p x)) l = l.
Proof.
  intros H. apply filter_id. intros x Hx.
  destruct (p x) eqn:E; [|reflexivity].
  assert (existsb p l = true) by (apply existsb_exists; eauto). congruence.
Qed.

Definition memb (t : nat) (l : list nat) : bool := existsb (Nat.eqb t) l.

Lemma memb_In : forall t l, memb t l = true <-> In t l.
Proof.
  intros; unfold memb; rewrite existsb_exists; split.
  - intros [x [Hx E]]; apply Nat.eqb_eq in E; now subst.
  - intros H; exists t; split; [assumption | apply Nat.eqb_refl].
Qed.

(* ------------------------------------------------------------------ the sharing flag is sticky *)

Definition sh (s : re) : bool := shared (reg (dsp s)).

Lemma disconnect_shared : forall r c, shared (disconnect r c) = shared r.
Proof. intros; unfold disconnect; destruct (existsb _ _); reflexivity. Qed.

Lemma fold_disconnect_shared : forall cs r, shared (fold_left disconnect cs r) = shared r.
Proof. induction cs as [|c cs IH]; cbn; intros; [reflexivity|]. now rewrite IH, disconnect_shared. Qed.

Lemma d_unsubscribe_shared : forall d t, shared (reg (d_unsubscribe d t)) = shared (reg d).
Proof.
  intros; unfold d_unsubscribe. destruct (find _ _) as [[? cs]|]; cbn; [apply fold_disconnect_shared | reflexivity].
Qed.

Lemma fold_unsubscribe_shared : forall ts d, shared (reg (fold_left d_unsubscribe ts d)) = shared (reg d).
Proof. induction ts as [|t ts IH]; cbn; intros; [reflexivity|]. now rewrite IH, d_unsubscribe_shared. Qed.

Lemma connect_sticky : forall r s f, shared r = true -> shared (fst (connect r s f)) = true.
Proof. intros; unfold connect; destruct (find _ _); cbn; auto. Qed.

Lemma connect_all_sticky : forall ss r f, shared r = true -> shared (fst (connect_all r ss f)) = true.
Proof.
  induction ss as [|s ss IH]; cbn; intros r f H; [assumption|].
  destruct (connect r s f) as [r1 c] eqn:E1. destruct (connect_all r1 ss f) as [r2 cs] eqn:E2. cbn.
  change r2 with (fst (r2, cs)). rewrite <- E2. apply IH.
  change r1 with (fst (r1, c)). rewrite <- E1. now apply connect_sticky.
Qed.

Lemma d_subscribe_eq : forall d f n, n <> NBad ->
  d_subscribe d f n =
  ({| reg := fst (connect_all (reg d) (sigs_of n) f); tok_ctr := S (tok_ctr d);
      tokmap := tokmap d ++ [(tok_ctr d, snd (connect_all (reg d) (sigs_of n) f))] |}, Some (tok_ctr d)).
Proof.
  intros d f n H; destruct n; try congruence; unfold d_subscribe;
    destruct (connect_all (reg d) _ f) as [r cs]; reflexivity.
Qed.

Lemma d_subscribe_bad : forall d f, d_subscribe d f NBad = (d, None).
Proof. reflexivity. Qed.

Lemma subname_dec_bad : forall n, n = NBad \/ n <> NBad.
Proof. destruct n; [right | right | left]; congruence. Qed.

Lemma d_subscribe_sticky : forall d f n, shared (reg d) = true -> shared (reg (fst (d_subscribe d f n))) = true.
Proof.
  intros d f n H. destruct (subname_dec_bad n) as [->|Hn]; [exact H|].
  rewrite (d_subscribe_eq d f n Hn). cbn [fst reg]. now apply connect_all_sticky.
Qed.

Lemma subscribe_temps_sticky : forall l s, sh s = true -> sh (subscribe_temps s l) = true.
Proof.
  induction l as [|[n f] l IH]; cbn; intros s H; [assumption|].
  pose proof (d_subscribe_sticky (dsp s) f n H) as H1.
  destruct (d_subscribe (dsp s) f n) as [d [t|]]; cbn in H1; apply IH; exact H1.
Qed.

Lemma run_plan_sticky : forall plan s c ems toks,
  sh s = true -> sh (fst (fst (fst (fst (run_plan s c plan ems toks))))) = true.
Proof.
  induction plan as [|m plan IH]; cbn; intros s c ems toks H; [assumption|].
  destruct m.
  - (* POpen *) destruct (plan_action c POpen); [|assumption|now apply IH].
    destruct (emit_all _ _) as [es [e|]]; [assumption | now apply IH].
  - destruct (plan_action c PEvent); [|assumption|now apply IH].
    destruct (emit_all _ _) as [es [e|]]; [assumption | now apply IH].
  - destruct (plan_action c PClose); [|assumption|now apply IH].
    destruct (emit_all _ _) as [es [e|]]; [assumption | now apply IH].
  - destruct (plan_action c PNull); [|assumption|now apply IH].
    destruct (emit_all _ _) as [es [e|]]; [assumption | now apply IH].
  - pose proof (d_subscribe_sticky (dsp s) f n H) as H1.
    destruct (d_subscribe (dsp s) f n) as [d [t|]]; cbn in H1; [apply IH; exact H1 | exact H1].
  - assert (H1 : shared (reg (d_unsubscribe (dsp s) t)) = true) by (now rewrite d_unsubscribe_shared).
    destruct (existsb (Nat.eqb t) (temp s)); [apply IH; exact H1 | exact H1].
Qed.

Lemma clear_call_cache_shared : forall s, sh (clear_call_cache s) = sh s.
Proof. intros; unfold sh, clear_call_cache; cbn; apply fold_unsubscribe_shared. Qed.

Lemma run_call_sticky : forall s subs plan, sh s = true -> sh (fst (run_call s subs plan)) = true.
Proof.
  intros s subs plan H; unfold run_call.
  assert (H0 : sh (clear_call_cache s) = true) by (now rewrite clear_call_cache_shared).
  destruct (normalize_subs subs) as [l|]; [|exact H0].
  pose proof (run_plan_sticky plan (subscribe_temps (clear_call_cache s) l) cstate0 [] []
                (subscribe_temps_sticky l _ H0)) as H1.
  destruct (run_plan _ _ _ _ _) as [[[[s3 c] ems] toks] x]; cbn in H1.
  destruct (emit_all _ _) as [es y]; exact H1.
Qed.

Lemma d_unsubscribe_all_shared : forall d, shared (reg (d_unsubscribe_all d)) = shared (reg d).
Proof. intros; unfold d_unsubscribe_all; apply fold_unsubscribe_shared. Qed.

Lemma step_sticky : forall s o, sh s = true -> sh (fst (step s o)) = true.
Proof.
  intros s o H; destruct o; cbn.
  - pose proof (d_subscribe_sticky (dsp s) f n H) as H1.
    destruct (d_subscribe (dsp s) f n) as [d [t|]]; exact H1.
  - unfold sh; cbn; now rewrite d_unsubscribe_shared.
  - exact H.
  - now apply run_call_sticky.
  - unfold sh; cbn; now rewrite d_unsubscribe_all_shared.
  - unfold sh; cbn. rewrite d_unsubscribe_all_shared. rewrite fold_unsubscribe_shared. exact H.
Qed.

Lemma run_from_sticky : forall h s, sh s = true -> sh (fst (run_from s h)) = true.
Proof.
  induction h as [|o h IH]; cbn; intros s H; [assumption|].
  pose proof (step_sticky s o H) as H1.
  destruct (step s o) as [s1 ob]. pose proof (IH s1 H1) as H2.
  destruct (run_from s1 h) as [s2 obs']; exact H2.
Qed.

(* ------------------------------------------------------------------ list facts used by the invariant *)

Lemma NoDup_app_iff {A} (l1 l2 : list A) :
  NoDup (l1 ++ l2) <-> NoDup l1 /\ NoDup l2 /\ (forall x, In x l1 -> ~ In x l2).
Proof.
  induction l1 as [|a l1 IH]; cbn.
  - split; [intros H; repeat split; [constructor | exact H | tauto] | tauto].
  - split.
    + intros H; inversion H as [|? ? Hn Hd]; subst. apply IH in Hd as [H1 [H2 H3]].
      repeat split; [constructor; [intros Hi; apply Hn, in_or_app; now left | exact H1] | exact H2 |].
      intros x [->|Hx]; [intros Hi; apply Hn, in_or_app; now right | now apply H3].
    + intros [H1 [H2 H3]]; inversion H1 as [|? ? Hn Hd]; subst. constructor.
      * intros Hi; apply in_app_or in Hi as [Hi|Hi]; [now apply Hn | apply (H3 a); [now left | exact Hi]].
      * apply IH; repeat split; [exact Hd | exact H2 | intros x Hx; apply H3; now right].
Qed.

Lemma NoDup_flat_map_filter {A B} (f : A -> list B) (p : A -> bool) (l : list A) :
  NoDup (flat_map f l) -> NoDup (flat_map f (filter p l)).
Proof.
  induction l as [|a l IH]; cbn; intros H; [constructor|].
  apply NoDup_app_iff in H as [H1 [H2 H3]].
  destruct (p a); cbn; [|now apply IH].
  apply NoDup_app_iff; repeat split; [exact H1 | now apply IH |].
  intros x Hx Hi. apply (H3 x Hx). apply in_flat_map in Hi as [y [Hy Hxy]].
  apply in_flat_map; exists y; split; [|exact Hxy]. apply filter_In in Hy; tauto.
Qed.

Lemma NoDup_map_filter {A B} (f : A -> B) (p : A -> bool) (l : list A) :
  NoDup (map f l) -> NoDup (map f (filter p l)).
Proof.
  induction l as [|a l IH]; cbn; intros H; [constructor|].
  inversion H as [|? ? Hn Hd]; subst. destruct (p a); cbn; [|now apply IH].
  constructor; [|now apply IH]. intros Hi; apply Hn.
  apply in_map_iff in Hi as [y [Hy Hi]]. apply in_map_iff; exists y; split; [exact Hy|].
  apply filter_In in Hi; tauto.
Qed.

Lemma filter_filter_and {A} (p q : A -> bool) (l : list A) :
  filter p (filter q l) = filter (fun x => q x && p x) l.
Proof.
  induction l as [|a l IH]; cbn; [reflexivity|].
  destruct (q a); cbn; [destruct (p a); now rewrite IH | exact IH].
Qed.

Lemma filter_ext_in' {A} (p q : A -> bool) (l : list A) :
  (forall x, In x l -> p x = q x) -> filter p l = filter q l.
Proof.
  induction l as [|a l IH]; cbn; intros H; [reflexivity|].
  rewrite (H a (or_introl eq_refl)). destruct (q a); [f_equal|]; apply IH; intros; apply H; now right.
Qed.

(* ------------------------------------------------------------------ registry operations, functionally *)

Lemma disconnect_spec : forall r c, fmap r = cbs r ->
  cbs (disconnect r c) = filter (fun e => negb (has_cid c e)) (cbs r) /\
  fmap (disconnect r c) = cbs (disconnect r c) /\
  cid_ctr (disconnect r c) = cid_ctr r /\ ign (disconnect r c) = ign r.
Proof.
  intros r c Hf; unfold disconnect. destruct (existsb (has_cid c) (cbs r)) eqn:E; cbn.
  - rewrite Hf; auto.
  - rewrite (existsb_false_filter _ _ E); auto.
Qed.

Lemma fold_disconnect_spec : forall cs r, fmap r = cbs r ->
  cbs (fold_left disconnect cs r) = filter (fun e => negb (memb (e_cid e) cs)) (cbs r) /\
  fmap (fold_left disconnect cs r) = cbs (fold_left disconnect cs r) /\
  cid_ctr (fold_left disconnect cs r) = cid_ctr r /\ ign (fold_left disconnect cs r) = ign r.
Proof.
  induction cs as [|c cs IH]; cbn; intros r Hf.
  - repeat split; auto. symmetry; apply filter_id; reflexivity.
  - destruct (disconnect_spec r c Hf) as [H1 [H2 [H3 H4]]].
    destruct (IH (disconnect r c) H2) as [K1 [K2 [K3 K4]]].
    repeat split; [|exact K2|congruence|congruence].
    rewrite K1, H1, filter_filter_and. apply filter_ext_in'. intros e _.
    unfold has_cid. rewrite negb_orb. reflexivity.
Qed.

Definition mk_entries (f : callable) (ss : list sig) (cs : list nat) : list entry :=
  map (fun p => {| e_sig := fst p; e_cid := snd p; e_fn := f |}) (combine ss cs).

Lemma connect_all_fresh : forall ss r f,
  shared (fst (connect_all r ss f)) = false ->
  let r' := fst (connect_all r ss f) in
  let new := seq (S (cid_ctr r)) (length ss) in
  snd (connect_all r ss f) = new /\
  cid_ctr r' = cid_ctr r + length ss /\
  cbs r' = cbs r ++ mk_entries f ss new /\
  fmap r' = fmap r ++ mk_entries f ss new /\
  ign r' = ign r /\ shared r = false.
Proof.
  induction ss as [|s ss IH]; intros r f H.
  - cbn in *. rewrite !app_nil_r, Nat.add_0_r. repeat split; auto.
  - cbn [connect_all] in *.
    destruct (connect r s f) as [r1 c] eqn:E1.
    destruct (connect_all r1 ss f) as [r2 cs] eqn:E2. cbn [fst snd] in *.
    assert (H2 : shared (fst (connect_all r1 ss f)) = false) by (rewrite E2; exact H).
    specialize (IH r1 f H2). rewrite E2 in IH; cbn [fst snd] in IH.
    destruct IH as [I1 [I2 [I3 [I4 [I5 I6]]]]].
    unfold connect in E1. destruct (find (same_key s f) (fmap r)) as [e|] eqn:Ef.
    + inversion E1; subst r1 c. cbn in I6. discriminate.
    + inversion E1; subst r1 c. cbn in *.
      repeat split.
      * now rewrite I1.
      * rewrite I2; lia.
      * rewrite I3, <- app_assoc. reflexivity.
      * rewrite I4, <- app_assoc. reflexivity.
      * exact I5.
      * exact I6.
Qed.

(* ------------------------------------------------------------------ the invariant *)

(* ghost view of one public token: the subscription it stands for and its private cids *)
Record gsub := { g_sub : sub; g_cids : list nat }.
Definition g_tok (g : gsub) : nat := s_tok (g_sub g).
Definition g_entries (g : gsub) : list entry :=
  mk_entries (s_fn (g_sub g)) (sigs_of (s_name (g_sub g))) (g_cids g).
Definition g_pair (g : gsub) : nat * list nat := (g_tok g, g_cids g).

Record Inv (d : disp) (L : list gsub) : Prop := {
  inv_cbs : cbs (reg d) = flat_map g_entries L;
  inv_fmap : fmap (reg d) = cbs (reg d);
  inv_tokmap : tokmap d = map g_pair L;
  inv_len : forall g, In g L -> length (g_cids g) = length (sigs_of (s_name (g_sub g)));
  inv_cid_bound : forall c, In c (flat_map g_cids L) -> c <= cid_ctr (reg d);
  inv_cid_nodup : NoDup (flat_map g_cids L);
  inv_tok_bound : forall g, In g L -> g_tok g < tok_ctr d;
  inv_tok_nodup : NoDup (map g_tok L);
  inv_shared : shared (reg d) = false
}.

Lemma Inv0 : Inv disp0 [].
Proof. constructor; cbn; auto; try constructor; intros; contradiction. Qed.

Lemma mk_entries_cid : forall f ss cs e, In e (mk_entries f ss cs) -> In (e_cid e) cs.
Proof.
  intros f ss cs e H. unfold mk_entries in H. apply in_map_iff in H as [[s c] [<- Hp]]. cbn.
  eapply in_combine_r; eauto.
Qed.

Lemma g_entries_cid : forall L e, In e (flat_map g_entries L) -> In (e_cid e) (flat_map g_cids L).
Proof.
  intros L e H. apply in_flat_map in H as [g [Hg He]]. apply in_flat_map. exists g; split; [exact Hg|].
  eapply mk_entries_cid; eauto.
Qed.

Definition new_gsub (d : disp) (f : callable) (n : subname) (tmp : bool) : gsub :=
  {| g_sub := {| s_tok := tok_ctr d; s_fn := f; s_name := n; s_temp := tmp |};
     g_cids := seq (S (cid_ctr (reg d))) (length (sigs_of n)) |}.

Lemma d_subscribe_inv : forall d L f n tmp,
  Inv d L -> n <> NBad -> shared (reg (fst (d_subscribe d f n))) = false ->
  Inv (fst (d_subscribe d f n)) (L ++ [new_gsub d f n tmp]) /\
  snd (d_subscribe d f n) = Some (tok_ctr d) /\
  ign (reg (fst (d_subscribe d f n))) = ign (reg d).
Proof.
  intros d L f n tmp HI Hn Hs.
  rewrite (d_subscribe_eq d f n Hn) in *. cbn [fst snd reg tok_ctr tokmap] in *.
  destruct (connect_all_fresh (sigs_of n) (reg d) f Hs) as [C1 [C2 [C3 [C4 [C5 C6]]]]].
  destruct HI as [I1 I2 I3 I4 I5 I6 I7 I8 I9].
  split; [|split; [reflexivity | exact C5]].
  constructor; cbn [fst snd reg tok_ctr tokmap].
  - rewrite C3, I1, flat_map_app. cbn. rewrite app_nil_r. reflexivity.
  - rewrite C4, C3, I2. reflexivity.
  - rewrite C1, I3, map_app. reflexivity.
  - intros g Hg. apply in_app_or in Hg as [Hg|[<-|[]]]; [now apply I4|]. cbn. apply seq_length.
  - intros c Hc. rewrite flat_map_app in Hc. apply in_app_or in Hc as [Hc|Hc].
    + apply I5 in Hc. lia.
    + cbn in Hc. rewrite app_nil_r in Hc. apply in_seq in Hc. lia.
  - rewrite flat_map_app. apply NoDup_app_iff. repeat split; [exact I6 | cbn; rewrite app_nil_r; apply seq_NoDup |].
    intros c Hc Hc'. cbn in Hc'. rewrite app_nil_r in Hc'. apply in_seq in Hc'. apply I5 in Hc. lia.
  - intros g Hg. apply in_app_or in Hg as [Hg|[<-|[]]]; [apply I7 in Hg; lia | cbn; lia].
  - rewrite map_app. apply NoDup_app_iff. repeat split; [exact I8 | cbn; constructor; [intros []|constructor] |].
    intros t Ht [<-|[]]. apply in_map_iff in Ht as [g [Hg Hi]]. apply I7 in Hi. cbn in Hg. lia.
  - exact Hs.
Qed.

Definition keep_tok (t : nat) (g : gsub) : bool := negb (g_tok g =? t).

Lemma find_tok_none : forall t L, find (tok_is t) (map g_pair L) = None -> forall g, In g L -> g_tok g <> t.
Proof.
  intros t L H g Hg E. pose proof (find_none _ _ H (g_pair g) (in_map g_pair L g Hg)) as K.
  unfold tok_is, g_pair in K; cbn in K. apply Nat.eqb_neq in K. contradiction.
Qed.

Lemma find_tok_some : forall t L p, find (tok_is t) (map g_pair L) = Some p ->
  exists L1 g0 L2, L = L1 ++ g0 :: L2 /\ g_tok g0 = t /\ p = g_pair g0 /\ (forall g, In g L1 -> g_tok g <> t).
Proof.
  intros t L p; induction L as [|g L IH]; cbn [find map]; [discriminate|].
  destruct (tok_is t (g_pair g)) eqn:E.
  - intros H; injection H as <-. exists [], g, L. repeat split; auto.
    unfold tok_is, g_pair in E; cbn in E. now apply Nat.eqb_eq in E.
  - intros H. destruct (IH H) as [L1 [g0 [L2 [-> [H1 [H2 H3]]]]]].
    exists (g :: L1), g0, L2. repeat split; auto.
    intros g' [<-|Hg']; [|now apply H3]. unfold tok_is, g_pair in E; cbn in E. now apply Nat.eqb_neq in E.
Qed.

Lemma keep_all : forall t L, (forall g, In g L -> g_tok g <> t) -> filter (keep_tok t) L = L.
Proof. intros t L H. apply filter_id. intros g Hg. unfold keep_tok. apply negb_true_iff, Nat.eqb_neq. now apply H. Qed.

Lemma d_unsubscribe_inv : forall d L t,
  Inv d L -> Inv (d_unsubscribe d t) (filter (keep_tok t) L) /\ ign (reg (d_unsubscribe d t)) = ign (reg d) /\
             tok_ctr (d_unsubscribe d t) = tok_ctr d.
Proof.
  intros d L t HI. pose proof HI as [I1 I2 I3 I4 I5 I6 I7 I8 I9].
  unfold d_unsubscribe. rewrite I3.
  destruct (find (tok_is t) (map g_pair L)) as [p|] eqn:Ef.
  - destruct (find_tok_some t L p Ef) as [L1 [g0 [L2 [EL [Ht [Ep HL1]]]]]].
    subst p. cbn [g_pair].
    (* tokens are distinct, so nothing after g0 has token t either *)
    assert (HL2 : forall g, In g L2 -> g_tok g <> t).
    { intros g Hg E. rewrite EL, map_app in I8. cbn in I8. apply NoDup_app_iff in I8 as [_ [I8 _]].
      apply NoDup_cons_iff in I8 as [Hn _]. apply Hn. rewrite Ht, <- E. now apply in_map. }
    assert (EF : filter (keep_tok t) L = L1 ++ L2).
    { rewrite EL, filter_app. cbn. unfold keep_tok at 2. rewrite Ht, Nat.eqb_refl. cbn.
      now rewrite (keep_all t L1 HL1), (keep_all t L2 HL2). }
    destruct (fold_disconnect_spec (g_cids g0) (reg d) I2) as [F1 [F2 [F3 F4]]].
    (* the cids of g0 occur nowhere else *)
    assert (HD : NoDup (flat_map g_cids L1 ++ g_cids g0 ++ flat_map g_cids L2)).
    { rewrite EL, flat_map_app in I6. exact I6. }
    apply NoDup_app_iff in HD as [D1 [D23 D1x]]. apply NoDup_app_iff in D23 as [D2 [D3 D2x]].
    assert (K1 : forall e, In e (flat_map g_entries L1) -> negb (memb (e_cid e) (g_cids g0)) = true).
    { intros e He. apply negb_true_iff. destruct (memb _ _) eqn:E; [|reflexivity].
      apply memb_In in E. apply g_entries_cid in He. exfalso. apply (D1x _ He). apply in_or_app; now left. }
    assert (K2 : forall e, In e (flat_map g_entries L2) -> negb (memb (e_cid e) (g_cids g0)) = true).
    { intros e He. apply negb_true_iff. destruct (memb _ _) eqn:E; [|reflexivity].
      apply memb_In in E. apply g_entries_cid in He. exfalso. now apply (D2x _ E). }
    assert (K0 : forall e, In e (g_entries g0) -> negb (memb (e_cid e) (g_cids g0)) = false).
    { intros e He. apply negb_false_iff, memb_In. eapply mk_entries_cid; exact He. }
    split; [|split; [exact F4 | reflexivity]].
    rewrite EF. constructor; cbn [reg tok_ctr tokmap].
    + rewrite F1, I1, EL, !flat_map_app, !filter_app. cbn [flat_map]. rewrite filter_app.
      rewrite (filter_id _ _ K1), (filter_id _ _ K2), (filter_nil _ _ K0). reflexivity.
    + exact F2.
    + rewrite <- EF. rewrite <- I3 at 1. rewrite I3. rewrite filter_map_comm. apply f_equal2; [|reflexivity]. reflexivity.
    + intros g Hg. apply I4. rewrite EL. apply in_app_or in Hg as [Hg|Hg]; apply in_or_app; [now left | right; now right].
    + intros c Hc. rewrite F3. apply I5. rewrite EL, !flat_map_app. cbn. rewrite flat_map_app in Hc.
      apply in_app_or in Hc as [Hc|Hc]; apply in_or_app; [now left | right; apply in_or_app; now right].
    + rewrite flat_map_app. apply NoDup_app_iff. repeat split; [exact D1 | exact D3 |].
      intros c Hc Hc'. apply (D1x c Hc). apply in_or_app; now right.
    + intros g Hg. apply I7. rewrite EL. apply in_app_or in Hg as [Hg|Hg]; apply in_or_app; [now left | right; now right].
    + rewrite <- EF. now apply NoDup_map_filter.
    + rewrite fold_disconnect_shared. exact I9.
  - rewrite (keep_all t L (find_tok_none t L Ef)). split; [exact HI | split; reflexivity].
Qed.

Lemma fold_unsubscribe_inv : forall ts d L,
  Inv d L ->
  Inv (fold_left d_unsubscribe ts d) (filter (fun g => negb (memb (g_tok g) ts)) L) /\
  ign (reg (fold_left d_unsubscribe ts d)) = ign (reg d) /\
  tok_ctr (fold_left d_unsubscribe ts d) = tok_ctr d.
Proof.
  induction ts as [|t ts IH]; cbn [fold_left]; intros d L HI.
  - rewrite filter_id by reflexivity. split; [exact HI | split; reflexivity].
  - destruct (d_unsubscribe_inv d L t HI) as [H1 [H2 H3]].
    destruct (IH _ _ H1) as [K1 [K2 K3]].
    split; [|split; congruence].
    rewrite filter_filter_and in K1.
    erewrite filter_ext_in'; [exact K1|].
    intros g _. unfold keep_tok, memb. cbn [existsb]. rewrite negb_orb. reflexivity.
Qed.

(* ------------------------------------------------------------------ process agrees with the live list *)

Lemma g_entries_filter : forall g s,
  length (g_cids g) = length (sigs_of (s_name (g_sub g))) ->
  map e_fn (filter (fun e => sig_eqb (e_sig e) s) (g_entries g)) =
  if covers (s_name (g_sub g)) s then [s_fn (g_sub g)] else [].
Proof.
  intros [[tok f n tmp] cs] s; unfold g_entries; cbn [g_sub g_cids s_name s_fn]. destruct n; cbn [sigs_of]; intros Hl.
  - cbn in Hl. do 12 (destruct cs as [|? cs]; [discriminate|]). destruct cs; [|discriminate].
    destruct s; reflexivity.
  - destruct cs as [|c [|? ?]]; try discriminate. unfold covers; cbn.
    rewrite (sig_eqb_sym s s0), orb_false_r. destruct (sig_eqb s0 s); reflexivity.
  - destruct cs; [reflexivity | discriminate].
Qed.

Lemma registered_live : forall d L s, Inv d L ->
  registered (reg d) s = map s_fn (filter (fun x => covers (s_name x) s) (map g_sub L)).
Proof.
  intros d L s HI. unfold registered. rewrite (inv_cbs _ _ HI).
  pose proof (inv_len _ _ HI) as Hl. clear HI.
  induction L as [|g L IH]; [reflexivity|].
  cbn [flat_map map filter]. rewrite filter_app, map_app.
  rewrite g_entries_filter by (apply Hl; now left).
  rewrite IH by (intros; apply Hl; now right).
  destruct (covers (s_name (g_sub g)) s); reflexivity.
Qed.

Lemma emit_all_ext : forall p1 p2 ds, (forall d, p1 d = p2 d) -> emit_all p1 ds = emit_all p2 ds.
Proof.
  intros p1 p2 ds H; induction ds as [|d ds IH]; cbn; [reflexivity|]. now rewrite H, IH.
Qed.

(* ------------------------------------------------------------------ the refinement relation *)

(* inside a call: every registered token is a live subscription of the specification *)
Record RelIn (s : re) (L : list gsub) (sp : spec_st) : Prop := {
  ri_inv : Inv (dsp s) L;
  ri_live : live sp = map g_sub L;
  ri_tok : next_tok sp = tok_ctr (dsp s);
  ri_ign : sp_ign sp = ign (reg (dsp s));
  ri_temp : forall g, In g L -> s_temp (g_sub g) = memb (g_tok g) (temp s);
  ri_temp_in : forall t, In t (temp s) -> exists g, In g L /\ g_tok g = t
}.

(* between calls: the temporary tokens of the last call are still registered (they are only removed by
   the next _clear_call_cache) but are no longer live in the specification *)
Record RelBt (s : re) (L : list gsub) (sp : spec_st) : Prop := {
  rb_inv : Inv (dsp s) L;
  rb_live : live sp = filter (fun x => negb (s_temp x)) (map g_sub L);
  rb_tok : next_tok sp = tok_ctr (dsp s);
  rb_ign : sp_ign sp = ign (reg (dsp s));
  rb_temp : forall g, In g L -> s_temp (g_sub g) = memb (g_tok g) (temp s);
  rb_temp_bound : forall t, In t (temp s) -> t < tok_ctr (dsp s)
}.

Lemma process_eq : forall s L sp d, RelIn s L sp -> process (reg (dsp s)) d = sp_process sp d.
Proof.
  intros s L sp d H. unfold process, sp_process.
  rewrite (registered_live _ _ _ (ri_inv _ _ _ H)), (ri_live _ _ _ H), (ri_ign _ _ _ H). reflexivity.
Qed.

Lemma memb_app : forall t l1 l2, memb t (l1 ++ l2) = memb t l1 || memb t l2.
Proof. intros; unfold memb; apply existsb_app. Qed.

Lemma memb_filter_neq : forall x t l, x <> t -> memb x (filter (fun y => negb (y =? t)) l) = memb x l.
Proof.
  intros x t l Hn; unfold memb; induction l as [|a l IH]; [reflexivity|].
  cbn [filter existsb]. destruct (a =? t) eqn:E; cbn [negb existsb].
  - apply Nat.eqb_eq in E; subst a. rewrite IH. apply Nat.eqb_neq in Hn. now rewrite Hn.
  - now rewrite IH.
Qed.

(* a (valid) temporary subscription made inside a call *)
Lemma sub_in_call : forall s L sp f n,
  RelIn s L sp -> n <> NBad -> shared (reg (fst (d_subscribe (dsp s) f n))) = false ->
  exists d', d_subscribe (dsp s) f n = (d', Some (tok_ctr (dsp s))) /\
             sp_subscribe sp f n true = (fst (sp_subscribe sp f n true), Some (tok_ctr (dsp s))) /\
             RelIn {| dsp := d'; temp := temp s ++ [tok_ctr (dsp s)] |}
                   (L ++ [new_gsub (dsp s) f n true]) (fst (sp_subscribe sp f n true)).
Proof.
  intros s L sp f n H Hn Hs. destruct H as [R1 R2 R3 R4 R5 R6].
  destruct (d_subscribe_inv (dsp s) L f n true R1 Hn Hs) as [HI [Ht Hig]].
  destruct (d_subscribe (dsp s) f n) as [d' o] eqn:E. cbn [fst snd] in *. subst o.
  exists d'. split; [reflexivity|].
  assert (Esp : sp_subscribe sp f n true =
                ({| live := live sp ++ [{| s_tok := next_tok sp; s_fn := f; s_name := n; s_temp := true |}];
                    next_tok := S (next_tok sp); sp_ign := sp_ign sp |}, Some (next_tok sp)))
    by (destruct n; try congruence; reflexivity).
  rewrite Esp; cbn [fst]. rewrite R3. split; [reflexivity|].
  assert (Etok : tok_ctr d' = S (tok_ctr (dsp s))).
  { rewrite (d_subscribe_eq _ f n Hn) in E. inversion E; reflexivity. }
  constructor; cbn [dsp temp live next_tok sp_ign].
  - exact HI.
  - rewrite R2, map_app. reflexivity.
  - now rewrite Etok.
  - now rewrite Hig.
  - intros g Hg. rewrite memb_app. apply in_app_or in Hg as [Hg|[<-|[]]].
    + rewrite (R5 g Hg). pose proof (inv_tok_bound _ _ R1 g Hg) as Hb.
      unfold memb at 2; cbn. replace (g_tok g =? tok_ctr (dsp s)) with false by (symmetry; apply Nat.eqb_neq; lia).
      now rewrite !orb_false_r.
    + unfold g_tok, new_gsub, memb. cbn. rewrite Nat.eqb_refl. cbn. now rewrite orb_true_r.
  - intros t Ht. apply in_app_or in Ht as [Ht|[<-|[]]].
    + destruct (R6 t Ht) as [g [Hg Hgt]]. exists g; split; [apply in_or_app; now left | exact Hgt].
    + exists (new_gsub (dsp s) f n true); split; [apply in_or_app; right; now left | reflexivity].
Qed.

Lemma sp_subscribe_bad : forall sp f tmp, sp_subscribe sp f NBad tmp = (sp, None).
Proof. reflexivity. Qed.

(* unsubscribing a token inside a call *)
Lemma unsub_in_call : forall s L sp t,
  RelIn s L sp ->
  existsb (Nat.eqb t) (temp s) = existsb (fun x => (s_tok x =? t) && s_temp x) (live sp) /\
  RelIn {| dsp := d_unsubscribe (dsp s) t; temp := filter (fun x => negb (x =? t)) (temp s) |}
        (filter (keep_tok t) L) (sp_unsubscribe sp t) /\
  (existsb (Nat.eqb t) (temp s) = false ->
   RelIn {| dsp := d_unsubscribe (dsp s) t; temp := temp s |} (filter (keep_tok t) L) (sp_unsubscribe sp t)).
Proof.
  intros s L sp t H. destruct H as [R1 R2 R3 R4 R5 R6].
  destruct (d_unsubscribe_inv (dsp s) L t R1) as [HI [Hig Htc]].
  assert (Hlive : live (sp_unsubscribe sp t) = map g_sub (filter (keep_tok t) L)).
  { cbn. rewrite R2, filter_map_comm. reflexivity. }
  split; [|split].
  - apply eq_true_iff_eq. split; intros Hx.
    + fold (memb t (temp s)) in Hx. apply memb_In in Hx. destruct (R6 t Hx) as [g [Hg Hgt]].
      apply existsb_exists. exists (g_sub g). split; [rewrite R2; now apply in_map|].
      fold (g_tok g). rewrite Hgt, Nat.eqb_refl. cbn. rewrite (R5 g Hg), Hgt. now apply memb_In.
    + apply existsb_exists in Hx as [x [Hx Hc]]. rewrite R2 in Hx. apply in_map_iff in Hx as [g [<- Hg]].
      apply andb_true_iff in Hc as [Hc1 Hc2]. apply Nat.eqb_eq in Hc1. rewrite (R5 g Hg) in Hc2.
      fold (g_tok g) in Hc1. rewrite Hc1 in Hc2. exact Hc2.
  - constructor; cbn [dsp temp]; [exact HI | exact Hlive | cbn; congruence | cbn; congruence | | ].
    + intros g Hg. apply filter_In in Hg as [Hg Hk]. unfold keep_tok in Hk.
      apply negb_true_iff, Nat.eqb_neq in Hk. rewrite memb_filter_neq by exact Hk. now apply R5.
    + intros t' Ht'. apply filter_In in Ht' as [Ht' Hn]. apply negb_true_iff, Nat.eqb_neq in Hn.
      destruct (R6 t' Ht') as [g [Hg Hgt]]. exists g; split; [|exact Hgt].
      apply filter_In; split; [exact Hg|]. unfold keep_tok. apply negb_true_iff, Nat.eqb_neq. congruence.
  - intros Hno. constructor; cbn [dsp temp]; [exact HI | exact Hlive | cbn; congruence | cbn; congruence | | ].
    + intros g Hg. apply filter_In in Hg as [Hg _]. now apply R5.
    + intros t' Ht'. destruct (R6 t' Ht') as [g [Hg Hgt]]. exists g; split; [|exact Hgt].
      apply filter_In; split; [exact Hg|]. unfold keep_tok. apply negb_true_iff, Nat.eqb_neq.
      intros E. rewrite Hgt in E. rewrite E in Ht'.
      apply memb_In in Ht'. unfold memb in Ht'. congruence.
Qed.

(* ------------------------------------------------------------------ simulation: inside a call *)

Lemma run_plan_sim : forall plan s L sp c ems toks s' c' ems' toks' x,
  RelIn s L sp ->
  run_plan s c plan ems toks = (s', c', ems', toks', x) -> sh s' = false ->
  exists sp' L', sp_run_plan sp c plan ems toks = (sp', c', ems', toks', x) /\ RelIn s' L' sp'.
Proof.
  induction plan as [|m plan IH]; intros s L sp c ems toks s' c' ems' toks' x HR Hrun Hsh.
  - cbn in *. inversion Hrun; subst. exists sp, L; split; [reflexivity | exact HR].
  - assert (Hdata : forall (Hm : match m with PSub _ _ | PUnsub _ => False | _ => True end),
        match plan_action c m with
        | ASkip => run_plan s c plan ems toks
        | AIllegal => (s, c, ems, toks, Some ExIllegal)
        | AEmit during ds after =>
            match emit_all (process (reg (dsp s))) ds with
            | (es, None) => run_plan s after plan (ems ++ es) toks
            | (es, Some e) => (s, during, ems ++ es, toks, Some e)
            end
        end = (s', c', ems', toks', x) ->
        exists sp' L',
          match plan_action c m with
          | ASkip => sp_run_plan sp c plan ems toks
          | AIllegal => (sp, c, ems, toks, Some ExIllegal)
          | AEmit during ds after =>
              match emit_all (sp_process sp) ds with
              | (es, None) => sp_run_plan sp after plan (ems ++ es) toks
              | (es, Some e) => (sp, during, ems ++ es, toks, Some e)
              end
          end = (sp', c', ems', toks', x) /\ RelIn s' L' sp').
    { intros _ Hr. destruct (plan_action c m) as [during ds after| |].
      - rewrite <- (emit_all_ext _ _ ds (fun d => process_eq s L sp d HR)).
        destruct (emit_all (process (reg (dsp s))) ds) as [es [e|]].
        + inversion Hr; subst. exists sp, L; split; [reflexivity | exact HR].
        + eapply IH; eauto.
      - inversion Hr; subst. exists sp, L; split; [reflexivity | exact HR].
      - eapply IH; eauto. }
    destruct m; cbn [run_plan sp_run_plan] in *; try (apply Hdata; [exact I | exact Hrun]).
    + (* PSub *)
      destruct (subname_dec_bad n) as [->|Hn].
      * rewrite d_subscribe_bad in Hrun. rewrite sp_subscribe_bad. inversion Hrun; subst.
        exists sp, L; split; [reflexivity|]. destruct s; exact HR.
      * assert (Hs1 : shared (reg (fst (d_subscribe (dsp s) f n))) = false).
        { destruct (shared (reg (fst (d_subscribe (dsp s) f n)))) eqn:E; [|reflexivity]. exfalso.
          rewrite (d_subscribe_eq _ f n Hn) in Hrun, E. cbn [fst] in E.
          pose proof (run_plan_sticky plan
             {| dsp := {| reg := fst (connect_all (reg (dsp s)) (sigs_of n) f); tok_ctr := S (tok_ctr (dsp s));
                          tokmap := tokmap (dsp s) ++ [(tok_ctr (dsp s), snd (connect_all (reg (dsp s)) (sigs_of n) f))] |};
                temp := temp s ++ [tok_ctr (dsp s)] |} c ems (toks ++ [tok_ctr (dsp s)]) E) as K.
          rewrite Hrun in K. cbn in K. congruence. }
        destruct (sub_in_call s L sp f n HR Hn Hs1) as [d' [E1 [E2 HR']]].
        rewrite E1 in Hrun. rewrite E2. eapply IH; eauto.
    + (* PUnsub *)
      destruct (unsub_in_call s L sp t HR) as [Ec [HR1 HR2]].
      rewrite <- Ec. destruct (existsb (Nat.eqb t) (temp s)) eqn:Et.
      * eapply IH; eauto.
      * inversion Hrun; subst. exists (sp_unsubscribe sp t), (filter (keep_tok t) L). split; [reflexivity|].
        now apply HR2.
Qed.

Lemma subscribe_temps_sim : forall l s L sp,
  RelIn s L sp -> sh (subscribe_temps s l) = false ->
  exists L', RelIn (subscribe_temps s l) L' (sp_subscribe_temps sp l).
Proof.
  induction l as [|[n f] l IH]; intros s L sp HR Hsh; cbn [subscribe_temps sp_subscribe_temps] in *.
  - exists L; exact HR.
  - destruct (subname_dec_bad n) as [->|Hn].
    + rewrite d_subscribe_bad in *. rewrite sp_subscribe_bad. cbn [fst]. destruct s; cbn in *. eapply IH; eauto.
    + assert (Hs1 : shared (reg (fst (d_subscribe (dsp s) f n))) = false).
      { destruct (shared (reg (fst (d_subscribe (dsp s) f n)))) eqn:E; [|reflexivity]. exfalso.
        rewrite (d_subscribe_eq _ f n Hn) in Hsh, E. cbn [fst] in E.
        match type of Hsh with sh (subscribe_temps ?s0 l) = _ =>
          rewrite (subscribe_temps_sticky l s0 E) in Hsh end. discriminate. }
      destruct (sub_in_call s L sp f n HR Hn Hs1) as [d' [E1 [E2 HR']]].
      rewrite E1 in *. eapply IH; eauto.
Qed.

(* ------------------------------------------------------------------ simulation: whole operations *)

Lemma clear_call_cache_rel : forall s L sp,
  RelBt s L sp -> exists L', RelIn (clear_call_cache s) L' sp.
Proof.
  intros s L sp [B1 B2 B3 B4 B5 B6].
  destruct (fold_unsubscribe_inv (temp s) (dsp s) L B1) as [HI [Hig Htc]].
  exists (filter (fun g => negb (memb (g_tok g) (temp s))) L).
  constructor; unfold clear_call_cache; cbn [dsp temp].
  - exact HI.
  - rewrite B2, filter_map_comm. f_equal. apply filter_ext_in'. intros g Hg. now rewrite (B5 g Hg).
  - congruence.
  - congruence.
  - intros g Hg. apply filter_In in Hg as [Hg Hk]. rewrite (B5 g Hg). apply negb_true_iff in Hk. now rewrite Hk.
  - intros t [].
Qed.

Lemma end_call_rel : forall s L sp, RelIn s L sp -> RelBt s L (sp_end_call sp).
Proof.
  intros s L sp [R1 R2 R3 R4 R5 R6]. constructor; cbn; auto.
  - now rewrite R2.
  - intros t Ht. destruct (R6 t Ht) as [g [Hg <-]]. now apply (inv_tok_bound _ _ R1).
Qed.

Lemma run_call_sim : forall s L sp subs plan,
  RelBt s L sp -> sh (fst (run_call s subs plan)) = false ->
  snd (run_call s subs plan) = snd (sp_run_call sp subs plan) /\
  exists L', RelBt (fst (run_call s subs plan)) L' (fst (sp_run_call sp subs plan)).
Proof.
  intros s L sp subs plan HB Hsh. unfold run_call, sp_run_call in *.
  destruct (clear_call_cache_rel s L sp HB) as [L0 HR0].
  destruct (normalize_subs subs) as [l|].
  - destruct (run_plan (subscribe_temps (clear_call_cache s) l) cstate0 plan [] []) as [[[[s3 c] ems] toks] x] eqn:Erun.
    assert (Hs3 : sh s3 = false) by (destruct (emit_all (process (reg (dsp s3))) _) as [es y]; exact Hsh).
    assert (Hs2 : sh (subscribe_temps (clear_call_cache s) l) = false).
    { destruct (sh (subscribe_temps (clear_call_cache s) l)) eqn:E; [|reflexivity].
      pose proof (run_plan_sticky plan _ cstate0 [] [] E) as K. rewrite Erun in K. cbn in K. congruence. }
    destruct (subscribe_temps_sim l _ L0 sp HR0 Hs2) as [L2 HR2].
    destruct (run_plan_sim plan _ L2 _ cstate0 [] [] s3 c ems toks x HR2 Erun Hs3) as [sp3 [L3 [Esp HR3]]].
    rewrite Esp.
    rewrite (emit_all_ext _ _ (cleanup_docs c match x with Some _ => true | None => false end)
               (fun d => process_eq s3 L3 sp3 d HR3)).
    destruct (emit_all (sp_process sp3) _) as [es y]. cbn [fst snd].
    split; [reflexivity|]. exists L3. now apply end_call_rel.
  - cbn [fst snd]. split; [reflexivity|].
    (* nothing was subscribed: the relation between calls holds again with the cleared state *)
    exists L0. pose proof (end_call_rel _ _ _ HR0) as HB0.
    destruct HR0 as [R1 R2 R3 R4 R5 R6]. destruct HB as [B1 B2 B3 B4 B5 B6].
    constructor; try (destruct HB0; assumption).
    rewrite B2.
    (* the cleared state has no temporary subscription left: the live list is unchanged *)
    assert (Hnt : forall x, In x (map g_sub L0) -> negb (s_temp x) = true).
    { intros x Hx. apply in_map_iff in Hx as [g [<- Hg]]. rewrite (R5 g Hg). reflexivity. }
    rewrite <- R2 in Hnt. rewrite B2 in Hnt.
    rewrite <- R2. rewrite B2. symmetry. apply filter_id. exact Hnt.
Qed.

Lemma set_ignore_inv : forall d L b, Inv d L -> Inv (d_set_ignore d b) L.
Proof. intros d L b [I1 I2 I3 I4 I5 I6 I7 I8 I9]. constructor; cbn; auto. Qed.

Lemma unsubscribe_all_inv : forall d L, Inv d L ->
  Inv (d_unsubscribe_all d) [] /\ ign (reg (d_unsubscribe_all d)) = ign (reg d) /\
  tok_ctr (d_unsubscribe_all d) = tok_ctr d.
Proof.
  intros d L HI. unfold d_unsubscribe_all.
  destruct (fold_unsubscribe_inv (map fst (tokmap d)) d L HI) as [H1 [H2 H3]].
  rewrite filter_nil in H1; [auto|].
  intros g Hg. apply negb_false_iff, memb_In. rewrite (inv_tokmap _ _ HI), map_map. cbn.
  apply in_map_iff. exists g; auto.
Qed.

Lemma step_sim : forall s L sp o,
  RelBt s L sp -> sh (fst (step s o)) = false ->
  snd (step s o) = snd (sp_step sp o) /\
  exists L', RelBt (fst (step s o)) L' (fst (sp_step sp o)).
Proof.
  intros s L sp o HB Hsh. destruct o; cbn [step sp_step] in *.
  - (* Subscribe *)
    destruct (subname_dec_bad n) as [->|Hn].
    + rewrite d_subscribe_bad, sp_subscribe_bad. cbn. split; [reflexivity|]. exists L. destruct s; exact HB.
    + destruct HB as [B1 B2 B3 B4 B5 B6].
      assert (Hs1 : shared (reg (fst (d_subscribe (dsp s) f n))) = false).
      { destruct (d_subscribe (dsp s) f n) as [d [t|]]; exact Hsh. }
      destruct (d_subscribe_inv (dsp s) L f n false B1 Hn Hs1) as [HI [Ht Hig]].
      assert (Etok : tok_ctr (fst (d_subscribe (dsp s) f n)) = S (tok_ctr (dsp s))).
      { rewrite (d_subscribe_eq _ f n Hn). reflexivity. }
      destruct (d_subscribe (dsp s) f n) as [d' o] eqn:E. cbn [fst snd] in *. subst o.
      assert (Esp : sp_subscribe sp f n false =
                ({| live := live sp ++ [{| s_tok := next_tok sp; s_fn := f; s_name := n; s_temp := false |}];
                    next_tok := S (next_tok sp); sp_ign := sp_ign sp |}, Some (next_tok sp)))
        by (destruct n; try congruence; reflexivity).
      rewrite Esp. cbn [fst snd]. split; [now rewrite B3|].
      exists (L ++ [new_gsub (dsp s) f n false]).
      constructor; cbn [dsp temp live next_tok sp_ign].
      * exact HI.
      * rewrite B2, map_app, filter_app, B3. reflexivity.
      * congruence.
      * congruence.
      * intros g Hg. apply in_app_or in Hg as [Hg|[<-|[]]]; [now apply B5|].
        cbn. symmetry. destruct (memb (tok_ctr (dsp s)) (temp s)) eqn:Em; [|reflexivity].
        apply memb_In, B6 in Em. unfold g_tok, new_gsub in Em; cbn in Em. lia.
      * intros t Ht. apply B6 in Ht. lia.
  - (* Unsubscribe *)
    destruct HB as [B1 B2 B3 B4 B5 B6].
    destruct (d_unsubscribe_inv (dsp s) L t B1) as [HI [Hig Htc]].
    cbn [fst snd]. split; [reflexivity|]. exists (filter (keep_tok t) L).
    constructor; cbn [dsp temp live next_tok sp_ign sp_unsubscribe].
    + exact HI.
    + rewrite B2, filter_filter_comm. f_equal. rewrite filter_map_comm. reflexivity.
    + congruence.
    + congruence.
    + intros g Hg. apply filter_In in Hg as [Hg _]. now apply B5.
    + intros t' Ht'. rewrite Htc. now apply B6.
  - (* SetIgnore *)
    destruct HB as [B1 B2 B3 B4 B5 B6]. cbn [fst snd]. split; [reflexivity|]. exists L.
    constructor; cbn [dsp temp live next_tok sp_ign]; auto. now apply set_ignore_inv.
  - (* RunCall *)
    now apply (run_call_sim s L sp subs plan).
  - (* UnsubscribeAll *)
    destruct HB as [B1 B2 B3 B4 B5 B6].
    destruct (unsubscribe_all_inv (dsp s) L B1) as [HI [Hig Htc]].
    cbn [fst snd]. split; [reflexivity|]. exists [].
    constructor; cbn [dsp temp live next_tok sp_ign]; auto; try congruence.
    + intros g [].
    + intros t Ht. rewrite Htc. now apply B6.
  - (* Reset *)
    destruct HB as [B1 B2 B3 B4 B5 B6].
    destruct (fold_unsubscribe_inv (temp s) (dsp s) L B1) as [HI0 [Hig0 Htc0]].
    destruct (unsubscribe_all_inv _ _ HI0) as [HI [Hig Htc]].
    cbn [fst snd]. split; [reflexivity|]. exists [].
    constructor; unfold clear_call_cache; cbn [dsp temp live next_tok sp_ign]; auto; try congruence.
    + intros g [].
    + intros t [].
Qed.

Lemma run_from_sim : forall h s L sp,
  RelBt s L sp -> sh (fst (run_from s h)) = false ->
  snd (run_from s h) = snd (sp_run_from sp h).
Proof.
  induction h as [|o h IH]; intros s L sp HB Hsh; [reflexivity|].
  cbn [run_from sp_run_from] in *.
  assert (Hs1 : sh (fst (step s o)) = false).
  { destruct (sh (fst (step s o))) eqn:E; [|reflexivity].
    pose proof (run_from_sticky h _ E) as K.
    destruct (step s o) as [s1 ob]. cbn [fst] in K. destruct (run_from s1 h) as [s2 obs']. cbn in *. congruence. }
  destruct (step_sim s L sp o HB Hs1) as [Hob [L' HB']].
  destruct (step s o) as [s1 ob]; destruct (sp_step sp o) as [sp1 ob']. cbn [fst snd] in *. subst ob'.
  specialize (IH s1 L' sp1 HB').
  destruct (run_from s1 h) as [s2 obs1]; destruct (sp_run_from sp1 h) as [sp2 obs2]. cbn [fst snd] in *.
  f_equal. now apply IH.
Qed.

Lemma RelBt0 : RelBt re0 [] spec0.
Proof. constructor; cbn; auto; [apply Inv0 | intros g [] | intros t []]. Qed.

(* C18: outside the sharing class the model delivers exactly like the live-subscription specification *)
Theorem live_ok : forall h, finding_C18_a h = false -> run_hist h = spec_hist h.
Proof. intros h H. unfold run_hist, spec_hist. eapply run_from_sim; [apply RelBt0 | exact H]. Qed.

(* ------------------------------------------------------------------ the specification says what C18 says *)

Definition unsub_free (t : nat) (plan : list pmsg) : Prop := forall u, In (PUnsub u) plan -> u <> t.

Lemma sp_subscribe_live : forall s f n tmp,
  (forall x, In x (live (fst (sp_subscribe s f n tmp))) -> In x (live s) \/ s_temp x = tmp) /\
  (forall x, In x (live s) -> In x (live (fst (sp_subscribe s f n tmp)))).
Proof.
  intros s f n tmp. destruct n; cbn; split; intros x Hx; auto.
  - apply in_app_or in Hx as [Hx|[<-|[]]]; auto.
  - apply in_or_app; now left.
  - apply in_app_or in Hx as [Hx|[<-|[]]]; auto.
  - apply in_or_app; now left.
Qed.

Lemma sp_subscribe_temps_live : forall l s,
  (forall x, In x (live (sp_subscribe_temps s l)) -> In x (live s) \/ s_temp x = true) /\
  (forall x, In x (live s) -> In x (live (sp_subscribe_temps s l))).
Proof.
  induction l as [|[n f] l IH]; intros s; cbn [sp_subscribe_temps]; [split; auto|].
  destruct (IH (fst (sp_subscribe s f n true))) as [H1 H2].
  destruct (sp_subscribe_live s f n true) as [K1 K2]. split; intros x Hx.
  - apply H1 in Hx as [Hx|Hx]; [apply K1 in Hx; tauto | now right].
  - apply H2, K2, Hx.
Qed.

Lemma sp_run_plan_live : forall plan s c ems toks,
  let s' := fst (fst (fst (fst (sp_run_plan s c plan ems toks)))) in
  (forall x, In x (live s') -> In x (live s) \/ s_temp x = true) /\
  (forall x, In x (live s) -> unsub_free (s_tok x) plan -> In x (live s')).
Proof.
  induction plan as [|m plan IH]; intros s c ems toks; [cbn; split; auto|].
  assert (Hdata : forall a,
    let s' := fst (fst (fst (fst (match a with
        | ASkip => sp_run_plan s c plan ems toks
        | AIllegal => (s, c, ems, toks, Some ExIllegal)
        | AEmit during ds after =>
            match emit_all (sp_process s) ds with
            | (es, None) => sp_run_plan s after plan (ems ++ es) toks
            | (es, Some e) => (s, during, ems ++ es, toks, Some e)
            end
        end)))) in
    (forall x, In x (live s') -> In x (live s) \/ s_temp x = true) /\
    (forall x, In x (live s) -> unsub_free (s_tok x) (m :: plan) -> In x (live s'))).
  { intros a. assert (Hfree : forall t, unsub_free t (m :: plan) -> unsub_free t plan)
      by (intros t H u Hu; apply H; now right).
    destruct a as [during ds after| |].
    - destruct (emit_all (sp_process s) ds) as [es [e|]]; cbn.
      + split; auto.
      + destruct (IH s after (ems ++ es) toks) as [H1 H2]. split; [exact H1 | intros x Hx Hf; apply H2; auto].
    - cbn; split; auto.
    - destruct (IH s c ems toks) as [H1 H2]. split; [exact H1 | intros x Hx Hf; apply H2; auto]. }
  destruct m; cbn [sp_run_plan]; try apply Hdata.
  - (* PSub *)
    destruct (sp_subscribe_live s f n true) as [K1 K2].
    destruct (sp_subscribe s f n true) as [s1 [t|]] eqn:E; cbn [fst] in *.
    + destruct (IH s1 c ems (toks ++ [t])) as [H1 H2]. split; intros x Hx.
      * apply H1 in Hx as [Hx|Hx]; [apply K1 in Hx; tauto | now right].
      * intros Hf. apply H2; [now apply K2 | intros u Hu; apply Hf; now right].
    + cbn. split; [exact K1 | intros x Hx _; now apply K2].
  - (* PUnsub *)
    assert (K1 : forall x, In x (live (sp_unsubscribe s t)) -> In x (live s))
      by (intros x Hx; cbn in Hx; apply filter_In in Hx; tauto).
    assert (K2 : forall x, In x (live s) -> s_tok x <> t -> In x (live (sp_unsubscribe s t))).
    { intros x Hx Hn. cbn. apply filter_In; split; [exact Hx|]. now apply negb_true_iff, Nat.eqb_neq. }
    destruct (existsb _ (live s)).
    + destruct (IH (sp_unsubscribe s t) c ems toks) as [H1 H2]. split; intros x Hx.
      * apply H1 in Hx as [Hx|Hx]; [left; now apply K1 | now right].
      * intros Hf. apply H2; [apply K2; [exact Hx | intros E; apply (Hf t); [now left | now symmetry]]
                             | intros u Hu; apply Hf; now right].
    + cbn. split; [intros x Hx; left; now apply K1|].
      intros x Hx Hf. apply K2; [exact Hx | intros E; apply (Hf t); [now left | now symmetry]].
Qed.

(* temporary subscriptions never outlive their call; nothing made inside the call does;
   a permanent subscription survives the call unless the plan unsubscribes its own token *)
Theorem spec_call_keeps_and_drops : forall s subs plan,
  (forall x, In x (live s) -> s_temp x = false) ->          (* between calls *)
  let s' := fst (sp_run_call s subs plan) in
  (forall x, In x (live s') -> s_temp x = false /\ In x (live s)) /\
  (forall x, In x (live s) -> unsub_free (s_tok x) plan -> In x (live s')).
Proof.
  intros s subs plan Hbt. unfold sp_run_call. destruct (normalize_subs subs) as [l|].
  - destruct (sp_subscribe_temps_live l s) as [A1 A2].
    pose proof (sp_run_plan_live plan (sp_subscribe_temps s l) cstate0 [] []) as [B1 B2].
    destruct (sp_run_plan (sp_subscribe_temps s l) cstate0 plan [] []) as [[[[s3 c] ems] toks] x]. cbn [fst] in *.
    destruct (emit_all (sp_process s3) _) as [es y]. cbn [fst sp_end_call live].
    split; intros x0 Hx.
    + apply filter_In in Hx as [Hx Ht]. apply negb_true_iff in Ht. split; [exact Ht|].
      apply B1 in Hx as [Hx|Hx]; [|congruence]. apply A1 in Hx as [Hx|Hx]; [exact Hx | congruence].
    + intros Hf. apply filter_In. split; [apply B2; [now apply A2 | exact Hf] | now rewrite (Hbt x0 Hx)].
  - cbn. split; auto.
Qed.
