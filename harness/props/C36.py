"""C36 - stream datums concatenate and consolidators keep consistent shapes.

Two kinds of cases in one stream:
  {"kind":"concat","docs":[[uid,descr,res,istart,istop,sstart,sstop],...]}
      -> bluesky.callbacks.tiled_writer.concatenate_stream_datums(*docs)
  {"kind":"cons","cls":"csv|hdf5|tiff|jpeg|npy|base|unknown","shape":[int|null..],"mult":int|null,
   "chunk":[int..]|null,"join":"stack"|"concat"|null,"jchunks":bool|null,"template":bool,
   "docs":[[istart,istop,sstart,sstop],...]}
      -> bluesky.consolidators.consolidator_factory(...) then consume_stream_datum per doc
"""
import itertools

ID = "C36"
PROP_FILE = "Props/C36.v"
THEOREMS = [
    "C36_concat_accepts_iff", "C36_concat_accepts_unconditional", "C36_isort_is_stable_sort",
    "C36_concat_result", "C36_concat_seq_minmax", "C36_concat_permutation_invariant", "C36_list_summands",
    "C36_consume_never_fails", "C36_chunks_exact", "C36_chunks_valid", "C36_a_refuted", "C36_b_refuted",
    "C36_seqnums_to_indices", "C36_last_cover_spec", "C36_seqnums_rows",
]
COQ_IMPORTS = "From BV Require Import Pure.Chunks."
PARALLEL = False     # importing bluesky+tiled in 16 workers costs more than the 4 us/case it saves
MODELLED = ("concatenate_stream_datums, ConsolidatorBase.__init__/shape/chunks(list_summands)/consume_stream_datum and "
            "the CSV/HDF5/TIFF/JPEG/NPY subclasses + consolidator_factory are hand-modelled in Pure/Chunks.v "
            "(Python sorted() as a stable insertion sort, dict as a key-sorted association list, // and % as "
            "Z.div/Z.modulo, exceptions as a 5-value enum). Trusted/not modelled: numpy dtype handling, file-name "
            "templates (only the number of assets is modelled; names are C37/C45), join_method values other than "
            "'stack'/'concat', non-integer parameters.")
RULE = ("corpus; exhaustive: all datum lists of <=3 intervals over coordinates 0..3 (quick: len-3 lists over the 6 non-empty "
        "intervals + 2 degenerate ones) + descriptor/resource patterns on all permutations of chains and near-chains; "
        "class kinds x join_method override x join_chunks override x chunk_shape lengths 0..3 x multiplier {none,(1),3} x "
        "5-6 descriptor shapes with 2 consumed datums; then seeded random (chains of 2..8 datums shuffled and mutated: "
        "gap, overlap, empty/negative interval, foreign descriptor/resource, duplicate, swapped seq ranges, equal starts; "
        "random consolidator parameters with 0..4 consumed datums whose seq ranges may be shorter/longer/overlapping); "
        "malformed stream: None in shape, chunk dims <= 0, negative dims, negative multiplier, negative intervals, "
        "missing template, unknown mimetype, empty docs. Non-trivial = accepted concatenation of >=2 datums given out of "
        "order / chunks Ok with >=2 dims after >=1 consumed row.")

ERRS = ("ValueError", "IndexError", "AssertionError", "NotImplementedError", "KeyError")
MIMES = {
    "unknown": "application/x-verif-unknown",
    "base": "application/octet-stream",
    "csv": "text/csv;header=absent",
    "hdf5": "application/x-hdf5",
    "tiff": "multipart/related;type=image/tiff",
    "jpeg": "multipart/related;type=image/jpeg",
    "npy": "multipart/related;type=application/x-npy",
}
KINDS = {"unknown": "KUnknown", "base": "KBase", "csv": "KCsv", "hdf5": "KHdf5", "tiff": "KTiff",
         "jpeg": "KJpeg", "npy": "KNpy"}


# ----------------------------------------------------------------------------- case generation

def _cat(docs):
    return {"kind": "concat", "docs": [list(d) for d in docs]}


def _mk(i, a, b, descr=0, res=0, ss=None, se=None):
    return [i, descr, res, a, b, a + 1 if ss is None else ss, b + 1 if se is None else se]


def _cons(cls, shape, mult=None, chunk=None, join=None, jchunks=None, template=True, docs=()):
    return {"kind": "cons", "cls": cls, "shape": list(shape), "mult": mult,
            "chunk": None if chunk is None else list(chunk), "join": join, "jchunks": jchunks,
            "template": template, "docs": [list(d) for d in docs]}


def _concat_exhaustive(tier):
    out = []
    quick = tier == "quick"
    ivs = [(a, b) for a in range(4) for b in range(4)]
    ivs_q = [(a, b) for (a, b) in ivs if a < b] + [(1, 1), (2, 1)]
    out.append(_cat([]))
    for n in (1, 2, 3):
        pool = ivs_q if (n == 3 and quick) else ivs
        for combo in itertools.product(pool, repeat=n):
            out.append(_cat([_mk(i, a, b) for i, (a, b) in enumerate(combo)]))
    # descriptor / resource patterns on permuted chains (and near-chains)
    bases = [[(0, 1), (1, 2)], [(0, 2), (2, 3)], [(0, 1), (1, 2), (2, 3)], [(0, 1), (1, 3), (3, 4)], [(0, 1), (2, 3)]]
    for base in bases:
        n = len(base)
        pats = list(itertools.product((0, 1), repeat=n))
        if quick and n == 3:
            pats = [(0, 0, 0), (1, 0, 0), (0, 1, 0), (0, 0, 1)]
        for perm in itertools.permutations(range(n)):
            for dp in pats:
                for rp in pats:
                    out.append(_cat([_mk(i, base[j][0], base[j][1], dp[i], rp[i]) for i, j in enumerate(perm)]))
    return out


def _cons_exhaustive(tier):
    out = []
    quick = tier == "quick"
    shapes = [[], [1], [3], [1, 4], [6, 4]] + ([] if quick else [[2, 3, 4]])
    chunks = [None, [2], [2, 3], [1, 2, 2]] + ([] if quick else [[], [4]])
    mults = (None, 3) if quick else (None, 1, 3)
    docs = [[0, 2, 1, 3], [2, 5, 3, 6]]
    kinds = ["base", "csv", "hdf5", "tiff", "npy"] + ([] if quick else ["jpeg"])
    for cls in kinds:
        for join in (None, "stack", "concat"):
            for jc in (None, True, False):
                for ch in chunks:
                    if cls == "npy" and ch not in (None, [2]):
                        continue  # user chunk_shape is overwritten by NPY: two values suffice
                    for mult in mults:
                        for sh in shapes:
                            out.append(_cons(cls, sh, mult, ch, join, jc, True, docs))
    for sh in shapes:
        out.append(_cons("unknown", sh, None, None, None, None, True, docs))
    return out


def _rand_concat(rng):
    n = rng.choice([2, 2, 3, 3, 4, 5, 6, 7, 8])
    pos = rng.randint(-3, 6)
    seq = rng.randint(0, 5)
    docs = []
    for i in range(n):
        ln = rng.randint(1, 4)
        sl = ln if rng.random() < 0.7 else rng.randint(0, ln)     # seq range may be shorter (skips)
        docs.append([i, 0, 0, pos, pos + ln, seq, seq + sl])
        pos += ln
        seq += sl
    mut = rng.choice(["none", "none", "none", "gap", "overlap", "empty", "negative", "descr", "res", "dup",
                      "seqswap", "samestart"])
    j = rng.randrange(n)
    if mut == "gap":
        for d in docs[j:]:
            if d is not docs[0]:
                d[3] += 1
                d[4] += 1
    elif mut == "overlap":
        docs[j][4] += 1
    elif mut == "empty":
        at = docs[j][3] if rng.random() < 0.5 else docs[j][4]
        docs.append([n, 0, 0, at, at, 0, 0])
    elif mut == "negative":
        docs[j][3], docs[j][4] = docs[j][4], docs[j][3] - rng.randint(0, 1)
    elif mut == "descr":
        docs[j][1] = 1
    elif mut == "res":
        docs[j][2] = 1
    elif mut == "dup":
        docs.append(list(docs[j]))
        if rng.random() < 0.5:
            docs[-1][0] = n
    elif mut == "seqswap":
        k = rng.randrange(n)
        docs[j][5], docs[k][5] = docs[k][5], docs[j][5]
        docs[j][6], docs[k][6] = docs[k][6], docs[j][6]
    elif mut == "samestart":
        docs.append([n, 0, 0, docs[j][3], docs[j][4] + rng.randint(0, 1), 0, 1])
    rng.shuffle(docs)
    if rng.random() < 0.3:   # uids by position in the shuffled input
        for i, d in enumerate(docs):
            d[0] = i
    return _cat(docs)


def _rand_docs(rng, malformed=False):
    docs = []
    pos = rng.randint(0, 3)
    seq = rng.randint(0, 3)
    for _ in range(rng.randint(0, 4)):
        ln = rng.randint(0, 4)
        r = rng.random()
        if r < 0.6:
            sl = ln
        elif r < 0.8:
            sl = rng.randint(0, ln)
        else:
            sl = ln + rng.randint(1, 2)
        a, b = pos, pos + ln
        if malformed and rng.random() < 0.3:
            a, b = b, a - 1
        s0 = seq if rng.random() < 0.8 else max(0, seq - rng.randint(1, 3))   # overlapping seq ranges: overwrite
        docs.append([a, b, s0, s0 + sl])
        pos = b if rng.random() < 0.85 else b + 1
        seq = s0 + sl
    return docs


def _rand_cons(rng, malformed=False):
    cls = rng.choice(["base", "csv", "csv", "hdf5", "hdf5", "tiff", "tiff", "jpeg", "npy", "npy"])
    nd = rng.choice([0, 1, 1, 2, 2, 3, 3, 4])
    shape = [rng.choice([1, 1, 2, 3, 4, 5, 6, 7, 0]) if rng.random() < 0.95 else 0 for _ in range(nd)]
    mult = rng.choice([None, None, None, 0, 1, 2, 3, 5] + (shape[:1] if shape else []))
    if rng.random() < 0.55:
        chunk = None
    else:
        chunk = [rng.randint(1, 8) for _ in range(rng.randint(0, nd + 2))]
        if shape and chunk and rng.random() < 0.4:      # a divisor of the leading dim (multipart concat accepts)
            lead = mult if mult else shape[0]
            divs = [x for x in range(1, max(1, lead) + 1) if lead % x == 0] or [1]
            chunk[0] = rng.choice(divs)
    join = rng.choice([None, None, "stack", "concat"])
    jc = rng.choice([None, None, True, False])
    template = True
    if malformed:
        what = rng.choice(["none", "chunk0", "chunkneg", "negdim", "negmult", "notemplate", "unknown", "negdocs"])
        if what == "none":
            shape = shape + [None]
            rng.shuffle(shape)
        elif what == "chunk0":
            chunk = (chunk or []) + [0]
            rng.shuffle(chunk)
        elif what == "chunkneg":
            chunk = (chunk or []) + [-2]
            rng.shuffle(chunk)
        elif what == "negdim":
            shape = shape + [-rng.randint(1, 3)]
            rng.shuffle(shape)
        elif what == "negmult":
            mult = -rng.randint(1, 3)
        elif what == "notemplate":
            template = False
            cls = rng.choice(["tiff", "jpeg", "npy"])
        elif what == "unknown":
            cls = "unknown"
    return _cons(cls, shape, mult, chunk, join, jc, template, _rand_docs(rng, malformed))


def cases(rng, tier):
    out = []
    out += _concat_exhaustive(tier)
    out += _cons_exhaustive(tier)
    nrand = 400 if tier == "quick" else 10000
    for _ in range(nrand):
        out.append(_rand_concat(rng))
    for _ in range(nrand):
        out.append(_rand_cons(rng))
    for _ in range(nrand // 4):
        out.append(_rand_cons(rng, malformed=True))
    return out


# ----------------------------------------------------------------------------- implementation side

def _errname(e):
    return type(e).__name__


def _doc(uid, descr, res, a, b, s, t):
    return {"uid": "u%d" % uid, "descriptor": "d%d" % descr, "stream_resource": "r%d" % res,
            "indices": {"start": a, "stop": b}, "seq_nums": {"start": s, "stop": t}}


def _impl_concat(case):
    from bluesky.callbacks.tiled_writer import concatenate_stream_datums
    docs = [_doc(*d) for d in case["docs"]]
    try:
        r = concatenate_stream_datums(*docs)
    except Exception as e:
        return {"error": _errname(e)}
    return {"result": [int(r["uid"][1:]), int(r["descriptor"][1:]), int(r["stream_resource"][1:]),
                       int(r["indices"]["start"]), int(r["indices"]["stop"]),
                       int(r["seq_nums"]["start"]), int(r["seq_nums"]["stop"])],
            "same_object": any(r is d for d in docs)}


def _impl_cons(case):
    import warnings
    from bluesky.consolidators import consolidator_factory
    cls = case["cls"]
    par = {}
    if case["mult"] is not None:
        par["multiplier"] = case["mult"]
    if case["chunk"] is not None:
        par["chunk_shape"] = tuple(case["chunk"])
    if case["join"] is not None:
        par["join_method"] = case["join"]
    if case["jchunks"] is not None:
        par["join_chunks"] = case["jchunks"]
    if case["template"] and cls in ("tiff", "jpeg"):
        par["template"] = "img_%06d." + cls
    if cls == "hdf5":
        par["dataset"] = ["entry", "data"]
    sres = {"mimetype": MIMES[cls], "data_key": "x", "uri": "file://localhost/tmp/verif/", "parameters": par,
            "uid": "sr0", "run_start": "rs0"}
    desc = {"uid": "d0", "data_keys": {"x": {"shape": list(case["shape"]), "dtype": "array", "dtype_numpy": "<f8",
                                             "source": "verif", "external": "STREAM:"}}}
    with warnings.catch_warnings():
        warnings.simplefilter("ignore")
        try:
            c = consolidator_factory(sres, desc)
        except Exception as e:
            return {"error": _errname(e)}

        def snap():
            try:
                ch = [[int(x) for x in dim] for dim in c.chunks]
            except Exception as e:
                ch = {"error": _errname(e)}
            return [int(c._num_rows), [int(x) for x in c.shape], ch]

        obs = {"datum_shape": [int(x) for x in c.datum_shape], "join": c.join_method,
               "jchunks": bool(c.join_chunks), "chunk_shape": [int(x) for x in c.chunk_shape], "steps": [snap()]}
        for i, (a, b, s, t) in enumerate(case["docs"]):
            try:
                c.consume_stream_datum(_doc(i, 0, 0, a, b, s, t))
            except Exception as e:
                obs["run_error"] = _errname(e)
                return obs
            obs["steps"].append(snap())
        obs["items"] = sorted([int(k), int(v)] for k, v in c._seqnums_to_indices_map.items())
        obs["assets"] = len(c.assets)
        return obs


def impl(case):
    return _impl_concat(case) if case["kind"] == "concat" else _impl_cons(case)


# ----------------------------------------------------------------------------- Coq terms

def z(n):
    return "(%d)" % n if n < 0 else "%d" % n


def cl(xs, f=z):
    return "[" + "; ".join(f(x) for x in xs) + "]"


def cb(b):
    return "true" if b else "false"


def copt(x, f):
    return "None" if x is None else "(Some %s)" % f(x)


def cdatum(d):
    return "(mkDatum %d%%N %d%%N %d%%N %s %s %s %s)" % (d[0], d[1], d[2], z(d[3]), z(d[4]), z(d[5]), z(d[6]))


def cjoin(j):
    return {"stack": "Stack", "concat": "Concat"}[j]


def cres(o, f):
    if isinstance(o, dict) and "error" in o:
        return "(Err %s)" % o["error"]
    return "(Ok %s)" % f(o)


def _params_term(case):
    return "(mkParams %s %s %s %s %s %s %s)" % (
        KINDS[case["cls"]], cl(case["shape"], lambda x: copt(x, z)), copt(case["mult"], z),
        copt(case["chunk"], cl), copt(case["join"], cjoin), copt(case["jchunks"], cb), cb(case["template"]))


def coq_term(case, obs):
    t = _coq_term(case, obs)
    return t if t is None or t == "false" else "(%s)%%Z" % t      # numerals are Z literals


def _coq_term(case, obs):
    if "error" in obs and obs["error"] not in ERRS:
        return "false"      # an exception class outside the model's enum: the model cannot produce it
    if case["kind"] == "concat":
        exp = "(Err %s)" % obs["error"] if "error" in obs else "(Ok %s)" % cdatum(obs["result"])
        t = "concat_case %s %s" % (cl(case["docs"], cdatum), exp)
        if len(case["docs"]) == 1:
            t += " && " + cb(obs.get("same_object", False))
        return t
    if case["join"] not in (None, "stack", "concat"):
        return None
    docs = cl([[i, 0, 0] + list(d) for i, d in enumerate(case["docs"])], cdatum)
    fa, fb = _classes(case, obs)
    if "error" in obs:
        exp = "(CErr %s)" % obs["error"]
    else:
        if obs.get("run_error", "ValueError") not in ERRS:
            return "false"
        for s in obs["steps"]:
            if isinstance(s[2], dict) and s[2]["error"] not in ERRS:
                return "false"
        steps = cl(obs["steps"], lambda s: "(%s, %s, %s)" % (z(s[0]), cl(s[1]), cres(s[2], lambda ch: cl(ch, cl))))
        if "run_error" in obs:
            fin = "(Err %s)" % obs["run_error"]
        else:
            fin = "(Ok (%s, %s))" % (cl(obs["items"], lambda kv: "(%s, %s)" % (z(kv[0]), z(kv[1]))), z(obs["assets"]))
        exp = "(CRun %s %s %s %s %s %s)" % (cl(obs["datum_shape"]), cjoin(obs["join"]), cb(obs["jchunks"]),
                                           cl(obs["chunk_shape"]), steps, fin)
    return "cons_case %s %s %s %s %s" % (_params_term(case), docs, exp, cb(fa), cb(fb))


# ----------------------------------------------------------------------------- finding classes (mirror)

def _classes(case, obs):
    """Python mirror of finding_C36_a / finding_C36_b (Pure/Chunks.v), on the constructed consolidator."""
    if case["kind"] != "cons" or "error" in obs:
        return False, False
    a = (obs["join"] == "concat" and not obs["jchunks"] and len(obs["datum_shape"]) == 0
         and len(obs["chunk_shape"]) == 1)
    b = case["cls"] == "npy" and len(obs["steps"][0][1]) < len(obs["chunk_shape"])
    return a, b


# ----------------------------------------------------------------------------- oracle

def _is_chain(seq):
    return all(seq[i][4] == seq[i + 1][3] for i in range(len(seq) - 1))


def _has_chain_permutation(docs):
    if len(docs) <= 6:
        return any(_is_chain(p) for p in itertools.permutations(docs))
    # non-empty intervals: a chain is strictly increasing in start, so it is the sorted order
    return _is_chain(sorted(docs, key=lambda d: d[3]))


def _oracle_concat(case, obs):
    docs = case["docs"]
    n = len(docs)
    fails = []
    if n == 0:
        if "error" not in obs:
            fails.append(("concat", "empty set of datums accepted"))
        return fails
    if n == 1:
        if obs.get("result") != docs[0] or not obs.get("same_object"):
            fails.append(("concat", "a single datum is not returned unchanged"))
        return fails
    same = len({d[1] for d in docs}) == 1 and len({d[2] for d in docs}) == 1
    nonempty = all(d[3] < d[4] for d in docs)
    ordered = all(d[3] <= d[4] for d in docs)
    if "error" in obs:
        if obs["error"] != "ValueError":
            fails.append(("concat", "rejection is %s, not ValueError" % obs["error"]))
        if nonempty and same and _has_chain_permutation(docs):
            fails.append(("concat", "contiguous datums of one descriptor/resource rejected"))
        return fails
    r = obs["result"]
    if not same:
        fails.append(("concat", "datums of different descriptors/resources accepted"))
        return fails
    if not _has_chain_permutation(docs):
        fails.append(("concat", "non-contiguous datums accepted"))
        return fails
    if r[1] != docs[0][1] or r[2] != docs[0][2]:
        fails.append(("concat", "result descriptor/resource differ from the inputs'"))
    if r[3] != min(d[3] for d in docs):
        fails.append(("concat", "indices.start %d is not the minimum start" % r[3]))
    if ordered and r[4] != max(d[4] for d in docs):
        fails.append(("concat", "indices.stop %d is not the maximum stop" % r[4]))
    if nonempty:
        first = min(docs, key=lambda d: d[3])
        last = max(docs, key=lambda d: d[3])
        if r[5] != first[5] or r[6] != last[6]:
            fails.append(("concat", "seq_nums (%d,%d) are not (start of the first, stop of the last datum)" % (r[5], r[6])))
        if r[0] != last[0]:
            fails.append(("concat", "uid is not the last datum's"))
        consistent = all((d1[5] <= d2[5] and d1[6] <= d2[6]) for d1 in docs for d2 in docs if d1[3] <= d2[3])
        if consistent and (r[5] != min(d[5] for d in docs) or r[6] != max(d[6] for d in docs)):
            fails.append(("concat", "seq_nums (%d,%d) are not the combined range" % (r[5], r[6])))
    return fails


def _oracle_cons(case, obs):
    fails = []
    if "error" in obs:
        return fails
    if "run_error" in obs:
        return [("consume", "consume_stream_datum raised " + obs["run_error"])]
    wellformed = (all(x is not None and x >= 0 for x in case["shape"]) and (case["mult"] is None or case["mult"] >= 0)
                  and all(a <= b for a, b, _, _ in case["docs"]) and obs["join"] in ("stack", "concat"))
    ds = obs["datum_shape"]
    rows = 0
    hist = [None] + case["docs"]
    user_chunk = [] if (case["cls"] == "npy" or case["chunk"] is None) else case["chunk"]
    for k, (step, d) in enumerate(zip(obs["steps"], hist)):
        if d is not None:
            rows += d[1] - d[0]
        n, shape, ch = step
        if n != rows:
            fails.append(("rows", "after %d datums _num_rows=%d, consumed index ranges add up to %d" % (k, n, rows)))
        if not wellformed:
            continue
        want = [rows * ds[0]] + ds[1:] if (obs["join"] == "concat" and ds) else [rows] + ds
        if shape != want:
            fails.append(("shape", "after %d datums shape=%s, documented shape is %s" % (k, shape, want)))
        if isinstance(ch, dict):
            if not (ch["error"] == "ValueError" and len(user_chunk) > len(shape)):
                fails.append(("chunks-error", "after %d datums chunks raises %s (shape %s, chunk_shape %s, user chunk_shape %s)"
                              % (k, ch["error"], shape, obs["chunk_shape"], case["chunk"])))
        else:
            if len(ch) != len(shape) or [sum(c) for c in ch] != shape:
                fails.append(("chunks", "after %d datums chunks %s do not add up to shape %s" % (k, ch, shape)))
            elif any(not (c == [0] or (len(c) > 0 and all(x > 0 for x in c))) for c in ch):
                fails.append(("chunks", "after %d datums chunks %s: a dimension is neither (0,) nor positive sizes" % (k, ch)))
    # every consumed seq_num maps to its row (later datums overwrite earlier ones)
    want = {}
    for a, b, s, t in case["docs"]:
        for i in range(max(0, min(b - a, t - s))):
            want[s + i] = a + i
    if obs["items"] != sorted([k, v] for k, v in want.items()):
        fails.append(("seqmap", "seq_num->row map %s, consumed datums give %s" % (obs["items"], sorted(want.items()))))
    return fails


def _fails(case, obs):
    return _oracle_concat(case, obs) if case["kind"] == "concat" else _oracle_cons(case, obs)


def oracle(case, obs):
    f = _fails(case, obs)
    # report a failure that is not the (possibly known) chunks-raises one first
    f = [x for x in f if x[0] != "chunks-error"] + [x for x in f if x[0] == "chunks-error"]
    return f[0][1] if f else None


def finding(case, obs):
    """A failure counts as the known finding only if the case is in the class AND the only thing
    that failed is what the finding says (chunks raising instead of a chunking)."""
    f = _fails(case, obs)
    if not f or any(tag != "chunks-error" for tag, _ in f):
        return None
    a, b = _classes(case, obs)
    if a:
        return "a"
    if b:
        return "b"
    return None


def nontrivial(case, obs):
    if case["kind"] == "concat":
        docs = case["docs"]
        return "result" in obs and len(docs) >= 2 and docs != sorted(docs, key=lambda d: d[3])
    if "error" in obs or "run_error" in obs:
        return False
    n, shape, ch = obs["steps"][-1]
    return n > 0 and not isinstance(ch, dict) and len(shape) >= 2


def describe(case):
    if case["kind"] == "concat":
        docs = case["docs"]
        tags = []
        if len({d[1] for d in docs}) > 1 or len({d[2] for d in docs}) > 1:
            tags.append("mixed")
        if any(d[3] >= d[4] for d in docs):
            tags.append("degenerate")
        return "concat n=%d %s" % (len(docs), "+".join(tags) or "plain")
    return "cons %s join=%s chunk=%s mult=%s" % (
        case["cls"], case["join"], "none" if case["chunk"] is None else len(case["chunk"]),
        "none" if case["mult"] is None else ("0" if case["mult"] == 0 else ("neg" if case["mult"] < 0 else "pos")))


# ----------------------------------------------------------------------------- model-side search

def model_search(rng, tier):
    return None
