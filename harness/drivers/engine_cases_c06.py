"""Extra engine cases for C06 (devices left cleaned up when the RunEngine goes idle).

Plans that stage / set devices and end in every way the property names (completion, failure, abort,
stop, halt, failed pause), with requests at the `_run` step indices and device faults in
stage/unstage/set/stop.  Same case format as engine_cases.py (which is never edited).
Devices (engine_cases.DEVS): 0 stageable, 1 plain, 2 pausable, 3 stageable.
"""
from harness.drivers.engine_cases import DEVS, m, seq, count_msgs

BUNDLE = [m("create", None, [], {"name": "primary"}), m("read", 1), m("save")]


def p_double():
    """the witness of C06-b: `_staged` is a set"""
    return seq(m("stage", 0), m("stage", 0), m("open_run"), m("close_run"))


def p_double_unstaged_once():
    return seq(m("stage", 0), m("stage", 0), m("open_run"), m("close_run"), m("unstage", 0))


def p_double_two_devs():
    return seq(m("stage", 0), m("stage", 3), m("stage", 0), m("open_run"), m("checkpoint"), m("null"), m("close_run"), m("unstage", 3))


def p_stage_set():
    """stages two devices, moves two, never unstages / stops itself"""
    return seq(m("stage", 0), m("stage", 3), m("open_run"), m("checkpoint"), m("set", 1, [1], {"group": "g"}),
               m("set", 2, [2], {"group": "g"}), m("wait", None, [], {"group": "g"}), m("null"), m("close_run"))


def p_tidy():
    """the well-behaved shape: unstage in a finally block"""
    return ["tryfin", seq(m("stage", 0), m("open_run"), m("checkpoint"), m("set", 1, [1], {"group": None}), m("null"), *BUNDLE, m("close_run")),
            seq(m("unstage", 0))]


def p_noresume():
    """a pause request after clear_checkpoint cannot be honoured: failed pause"""
    return seq(m("stage", 0), m("open_run"), m("checkpoint"), m("set", 1, [1], {"group": None}), m("clear_checkpoint"),
               m("null"), m("set", 2, [1], {"group": None}), m("null"), m("close_run"))


def p_raise():
    return seq(m("stage", 3), m("open_run"), m("set", 1, [1], {"group": None}), ["raise", "EUser1"])


def p_restage():
    """unstage, then stage again and leave it staged; set / stop / set"""
    return seq(m("stage", 0), m("unstage", 0), m("stage", 0), m("open_run"), m("set", 1, [1], {"group": None}), m("stop", 1),
               m("set", 1, [2], {"group": None}), m("null"), m("close_run"))


def p_notstageable():
    return seq(m("stage", 1), m("open_run"), m("set", 1, [1], {"group": None}), m("unstage", 1), m("unstage", 0), m("close_run"))


def p_handles():
    """the plan swallows the device error and carries on"""
    return seq(m("open_run"), ["tryexc", seq(m("stage", 0), m("set", 1, [1], {"group": None}), m("null")), seq(m("null"))],
               m("stage", 3), m("null"), m("close_run"))


PLANS = [("dbl", p_double), ("dbl1", p_double_unstaged_once), ("dbl2", p_double_two_devs), ("stageset", p_stage_set),
         ("tidy", p_tidy), ("noresume", p_noresume), ("raise", p_raise), ("restage", p_restage),
         ("notstageable", p_notstageable), ("handles", p_handles)]


def base(plan, **kw):
    c = {"plan": plan, "devs": DEVS, "inject": [], "script": []}
    c.update(kw)
    return c


def gen(rng, tier):
    out = []
    for name, f in PLANS:
        plan = f()
        n = count_msgs(plan) + 3
        out.append(base(plan, tag="c06 %s plain" % name))
        points = range(1, n + 1) if tier == "thorough" else range(2 + len(name) % 3, n + 1, 4)
        for at in points:
            for r in ("abort", "stop", "halt") if tier == "thorough" else ("abort", "halt"):
                out.append(base(plan, inject=[{"at": at, "req": r}], tag="c06 %s %s@%d" % (name, r, at)))
            for sc in (["resume"], ["abort"], ["halt"], ["stop"]) if tier == "thorough" else (["resume"], ["stop"]):
                out.append(base(plan, inject=[{"at": at, "req": "pause"}], script=sc, tag="c06 %s pause@%d %s" % (name, at, "+".join(sc))))
            if tier == "thorough":
                out.append(base(plan, inject=[{"at": at, "req": "suspend"}, {"at": at + 3, "req": "release", "sid": 0}],
                                tag="c06 %s suspend@%d" % (name, at)))
    # device faults: every (device, method) the plans call, first and second call
    for name, f in (PLANS[:2] + PLANS[3:5] + PLANS[7:8] + PLANS[9:]) if tier == "thorough" else (PLANS[1:2] + PLANS[3:5]):
        plan = f()
        for dev, meth in ((0, "stage"), (3, "stage"), (0, "unstage"), (3, "unstage"), (1, "set"), (2, "set"), (1, "stop"), (2, "stop")):
            for nth in (0, 1) if tier == "thorough" else (0,):
                out.append(base(plan, faults=[[dev, meth, nth, "EDev"]], tag="c06 %s fault %d.%s.%d" % (name, dev, meth, nth)))
    # a fault and a request together
    for name, f in (PLANS[3], PLANS[4]):
        plan = f()
        for at in (3, 5, 7) if tier == "thorough" else (5,):
            for r in ("abort", "halt"):
                out.append(base(plan, faults=[[0, "unstage", 0, "EDev"], [1, "stop", 0, "EDev"]], inject=[{"at": at, "req": r}],
                                tag="c06 %s fault+%s@%d" % (name, r, at)))
    # several calls on one engine: what one call leaves behind must not leak into the next
    out.append(base(None, calls=[p_stage_set(), p_tidy(), p_double()], tag="c06 calls plain"))
    out.append(base(None, calls=[p_raise(), p_stage_set()], tag="c06 calls raise-then"))
    for at in (4, 7, 12) if tier == "quick" else range(2, 20, 2):
        out.append(base(None, calls=[p_stage_set(), p_restage()], inject=[{"at": at, "req": "abort"}], tag="c06 calls abort@%d" % at))
    for c in out:
        if c.get("plan") is None:
            del c["plan"]
    # seeded random stage/set plans with one request
    nrand = 25 if tier == "quick" else 1500
    for _ in range(nrand):
        body = []
        for _ in range(rng.randint(2, 8)):
            k = rng.choice(["stage", "stage", "unstage", "set", "set", "stop", "null", "checkpoint", "open", "close"])
            if k in ("stage", "unstage"):
                body.append(m(k, rng.choice([0, 0, 3, 1])))
            elif k == "set":
                body.append(m("set", rng.choice([1, 2]), [1], {"group": rng.choice([None, "g"])}))
            elif k == "stop":
                body.append(m("stop", rng.choice([1, 2])))
            elif k == "open":
                body.append(m("open_run"))
            elif k == "close":
                body.append(m("close_run"))
            else:
                body.append(m(k))
        plan = seq(*body)
        c = base(plan, tag="c06 random")
        if rng.random() < 0.7:
            c["inject"] = [{"at": rng.randint(1, len(body) + 3), "req": rng.choice(["abort", "stop", "halt", "pause"])}]
            c["script"] = [rng.choice(["resume", "abort", "stop", "halt"])]
        if rng.random() < 0.3:
            c["faults"] = [[rng.choice([0, 1, 2, 3]), rng.choice(["stage", "unstage", "set", "stop"]), rng.choice([0, 1]), "EDev"]]
        out.append(c)
    # monitors (ORACLE ONLY: monitors are not in the engine model, the encoder rejects subscribe/clear_sub and the
    # cases are not sent to Coq): every subscription the engine installs on a device is removed by the time it is idle
    out += monitor_cases(tier)
    return out


def p_mon(unmon, close, extra=None):
    body = [m("open_run"), m("checkpoint"), m("monitor", 1), m("null"), m("monitor", 2), m("checkpoint"), m("null")]
    if extra:
        body.append(extra)
    if unmon in ("both", "one"):
        body.append(m("unmonitor", 1))
    if unmon == "both":
        body.append(m("unmonitor", 2))
    if close:
        body.append(m("close_run"))
    return seq(*body)


def monitor_cases(tier):
    out = []
    plans = [("closed", p_mon("none", True)), ("unmon", p_mon("both", True)), ("half", p_mon("one", True)),
             ("open", p_mon("none", False)), ("raise", p_mon("none", True, ["raise", "EUser1"])),
             ("tworuns", seq(p_mon("none", True), m("null"), p_mon("one", True))),
             ("finally", ["tryfin", p_mon("none", False), seq(m("null"), m("close_run"))])]
    for name, plan in plans:
        out.append(base(plan, tag="c06 mon-%s plain" % name))
        n = count_msgs(plan) + 3
        for at in range(2, n + 1, 1 if tier == "thorough" else 3):
            for r in ("abort", "halt", "stop"):
                out.append(base(plan, inject=[{"at": at, "req": r}], tag="c06 mon-%s %s@%d" % (name, r, at)))
            for sc in (["resume"], ["abort"]):
                out.append(base(plan, inject=[{"at": at, "req": "pause"}], script=sc, tag="c06 mon-%s pause@%d %s" % (name, at, sc[0])))
            out.append(base(plan, inject=[{"at": at, "req": "suspend"}, {"at": at + 3, "req": "release", "sid": 0}],
                            tag="c06 mon-%s suspend@%d" % (name, at)))
    out.append(base(None, calls=[p_mon("none", True), p_mon("one", True), p_mon("none", False)], tag="c06 mon-calls"))
    del out[-1]["plan"]
    return out
