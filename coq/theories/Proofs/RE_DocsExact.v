(* C05, the counting clause in plain terms.  For every trace accepted by the document monitor
   Engine/DocMon.v (hence, by Proofs/RE_DocsMon.v, for every run of the engine model):
   - at every point, the seq_nums emitted so far in a stream of an open run are exactly 1 .. top-1
     (no gap, none above the largest): [hist_inv];
   - at every RunStop of a trace that never stops a run behind a rewind (outside finding class C05-b)
     and for every stream the RunStop reports:  num_events = N  where the set of seq_nums emitted in
     that stream of that run is exactly {1..N}; so N is both the largest seq_num emitted and the
     number of distinct seq_nums emitted: [stops_exact], [stops_exact_count]. *)
From Coq Require Import List String ZArith Bool Arith Lia Permutation.
From BV Require Import Engine.RE Engine.REInst Engine.DocMon Proofs.RE_Docs Proofs.RE_DocsMon Proofs.RE_DocsCor.
Import ListNotations.
Local Open Scope nat_scope.

(* the seq_nums of the events of run u, stream name, in document order (interruption records are
   the events of the stream INTR) *)
Definition ev_seq (u name : nat) (d : doc) : list nat :=
  match d with
  | DEvent u' n' k _ => if Nat.eqb u' u && Nat.eqb n' name then [k] else []
  | DIntr u' k => if Nat.eqb u' u && Nat.eqb INTR name then [k] else []
  | _ => []
  end.
Definition seqs (u name : nat) (ds : list doc) : list nat := flat_map (ev_seq u name) ds.

Lemma seqs_app u name a b : seqs u name (a ++ b) = seqs u name a ++ seqs u name b.
Proof. unfold seqs. apply flat_map_app. Qed.

Lemma seqs_other_run u name ds : (forall d, In d ds -> run_of d <> u) -> seqs u name ds = [].
Proof.
  induction ds as [|d ds IH]; intros H; [reflexivity|]. cbn [seqs flat_map]. fold (seqs u name ds).
  rewrite IH by (intros x Hx; apply H; right; exact Hx). rewrite app_nil_r.
  assert (Hd : run_of d <> u) by (apply H; left; reflexivity).
  destruct d as [x|x ? ?|x ? ? ?|x ?|x ? ? ?]; cbn [ev_seq run_of] in *; try reflexivity;
    (destruct (Nat.eqb x u) eqn:E; [apply Nat.eqb_eq in E; contradiction | reflexivity]).
Qed.

(* ------------------------------------------------------------------ the history invariant *)
(* what the monitor's record r of an open run knows about the documents ds seen so far *)
Definition sok (r : rrec) (ds : list doc) : Prop :=
  forall name, 1 <= s_c (sget r name) /\ s_c (sget r name) <= s_top (sget r name) /\
               forall k, In k (seqs (r_uid r) name ds) <-> (1 <= k /\ k < s_top (sget r name)).

Definition stops_ok (ds : list doc) : Prop :=
  forall l1 u xs rs num l2, ds = l1 ++ DStop u xs rs num :: l2 ->
  forall name N, In (name, N) num -> forall k, In k (seqs u name l1) <-> (1 <= k /\ k <= N).

Definition hist_inv (m : mon) (ds : list doc) : Prop :=
  (forall d, In d ds -> run_of d < m_next m) /\
  NoDup (map r_uid (m_open m)) /\
  (forall r, In r (m_open m) -> r_uid r < m_next m /\ sok r ds) /\
  (m_flag m = false -> stops_ok ds).

Lemma hist_init : hist_inv mon0 [].
Proof.
  unfold hist_inv; cbn. split; [intros d []|]. split; [constructor|]. split; [intros r []|].
  intros _ l1 u xs rs num l2 E. destruct l1; discriminate E.
Qed.

(* ------------------------------------------------------------------ lists of run records *)
Lemma on_run_spec u f l l' :
  on_run u f l = Some l' ->
  exists l1 r r' l2, l = l1 ++ r :: l2 /\ l' = l1 ++ r' :: l2 /\ r_uid r = u /\ f r = Some r' /\
                     (forall x, In x l1 -> r_uid x <> u).
Proof.
  revert l'. induction l as [|y l IH]; intros l' H; cbn in H; [discriminate|].
  destruct (Nat.eqb u (r_uid y)) eqn:E.
  - destruct (f y) as [y'|] eqn:Ef; [|discriminate]. inversion H; subst. apply Nat.eqb_eq in E.
    exists [], y, y', l. repeat split; auto; try (intros x []).
  - destruct (on_run u f l) as [l0|] eqn:El; [|discriminate]. inversion H; subst.
    destruct (IH _ eq_refl) as (l1 & r & r' & l2 & E1 & E2 & E3 & E4 & E5).
    exists (y :: l1), r, r', l2. subst. repeat split; auto.
    intros x [<-|Hx]; [apply Nat.eqb_neq in E; congruence | apply E5, Hx].
Qed.

Lemma take_run_spec u l r rest :
  take_run u l = Some (r, rest) ->
  exists l1 l2, l = l1 ++ r :: l2 /\ rest = l1 ++ l2 /\ r_uid r = u.
Proof.
  revert r rest. induction l as [|y l IH]; intros r rest H; cbn in H; [discriminate|].
  destruct (Nat.eqb u (r_uid y)) eqn:E.
  - inversion H; subst. apply Nat.eqb_eq in E. exists []. eexists. repeat split; auto.
  - destruct (take_run u l) as [[x rest0]|] eqn:El; [|discriminate]. inversion H; subst.
    destruct (IH _ _ eq_refl) as (l1 & l2 & E1 & E2 & E3). exists (y :: l1), l2. subst. repeat split; auto.
Qed.

Lemma NoDup_mid_notin {X} (f : X -> nat) l1 r l2 x :
  NoDup (map f (l1 ++ r :: l2)) -> In x (l1 ++ l2) -> f x <> f r.
Proof.
  rewrite map_app. cbn [map]. intros Hn Hx E. apply NoDup_remove_2 in Hn. apply Hn.
  rewrite <- map_app, <- E. apply in_map, Hx.
Qed.

(* ------------------------------------------------------------------ one document *)
Lemma sok_other r ds d : run_of d <> r_uid r -> sok r ds -> sok r (ds ++ [d]).
Proof.
  intros Hne Hs name. rewrite seqs_app. rewrite (seqs_other_run (r_uid r) name [d]), app_nil_r.
  - apply Hs.
  - intros x [<-|[]]. exact Hne.
Qed.

Lemma sok_nonevent r ds d :
  (forall name, ev_seq (r_uid r) name d = []) -> sok r ds -> sok r (ds ++ [d]).
Proof.
  intros Hd Hs name. rewrite seqs_app. unfold seqs at 2. cbn [flat_map]. rewrite Hd, app_nil_r. apply Hs.
Qed.

Lemma s_event_top x n x' :
  s_event x n = Some x' -> 1 <= s_c x -> s_c x <= s_top x ->
  1 <= n /\ n <= s_top x /\ s_top x' = Nat.max (s_top x) (S n) /\ s_c x' = S n.
Proof.
  unfold s_event. intros H H1 H2.
  destruct (if s_ex x then Nat.eqb n (s_c x) else Nat.leb 1 n && Nat.leb n (s_c x)) eqn:E; [|discriminate].
  inversion H; subst; cbn. destruct (s_ex x).
  - apply Nat.eqb_eq in E. repeat split; lia.
  - apply andb_true_iff in E as [E1 E2]. apply Nat.leb_le in E1, E2. repeat split; lia.
Qed.

(* an event (or interruption record) numbered n on stream name of the run of r *)
Lemma sok_event r ds name n r' d :
  r_event name n r = Some r' -> sok r ds ->
  (forall nm, ev_seq (r_uid r) nm d = if Nat.eqb nm name then [n] else []) ->
  sok r' (ds ++ [d]) /\ r_uid r' = r_uid r.
Proof.
  intros He Hs Hd. unfold r_event in He. destruct (s_event (sget r name) n) as [x'|] eqn:Ex; [|discriminate].
  inversion He; subst r'. split; [|reflexivity]. cbn [r_uid r_set_streams].
  intros nm. rewrite sget_set, seqs_app. unfold seqs at 2. cbn [flat_map]. rewrite Hd, app_nil_r.
  destruct (Hs nm) as (A & B & C). destruct (Nat.eqb nm name) eqn:E.
  - apply Nat.eqb_eq in E; subst nm. destruct (s_event_top _ _ _ Ex A B) as (F1 & F2 & F3 & F4).
    rewrite F3, F4. split; [lia|]. split; [lia|]. intros k. rewrite in_app_iff, C. cbn [In]. lia.
  - rewrite app_nil_r. auto.
Qed.

(* ------------------------------------------------------------------ RunStops seen so far *)
Lemma snoc_split {X} (ds : list X) d : forall l1 x l2,
  ds ++ [d] = l1 ++ x :: l2 ->
  (l2 = [] /\ ds = l1 /\ d = x) \/ exists l2', l2 = l2' ++ [d] /\ ds = l1 ++ x :: l2'.
Proof.
  induction ds as [|y ds IH]; intros l1 x l2 E.
  - destruct l1 as [|a l1]; cbn in E.
    + inversion E; subst. left; auto.
    + inversion E as [[E1 E2]]. destruct l1; discriminate E2.
  - destruct l1 as [|a l1]; cbn in E.
    + inversion E; subst. right. exists ds; auto.
    + inversion E as [[E1 E2]]. subst a. destruct (IH _ _ _ E2) as [(A & B & C)|(l2' & A & B)].
      * left. subst. auto.
      * right. exists l2'. subst. auto.
Qed.

Lemma stops_ok_snoc ds d :
  stops_ok ds ->
  (forall u xs rs num, d = DStop u xs rs num ->
     forall name N, In (name, N) num -> forall k, In k (seqs u name ds) <-> (1 <= k /\ k <= N)) ->
  stops_ok (ds ++ [d]).
Proof.
  intros Hs Hd l1 u xs rs num l2 E. destruct (snoc_split _ _ _ _ _ E) as [(A & B & C)|(l2' & A & B)].
  - subst. eapply Hd; reflexivity.
  - eapply Hs; exact B.
Qed.

(* ------------------------------------------------------------------ one operation on one run record *)
Lemma hist_on_run m ds d u f l' m' :
  hist_inv m ds -> on_run u f (m_open m) = Some l' -> run_of d = u ->
  (forall v xs rs num, d <> DStop v xs rs num) ->
  (forall r r', r_uid r = u -> f r = Some r' -> sok r ds -> sok r' (ds ++ [d]) /\ r_uid r' = r_uid r) ->
  m_open m' = l' -> m_next m' = m_next m -> m_flag m' = m_flag m -> hist_inv m' (ds ++ [d]).
Proof.
  intros (H1 & H2 & H3 & H4) Ho Hr Hnt Hf E1 E2 E3.
  destruct (on_run_spec _ _ _ _ Ho) as (l1 & r & r' & l2 & El & El' & Eu & Ef & Hl1).
  assert (Hin : In r (m_open m)) by (rewrite El; apply in_or_app; right; left; reflexivity).
  destruct (H3 r Hin) as [Fr1 Fr2]. destruct (Hf r r' Eu Ef Fr2) as [Hs' Hu'].
  assert (Hoth : forall x, In x (l1 ++ l2) -> r_uid x <> u).
  { intros x Hx. rewrite <- Eu. rewrite El in H2. eapply (NoDup_mid_notin r_uid); eassumption. }
  unfold hist_inv. rewrite E1, E2, E3, El'. split; [|split; [|split]].
  - intros x Hx. apply in_app_or in Hx as [Hx|[<-|[]]]; [apply H1, Hx|]. rewrite Hr, <- Eu. exact Fr1.
  - rewrite El in H2. rewrite map_app in *. cbn [map] in *. rewrite Hu'. exact H2.
  - intros x Hx. apply in_app_or in Hx as [Hx|[<-|Hx]].
    + assert (Hin' : In x (m_open m)) by (rewrite El; apply in_or_app; left; exact Hx).
      destruct (H3 x Hin') as [A B]. split; [exact A|].
      apply sok_other; [rewrite Hr; intros E; symmetry in E; revert E; apply Hoth, in_or_app; left; exact Hx | exact B].
    + split; [rewrite Hu'; exact Fr1 | exact Hs'].
    + assert (Hin' : In x (m_open m)) by (rewrite El; apply in_or_app; right; right; exact Hx).
      destruct (H3 x Hin') as [A B]. split; [exact A|].
      apply sok_other; [rewrite Hr; intros E; symmetry in E; revert E; apply Hoth, in_or_app; right; exact Hx | exact B].
  - intros Hfl. apply stops_ok_snoc; [apply H4, Hfl|]. intros v xs rs num Ed. exfalso. eapply Hnt; exact Ed.
Qed.

Lemma hist_ext m m' ds :
  m_open m' = m_open m -> m_next m' = m_next m -> m_flag m' = m_flag m -> hist_inv m ds -> hist_inv m' ds.
Proof. unfold hist_inv. intros -> -> ->. auto. Qed.

Lemma sok_ext r r' ds : r_uid r' = r_uid r -> r_streams r' = r_streams r -> sok r ds -> sok r' ds.
Proof. unfold sok, sget. intros -> ->. auto. Qed.

Lemma sok_rw r ds : sok r ds -> sok (rw r) ds.
Proof.
  intros H name. destruct (H name) as (A & B & C). change (r_uid (rw r)) with (r_uid r).
  rewrite sget_rw. unfold sget in *. destruct (alookup name (r_streams r)) as [x|]; [|auto].
  destruct (Nat.eqb name INTR); auto.
Qed.

Lemma hist_weaken m ds : hist_inv m ds -> hist_inv (weaken m) ds.
Proof.
  intros (H1 & H2 & H3 & H4). unfold hist_inv, weaken. cbn [m_open m_next m_flag m_set_open].
  split; [exact H1|]. split; [|split; [|exact H4]].
  - rewrite map_map. cbn. exact H2.
  - intros r Hr. apply in_map_iff in Hr as (r0 & <- & Hr0). destruct (H3 r0 Hr0) as [A B].
    split; [exact A | apply (sok_rw r0 ds B)].
Qed.

(* ------------------------------------------------------------------ one document *)
Lemma hist_doc_effect rec m d m' ds : doc_effect rec m d = Some m' -> hist_inv m ds -> hist_inv m' (ds ++ [d]).
Proof.
  intros He HI. destruct d as [u|u name objs|u name n data|u n|u xs rs num]; cbn [doc_effect] in He.
  - (* RunStart *)
    destruct (Nat.eqb u (m_next m)) eqn:Eu; [|discriminate]. apply Nat.eqb_eq in Eu. inversion He; subst m'; clear He.
    destruct HI as (H1 & H2 & H3 & H4). unfold hist_inv. cbn [m_open m_next m_flag].
    split; [|split; [|split]].
    + intros x Hx. apply in_app_or in Hx as [Hx|[<-|[]]]; [apply H1 in Hx; lia | cbn; lia].
    + rewrite map_app. cbn [map r_uid r_new]. apply NoDup_snoc; [exact H2|].
      intros Hin. apply in_map_iff in Hin as (r & Er & Hr). apply H3 in Hr as [Hr _]. lia.
    + intros r Hr. apply in_app_or in Hr as [Hr|[<-|[]]].
      * destruct (H3 r Hr) as [A B]. split; [lia|]. apply sok_nonevent; [intros nm; reflexivity | exact B].
      * split; [cbn; lia|]. intros nm. cbn [r_uid r_new]. rewrite seqs_app.
        rewrite (seqs_other_run u nm ds) by (intros x Hx; apply H1 in Hx; lia).
        unfold sget; cbn. split; [lia|]. split; [lia|]. intros k. split; [intros [] | lia].
    + intros Hf. apply stops_ok_snoc; [apply H4, Hf | intros v xs rs num E; discriminate E].
  - (* descriptor *)
    destruct (on_run u _ (m_open m)) as [l'|] eqn:Eo; [|discriminate]. inversion He; subst m'; clear He.
    eapply hist_on_run; [exact HI | exact Eo | reflexivity | intros; discriminate | | reflexivity..].
    intros r r' Hu Hf Hs. cbn beta in Hf. destruct (mem_nat name (r_descs r)); inversion Hf; subst r'.
    split; [|reflexivity]. apply sok_nonevent; [intros nm; reflexivity|]. eapply sok_ext; [| |exact Hs]; reflexivity.
  - (* event *)
    destruct (on_run u _ (m_open m)) as [l'|] eqn:Eo; [|discriminate]. inversion He; subst m'; clear He.
    eapply hist_on_run; [exact HI | exact Eo | reflexivity | intros; discriminate | | reflexivity..].
    intros r r' Hu Hf Hs. cbn beta in Hf. destruct (mem_nat name (r_descs r)); [|discriminate].
    eapply sok_event; [exact Hf | exact Hs|]. intros nm. cbn [ev_seq]. rewrite Hu, Nat.eqb_refl, (Nat.eqb_sym name nm). reflexivity.
  - (* interruption record *)
    destruct (on_run u _ (m_open m)) as [l'|] eqn:Eo; [|discriminate]. inversion He; subst m'; clear He.
    eapply hist_on_run; [exact HI | exact Eo | reflexivity | intros; discriminate | | reflexivity..].
    intros r r' Hu Hf Hs. cbn beta in Hf. destruct (r_intr r); [|discriminate].
    eapply sok_event; [exact Hf | exact Hs|]. intros nm. cbn [ev_seq]. rewrite Hu, Nat.eqb_refl, (Nat.eqb_sym INTR nm). reflexivity.
  - (* RunStop *)
    destruct (take_run u (m_open m)) as [[r rest]|] eqn:Et; [|discriminate].
    destruct (r_stop_ok r num) eqn:Eok; [|discriminate]. inversion He; subst m'; clear He.
    destruct (take_run_spec _ _ _ _ Et) as (l1 & l2 & El & Er & Eu).
    destruct HI as (H1 & H2 & H3 & H4). unfold hist_inv. cbn [m_open m_next m_flag].
    assert (Hin : In r (m_open m)) by (rewrite El; apply in_or_app; right; left; reflexivity).
    destruct (H3 r Hin) as [Fr1 Fr2].
    split; [|split; [|split]].
    + intros x Hx. apply in_app_or in Hx as [Hx|[<-|[]]]; [apply H1, Hx | cbn; lia].
    + rewrite Er. rewrite El, map_app in H2. cbn [map] in H2. apply NoDup_remove_1 in H2. rewrite map_app. exact H2.
    + intros x Hx. assert (Hx' : In x (m_open m)).
      { rewrite El. rewrite Er in Hx. apply in_app_or in Hx as [Hx|Hx]; apply in_or_app; [left | right; right]; exact Hx. }
      destruct (H3 x Hx') as [A B]. split; [exact A|]. apply sok_nonevent; [intros nm; reflexivity | exact B].
    + intros Hf. apply orb_false_iff in Hf as [Hf Hbeh]. apply stops_ok_snoc; [apply H4, Hf|].
      intros v xs' rs' num' E. inversion E; subst v xs' rs' num'. intros name N HN k.
      unfold r_stop_ok in Eok. apply andb_true_iff in Eok as [Eok _]. rewrite forallb_forall in Eok.
      specialize (Eok (name, N) HN). cbn [fst snd] in Eok. unfold s_stop_ok in Eok. apply andb_true_iff in Eok as [E1 E2].
      unfold r_behind in Hbeh. assert (Hb : s_behind (sget r name) = false).
      { destruct (s_behind (sget r name)) eqn:Eb; [|reflexivity]. exfalso.
        assert (Hex : existsb (fun kv => s_behind (sget r (fst kv))) num = true)
          by (apply existsb_exists; exists (name, N); split; [exact HN | exact Eb]).
        rewrite Hex in Hbeh. discriminate Hbeh. }
      unfold s_behind in Hb. apply negb_false_iff in Hb. apply andb_true_iff in Hb as [Hex Htop].
      rewrite Hex in E2. apply Nat.eqb_eq in E2, Htop.
      destruct (Fr2 name) as (_ & _ & C). rewrite Eu in C. rewrite C. lia.
Qed.

Lemma hist_obs rec m o m' ds : mon_obs rec m o = Some m' -> hist_inv m ds -> hist_inv m' (ds ++ docs_of [o]).
Proof.
  intros H HI. unfold mon_obs in H. destruct (m_expect m) as [|d q] eqn:Ee.
  - destruct o as [mm|r|a b|d|dv mt|pid i|ot s df rs|w|ok|n];
      try (inversion H; subst; cbn [docs_of flat_map app]; rewrite app_nil_r; exact HI).
    + destruct (is_susp_msg mm); inversion H; subst; cbn [docs_of flat_map app]; rewrite app_nil_r; [|exact HI].
      eapply hist_ext; [| | |apply hist_weaken; exact HI]; reflexivity.
    + destruct (rstate_eqb a (m_st m) && _); inversion H; subst. cbn [docs_of flat_map app]. rewrite app_nil_r.
      eapply hist_ext; [| | |exact HI]; reflexivity.
    + cbn [docs_of flat_map app].
      assert (Hgen : doc_effect rec m d = Some m' -> hist_inv m' (ds ++ [d])) by (intros Hd; eapply hist_doc_effect; eassumption).
      destruct d as [u|u name objs|u name n data|u n|u xs rs num]; try (apply Hgen; exact H); try discriminate.
      destruct name as [|[|name]]; try (apply Hgen; exact H). destruct objs; [discriminate | apply Hgen; exact H].
  - destruct o as [mm|r|a b|d'|dv mt|pid i|ot s df rs|w|ok|n]; try discriminate.
    destruct (doc_eq_dec d' d) as [->|]; [|discriminate]. cbn [docs_of flat_map app].
    destruct d as [u|u name objs|u name n data|u n|u xs rs num]; try discriminate.
    + destruct (on_run u _ (m_open m)) as [l'|] eqn:Eo; [|discriminate]. inversion H; subst m'; clear H.
      eapply hist_on_run; [exact HI | exact Eo | reflexivity | intros; discriminate | | reflexivity..].
      intros r r' Hu Hf Hs. inversion Hf; subst r'. split; [|reflexivity].
      apply sok_nonevent; [intros nm; reflexivity|]. eapply sok_ext; [| |exact Hs]; reflexivity.
    + eapply hist_doc_effect; [exact H|]. eapply hist_ext; [| | |exact HI]; reflexivity.
Qed.

Lemma hist_run rec : forall l m m' ds, mon_run rec m l = Some m' -> hist_inv m ds -> hist_inv m' (ds ++ docs_of l).
Proof.
  induction l as [|o l IH]; intros m m' ds H HI; cbn in H.
  - inversion H; subst. cbn. rewrite app_nil_r. exact HI.
  - destruct (mon_obs rec m o) as [m1|] eqn:E; [|discriminate].
    change (o :: l) with ([o] ++ l). rewrite docs_of_app, app_assoc. eapply IH; [exact H|]. eapply hist_obs; eassumption.
Qed.

Lemma hist_steps rec : forall l m m' ds,
  mon_steps rec m l = Some m' -> hist_inv m ds -> hist_inv m' (ds ++ docs_of (flat_map snd l)).
Proof.
  induction l as [|[e o] l IH]; intros m m' ds H HI; cbn in H.
  - inversion H; subst. cbn. rewrite app_nil_r. exact HI.
  - destruct (mon_step rec m (e, o)) as [m1|] eqn:E; [|discriminate].
    cbn [flat_map snd]. rewrite docs_of_app, app_assoc. eapply IH; [exact H|].
    unfold mon_step in E. cbn [fst snd] in E.
    match type of E with context [mon_run rec ?m0 o] => destruct (mon_run rec m0 o) as [m2|] eqn:E2; [|discriminate];
      assert (Hv : hist_inv m0 ds) end.
    { destruct e as [a|a| | | | | | | | | | |]; try exact HI. destruct a; try exact HI.
      destruct (rstate_eqb (m_st m) Paused); [|exact HI].
      eapply hist_ext; [| | |apply hist_weaken; exact HI]; reflexivity. }
    destruct (m_expect m2); [|discriminate]. inversion E; subst. eapply hist_run; eassumption.
Qed.

(* ================================================================== the counting clause *)
(* For an accepted trace that never stops a run behind a rewind: at every RunStop, for every stream
   it reports, the seq_nums emitted in that stream of that run are exactly 1 .. num_events. *)
Theorem stops_exact rec l m' :
  mon_steps rec mon0 l = Some m' -> m_flag m' = false -> stops_ok (docs_of (flat_map snd l)).
Proof.
  intros H Hf. pose proof (hist_steps rec l mon0 m' [] H hist_init) as (_ & _ & _ & H4). cbn [app] in H4. exact (H4 Hf).
Qed.

(* ... hence num_events is the number of distinct seq_nums emitted and (when positive) the largest one *)
Lemma exact_set_count (l : list nat) N :
  (forall k, In k l <-> (1 <= k /\ k <= N)) ->
  List.length (nodup Nat.eq_dec l) = N /\ (forall k, In k l -> k <= N) /\ (1 <= N -> In N l).
Proof.
  intros H. split; [|split].
  - assert (P : Permutation (nodup Nat.eq_dec l) (seq 1 N)).
    { apply NoDup_Permutation; [apply NoDup_nodup | apply seq_NoDup|].
      intros k. rewrite nodup_In, in_seq, H. lia. }
    rewrite (Permutation_length P). apply seq_length.
  - intros k Hk. apply H in Hk. lia.
  - intros HN. apply H. lia.
Qed.

Section Engine.
Variable P : Type.
Variable presume : P -> input -> outcome P.
Variable plan_of : nat -> P.
Variable D : Type.
Variable dev : D -> nat -> devmeth -> D * devres.

(* every run of the engine model, outside finding class C05-b *)
Theorem run_stops_exact d paus stag rec evs :
  let tr := snd (run_steps P presume plan_of D dev (init P D d paus stag rec) evs) in
  stopped_behind rec tr = false ->
  forall l1 u xs rs num l2, docs_of (flat_map snd tr) = l1 ++ DStop u xs rs num :: l2 ->
  forall name N, In (name, N) num ->
    (forall k, In k (seqs u name l1) <-> (1 <= k /\ k <= N)) /\
    List.length (nodup Nat.eq_dec (seqs u name l1)) = N /\
    (forall k, In k (seqs u name l1) -> k <= N) /\ (1 <= N -> In N (seqs u name l1)).
Proof.
  intros tr Hb l1 u xs rs num l2 E name N HN.
  destruct (run_docs_accepted P presume plan_of D dev d paus stag rec evs) as (m' & Em & _).
  fold tr in Em. unfold stopped_behind in Hb. rewrite Em in Hb.
  pose proof (stops_exact rec tr m' Em Hb _ _ _ _ _ _ E name N HN) as Hx.
  split; [exact Hx | apply exact_set_count; exact Hx].
Qed.
End Engine.
