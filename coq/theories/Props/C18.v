(* C18 - subscriptions live exactly as long as they were asked to.
   Model: Engine/Dispatcher.v (CallbackRegistry + Dispatcher + RunEngine temporary tokens, as coded).
   Specification: the second half of that file - the list of live subscriptions in the order made;
   a permanent one lives until its own token is unsubscribed (or unsubscribe_all/reset), a per-call or
   in-plan one until its in-plan unsubscribe or the end of its call; every emitted document goes once to
   every subscription that is live WHEN THE DOCUMENT IS EMITTED and asks for its kind (a callback that
   unsubscribes somebody, or subscribes somebody new, while the document is being delivered affects the
   following documents only).  Observations ([obs]) are the returned tokens, and per call
   the emitted documents each with the callables invoked (and whether they raised), the tokens handed
   to the plan, and the call's outcome. *)
From BV Require Import Base.Prelude Engine.Dispatcher Proofs.Dispatcher.

(* For EVERY history of subscribe / unsubscribe / set-policy / call(per-call subs, plan with in-plan
   subscribe and unsubscribe) / unsubscribe_all / reset, of any length, with any callables (raising or
   not, equal or not, and possibly unsubscribing tokens or subscribing further callables from inside the
   callback while a document is being delivered): unless the history is in finding class C18-a, what the code's model delivers is
   exactly what the live-subscription specification says - same tokens, same documents, same callables
   in the same order, same outcomes.  Nothing else is delivered, nothing is missed. *)
Theorem C18_live_subscriptions :
  forall h : list op, finding_C18_a h = false -> run_hist h = spec_hist h.
Proof. exact live_ok. Qed.
Print Assumptions C18_live_subscriptions.

(* The class is not empty and the unchanged code violates the property inside it: f subscribed for good,
   passed again as a per-call subscription, is silenced from the next call on. *)
Definition C18_a_witness : list op :=
  let f := mk_fn 0 0 [] in
  [Subscribe f NAll; RunCall [(NAll, [f])] [POpen; PClose]; RunCall [] [POpen; PEvent; PClose]].

Theorem C18_a_refuted :
  exists h, finding_C18_a h = true /\ run_hist h <> spec_hist h.
Proof.
  exists C18_a_witness. split; [vm_compute; reflexivity|].
  intros H. vm_compute in H. discriminate H.
Qed.
Print Assumptions C18_a_refuted.

(* The specification itself says what the property says (so that the equality above means something):
   after any call made between calls no temporary (per-call / in-plan) subscription is live any more, and
   every subscription that was live before is still live provided its own token is not unsubscribed - by an
   'unsubscribe' message of the plan or from inside a callback of a live, per-call or in-plan subscription. *)
Theorem C18_spec_keeps_and_drops :
  forall s subs plan,
    (forall x, In x (live s) -> s_temp x = false) ->
    let s' := fst (sp_run_call s subs plan) in
    (forall x, In x (live s') -> s_temp x = false) /\
    (forall x, In x (live s) -> unsub_free (s_tok x) plan -> plan_hands_off (s_tok x) plan ->
       (forall y, In y (live s) -> hands_off (s_tok x) (s_fn y)) ->
       (forall n fs f, In (n, fs) subs -> In f fs -> hands_off (s_tok x) f) ->
       In x (live s')).
Proof. exact spec_call_keeps_and_drops. Qed.
Print Assumptions C18_spec_keeps_and_drops.

(* Non-vacuity: a history outside the class with permanent, per-call and in-plan subscriptions of three
   different callables, an in-plan unsubscribe, an unsubscribe between calls, and documents delivered. *)
Definition C18_example : list op :=
  let f := mk_fn 0 0 [] in let g := mk_fn 1 1 [] in let k := mk_fn 2 2 [] in
  [Subscribe f NAll;
   RunCall [(NSig SStop, [g])] [POpen; PSub k (NSig SEvent); PEvent; PUnsub 2; PEvent; PClose];
   Unsubscribe 0;
   RunCall [] [POpen; PEvent; PClose]].

Example C18_nonvacuous :
  finding_C18_a C18_example = false /\
  run_hist C18_example =
    [OTok 0;
     OCall [E (DStart 0) [(0, false)]; E (DDescriptor 0) [(0, false)];
            E (DEvent 0 1) [(0, false); (2, false)]; E (DEvent 0 2) [(0, false)];
            E (DStop 0 true) [(0, false); (1, false)]] [2] Done;
     ONone;
     OCall [E (DStart 0) []; E (DDescriptor 0) []; E (DEvent 0 1) []; E (DStop 0 true) []] [] Done].
Proof. split; vm_compute; reflexivity. Qed.
