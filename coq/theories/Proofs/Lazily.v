(* C23: lazily_stage_wrapper (Gen/Insert.v, section LazilyStage; the code with fixes/C23-a.diff: fixed = true). *)
From BV Require Import Base.Prelude Gen.Coalg Gen.Mutators Gen.Paired Gen.Insert.
From BV Require Import Proofs.Coalg Proofs.Paired Proofs.PairedThm Proofs.Relative.

Section LazilyProofs.
  Context {P : Type}.
  Variable resume : P -> input -> outcome P.
  Variable mk : mview -> msg.
  Variable view : msg -> mview.
  Variable is_status : val -> bool.
  Variable root : dev -> dev.
  Variable resp_devs : val -> option (list dev).

  Notation decide := (lazy_decide mk view root resp_devs true).
  Notation ins := (ins_resume resume decide).
  Notation lp := (lp_resume is_status).

  Theorem lazy_trace :
    forall p s, plain s = true ->
      trace (lazy_resume resume mk view is_status root resp_devs true) (lazy_init p) (Send VNone :: s)
      = s2_ref ins ins_store lp (fw_next (lazy_undo mk)) (IStart p ([], [])) (Send VNone :: s).
  Proof.
    intros p s Hp. unfold lazy_resume, lazy_init, lazy_fin_resume, fw_resume.
    etransitivity; [apply d_start_trace; exact Hp|].
    apply s2_start_trace. exact Hp.
  Qed.

  (* the plan_mutator layer ended plainly with [st] = (devices_staged, roots staged) and every unstage message is
     answered (no Status among the answers): unstage of every recorded device, last recorded first, once per entry *)
  Theorem lazy_unstages_all :
    forall p s ms t st vs rest c,
      plain s = true ->
      split ins ins_store (IStart p ([], [])) (Send VNone :: s) = (ms, Some (t, st, map Send vs ++ rest)) ->
      plain_end t = Some c -> length vs = length (fst st) -> existsb is_status vs = false ->
      trace (lazy_resume resume mk view is_status root resp_devs true) (lazy_init p) (Send VNone :: s)
      = map OYield ms ++ map OYield (map (fun d => mk (VUnstage d G_UNSTAGE)) (rev (fst st))) ++ [compl_obs c].
  Proof.
    intros p s ms t st vs rest c Hp HS HE HL HW.
    rewrite lazy_trace by exact Hp. unfold s2_ref. rewrite HS. f_equal.
    assert (HN : fw_next (lazy_undo mk) st t = Some (lazy_undo mk st, c)).
    { destruct t as [v|e|]; cbn in *; [now inversion HE| |discriminate].
      destruct (is_GeneratorExit e); [discriminate|now inversion HE]. }
    destruct t as [v|e|]; [| |discriminate HE]; rewrite HN;
      (apply (undo_complete is_status _ (Some (mk (VWait G_UNSTAGE))) c vs rest); [|now right]);
      now rewrite map_length, rev_length.
  Qed.

  (* ---------------- no root is staged twice; what is recorded is what the stage messages were answered with *)
  Definition lazy_inv (x : @istate P lstore) : Prop :=
    NoDup (snd (ins_store x Close)) /\
    match x with
    | IRun _ st _ (Some (_, upd)) => exists r, upd = lazy_upd resp_devs r /\ ~ In r (snd st)
    | _ => True
    end.

  Inductive lazy_recorded (st st' : lstore) : Prop :=
    | lr_same : st' = st -> lazy_recorded st st'
    | lr_new r ds : st' = (fst st ++ ds, snd st ++ [r]) -> ~ In r (snd st) -> lazy_recorded st st'.

  Lemma NoDup_snoc : forall (l : list dev) r, NoDup l -> ~ In r l -> NoDup (l ++ [r]).
  Proof.
    induction l as [|a l IH]; intros r ND HN; cbn.
    - constructor; [intros []|constructor].
    - inversion ND as [|? ? Ha NDl]; subst. constructor.
      + rewrite in_app_iff. intros [H|[H|[]]]; [contradiction|]. subst. apply HN. now left.
      + apply IH; [assumption|]. intros H. apply HN. now right.
  Qed.

  Lemma existsb_eqb_In : forall d l, existsb (Nat.eqb d) l = true <-> In d l.
  Proof.
    intros d l. rewrite existsb_exists. split.
    - intros (x & Hx & E). apply Nat.eqb_eq in E. now subst.
    - intros H. exists d. split; [assumption|apply Nat.eqb_refl].
  Qed.

  Lemma lazy_step :
    forall x i m x', lazy_inv x -> ins x i = Yielded m x' ->
      lazy_inv x' /\ lazy_recorded (ins_store x Close) (ins_store x' Close).
  Proof.
    intros x i m x' [ND HP] H.
    assert (ON : forall p' st seen m0, NoDup (snd st) -> ins_on_msg decide p' st seen m0 = Yielded m x' ->
                 lazy_inv x' /\ lazy_recorded st (ins_store x' Close)).
    { intros p' st seen m0 NDs HO. unfold ins_on_msg in HO.
      destruct (mem_nat m0 seen); [inversion HO; subst; cbn; repeat split; auto; now left|].
      unfold lazy_decide in HO. destruct (lazy_obj (view m0)) as [d|].
      - destruct (existsb (Nat.eqb (root d)) (snd st)) eqn:E.
        + inversion HO; subst; cbn; repeat split; auto; now left.
        + inversion HO; subst; cbn. split; [split; [assumption|]|now left].
          exists (root d). split; [reflexivity|]. intros HIn. apply existsb_eqb_In in HIn. congruence.
      - inversion HO; subst; cbn; repeat split; auto; now left. }
    destruct x as [p st|p st seen [[m0 upd]|]]; cbn in H, ND.
    - destruct i as [[|z]|e|]; try discriminate.
      destruct (resume p (Send VNone)) as [m1 p'|v|e|]; try discriminate. now apply (ON p' st [] m1).
    - destruct HP as (r & -> & HnIn). destruct i as [ans|e|].
      + unfold lazy_upd in H at 1.
        assert (OK : forall ds, Yielded m0 (IRun p (fst st ++ ds, snd st ++ [r]) seen None) = Yielded m x' ->
                     lazy_inv x' /\ lazy_recorded st (ins_store x' Close)).
        { intros ds HY. inversion HY; subst. cbn. split; [split; [|exact I]|].
          - now apply NoDup_snoc.
          - eapply lr_new; eauto. }
        destruct ans as [|z].
        * now apply (OK [r]).
        * destruct (resp_devs (VInt z)) as [ds|].
          -- now apply (OK ds).
          -- cbn in H. destruct (resume p (Throw ETypeError)) as [m1 p'|v|e|]; try discriminate.
             now apply (ON p' st seen m1).
      + destruct (is_GeneratorExit e).
        * unfold ins_close in H. destruct (close_result (resume p Close)); discriminate.
        * destruct (is_Exception e); [|discriminate].
          destruct (resume p (Throw e)) as [m1 p'|v|e1|]; try discriminate. now apply (ON p' st seen m1).
      + unfold ins_close in H. destruct (close_result (resume p Close)); discriminate.
    - destruct i as [ans|e|].
      + destruct (resume p (Send ans)) as [m1 p'|v|e1|]; try discriminate. now apply (ON p' st seen m1).
      + destruct (is_GeneratorExit e).
        * unfold ins_close in H. destruct (close_result (resume p Close)); discriminate.
        * destruct (is_Exception e); [|discriminate].
          destruct (resume p (Throw e)) as [m1 p'|v|e1|]; try discriminate. now apply (ON p' st seen m1).
      + unfold ins_close in H. destruct (close_result (resume p Close)); discriminate.
  Qed.

  Lemma lazy_inv_step : forall x i m x', lazy_inv x -> ins x i = Yielded m x' -> lazy_inv x'.
  Proof. intros x i m x' HI H. now destruct (lazy_step x i m x' HI H). Qed.

  (* along every run: the list of staged roots has no duplicates (a root is staged once), and each step leaves
     devices_staged alone or appends the answer of ONE stage message, for a root not staged before *)
  Theorem lazy_roots_once :
    forall p s x i m x',
      after ins (IStart p ([], [])) s = Some x -> ins x i = Yielded m x' ->
      NoDup (snd (ins_store x' Close)) /\ lazy_recorded (ins_store x Close) (ins_store x' Close).
  Proof.
    intros p s x i m x' HA H.
    assert (HI : lazy_inv x).
    { eapply (after_inv ins lazy_inv lazy_inv_step); [|exact HA]. split; [constructor|exact I]. }
    destruct (lazy_step x i m x' HI H) as [[ND _] HR]. now split.
  Qed.
End LazilyProofs.
