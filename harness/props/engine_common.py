"""Shared layer of the engine-family checks (C01..C14, C40, ...).

All engine properties share one corpus run: the cases are executed on the real RunEngine once
per (source hash, seed, tier) and cached under .cache/; the Coq evaluation of the correspondence
is cached by core.eval_cases_in_coq under the hash of the model sources + terms.
Each property module supplies only its theorem file, its oracle and its finding classes.
"""
import hashlib
import json
import multiprocessing as mp
import os
import random

from harness import core
from harness.drivers import engine_cases, engine_encode

COQ_IMPORTS = "From BV Require Import Engine.RE Engine.REInst.\nFrom Coq Require Import ZArith."
MODELLED = (
    "RunEngine.__call__/resume/abort/stop/halt/_resume_task/_run and the request coroutines are modelled by hand in "
    "Engine/RE.v at await-point granularity (one asyncio task, cancel() as a pending CancelledError, request coroutines atomic); "
    "plans are arbitrary coalgebras in the theorems and recorded tapes in the correspondence; devices are an oracle (recorded "
    "ledger in the correspondence, deterministic fake devices on the implementation side); a minimal RunBundler "
    "(open/close/create/read/save/drop, counters with snapshot/rewind, interruption records) is part of the model. "
    "Not modelled: real OS threads and the race of a request with the caller's return, SIGINT handling, the panicked path, "
    "during_task, wait(watch=/timeout=), input, monitors/flyers/subscribe inside the engine model (covered by other properties' "
    "models), asyncio itself beyond one task, CPython generators (plans are coalgebras).")
RULE = (
    "engine corpus: 16 template plans (runs, bundles, stage/move/trigger/wait, clear_checkpoint, try/finally, try/except, sleep, "
    "two runs, run keys, no run, rewindable toggles, pause message, deferred pause, run left open, raising plan, unknown command) "
    "x every `_run` step index x {pause, deferred pause, suspend(+release), abort, stop, halt} x post-pause decisions "
    "(resume/abort/stop/halt sequences); pairs of requests in a 3-step window; suspensions with pre/post plans and interruption "
    "recording; device faults; hand-finished statuses (success/failure); plus seeded random plans/schedules. "
    "non-trivial = at least one request/fault/status event actually executed; distinct by case JSON")


def src_hash():
    h = hashlib.sha256()
    root = os.path.join(core.REPO, "src", "bluesky")
    for d, dirs, fs in sorted(os.walk(root)):
        dirs.sort()
        if "tests" in d.split(os.sep):
            continue
        for f in sorted(fs):
            if f.endswith(".py"):
                h.update(f.encode())
                h.update(open(os.path.join(d, f), "rb").read())
    for f in ("engine_driver.py", "engine_cases.py", "engine_encode.py"):
        h.update(open(os.path.join(core.VERIF, "harness", "drivers", f), "rb").read())
    return h.hexdigest()[:20]


def _work_chunk(chunk):
    from harness.drivers.engine_driver import run_case
    out = []
    for c in chunk:
        try:
            out.append(run_case(c))
        except Exception as e:  # pragma: no cover
            out.append({"errors": ["worker: %r" % (e,)], "sched": [], "obs": [], "tapes": {}, "msgs": [], "devcalls": []})
    return out


def run_all(cases, procs=None, chunk=8):
    procs = procs or core.NCPU
    ctx = mp.get_context("spawn")
    outs = [None] * len(cases)
    pool = ctx.Pool(procs, maxtasksperchild=40)
    try:
        jobs = [(k, pool.apply_async(_work_chunk, (cases[k:k + chunk],))) for k in range(0, len(cases), chunk)]
        for k, j in jobs:
            n = len(cases[k:k + chunk])
            try:
                res = j.get(timeout=40 * chunk)
            except Exception as e:
                res = [{"errors": ["pool: %r" % (e,)], "sched": [], "obs": [], "tapes": {}, "msgs": [], "devcalls": []}] * n
            outs[k:k + n] = res
    finally:
        pool.terminate()
    return outs


def gen_cases(rng, tier):
    return engine_cases.gen(rng, tier)


def stagest_variants(cases, every=1):
    """ORACLE-ONLY siblings of `cases`: the same plans/injections with devices whose stage()/unstage() return a Status
    (ophyd-async style) instead of a list - the branch of RunEngine._stage/_unstage after `isinstance(ret, Status)`.
    Only cases whose plans stage or unstage something are taken (every `every`-th of them)."""
    out = []
    n = 0
    for c in cases:
        if '"stage"' not in json.dumps(c.get("plan", c.get("calls"))) and '"unstage"' not in json.dumps(c.get("plan", c.get("calls"))):
            continue
        n += 1
        if n % every:
            continue
        d = json.loads(json.dumps(c))
        d["devs"] = [sorted(set(fl) | {"stagest"}) if "stage" in fl else list(fl) for fl in d.get("devs", [["stage"], [], ["pause"]])]
        d["tag"] = (d.get("tag", "") + " stagest").strip()
        out.append(d)
    return out


def impl_batch(cases):
    """Run the implementation on the case list; results are cached per case under the hash of the
    sources (/repo/src/bluesky + the drivers), so engine properties with overlapping corpora share runs."""
    d = os.path.join(core.VERIF, ".cache", "engine")
    os.makedirs(d, exist_ok=True)
    p = os.path.join(d, src_hash() + ".jsonl")
    known = {}
    if os.path.exists(p):
        for line in open(p):
            try:
                k, v = json.loads(line)
                known[k] = v
            except Exception:
                pass
    keys = [hashlib.sha256(json.dumps(c, sort_keys=True).encode()).hexdigest()[:24] for c in cases]
    todo = [i for i, k in enumerate(keys) if k not in known]
    if todo:
        outs = run_all([cases[i] for i in todo])
        # harness-level failures (a case timing out under load, a lost worker) are retried before they count
        for attempt in range(2):
            redo = [j for j, o in enumerate(outs) if o.get("errors")]
            if not redo:
                break
            again = run_all([cases[todo[j]] for j in redo], procs=4, chunk=2)
            for j, o in zip(redo, again):
                outs[j] = o
        outs = json.loads(json.dumps(outs, default=str))
        with open(p, "a") as f:
            for i, o in zip(todo, outs):
                known[keys[i]] = o
                # results with harness-level errors (timeouts under load) are not cached
                if not o.get("errors"):
                    f.write(json.dumps([keys[i], o]) + "\n")
        files = sorted((os.path.getmtime(os.path.join(d, f)), f) for f in os.listdir(d))
        for _, f in files[:-4]:
            os.unlink(os.path.join(d, f))
    return [known[k] for k in keys]


def coq_term(case, obs):
    if obs.get("errors"):
        return None
    try:
        return engine_encode.coq_check_term(case, obs)
    except engine_encode.Unsupported:
        return None


def nontrivial(case, obs):
    return any(e[0] in ("req_done", "status_done") for e in obs.get("sched", [])) or bool(case.get("faults"))


def describe(case):
    t = case.get("tag", "?")
    if t == "random":
        return "random"
    parts = t.split(" ")
    return parts[1].split("@")[0] if len(parts) > 1 else t


# ----------------------------------------------------------------------------- helpers for oracles

def outs_of(obs):
    """[(action, kind, detail, state, deferred)] for every blocking call of the case."""
    res = []
    for o in obs["obs"]:
        if o[0] == "out":
            res.append({"action": o[1], "kind": o[2], "state": o[-3], "deferred": o[-2], "resumable": o[-1],
                        "exn": o[3] if o[2] == "raise" else None, "raw": o})
    return res


def accepted_requests(obs):
    """kinds of the request coroutines that ran without raising, in order"""
    return [e[1] for e in obs["sched"] if e[0] == "req_done" and e[3] == "ok"]


def docs_of(obs):
    return [o for o in obs["obs"] if o[0] == "doc"]
