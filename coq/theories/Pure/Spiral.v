(* Model of bluesky.plan_patterns.spiral, spiral_fermat (with fixes/C27-a.diff applied) and
   spiral_square_pattern (src/bluesky/plan_patterns.py:18-257), written once over [Ops F].

   cos, sin, tan, sqrt, x**2 (libm pow) and the constants pi, 137.508 are NOT modelled: they are
   the fields of a [Trig F] record -- arbitrary functions/values in the theorems (Q instance),
   tables recorded from the implementation run in the float instance.

   Python exceptions are results: ZeroDiv (ZeroDivisionError of a Python-float division),
   OverflowErr / ValueErr (int() of the inf / nan a numpy division by zero produced),
   StopIter (cycler's `+=` raises StopIteration when the two point lists are empty).
   The loops of the real code are `for ... in range(...)` over ranges fixed before the loop
   starts, so they are structural recursion over [zrange]; there is no while loop and no fuel.
   No proofs in this file. *)
From Coq Require Import ZArith QArith Qabs List Bool.
From Coq Require Import PrimFloat.
From BV Require Import Base.Prelude Base.OrdField.
Import ListNotations.

Inductive res (A : Type) : Type :=
| Ok (a : A) | ZeroDiv | OverflowErr | ValueErr | StopIter.
Arguments Ok {A}. Arguments ZeroDiv {A}. Arguments OverflowErr {A}. Arguments ValueErr {A}. Arguments StopIter {A}.

Definition res_bind {A B} (r : res A) (f : A -> res B) : res B :=
  match r with Ok a => f a | ZeroDiv => ZeroDiv | OverflowErr => OverflowErr | ValueErr => ValueErr | StopIter => StopIter end.
Definition res_map {A B} (f : A -> B) (r : res A) : res B := res_bind r (fun a => Ok (f a)).

Fixpoint res_mapM {A B} (f : A -> res B) (l : list A) : res (list B) :=
  match l with
  | [] => Ok []
  | a :: l' => res_bind (f a) (fun b => res_bind (res_mapM f l') (fun bs => Ok (b :: bs)))
  end.

Record Trig (F : Type) : Type := mkTrig {
  pi : F;                 (* np.pi *)
  c137508 : F;            (* the literal 137.508 *)
  cosf : F -> F;          (* np.cos *)
  sinf : F -> F;          (* np.sin *)
  tanf : F -> F;          (* np.tan *)
  sqrtf : F -> F;         (* np.sqrt *)
  sqf : F -> F            (* v ** 2  (libm pow) *)
}.
Arguments pi {F}. Arguments c137508 {F}. Arguments cosf {F}. Arguments sinf {F}.
Arguments tanf {F}. Arguments sqrtf {F}. Arguments sqf {F}.

(* one candidate of the spiral loops: the angle fed to cos/sin, the raw offsets (x, y), accepted? *)
Record cand (F : Type) : Type := mkCand { c_angle : F; c_x : F; c_y : F; c_ok : bool }.
Arguments mkCand {F}. Arguments c_angle {F}. Arguments c_x {F}. Arguments c_y {F}. Arguments c_ok {F}.

Section Spiral.
Context {F : Type} (O : Ops F) (T : Trig F).

Declare Scope ops_scope.
Local Infix "+" := (add O) : ops_scope.
Local Infix "-" := (sub O) : ops_scope.
Local Infix "*" := (mul O) : ops_scope.
Local Infix "/" := (div O) : ops_scope.
Local Infix "<=?" := (leb O) : ops_scope.
Local Infix "=?" := (eqb O) : ops_scope.
Local Open Scope ops_scope.
Local Notation "0" := (zero O) : ops_scope.
Local Notation "1" := (one O) : ops_scope.
Local Notation fz := (of_Z O).
Local Notation two := (of_Z O 2).

(* dr_aspect *)
Definition aspect (dr : F) (dr_y : option F) : res F :=
  match dr_y with
  | None => Ok 1
  | Some d => if dr =? 0 then ZeroDiv else Ok (d / dr)
  end.

(* half_y = y_range / (2 * dr_aspect) *)
Definition half_y_of (y_range a : F) : res F :=
  let d := two * a in if d =? 0 then ZeroDiv else Ok (y_range / d).

(* int(a / b) where a is a numpy float: b == 0 gives inf or nan (warning only), int() raises *)
Definition np_div_int (a b : F) : res Z :=
  if b =? 0 then (if a =? 0 then ValueErr else OverflowErr) else Ok (trunc O (a / b)).

(* the acceptance test shared by spiral and (after fixes/C27-a.diff) spiral_fermat:
     (abs(x - (y / dr_aspect) / tilt_tan) <= half_x) and (abs(y / dr_aspect) <= half_y)
   tilt_tan is a numpy float: dividing by 0 gives inf/nan and the comparison is False *)
Definition accept (half_x half_y a tt x y : F) : bool :=
  if tt =? 0 then false
  else (abs O (x - (y / a) / tt) <=? half_x) && (abs O (y / a) <=? half_y).

(* ---------------------------------------------------------------- spiral *)
Definition spiral_ring (half_x half_y a tt dr nth : F) (i : Z) : res (list (cand F)) :=
  let radius := fz i * dr in
  let d := fz i * nth in
  if d =? 0 then ZeroDiv                                  (* 2.0 * np.pi / (i_ring * nth) *)
  else
    let angle_step := (two * pi T) / d in
    Ok (map (fun k =>
               let angle := fz k * angle_step in
               let x := radius * cosf T angle in
               let y := (radius * sinf T angle) * a in
               mkCand angle x y (accept half_x half_y a tt x y))
            (zrange 0 (trunc O d))).                      (* range(int(i_ring * nth)) *)

Definition spiral_trace (x_range y_range dr nth : F) (dr_y : option F) (tilt : F) : res (list (cand F)) :=
  res_bind (aspect dr dr_y) (fun a =>
  let half_x := x_range / two in
  res_bind (half_y_of y_range a) (fun half_y =>
  let r_max := sqrtf T (sqf T half_x + sqf T half_y) in
  res_bind (np_div_int r_max dr) (fun q =>
  let num_ring := (1 + q)%Z in
  let tt := tanf T (tilt + pi T / two) in
  res_map (@concat _)
    (res_mapM (spiral_ring half_x half_y a tt dr nth) (zrange 1 (num_ring + 2)))))).

Definition emit (x_start y_start : F) (tr : list (cand F)) : list (F * F) :=
  map (fun c => (x_start + c_x c, y_start + c_y c)) (filter c_ok tr).

(* cyc = cycler(x_motor, x_points); cyc += cycler(y_motor, y_points) : StopIteration when empty *)
Definition cyc_add (pts : list (F * F)) : res (list (F * F)) :=
  match pts with [] => StopIter | _ => Ok pts end.

Definition spiral (x_start y_start x_range y_range dr nth : F) (dr_y : option F) (tilt : F)
  : res (list (F * F)) :=
  res_bind (spiral_trace x_range y_range dr nth dr_y tilt) (fun tr => cyc_add (emit x_start y_start tr)).

(* ---------------------------------------------------------------- spiral_fermat (fixed) *)
Definition fermat_trace (x_range y_range dr factor : F) (dr_y : option F) (tilt : F) : res (list (cand F)) :=
  res_bind (aspect dr dr_y) (fun a =>
  let phi := (c137508 T * pi T) / fz 180 in
  let half_x := x_range / two in
  res_bind (half_y_of y_range a) (fun half_y =>
  let tt := tanf T (tilt + pi T / two) in
  let diag := sqrtf T (sqf T half_x + sqf T half_y) in
  if factor =? 0 then ZeroDiv                              (* dr / factor *)
  else
    let q := dr / factor in
    let n := (fz 3 / two) * diag in
    (* int((1.5 * diag / (dr / factor)) ** 2) *)
    res_bind (if q =? 0 then (if n =? 0 then ValueErr else OverflowErr)
              else Ok (trunc O (sqf T (n / q)))) (fun num_rings =>
    Ok (map (fun i =>
               let radius := (sqrtf T (fz i) * dr) / factor in
               let angle := phi * fz i in
               let x := radius * cosf T angle in
               let y := (radius * sinf T angle) * a in
               mkCand angle x y (accept half_x half_y a tt x y))
            (zrange 1 num_rings))))).

Definition spiral_fermat (x_start y_start x_range y_range dr factor : F) (dr_y : option F) (tilt : F)
  : res (list (F * F)) :=
  res_bind (fermat_trace x_range y_range dr factor dr_y tilt) (fun tr => cyc_add (emit x_start y_start tr)).

End Spiral.

(* ---------------------------------------------------------------- spiral_square_pattern *)
(* Integer index walk.  x_offset is 0.5 (x_num even) or 0, y_offset is -0.5 (y_num even) or 0;
   the code compares  abs(k - offset)  with  num / 2  in exact (half-integer) float arithmetic;
   the model compares the doubled integers  |2k - 2*offset|  and  num. *)
Definition xo2 (x_num : Z) : Z := if (x_num mod 2 =? 0)%Z then 1%Z else 0%Z.
Definition yo2 (y_num : Z) : Z := if (y_num mod 2 =? 0)%Z then (-1)%Z else 0%Z.
Definition inx (x_num k : Z) : bool := (Z.abs (2 * k - xo2 x_num) <? x_num)%Z.
Definition iny (y_num k : Z) : bool := (Z.abs (2 * k - yo2 y_num) <? y_num)%Z.

(* first index of each axis: the grid is  [kmin, kmin + num)  (see Proofs: inx_range, iny_range) *)
Definition kmin (n o2 : Z) : Z := ((1 - n + o2) / 2)%Z.

(* one `SIDE` block: its guard, and the candidate points of its for-loop with their own guard *)
Definition seg : Type := bool * list ((Z * Z) * bool).

Definition ring_segs (x_num y_num i : Z) : list seg :=
  [ ((Z.abs (2 * (i - 1) - xo2 x_num) <=? x_num)%Z,                      (* SIDE 1 (note <=) *)
     map (fun n => ((i - 1, n), iny y_num n)%Z) (zrange_dn (i - 2) (- i)));
    (iny y_num (- i + 1),                                                  (* SIDE 2 *)
     map (fun n => ((n, - i + 1), inx x_num n)%Z) (zrange_dn (i - 2) (- i)));
    (inx x_num (- i + 1),                                                  (* SIDE 3 *)
     map (fun n => ((- i + 1, n), iny y_num n)%Z) (zrange (- i + 2) i));
    (iny y_num (i - 1),                                                    (* SIDE 4 *)
     map (fun n => ((n, i - 1), inx x_num n)%Z) (zrange (- i + 2) i)) ].

(* state: (num_pnts_fnd, points found so far, newest first) *)
Definition sq_state : Type := Z * list (Z * Z).

Definition step_pt (total : Z) (st : sq_state) (c : (Z * Z) * bool) : sq_state :=
  if snd c && (fst st <? total)%Z then ((fst st + 1)%Z, fst c :: snd st) else st.

Definition step_seg (total : Z) (st : sq_state) (s : seg) : sq_state :=
  if fst s && (fst st <? total)%Z then fold_left (step_pt total) (snd s) st else st.

Definition all_segs (x_num y_num : Z) : list seg :=
  flat_map (ring_segs x_num y_num) (zrange 2 (Z.max x_num y_num + 1)).

(* the index pairs after the unconditional first point (0,0), in walking order *)
Definition square_rest (x_num y_num : Z) : list (Z * Z) :=
  rev (snd (fold_left (step_seg (x_num * y_num)) (all_segs x_num y_num) (1%Z, []))).

Definition square_idx (x_num y_num : Z) : list (Z * Z) := (0, 0)%Z :: square_rest x_num y_num.

Section Square.
Context {F : Type} (O : Ops F).

Definition sq_off (o2 : Z) : F :=          (* 0.5, -0.5 or 0 *)
  if (o2 =? 0)%Z then zero O else div O (of_Z O o2) (of_Z O 2).

Definition sq_coord (center delta off : F) (k : Z) : F :=
  add O (sub O center (mul O delta off)) (mul O delta (of_Z O k)).

Definition spiral_square_pattern (x_center y_center x_range y_range : F) (x_num y_num : Z)
  : res (list (F * F)) :=
  if ((x_num - 1 =? 0) || (y_num - 1 =? 0))%Z then ZeroDiv
  else
    let xd := div O x_range (of_Z O (x_num - 1)) in
    let yd := div O y_range (of_Z O (y_num - 1)) in
    let xoff := sq_off (xo2 x_num) in
    let yoff := sq_off (yo2 y_num) in
    Ok ((sub O x_center (mul O xd xoff), sub O y_center (mul O yd yoff))
        :: map (fun p => (sq_coord x_center xd xoff (fst p), sq_coord y_center yd yoff (snd p)))
               (square_rest x_num y_num)).

End Square.

(* ---------------------------------------------------------------- vocabulary of the statements (Q) *)
(* the sheared ("tilted") rectangle of half-widths x_range/2, y_range/2 around the centre, for
   offsets (x, y) from the centre, aspect a = dr_y/dr and tt = tan(tilt + pi/2) *)
Definition in_rect (xr yr a tt x y : Q) : Prop :=
  (Qabs y <= Qabs yr / 2 /\ (0 < a -> Qabs y <= yr / 2) /\
   ~ tt == 0 /\ Qabs (x - (y / a) / tt) <= xr / 2)%Q.

(* numpy.linspace(a, b, n)[j] *)
Definition linspace (a b : Q) (n j : Z) : Q := (a + inject_Z j * ((b - a) / inject_Z (n - 1)))%Q.

(* ---------------------------------------------------------------- float instance, for the tie *)
Definition FT (cos_t sin_t tan_t sq_t : list (float * float)) : Trig float :=
  mkTrig float 0x1.921fb54442d18p+1%float 0x1.1304189374bc7p+7%float
         (flookup cos_t) (flookup sin_t) (flookup tan_t) PrimFloat.sqrt (flookup sq_t).

Definition res_beq {A} (eqb : A -> A -> bool) (r1 r2 : res A) : bool :=
  match r1, r2 with
  | Ok a, Ok b => eqb a b
  | ZeroDiv, ZeroDiv => true
  | OverflowErr, OverflowErr => true
  | ValueErr, ValueErr => true
  | StopIter, StopIter => true
  | _, _ => false
  end.

(* what the correspondence compares: the sequence of angles passed to cos (= to sin), and the
   emitted points; plus: PrimFloat.sqrt reproduces every recorded np.sqrt call *)
Definition obs_of (x_start y_start : float) (tr : list (cand float)) : res (list float * list (float * float)) :=
  res_map (fun pts => (map c_angle tr, pts)) (cyc_add (emit FO x_start y_start tr)).
Definition obs_beq (a b : list float * list (float * float)) : bool :=
  flist_beq (fst a) (fst b) && fplist_beq (snd a) (snd b).
Definition sqrt_ok (sqrt_t : list (float * float)) : bool :=
  forallb (fun p => fbeq (PrimFloat.sqrt (fst p)) (snd p)) sqrt_t.

Definition check_spiral (x0 y0 xr yr dr nth : float) (dr_y : option float) (tilt : float)
           (cos_t sin_t tan_t sq_t sqrt_t : list (float * float))
           (expected : res (list float * list (float * float))) : bool :=
  sqrt_ok sqrt_t &&
  res_beq obs_beq (res_bind (spiral_trace FO (FT cos_t sin_t tan_t sq_t) xr yr dr nth dr_y tilt) (obs_of x0 y0)) expected.

Definition check_fermat (x0 y0 xr yr dr factor : float) (dr_y : option float) (tilt : float)
           (cos_t sin_t tan_t sq_t sqrt_t : list (float * float))
           (expected : res (list float * list (float * float))) : bool :=
  sqrt_ok sqrt_t &&
  res_beq obs_beq (res_bind (fermat_trace FO (FT cos_t sin_t tan_t sq_t) xr yr dr factor dr_y tilt) (obs_of x0 y0)) expected.

Definition check_square (xc yc xr yr : float) (x_num y_num : Z) (expected : res (list (float * float))) : bool :=
  res_beq fplist_beq (spiral_square_pattern FO xc yc xr yr x_num y_num) expected.
