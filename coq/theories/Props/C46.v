(* C46 - TiledWriter stores exactly the run it was given.
   Statements only; proofs are in Proofs/TiledBatch.v, the model in Pure/TiledBatch.v.

   [run bs docs = (st, None)] : the model of _RunWriter(client, batch_size = bs), fed the documents [docs],
   raised nothing and ended in state [st]; [s_log st] is everything it asked of the Tiled client.
   All theorems hold for every batch size bs : Z (0 and negative included) and every run length. *)
From Coq Require Import String Permutation.
From BV Require Import Base.Prelude Pure.TiledBatch Proofs.TiledBatch Proofs.TiledPairs.

(* (i) internal tables: per stream name n the appended partitions, concatenated in log order, are exactly
   the rows of the events of stream n in arrival order (row = seq_num, time, data, ts_* as the code builds
   it); no partition is empty; nothing stays buffered; one table per stream that has rows.
   Hypothesis: descriptor uids (and the events' references to them) are not also stream names. *)
Theorem C46_internal_tables : forall bs docs st,
  run bs docs = (st, None) -> is_run docs -> ns_disjoint docs ->
  (forall n, concat (partitions n (s_log st)) = spec_rows [] docs n)
  /\ (forall n p, In p (partitions n (s_log st)) -> p <> [])
  /\ (forall n, cache_of n (s_icache st) = [])
  /\ NoDup (created_tables (s_log st))
  /\ (forall n, In n (created_tables (s_log st)) <-> partitions n (s_log st) <> []).
Proof. exact internal_tables_thm. Qed.
Print Assumptions C46_internal_tables.

(* (ii) external arrays.  Hypothesis: received stream datums have indices.start <= indices.stop.
   - all rows consumed by the consolidators = all rows received, as multisets of (stream resource uid, index);
   - per consolidator (= per full data key cid): the index ranges it consumed, expanded, are a permutation of
     the expanded ranges of the stream datums received for the stream resources mapped to it;
     its _num_rows is the sum of (stop - start) over those, and the last PUT carried _num_rows * leading dim;
   - every received non-empty stream datum belongs to a stream resource that is mapped to a consolidator;
   - every stream datum still sitting in the external cache after stop has been consumed (PUT in the log);
   - one array node per consolidator. *)
Theorem C46_external_arrays : forall bs docs st,
  run bs docs = (st, None) -> is_run docs -> sd_wf docs ->
  let L := s_log st in
  Permutation (flat_map tag_ind (map snd (puts L))) (flat_map tag_ind (stream_datums docs))
  /\ (forall cid, Permutation (flat_map expand_ind (puts_of cid L)) (flat_map expand_ind (received_for cid st docs)))
  /\ (forall cid c, lookup cid (s_cons st) = Some c ->
        cid = fdk (c_node c) (c_dk c) /\ c_consumed c = puts_of cid L
        /\ c_rows c = zsum (map width (received_for cid st docs))
        /\ (put_shapes cid L = [] \/ last (put_shapes cid L) 0%Z = (c_rows c * c_mult c)%Z))
  /\ (forall d, In d (stream_datums docs) -> (sd_i0 d < sd_i1 d)%Z ->
        exists cid, lookup (sd_sres d) (s_sres_nodes st) = Some cid /\ lookup cid (s_cons st) <> None)
  /\ (forall k d, In (k, d) (s_ecache st) -> In d (map snd (puts L)))
  /\ NoDup (new_arrays L) /\ new_arrays L = map fst (s_cons st).
Proof. exact external_arrays_thm. Qed.
Print Assumptions C46_external_arrays.

(* seq_nums: concatenate_stream_datums takes seq_nums.start of the first and seq_nums.stop of the last document
   (sorted by indices), so the claim needs seq_nums to run parallel to indices:
   seq_nums = indices + a constant per stream resource (RunNormalizer produces + 1). *)
Theorem C46_external_seq_nums : forall bs docs st off,
  run bs docs = (st, None) -> is_run docs -> sd_wf docs -> seq_aligned off docs ->
  let L := s_log st in
  Permutation (flat_map tag_seq (map snd (puts L))) (flat_map tag_seq (stream_datums docs))
  /\ (forall cid, Permutation (flat_map expand_seq (puts_of cid L)) (flat_map expand_seq (received_for cid st docs))).
Proof. exact external_seq_thm. Qed.
Print Assumptions C46_external_seq_nums.

(* (iii) metadata: the log starts with create_container(start uid, start document minus tiled_access_tags,
   ints clamped by truncate_json_overflow) and ends with the one update of the root metadata carrying the
   stop document next to the start document; no other root creation or root update in between. *)
Theorem C46_metadata : forall bs s body m st,
  run bs (DStart s :: body ++ [DStop m]) = (st, None) -> forallb is_body body = true ->
  exists mid,
    s_log st = LCreateRoot (st_uid s) (trunc_md (("uid"%string, VS (st_uid s)) :: st_md s)) (st_tags s)
               :: mid ++ [LUpdateRoot (trunc_md (("uid"%string, VS (st_uid s)) :: st_md s)) m]
    /\ root_updates mid = [] /\ existsb is_create_root mid = false.
Proof. exact metadata_thm. Qed.
Print Assumptions C46_metadata.

(* "one array per external data key", the part that holds for every accepted run (no hypothesis at all on
   the documents; the per-pair statement is C46_one_array_per_pair below):
   array nodes are pairwise distinct, one per consolidator, the consolidator of full data key cid sits on
   node c_node/c_dk with cid = "<c_node>_<c_dk>", and every consumed stream datum went to the consolidator
   its stream resource is mapped to. *)
Theorem C46_arrays_distinct : forall bs docs st,
  run bs docs = (st, None) -> is_run docs ->
  let L := s_log st in
  NoDup (new_arrays L) /\ new_arrays L = map fst (s_cons st)
  /\ (forall cid c, lookup cid (s_cons st) = Some c -> cid = fdk (c_node c) (c_dk c) /\ c_consumed c = puts_of cid L)
  /\ (forall cid d, In (cid, d) (puts L) ->
        lookup (sd_sres d) (s_sres_nodes st) = Some cid /\ lookup cid (s_cons st) <> None).
Proof. exact arrays_distinct_thm. Qed.
Print Assumptions C46_arrays_distinct.

(* Finding a (recorded): get_sres_node keys consolidators by the STRING "<stream name>_<data_key>"; two different
   (stream name, data_key) pairs with the same string share one array.  Witness: streams "a_b" (key "c") and
   "a" (key "b_c"): the second pair never gets an array and its rows are counted in the first one's. *)
Definition finding_C46_a (bs : Z) (docs : list doc) : Prop := finding_C46_a_b bs docs = true.

Definition witness_a : list doc :=
  [ DStart (mkStart "run-1" [("time"%string, VZ 1000)] None);
    DDescriptor (mkDesc "d1" "a_b" 1001 [("c"%string, 1%Z)] None);
    DDescriptor (mkDesc "d2" "a" 1001 [("b_c"%string, 1%Z)] None);
    DSres (mkSR "sr1" "c" "/d"); DSres (mkSR "sr2" "b_c" "/d");
    DSdatum (mkSD "sd1" "sr1" "d1" 0 2 1 3); DSdatum (mkSD "sd2" "sr2" "d2" 0 3 1 4);
    DStop [("uid"%string, VS "stop-1"); ("exit_status"%string, VS "success")] ].

Theorem C46_a_refuted : exists bs docs,
  finding_C46_a bs docs /\ snd (run bs docs) = None /\ is_run docs /\ ns_disjoint docs /\ sd_wf docs
  /\ wf_ext_b docs = true /\ arrays_by_pair_b docs (fst (run bs docs)) = false.
Proof.
  exists 1%Z, witness_a.
  split; [vm_compute; reflexivity|]. split; [vm_compute; reflexivity|].
  split; [apply is_run_b_sound; vm_compute; reflexivity|].
  split; [apply ns_disjoint_b_sound; vm_compute; reflexivity|].
  split; [apply sd_wf_b_sound; vm_compute; reflexivity|].
  split; vm_compute; reflexivity.
Qed.
Print Assumptions C46_a_refuted.

(* "One array per external data key", by (stream name, data_key) pair: outside finding class a and for
   well-formed external documents (wf_ext_b: descriptor uids and stream resource uids declared once, every stream
   datum names a declared descriptor and resource, the stream datums of one resource belong to one stream, no
   stream resource uid is itself a "<name>_<key>" string of a pair), every pair that received stream datums has
   its own consolidator / array node <name>/<key>, and that consolidator's _num_rows is exactly the number of
   rows of the stream datums of that pair (arrays_by_pair_b, Pure/TiledBatch.v). *)
Theorem C46_one_array_per_pair : forall bs docs st,
  run bs docs = (st, None) -> is_run docs -> ns_disjoint docs -> sd_wf docs ->
  wf_ext_b docs = true -> finding_C46_a_b bs docs = false ->
  arrays_by_pair_b docs st = true.
Proof. exact arrays_by_pair_thm. Qed.
Print Assumptions C46_one_array_per_pair.

(* The full statement, all parts together. *)
Definition C46_full : Prop := forall bs docs st off,
  run bs docs = (st, None) -> is_run docs -> ns_disjoint docs -> sd_wf docs -> seq_aligned off docs ->
  wf_ext_b docs = true -> ~ finding_C46_a bs docs ->
  (forall n, concat (partitions n (s_log st)) = spec_rows [] docs n)
  /\ (forall n, cache_of n (s_icache st) = [])
  /\ (forall cid, Permutation (flat_map expand_ind (puts_of cid (s_log st))) (flat_map expand_ind (received_for cid st docs)))
  /\ (forall cid, Permutation (flat_map expand_seq (puts_of cid (s_log st))) (flat_map expand_seq (received_for cid st docs)))
  /\ (exists s body m mid,
        docs = DStart s :: body ++ [DStop m]
        /\ s_log st = LCreateRoot (st_uid s) (trunc_md (("uid"%string, VS (st_uid s)) :: st_md s)) (st_tags s)
                      :: mid ++ [LUpdateRoot (trunc_md (("uid"%string, VS (st_uid s)) :: st_md s)) m]
        /\ root_updates mid = [] /\ existsb is_create_root mid = false)
  /\ arrays_by_pair_b docs st = true.

Theorem C46_full_thm : C46_full.
Proof. exact full_thm. Qed.
Print Assumptions C46_full_thm.

(* the last clause of wf_ext_b is needed: a stream resource whose uid is "primary_img" makes the array of
   (primary, img) disappear into the one of (baseline, img) (same behaviour in the real code; corpus) *)
Example C46_sres_uid_hypothesis_needed : exists bs docs st,
  run bs docs = (st, None) /\ is_run docs /\ ns_disjoint docs /\ sd_wf docs /\ finding_C46_a_b bs docs = false
  /\ sf_disjoint_b docs = false /\ arrays_by_pair_b docs st = false.
Proof.
  exists 1%Z,
    [ DStart (mkStart "run-1" [] None);
      DDescriptor (mkDesc "dP" "primary" 1001 [("img"%string, 2%Z)] None);
      DDescriptor (mkDesc "dB" "baseline" 1001 [("img"%string, 1%Z)] None);
      DSres (mkSR "primary_img" "img" "/a"); DSres (mkSR "sr1" "img" "/a");
      DSdatum (mkSD "sd1" "primary_img" "dB" 0 1 1 2); DSdatum (mkSD "sd2" "sr1" "dP" 0 2 1 3);
      DStop [] ].
  eexists. split; [vm_compute; reflexivity|]. split; [apply is_run_b_sound; vm_compute; reflexivity|].
  split; [apply ns_disjoint_b_sound; vm_compute; reflexivity|].
  split; [apply sd_wf_b_sound; vm_compute; reflexivity|].
  repeat split; vm_compute; reflexivity.
Qed.

(* The hypotheses are met by a concrete run: two streams, event pages, a configuration update, two stream
   resources for one data key, stream datums arriving out of order and merged ([1,2) then [0,1) -> [0,2)),
   batch size 2. *)
Definition example_run : list doc :=
  [ DStart (mkStart "run-1" [("time"%string, VZ 1000); ("scan_id"%string, VZ 3)] (Some ["alice"%string]));
    DDescriptor (mkDesc "dP" "primary" 1001 [("x"%string, 0%Z); ("img"%string, 3%Z)] (Some 4%Z));
    DDescriptor (mkDesc "dB" "baseline" 1002 [("z"%string, 0%Z)] None);
    DSres (mkSR "sr1" "img" "/entry/data");
    DEvent (mkEv "dP" 1 1100 [("x"%string, VZ 10)] [("x"%string, VZ 5000)]);
    DSdatum (mkSD "sd2" "sr1" "dP" 1 2 2 3);
    DEvent (mkEv "dB" 1 1101 [("z"%string, VS "a")] [("z"%string, VZ 5001)]);
    DEvent (mkEv "dP" 2 1102 [("x"%string, VZ 11)] [("x"%string, VZ 5002)]);
    DSdatum (mkSD "sd1" "sr1" "dP" 0 1 1 2);
    DSdatum (mkSD "sd3" "sr1" "dP" 2 3 3 4);
    DDescriptor (mkDesc "dP2" "primary" 1500 [("x"%string, 0%Z); ("img"%string, 3%Z)] (Some 9%Z));
    DEventPage [mkEv "dP2" 3 1103 [("x"%string, VZ 12)] [("x"%string, VZ 5003)];
                mkEv "dP2" 4 1104 [("x"%string, VZ 13)] [("x"%string, VZ 5004)];
                mkEv "dP2" 5 1105 [("x"%string, VZ 14)] [("x"%string, VZ 5005)]];
    DSres (mkSR "sr2" "img" "/entry/data");
    DSdatum (mkSD "sd4" "sr2" "dP2" 3 5 4 6);
    DStop [("uid"%string, VS "stop-1"); ("exit_status"%string, VS "success"); ("num"%string, VZ 5)] ].

Example C46_nonvacuous : exists st,
  run 2 example_run = (st, None) /\ is_run example_run /\ ns_disjoint example_run /\ sd_wf example_run
  /\ seq_aligned (off_of example_run) example_run
  /\ wf_ext_b example_run = true /\ ~ finding_C46_a 2 example_run
  /\ length (partitions "primary" (s_log st)) = 3%nat /\ map (fun p => (sd_i0 (snd p), sd_i1 (snd p))) (puts (s_log st)) = [(0, 2); (2, 3); (3, 5)]%Z
  /\ c46_holds_b 2 example_run = true /\ arrays_by_pair_b example_run st = true.
Proof.
  eexists. split; [vm_compute; reflexivity|].
  split; [apply is_run_b_sound; vm_compute; reflexivity|].
  split; [apply ns_disjoint_b_sound; vm_compute; reflexivity|].
  split; [apply sd_wf_b_sound; vm_compute; reflexivity|].
  split; [apply aligned_b_sound; vm_compute; reflexivity|].
  split; [vm_compute; reflexivity|].
  split; [unfold finding_C46_a; vm_compute; discriminate|].
  repeat split; vm_compute; reflexivity.
Qed.

(* The hypotheses are needed (both runs are in corpus/C46.jsonl and behave the same in the real code). *)

(* a descriptor whose uid is another stream's name: the buffered row of "primary" is appended to "baseline" at stop *)
Example C46_namespace_hypothesis_needed : exists bs docs st,
  run bs docs = (st, None) /\ is_run docs
  /\ concat (partitions "primary" (s_log st)) <> spec_rows [] docs "primary".
Proof.
  exists 5%Z,
    [ DStart (mkStart "run-1" [] None);
      DDescriptor (mkDesc "u1" "primary" 1001 [("x"%string, 0%Z)] None);
      DEvent (mkEv "u1" 1 1101 [("x"%string, VZ 1)] [("x"%string, VZ 5001)]);
      DDescriptor (mkDesc "primary" "baseline" 1002 [("x"%string, 0%Z)] None);
      DStop [] ].
  eexists. split; [vm_compute; reflexivity|]. split; [apply is_run_b_sound; vm_compute; reflexivity|].
  vm_compute. discriminate.
Qed.

(* seq_nums not parallel to indices: [0,2)/seq [1,3) and [2,3)/seq [10,11) are merged into seq [1,11) *)
Example C46_seq_alignment_needed : exists bs docs st,
  run bs docs = (st, None) /\ is_run docs /\ sd_wf docs
  /\ ~ Permutation (flat_map expand_seq (puts_of "p_c" (s_log st))) (flat_map expand_seq (received_for "p_c" st docs)).
Proof.
  exists 5%Z,
    [ DStart (mkStart "run-1" [] None);
      DDescriptor (mkDesc "d1" "p" 1001 [("c"%string, 1%Z)] None);
      DSres (mkSR "sr1" "c" "/d");
      DSdatum (mkSD "sd1" "sr1" "d1" 0 2 1 3); DSdatum (mkSD "sd2" "sr1" "d1" 2 3 10 11);
      DStop [] ].
  eexists. split; [vm_compute; reflexivity|]. split; [apply is_run_b_sound; vm_compute; reflexivity|].
  split; [apply sd_wf_b_sound; vm_compute; reflexivity|].
  intros P. apply Permutation_length in P. vm_compute in P. discriminate.
Qed.
