"""C41 - monitors report only while their run is open and running.

The real RunEngine (context_managers=[]) runs scenarios with monitored fake signals (a ledger of
subscribe/clear_sub calls; an update calls every registration): updates during the run, while paused (from
the main thread), inside a suspender's pre_plan / the awaited future / post_plan, after unmonitor, after
close_run, after the call; pauses ended by resume/abort/stop/halt; suspensions, overlapping suspensions, pauses
inside suspensions; monitor/unmonitor/open/close messages in pre/post plans.  One chronological log holds inputs
(what the engine was made to do, see harness/drivers/monitor_driver.py) and outputs (device ledger, Event
documents per update, message outcomes); Engine/Monitors.v is run on the inputs and has to produce exactly the
outputs."""
import logging

ID = "C41"
PROP_FILE = "Props/C41.v"
THEOREMS = ["C41_update_calls_live_registrations", "C41_never_two_registrations", "C41_no_residual_subscription",
            "C41_live_iff_running", "C41_events_iff_running", "C41_g_refuted"]
COQ_IMPORTS = "From BV Require Import Base.KeyMap Engine.Monitors.\nFrom Coq Require Import NArith ZArith."
MODELLED = ("Modelled (Engine/Monitors.v, of the code with fixes/C41-a.diff): RunBundler._monitor_params / _monitor_suspensions, "
            "monitor (already-monitored check, subscribe unless suspended), unmonitor, suspend_monitors / restore_monitors (counted), "
            "clear_monitors, the clearing in close_run; RunEngine: the monitor/unmonitor/open_run/close_run message handlers' key "
            "checks, suspend_monitors of every bundler in the pause block and in _start_suspender, restore_monitors at the wake-up "
            "and in _resume ('_resume_from_suspender'), clear_monitors + dropping the bundlers in the finally block. The device is a "
            "ledger (subscribe(cb, **kwargs) adds a registration for the channel the kwargs name - the 'monitor' message's kwargs, "
            "e.g. event_type - clear_sub removes every registration of the callback - ophyd's semantics - an update on a channel "
            "calls each registration made for that channel once, each call emits one Event of the callback's run). Environment (universally "
            "quantified in the theorems, produced by the real engine in the tie and read from its own message/state hooks): when the "
            "pause block, the wake-up, _start_suspender and _resume_from_suspender happen. Not modelled: the Event's seq_num/"
            "timestamps/descriptor (C05/C16), ophyd's immediate callback on subscribe(run=True), subscribe kwargs other than the channel, devices "
            "whose subscribe/clear_sub raise (a subscribe() that registers the callback and then raises is run on the real engine and judged by "
            "the oracle only: family `no_model`), requests from other OS threads.")
RULE = ("exhaustive (x 2: monitor without kwargs / with event_type='rb', updates on the requested and on another channel): a monitored signal with an update before, inside and after each of 16 control scenarios (pause ended by "
        "resume/abort/stop/halt; suspension with updates in pre_plan, awaited future and post_plan; overlapping second suspension; "
        "pause inside a suspension; pause then suspension; two suspensions in a row; a stray '_resume_from_suspender' message) x 6 endings (nothing, unmonitor, close_run, "
        "second run monitoring the same signal, monitor placed in the pre_plan, run opened in the pre_plan) ; random: 1-2 calls x "
        "3-10 steps over 2 run keys (+ default key), 2 signals and 3 channels (monitor kwargs and update channels drawn independently) with nested pauses/suspensions, illegal monitor/unmonitor/open/close, "
        "plans that raise; oracle-only: a device whose subscribe() registers and then raises x update before/not x 12 endings x 2 channels + a second call. non-trivial = some update produced an Event and some update made while paused/suspended produced none")

logging.getLogger("bluesky").setLevel(logging.CRITICAL + 1)

KEYS = {"A": 1, "B": 2, None: 0}
OBJS = {"o1": 1, "o2": 2}
CH = {"default": 0, "rb": 1, "sp": 2}
OUT = {"Ok": "OOk", "Illegal": "OIllegal", "RejectedDup": "ORejectedDup"}


# ----------------------------------------------------------------------------- case generation

class _V:
    def __init__(self):
        self.n = 0

    def __call__(self):
        self.n += 1
        return self.n


def _controls(v, chan="default"):
    u = lambda o="o1": ["update", o, v(), chan]  # noqa: E731
    return [
        lambda: [["pause", [u()], "resume"]],
        lambda: [["pause", [u(), u()], "abort"]],
        lambda: [["pause", [u()], "stop"]],
        lambda: [["pause", [u()], "halt"]],
        lambda: [["suspend", [], [u()], []]],
        lambda: [["suspend", [u()], [u(), u()], [u()]]],
        lambda: [["suspend", [], [u(), ["suspend2", [u()]]], []]],
        lambda: [["suspend", [u()], [["suspend2", []]], [u()]]],
        lambda: [["suspend", [], [u(), ["pause", [u()], "resume"]], []]],
        lambda: [["suspend", [], [["pause", [u()], "abort"]], []]],
        lambda: [["pause", [u()], "resume"], u(), ["suspend", [], [u()], []]],
        lambda: [["suspend", [], [u()], []], u(), ["suspend", [], [u()], []]],
        lambda: [["suspend", [], [u()], []], u(), ["pause", [u()], "resume"]],
        lambda: [["suspend", [], [u(), ["suspend2", [u(), ["pause", [u()], "resume"]]]], []]],
        lambda: [["resume_msg"], u(), ["pause", [u()], "resume"]],
        lambda: [["suspend", [["resume_msg"], u()], [u()], []]],
    ]


def _exhaustive():
    out = []
    for chan in ("default", "rb"):
        other = "sp" if chan == "rb" else "rb"
        for ci in range(16):
            for end in range(6):
                v = _V()
                u = lambda o="o1": ["update", o, v(), chan]  # noqa: E731
                uo = lambda o="o1": ["update", o, v(), other]  # noqa: E731
                mon = lambda k: ["monitor", k, "o1", chan]  # noqa: E731
                steps = [["open", "A"]]
                ctl = _controls(v, chan)[ci]()
                if end == 3:
                    steps += [["open", "B"], ["monitor", "B", "o1", other]]
                if end == 4:      # the monitor message is processed inside the suspension/pre_plan when there is one
                    sus = [s for s in ctl if s[0] == "suspend"]
                    if sus:
                        sus[0][1] = [mon("A")] + sus[0][1]
                    else:
                        steps += [mon("A")]
                elif end == 5:    # class g: a run opened while suspended
                    sus = [s for s in ctl if s[0] == "suspend"]
                    if sus:
                        sus[0][1] = [["open", "B"], mon("B")] + sus[0][1]
                    steps += [mon("A")]
                else:
                    steps += [mon("A")]
                steps += [u(), uo()] + ctl + [u(), uo()]
                if end == 1:
                    steps += [["unmonitor", "A", "o1"], u()]
                elif end == 2:
                    steps += [["close", "A"], u()]
                out.append({"calls": [{"steps": steps}, {"steps": [u(), ["open", "A"], mon("A"), u(), uo()]}]})
    return out


def _rand_simple(rng, v):
    x = rng.random()
    key = rng.choice(["A", "A", "B", None])
    obj = rng.choice(["o1", "o1", "o2"])
    chan = rng.choice(["default", "default", "rb", "sp"])
    if x < 0.36:
        return ["update", obj, v(), chan]
    if x < 0.60:
        return ["monitor", key, obj, chan]
    if x < 0.70:
        return ["unmonitor", key, obj]
    if x < 0.86:
        return ["open", key]
    if x < 0.97:
        return ["close", key]
    return ["resume_msg"]


def _rand_updates(rng, v, lo=0, hi=2):
    return [["update", rng.choice(["o1", "o1", "o2"]), v(), rng.choice(["default", "default", "rb", "sp"])]
            for _ in range(rng.randint(lo, hi))]


def _rand_pause(rng, v):
    return ["pause", _rand_updates(rng, v, 0, 2), rng.choice(["resume"] * 5 + ["abort", "stop", "halt"])]


def _rand_call(rng, v):
    steps = []
    if rng.random() < 0.8:
        k = rng.choice(["A", "A", "B", None])
        steps += [["open", k], ["monitor", k, rng.choice(["o1", "o1", "o2"]), rng.choice(["default", "rb", "sp"])]]
    for _ in range(rng.randint(2, 9)):
        x = rng.random()
        if x < 0.74:
            steps.append(_rand_simple(rng, v))
        elif x < 0.84:
            p = _rand_pause(rng, v)
            steps.append(p)
            if p[2] != "resume":
                break
        elif x < 0.985:
            during = _rand_updates(rng, v, 0, 2)
            y = rng.random()
            stop_after = False
            if y < 0.25:
                d2 = _rand_updates(rng, v, 0, 2)
                if rng.random() < 0.2:
                    d2.append(_rand_pause(rng, v))
                    stop_after = d2[-1][2] != "resume"
                during.append(["suspend2", d2])
            elif y < 0.45:
                during.append(_rand_pause(rng, v))
                stop_after = during[-1][2] != "resume"
            pre = [_rand_simple(rng, v) for _ in range(rng.choice([0, 0, 1, 2]))]
            post = [_rand_simple(rng, v) for _ in range(rng.choice([0, 0, 1, 2]))]
            steps.append(["suspend", pre, during, post])
            if stop_after:
                break
        else:
            steps.append(["raise"])
            break
    return {"steps": steps}


def _faulty_subscribe():
    """ORACLE ONLY (Monitors.v has no failing device calls): the device's subscribe() registers the callback and then raises
    (ophyd's subscribe(run=True) whose first delivery times out); the plan catches the error.  The registration is on the
    device, so it has to be removed by unmonitor / close_run / the end of the call like any other."""
    out = []
    for chan in ("default", "rb"):
        mon = ["monitor", "A", "o1", chan, "fault"]
        u = lambda n: ["update", "o1", n, chan]  # noqa: E731
        endings = [[], [["unmonitor", "A", "o1"]], [["close", "A"]], [["unmonitor", "A", "o1"], ["close", "A"]], [["raise"]],
                   [["pause", [u(5)], "resume"], ["close", "A"]], [["pause", [u(5)], "abort"]], [["pause", [u(5)], "stop"]],
                   [["suspend", [], [u(5)], []], ["close", "A"]], [["suspend", [], [u(5)], []], ["unmonitor", "A", "o1"]],
                   [["monitor", "A", "o1", chan], ["close", "A"]], [["open", "B"], ["monitor", "B", "o1", chan], ["close", "A"], u(6), ["close", "B"]]]
        for end in endings:
            for before in ([], [u(1)]):
                steps = [["open", "A"], mon] + before + end + [u(7)]
                if ["raise"] in end:
                    steps = [["open", "A"], mon] + before + [["raise"]]
                out.append({"no_model": True, "calls": [{"steps": steps}, {"steps": [u(8), ["open", "A"], ["monitor", "A", "o1", chan], u(9), ["close", "A"], u(10)]}]})
    return out


def cases(rng, tier):
    out = _exhaustive()
    n = 300 if tier == "quick" else 5000
    for _ in range(n):
        v = _V()
        out.append({"calls": [_rand_call(rng, v) for _ in range(rng.choice([1, 1, 2]))]})
    out += _faulty_subscribe()
    # edge stream: nothing open
    out.append({"calls": [{"steps": [["monitor", "A", "o1"], ["unmonitor", "A", "o1"], ["close", "A"], ["update", "o1", 1]]}]})
    out.append({"calls": [{"steps": [["open", "A"], ["open", "A"], ["monitor", "A", "o1"], ["monitor", "A", "o1"],
                                     ["unmonitor", "A", "o2"], ["update", "o1", 1], ["update", "o2", 2]]}]})
    return out


# ----------------------------------------------------------------------------- implementation side

_ENGINE = {}


def _engine():
    from bluesky import RunEngine
    if "re" not in _ENGINE or _ENGINE["re"].state != "idle":
        _ENGINE["re"] = RunEngine({}, context_managers=[])
    return _ENGINE["re"]


def impl(case):
    from harness.drivers import monitor_driver as MD
    RE = _engine()
    obs = MD.run_scenario(case, RE)
    if obs["errors"]:
        _ENGINE.pop("re", None)
    return obs


# ----------------------------------------------------------------------------- Coq terms

def cb(b):
    return "true" if b else "false"


def cl(xs, f=str):
    return "[" + "; ".join(f(x) for x in xs) + "]"


def inputs_of(obs):
    return [e[1:] for e in obs["log"] if e[0] == "in"]


def _cop(i):
    k = i[0]
    if k in ("OpenRun", "CloseRun"):
        return "%s %d%%N" % (k, KEYS[i[1]])
    if k == "Monitor":
        return "Monitor %d%%N %d%%N %d%%N" % (KEYS[i[1]], OBJS[i[2]], CH[i[3]])
    if k == "Unmonitor":
        return "Unmonitor %d%%N %d%%N" % (KEYS[i[1]], OBJS[i[2]])
    if k == "Update":
        return "Update %d%%N %d%%N (%d)%%Z" % (OBJS[i[1]], CH[i[2]], i[3])
    return k


def _run_no(r):
    return r if r >= 0 else 999


def _cevs(obs):
    out = []
    for e in obs["log"]:
        if e[0] == "sub":
            out.append("ESub %d%%N %d %d%%N" % (OBJS[e[1]], _run_no(e[2]), CH.get(e[3], 99)))
        elif e[0] == "clr":
            out.append("EClr %d%%N %d" % (OBJS[e[1]], _run_no(e[2])))
        elif e[0] == "events":
            for r, o, v in e[1]:
                out.append("EEvent %d %d%%N (%d)%%Z" % (_run_no(r), OBJS[o], v))
        elif e[0] == "out":
            out.append("EOut %s" % OUT[e[1]])
        elif e[0] == "stray_event":
            r, o, v = e[1]
            out.append("EEvent %d %d%%N (%d)%%Z" % (_run_no(r), OBJS[o], v))
    return out


def _class_g(ins):
    open_keys, depth = set(), 0
    for i in ins:
        if i[0] == "OpenRun":
            if i[1] not in open_keys:
                if depth > 0:
                    return True
                open_keys.add(i[1])
        elif i[0] == "CloseRun":
            open_keys.discard(i[1])
        elif i[0] == "Finalize":
            open_keys = set()
        elif i[0] in ("PauseBlock", "SuspendStart"):
            depth += 1
        elif i[0] in ("ResumeWake", "SuspendResume"):
            depth = max(0, depth - 1)
    return False


def coq_term(case, obs):
    if case.get("no_model"):
        return None               # faulty-subscribe family: judged by the oracle on the real run only
    if obs["errors"]:
        return "false"
    ins = inputs_of(obs)
    return "case_ok %s %s %d %s" % (cl(ins, _cop), cl(_cevs(obs)), obs["left"], cb(_class_g(ins)))


# ----------------------------------------------------------------------------- oracle (the property, implementation side)

def _judge(obs):
    """Replays the inputs with the specification (open runs, what each monitors, pauses/suspensions under way) and
    reads the device ledger.  -> (hard, soft): hard = violations that no finding class excuses (a callback registered
    twice, a registration left after unmonitor / run end, events of an unknown run), soft = an update whose events differ
    from 'one per open run monitoring the signal while neither paused nor suspended'."""
    hard, soft = [], []
    if obs["errors"]:
        return ["driver: " + obs["errors"][0]], []
    runs = {}        # key -> [run number, {obj: requested channel}]
    nrun, depth = 0, 0
    live = {}        # (obj, run, channel) -> registrations according to the ledger
    pending_update = None

    def check_ledger(where):
        mon = {(o, r, c) for r, os in runs.values() for o, c in os.items()}
        for (o, r, c), n in sorted(live.items()):
            if n > 1:
                hard.append("%s: the callback of run %d is registered %d times on %s (channel %s)" % (where, r, n, o, c))
            if n > 0 and (o, r, c) not in mon:
                hard.append("%s: run %d does not monitor %s on channel %s (unmonitored, closed, cleaned up, or another channel was "
                            "requested) yet %d registration(s) for that channel are on the device" % (where, r, o, c, n))

    for e in obs["log"]:
        if e[0] == "in":
            i = e[1:]
            k = i[0]
            where = "after %s" % (" ".join(str(x) for x in i),)
            if k == "OpenRun":
                if i[1] not in runs:
                    runs[i[1]] = [nrun, {}]
                    nrun += 1
            elif k == "CloseRun":
                pass
            elif k == "Monitor":
                if i[1] in runs and i[2] not in runs[i[1]][1]:
                    runs[i[1]][1][i[2]] = i[3]
            elif k == "Unmonitor":
                pass
            elif k in ("PauseBlock", "SuspendStart"):
                depth += 1
            elif k in ("ResumeWake", "SuspendResume"):
                depth = max(0, depth - 1)
            elif k == "Finalize":
                pass
            elif k == "Update":
                exp = sorted([r, i[1], i[3]] for r, os in runs.values() if os.get(i[1]) == i[2]) if depth == 0 else []
                pending_update = (i, exp, depth)
            last_in = i
        elif e[0] == "sub":
            live[(e[1], e[2], e[3])] = live.get((e[1], e[2], e[3]), 0) + 1
        elif e[0] == "clr":
            for key3 in list(live):
                if key3[0] == e[1] and key3[1] == e[2]:
                    live[key3] = 0
        elif e[0] == "events":
            i, exp, d = pending_update
            got = sorted(list(x) for x in e[1])
            if got != exp:
                soft.append("update %s=%r on channel %s while %s: Event documents %r, the property asks for %r" % (
                    i[1], i[3], i[2], "running" if d == 0 else "paused/suspended (depth %d)" % d, got, exp))
            check_ledger("at update %s=%r" % (i[1], i[3]))
        elif e[0] == "stray_event":
            hard.append("an Event document appeared outside any device update: %r" % (e[1],))
        elif e[0] == "out":
            i = last_in
            if i[0] == "CloseRun" and e[1] == "Ok":
                runs.pop(i[1], None)
            elif i[0] == "Unmonitor" and e[1] == "Ok" and i[1] in runs and i[2] in runs[i[1]][1]:
                del runs[i[1]][1][i[2]]
            if i[0] in ("CloseRun", "Unmonitor"):
                check_ledger("after %s" % " ".join(str(x) for x in i))
        if e[0] == "in" and e[1] == "Finalize":
            runs = {}
    check_ledger("at the end")
    if obs["left"] != 0 and not hard:
        hard.append("%d registration(s) left on the devices at the end" % obs["left"])
    return hard, soft


def oracle(case, obs):
    hard, soft = _judge(obs)
    return (hard + soft)[0] if (hard or soft) else None


def finding(case, obs):
    hard, soft = _judge(obs)
    if hard or not soft:
        return None
    return "g" if _class_g(inputs_of(obs)) else None


def nontrivial(case, obs):
    saw_event, saw_quiet = False, False
    depth = 0
    for e in obs["log"]:
        if e[0] == "in" and e[1] in ("PauseBlock", "SuspendStart"):
            depth += 1
        elif e[0] == "in" and e[1] in ("ResumeWake", "SuspendResume"):
            depth = max(0, depth - 1)
        elif e[0] == "events":
            if e[1]:
                saw_event = True
            elif depth > 0:
                saw_quiet = True
    return saw_event and saw_quiet


def describe(case):
    kinds = set()
    n = 0
    for c in case["calls"]:
        for st in c["steps"]:
            n += 1
            if st[0] == "pause":
                kinds.add("pause:" + st[2])
            elif st[0] == "suspend":
                kinds.add("suspend")
                for a in st[2]:
                    if a[0] == "suspend2":
                        kinds.add("overlap")
                    elif a[0] == "pause":
                        kinds.add("pause-in-susp")
                if any(s[0] in ("open", "monitor", "unmonitor", "close") for s in st[1] + st[3]):
                    kinds.add("msgs-in-pre/post")
            elif st[0] == "raise":
                kinds.add("raise")
    return "calls=%d steps=%s %s" % (len(case["calls"]), "0-5" if n <= 5 else "6-10" if n <= 10 else "11+",
                                     "+".join(sorted(kinds)) or "plain")


def model_search(rng, tier):
    return None
