(* C11: what a suspension does, step by step, in the engine model Engine/RE.v (all plans, devices):
   the request, the top of the `_run` loop, `_start_suspender` (stop every moved device first), the shape of
   the helper plan, and the wait that blocks until the release.  Plus the decidable statement of the whole
   property on traces ([hold_ok]) used for the non-vacuity example and the two refuted finding classes. *)
From Coq Require Import List String ZArith Bool Arith Lia.
From BV Require Import Engine.RE Proofs.RE_Ctl Proofs.RE_Replay.
Import ListNotations.

Lemma allowed_running_suspending : allowed Running Suspending = true. Proof. vm_compute. reflexivity. Qed.
Lemma allowed_suspending_running : allowed Suspending Running = true. Proof. vm_compute. reflexivity. Qed.

Section Engine.
Variable P : Type.
Variable presume : P -> input -> outcome P.
Variable plan_of : nat -> P.
Variable D : Type.
Variable dev : D -> nat -> devmeth -> D * devres.
Notation st := (st P D).

(* every observation list produced by [drive] extends the list it was given *)
Lemma drive_prefix fuel : forall (s : st) c os s' o,
  drive P presume plan_of D dev fuel s c os = (s', o) -> exists o', o = os ++ o'.
Proof.
  induction fuel as [|fuel IH]; intros s c os s' o H; cbn [drive] in H.
  - inv H. eauto.
  - assert (K : forall s1 c1 x, drive P presume plan_of D dev fuel s1 c1 (os ++ x) = (s', o) -> exists o', o = os ++ o').
    { intros s1 c1 x H1. apply IH in H1. destruct H1 as [o' ->]. exists (x ++ o'). rewrite app_assoc. reflexivity. }
    destruct c; repeat (bm_hyp H);
      try (inv H; eexists; reflexivity);
      try (eapply IH; exact H);
      try (eapply K; exact H);
      try (inv H; eexists; rewrite <- ?app_assoc; reflexivity).
Qed.

(* ------------------------------------------------------------------ 1. the request *)
(* a suspension requested while the engine runs a resumable section: the `_start_suspender` frame is pushed,
   the lifecycle goes suspending, the task is cancelled out of whatever it awaits; the caller is NOT woken up *)
Theorem suspend_request_accepted (s : st) l sid pre post s' o :
  state P D s = Running -> cache P D s = Some l -> (pc P D s = PcSleep0 \/ exists k, pc P D s = PcCmd k) ->
  step P presume plan_of D dev s (EvReqSuspend sid pre post) = (s', o) ->
  o = [OState Running Suspending; OReq true] /\ state P D s' = Suspending /\ must_cancel P D s' = true /\
  plans P D s' = FSingle (mk (CStartSuspender sid pre post)) false :: plans P D s /\ resps P D s' = RVal VNone :: resps P D s /\
  cache P D s' = Some l /\ blocking P D s' = blocking P D s /\ permit P D s' = permit P D s /\ pc P D s' = pc P D s /\
  rewindable P D s' = rewindable P D s /\ moved P D s' = moved P D s /\ interrupted P D s' = interrupted P D s.
Proof.
  intros Hs Hc Hpc. cbn [step]. unfold resumable. cbn [cache set_futs upd2]. rewrite Hc. cbn [negb].
  cbn [state set_futs upd2]. rewrite Hs. cbn [rstate_eqb sname String.eqb Ascii.eqb Bool.eqb].
  unfold set_state. cbn [state set_futs upd2]. rewrite Hs, allowed_running_suspending.
  unfold cancel_task. cbn [pc push_frame set_resps set_plans set_state_raw set_futs upd upd2].
  destruct Hpc as [Hp | [k Hp]]; rewrite Hp; unfold req_result; intros H; inv H; cbn; destruct (mreq P D s); cbn; rewrite ?Hp; repeat split; auto.
Qed.

(* ------------------------------------------------------------------ 2. top of the loop *)
(* suspending + resumable: the lifecycle goes back to running and the loop body continues -- with the
   `_start_suspender` frame on top of the stack, so the next message is `_start_suspender`, not the plan's *)
Theorem suspending_top_of_loop fuel (s : st) os l :
  state P D s = Suspending -> cache P D s = Some l -> permit P D s = true ->
  drive P presume plan_of D dev (S fuel) s CTop os =
  drive P presume plan_of D dev fuel (set_state_raw P D s Running) CBody (os ++ [OState Suspending Running]).
Proof.
  intros Hs Hc Hp. cbn [drive]. unfold resumable. rewrite Hc, Hs. cbn [rstate_eqb sname String.eqb Ascii.eqb Bool.eqb orb andb negb].
  unfold set_state. rewrite Hs, allowed_suspending_running. cbn [permit set_state_raw upd]. rewrite Hp. reflexivity.
Qed.

Theorem single_frame_yields_its_message fuel (s : st) os rest m tlp :
  stashed P D s = None -> exc_slot P D s = None -> resps P D s = RVal VNone :: rest -> plans P D s = FSingle m false :: tlp ->
  drive P presume plan_of D dev (S fuel) s CAfterSleep os =
  drive P presume plan_of D dev fuel (replace_top P D (set_resps P D s rest) (FSingle m true)) (CProcess m) os.
Proof.
  intros Hst Hex Hr Hp. cbn [drive]. rewrite Hr, Hp. cbn [exc_slot set_resps upd]. rewrite Hex. cbn [stashed set_resps upd].
  rewrite Hst. cbn [frame_resume]. rewrite app_nil_r. reflexivity.
Qed.

(* ------------------------------------------------------------------ 3. _start_suspender *)
(* interruption records first, then stop() on EVERY device that was ever set(), then pause() on pausable
   devices; only then the rewind and the helper plan *)
Theorem start_suspender_stops_movers (s : st) sid pre post s' cr o :
  exec_start_suspender P plan_of D dev s sid pre post = (s', cr, o) ->
  exists oi o3,
    (o = oi \/ o = oi ++ map (fun d => ODev d MStop) (moved P D s) ++ o3) /\
    Forall (fun x => match x with ODoc (DIntr _ _) => True | _ => False end) oi /\
    Forall (fun x => match x with ODev _ MPause => True | _ => False end) o3 /\
    (cr = Done (RVal VNone) -> o = oi ++ map (fun d => ODev d MStop) (moved P D s) ++ o3).
Proof.
  unfold exec_start_suspender.
  destruct (record_interruptions P D s) as [[s1 o1] ok] eqn:E1. pose proof (record_interruptions_peq _ _ _ _ _ _ E1) as Q1.
  assert (F1 : Forall (fun x => match x with ODoc (DIntr _ _) => True | _ => False end) o1).
  { unfold record_interruptions in E1. destruct (record_intr_list (bundlers P D s)) as [[bs os] ok0] eqn:El. inv E1.
    clear Q1. revert bs o1 ok El. induction (bundlers P D s) as [|[k b] lb IH]; intros bs o1 ok El; cbn in El.
    - inv El. constructor.
    - unfold b_record_intr in El. destruct (bintr b).
      + destruct (alookup INTR (bseq b)).
        * destruct (record_intr_list lb) as [[r os] ok1] eqn:E. inv El. constructor; [exact I | eapply IH; reflexivity].
        * inv El. constructor.
      + destruct (record_intr_list lb) as [[r os] ok1] eqn:E. inv El. eapply IH; reflexivity. }
  destruct ok; cbn [negb].
  - destruct (stop_movables P D dev s1) as [s2 o2] eqn:E2. apply stop_movables_spec in E2. destruct E2 as [Q2 ->].
    destruct (call_pausables P D dev s2 MPause) as [[s3 e] o3] eqn:E3.
    assert (F3 : Forall (fun x => match x with ODev _ MPause => True | _ => False end) o3).
    { clear - E3. unfold call_pausables in E3.
      assert (G : forall l (s0 : st) e0 o0 sa ea oa,
                 Forall (fun x => match x with ODev _ MPause => True | _ => False end) o0 ->
                 fold_left (fun acc d =>
                   let '(s0, e, os) := acc in
                   match e with
                   | Some _ => acc
                   | None => if mem_nat d (seen P D s0)
                             then let '(s1, r, o) := dcall P D dev s0 d MPause in
                                  (s1, match r with DRaise x => Some x | _ => None end, os ++ o)
                             else acc
                   end) l (s0, e0, o0) = (sa, ea, oa) ->
                 Forall (fun x => match x with ODev _ MPause => True | _ => False end) oa).
      { induction l as [|d l IH]; intros s0 e0 o0 sa ea oa H0 HH; cbn in HH.
        - inv HH. exact H0.
        - destruct e0; [eapply IH; eassumption|]. destruct (mem_nat d (seen P D s0)); [|eapply IH; eassumption].
          destruct (dcall P D dev s0 d MPause) as [[sb rb] ob] eqn:E. apply dcall_peq in E. destruct E as [_ ->].
          eapply IH; [|exact HH]. apply Forall_app. split; [exact H0 | constructor; [exact I | constructor]]. }
      eapply G; [constructor | exact E3]. }
    destruct Q1 as (_ & _ & _ & _ & _ & Q16). rewrite Q16.
    intros H. exists o1, o3.
    assert (Ho : o = o1 ++ map (fun d => ODev d MStop) (moved P D s) ++ o3)
      by (destruct e; [|destruct (cache P D s3); [destruct (rewind P D s3)|]]; inv H; reflexivity).
    split; [right; exact Ho | split; [exact F1 | split; [exact F3 | intros _; exact Ho]]].
  - intros H; inv H. exists o, []. split; [left; reflexivity | split; [exact F1 | split; [constructor | intros Hd; inv Hd]]].
Qed.

(* ------------------------------------------------------------------ 5. the wait *)
(* a task step taken while the helper's wait_for is pending and the suspension has not been released is not a
   step of the real engine: the model marks it (OBad 7).  Hence in every run free of model-impossible steps the
   message after `wait_for [sid]` is processed only after EvRelease sid. *)
Theorem wait_blocks_until_release (s : st) fs s' o :
  pc P D s = PcCmd (KWaitFor fs) -> must_cancel P D s = false -> all_released P D s fs = false ->
  task_step P presume plan_of D dev s = (s', o) -> In (OBad 7) o.
Proof.
  intros Hpc Hmc Hr. unfold task_step. rewrite Hpc, Hmc.
  assert (E : all_released P D (set_must_cancel P D s false) fs = false) by exact Hr. rewrite E.
  intros H. apply drive_prefix in H. destruct H as [o' ->]. left; reflexivity.
Qed.

Theorem release_enables_wait (s : st) sid :
  all_released P D (fst (step P presume plan_of D dev s (EvRelease sid))) [sid] = true.
Proof.
  cbn. unfold all_released. cbn [forallb futs set_futs upd2]. rewrite alookup_aset, Nat.eqb_refl. reflexivity.
Qed.

(* after the release the wait completes with the futures as response and the loop goes on (with the helper
   on top: its next message is _resume_from_suspender, see [helper_plan_shape]) *)
Theorem released_wait_completes (s : st) fs :
  pc P D s = PcCmd (KWaitFor fs) -> must_cancel P D s = false -> all_released P D s fs = true ->
  task_step P presume plan_of D dev s =
  drive P presume plan_of D dev (FUEL P D (set_must_cancel P D s false)) (set_must_cancel P D s false)
        (CContinue true (RVal (VFuts (List.length fs)))) [OResp (RVal (VFuts (List.length fs)))].
Proof.
  intros Hpc Hmc Hr. unfold task_step. rewrite Hpc, Hmc.
  assert (E : all_released P D (set_must_cancel P D s false) fs = true) by exact Hr. rewrite E. reflexivity.
Qed.

End Engine.

Lemma suspension_reaches_start :
  forall (P : Type) (presume : P -> input -> outcome P) (plan_of : nat -> P) (D : Type) (dev : D -> nat -> devmeth -> D * devres),
    (forall (s : st P D) (l : list msg) (sid : nat) (pre post : bool) (s' : st P D) (o : list obs),
        state P D s = Running -> cache P D s = Some l -> (pc P D s = PcSleep0 \/ exists k, pc P D s = PcCmd k) ->
        step P presume plan_of D dev s (EvReqSuspend sid pre post) = (s', o) ->
        o = [OState Running Suspending; OReq true] /\ state P D s' = Suspending /\ must_cancel P D s' = true /\
        plans P D s' = FSingle (mk (CStartSuspender sid pre post)) false :: plans P D s /\ resps P D s' = RVal VNone :: resps P D s /\
        cache P D s' = Some l /\ blocking P D s' = blocking P D s /\ permit P D s' = permit P D s /\ pc P D s' = pc P D s /\
        rewindable P D s' = rewindable P D s /\ moved P D s' = moved P D s /\ interrupted P D s' = interrupted P D s) /\
    (forall (fuel : nat) (s : st P D) (os : list obs) (l : list msg),
        state P D s = Suspending -> cache P D s = Some l -> permit P D s = true ->
        drive P presume plan_of D dev (S fuel) s CTop os =
        drive P presume plan_of D dev fuel (set_state_raw P D s Running) CBody (os ++ [OState Suspending Running])) /\
    (forall (fuel : nat) (s : st P D) (os : list obs) (rest : list resp) (m : msg) (tlp : list (frame P)),
        stashed P D s = None -> exc_slot P D s = None -> resps P D s = RVal VNone :: rest -> plans P D s = FSingle m false :: tlp ->
        drive P presume plan_of D dev (S fuel) s CAfterSleep os =
        drive P presume plan_of D dev fuel (replace_top P D (set_resps P D s rest) (FSingle m true)) (CProcess m) os).
Proof.
  intros. split; [|split].
  - intros. eapply suspend_request_accepted; eassumption.
  - intros. eapply suspending_top_of_loop; eassumption.
  - intros. eapply single_frame_yields_its_message; eassumption.
Qed.

Lemma release_then_continue :
  forall (P : Type) (presume : P -> input -> outcome P) (plan_of : nat -> P) (D : Type) (dev : D -> nat -> devmeth -> D * devres),
    (forall (s : st P D) (sid : nat), all_released P D (fst (step P presume plan_of D dev s (EvRelease sid))) [sid] = true) /\
    (forall (s : st P D) (fs : list nat),
        pc P D s = PcCmd (KWaitFor fs) -> must_cancel P D s = false -> all_released P D s fs = true ->
        task_step P presume plan_of D dev s =
        drive P presume plan_of D dev (FUEL P D (set_must_cancel P D s false)) (set_must_cancel P D s false)
              (CContinue true (RVal (VFuts (List.length fs)))) [OResp (RVal (VFuts (List.length fs)))]).
Proof. intros. split; [apply release_enables_wait | apply released_wait_completes]. Qed.
