(* C23 -- paired-action wrappers always undo what they did.

   Models: Gen/Paired.v (run_wrapper, stage_wrapper, subs_wrapper, suspend_wrapper; device forest), built on the
   machine C22 proves equal to the transcribed source of finalize_wrapper / contingency_wrapper ([cw_resume]).
   Every theorem: for EVERY wrapped plan (any coalgebra P, resume : P -> input -> outcome P, any state p of it), every
   message encoding mk, every classification is_status of responses, and every driver script s that neither closes
   nor halts the wrapper ([plain s]: no Close, no thrown GeneratorExit / PlanHalt; any length, any mix of send and
   throw of every other kind -- failures at each message, RequestAbort, RequestStop, KeyboardInterrupt ...).
   The wrapper is started by Send None (first letter written out).

   *_trace theorems: the whole trace of the wrapper machine IS the reference trace ([stage_ref] ... in Gen/Paired.v):
       do-prefix (stage / install / subscribe), wrapped plan, undo plan -- in this order, the undo plan started
       exactly when the body ends by return or by an exception that is not a GeneratorExit kind (also when the
       do-prefix itself failed midway), its messages computed from the responses the do-prefix received.
   *_all / *_tokens / one_close theorems: the property itself, read off the reference.
   Only `exact lemma` proofs here (Proofs/Paired.v, Proofs/PairedThm.v, Proofs/Forest.v). *)
From Coq Require Import String.
From BV Require Import Base.Prelude Gen.Coalg Gen.PyGen Gen.Wrappers Gen.Paired.
From BV Require Import Proofs.Paired Proofs.PairedThm Proofs.Forest.
From BV Require Gen.Tie Gen.TiePaired.

(* ------------------------------------------------------------------ stage_wrapper *)
Theorem C23_stage_wrapper_trace :
  forall (P : Type) (resume : P -> input -> outcome P) (mk : mview -> msg) (is_status : val -> bool)
         (roots : list dev) (p : P) (s : list input),
    plain s = true ->
    trace (stage_wrapper_resume resume mk is_status roots) (stage_wrapper_init mk roots p) (Send VNone :: s)
    = stage_ref resume mk is_status roots p s.
Proof. exact @stage_wrapper_trace. Qed.
Print Assumptions C23_stage_wrapper_trace.

(* however the body (stage_all; plan) ended -- return or any non-GeneratorExit exception, including a failure while
   staging -- once every unstage message is answered the trace ends with unstage of EVERY root, once each, in
   reverse order (+ one wait on their group iff some answer was a Status), then the body's own completion *)
Theorem C23_stage_wrapper_unstages_all :
  forall (P : Type) (resume : P -> input -> outcome P) (mk : mview -> msg) (is_status : val -> bool)
         (roots : list dev) (p : P) (s : list input) ms t acc vs rest c,
    plain s = true ->
    body_ref resume is_status (stage_do mk roots) p (Send VNone :: s) = (ms, Some (t, acc, map Send vs ++ rest)) ->
    plain_end t = Some c ->
    length vs = length roots -> existsb is_status vs = false ->
    trace (stage_wrapper_resume resume mk is_status roots) (stage_wrapper_init mk roots p) (Send VNone :: s)
    = map OYield ms ++ map OYield (map (fun d => mk (VUnstage d G_UNSTAGE)) (rev roots)) ++ [compl_obs c].
Proof. exact @stage_unstages_all. Qed.
Print Assumptions C23_stage_wrapper_unstages_all.

Theorem C23_stage_wrapper_unstages_all_and_waits :
  forall (P : Type) (resume : P -> input -> outcome P) (mk : mview -> msg) (is_status : val -> bool)
         (roots : list dev) (p : P) (s : list input) ms t acc vs v' rest c,
    plain s = true ->
    body_ref resume is_status (stage_do mk roots) p (Send VNone :: s) = (ms, Some (t, acc, map Send vs ++ Send v' :: rest)) ->
    plain_end t = Some c ->
    length vs = length roots -> existsb is_status vs = true ->
    trace (stage_wrapper_resume resume mk is_status roots) (stage_wrapper_init mk roots p) (Send VNone :: s)
    = map OYield ms
      ++ map OYield (map (fun d => mk (VUnstage d G_UNSTAGE)) (rev roots) ++ [mk (VWait G_UNSTAGE)]) ++ [compl_obs c].
Proof. exact @stage_unstages_all_wait. Qed.
Print Assumptions C23_stage_wrapper_unstages_all_and_waits.

(* the devices staged: separate_devices(root_ancestor(d) for d in devices) on any acyclic parent forest is the list
   of distinct root ancestors in first-occurrence order *)
Theorem C23_stage_roots :
  forall (parent : dev -> option dev), (forall d p, parent d = Some p -> p < d) ->
  forall fuel devices, (forall d, In d devices -> d < S fuel) ->
    exists rs roots,
      map_opt (root_ancestor parent (S fuel)) devices = Some rs /\
      stage_roots parent (S fuel) devices = Some roots /\
      roots = dedup rs [] /\ NoDup roots /\ Forall (fun r => parent r = None) roots /\
      (forall r, In r roots <-> exists d, In d devices /\ root_ancestor parent (S fuel) d = Some r).
Proof. exact stage_roots_spec. Qed.
Print Assumptions C23_stage_roots.

(* ------------------------------------------------------------------ suspend_wrapper *)
Theorem C23_suspend_wrapper_trace :
  forall (P : Type) (resume : P -> input -> outcome P) (mk : mview -> msg) (is_status : val -> bool)
         (susps : list nat) (p : P) (s : list input),
    plain s = true ->
    trace (suspend_wrapper_resume resume mk is_status susps) (suspend_wrapper_init mk susps p) (Send VNone :: s)
    = suspend_ref resume mk is_status susps p s.
Proof. exact @suspend_wrapper_trace. Qed.
Print Assumptions C23_suspend_wrapper_trace.

Theorem C23_suspend_wrapper_removes_all :
  forall (P : Type) (resume : P -> input -> outcome P) (mk : mview -> msg) (is_status : val -> bool)
         (susps : list nat) (p : P) (s : list input) ms t acc vs rest c,
    plain s = true ->
    body_ref resume is_status (LPStart (install_msgs mk susps) None) p (Send VNone :: s)
      = (ms, Some (t, acc, map Send vs ++ rest)) ->
    plain_end t = Some c -> length vs = length susps ->
    trace (suspend_wrapper_resume resume mk is_status susps) (suspend_wrapper_init mk susps p) (Send VNone :: s)
    = map OYield ms ++ map OYield (map (fun x => mk (VRemove x)) susps) ++ [compl_obs c].
Proof. exact @suspend_removes_all. Qed.
Print Assumptions C23_suspend_wrapper_removes_all.

(* ------------------------------------------------------------------ subs_wrapper *)
Theorem C23_subs_wrapper_trace :
  forall (P : Type) (resume : P -> input -> outcome P) (mk : mview -> msg) (is_status : val -> bool)
         (set_iter : list val -> list val) (subs : list (nat * nat)) (p : P) (s : list input),
    plain s = true ->
    trace (subs_resume resume mk is_status set_iter) (subs_wrapper_init mk subs p) (Send VNone :: s)
    = subs_ref resume mk is_status set_iter subs p s.
Proof. exact @subs_wrapper_trace. Qed.
Print Assumptions C23_subs_wrapper_trace.

(* [tokens] = the responses the subscribe messages had received when the body ended (all of them, or -- when a
   subscribe failed midway -- those received before the failure): exactly these are unsubscribed, in the order
   in which the set hands them out *)
Theorem C23_subs_wrapper_unsubscribes_tokens :
  forall (P : Type) (resume : P -> input -> outcome P) (mk : mview -> msg) (is_status : val -> bool)
         (set_iter : list val -> list val) (subs : list (nat * nat)) (p : P) (s : list input) ms t tokens vs rest c,
    plain s = true ->
    body_ref resume is_status (LPStart (subscribe_msgs mk subs) None) p (Send VNone :: s)
      = (ms, Some (t, tokens, map Send vs ++ rest)) ->
    plain_end t = Some c -> length vs = length (set_iter tokens) ->
    trace (subs_resume resume mk is_status set_iter) (subs_wrapper_init mk subs p) (Send VNone :: s)
    = map OYield ms ++ map OYield (map (fun tok => mk (VUnsubscribe tok)) (set_iter tokens)) ++ [compl_obs c].
Proof. exact @subs_unsubscribes_tokens. Qed.
Print Assumptions C23_subs_wrapper_unsubscribes_tokens.

(* ------------------------------------------------------------------ run_wrapper *)
Theorem C23_run_wrapper_trace :
  forall (P : Type) (resume : P -> input -> outcome P) (mk : mview -> msg) (is_status : val -> bool)
         (p : P) (s : list input),
    plain s = true ->
    trace (rw_resume resume mk is_status) (run_wrapper_init p) (Send VNone :: s)
    = OYield (mk VOpen) :: run_ref resume mk is_status p s.
Proof. exact @run_wrapper_trace. Qed.
Print Assumptions C23_run_wrapper_trace.

(* open_run answered with uid; the wrapped plan yields ms and ends with t; the close_run message is answered:
   exactly one close_run, whose exit_status / reason say how the plan ended; the wrapper returns the uid or re-raises.
   An exception that is not an Exception subclass (KeyboardInterrupt, CancelledError) or a GeneratorExit kind
   raised by the plan passes through without a close_run: `except Exception` does not see it. *)
Theorem C23_run_wrapper_one_close :
  forall (P : Type) (resume : P -> input -> outcome P) (mk : mview -> msg) (is_status : val -> bool)
         (p : P) uid rest ms t v' rest2,
    plain rest = true ->
    split resume no_store p (Send VNone :: rest) = (ms, Some (t, tt, Send v' :: rest2)) ->
    trace (rw_resume resume mk is_status) (run_wrapper_init p) (Send VNone :: Send uid :: rest)
    = OYield (mk VOpen) :: map OYield ms ++
      match t with
      | TRet _ => [OYield (mk (VClose None None)); OReturn uid]
      | TExc e =>
          if is_GeneratorExit e then [ORaise e]
          else if is_Exception e then [OYield (mk (close_view e)); ORaise e]
          else [ORaise e]
      | TFuel => [OFuel]
      end.
Proof. exact @run_wrapper_one_close. Qed.
Print Assumptions C23_run_wrapper_one_close.

(* the statuses, from the class attributes of the current source (coq/gen/Tables.v, regenerated on every run) *)
Theorem C23_close_status_table :
  close_view ERequestAbort = VClose (Some "abort"%string) None /\
  close_view ERequestStop = VClose (Some "success"%string) None /\
  forall e, is_control e = false -> close_view e = VClose (Some "fail"%string) (Some e).
Proof. exact @close_status_table. Qed.
Print Assumptions C23_close_status_table.

(* ------------------------------------------------------------------ non-vacuity (concrete instances run by vm_compute) *)
Import Gen.Tie Gen.TiePaired.
Definition nv_tbl : list mview :=
  [VCmd 0 0; VCmd 2 1; VStage 0 100; VStage 3 100; VWait 100; VUnstage 3 101; VUnstage 0 101; VWait 101].
Definition nv_parents : list (dev * dev) := [(1, 0); (2, 1)].       (* 2 -> 1 -> 0 ; 3 alone *)
Definition nv_plan : stmt := SSeq (SYield None 0) (SSeq (SYield None 1) (SRaise (EUser 1))).

(* devices [2; 3; 1] have the roots [0; 3]; the plan fails after two messages; both roots are unstaged, reversed *)
Example C23_stage_nonvacuous :
  stage_roots (parent_t nv_parents) forest_fuel [2; 3; 1] = Some [0; 3] /\
  let s := [Send VNone; Send VNone; Send VNone; Send VNone; Send VNone; Send VNone] in
  plain s = true /\
  body_ref (cl_resume tie_fuel) is_status_t (stage_do (mk_t nv_tbl) [0; 3]) (cl_init nv_plan) (Send VNone :: s)
    = ([2; 3; 0; 1], Some (TExc (EUser 1), [VNone; VNone], map Send [VNone; VNone] ++ [])) /\
  trace (stage_wrapper_resume (cl_resume tie_fuel) (mk_t nv_tbl) is_status_t [0; 3])
        (stage_wrapper_init (mk_t nv_tbl) [0; 3] (cl_init nv_plan)) (Send VNone :: s)
  = [OYield 2; OYield 3; OYield 0; OYield 1; OYield 5; OYield 6; ORaise (EUser 1)].
Proof. vm_compute. repeat split; reflexivity. Qed.

Definition nv_rtbl : list mview := [VCmd 0 0; VOpen; VClose (Some "abort"%string) None].
(* the RunEngine aborts the run at the plan's message: one close_run with exit_status 'abort' *)
Example C23_run_nonvacuous :
  let rest := [Throw ERequestAbort; Send VNone] in
  plain rest = true /\
  split (cl_resume tie_fuel) no_store (cl_init (SYield None 0)) (Send VNone :: rest)
    = ([0], Some (TExc ERequestAbort, tt, [Send VNone])) /\
  trace (rw_resume (cl_resume tie_fuel) (mk_t nv_rtbl) is_status_t) (run_wrapper_init (cl_init (SYield None 0)))
        (Send VNone :: Send (VInt 7) :: rest)
  = [OYield 1; OYield 0; OYield 2; ORaise ERequestAbort].
Proof. vm_compute. repeat split; reflexivity. Qed.

(* ------------------------------------------------------------------ closed or halted: close() / thrown GeneratorExit, PlanHalt *)
From BV Require Import Proofs.PairedClose.

(* The script is  s ++ i :: s2  with s plain and i = Close or a thrown GeneratorExit kind.  While the wrapped plan runs
   (the do-prefix has been answered completely, the plan is at p') and the plan accepts the close: the plan is closed,
   NO undo message is emitted (finalize_wrapper's `except GeneratorExit: cleanup = False`; from C22's
   C22_no_cleanup_when_closed_in_plan: the only plan touched is the wrapped one), close() returns / the thrown kind
   comes back, and whatever follows in the script is not consumed. *)
Theorem C23_stage_wrapper_closed_in_plan :
  forall (P : Type) (resume : P -> input -> outcome P) (mk : mview -> msg) (is_status : val -> bool)
         (roots : list dev) (p : P) (s : list input) ms acc rest p' v i s2,
    plain s = true ->
    lp_split is_status (stage_do mk roots) (Send VNone :: s) = (ms, Some (TRet v, acc, rest)) ->
    after resume p (Send VNone :: rest) = Some p' ->
    close_result (resume p' Close) = CloseOk -> ge_input i = true ->
    trace (stage_wrapper_resume resume mk is_status roots) (stage_wrapper_init mk roots p) (Send VNone :: s ++ i :: s2)
    = stage_ref resume mk is_status roots p s ++ [closed_obs i].
Proof. exact @stage_closed_in_plan. Qed.
Print Assumptions C23_stage_wrapper_closed_in_plan.

Theorem C23_suspend_wrapper_closed_in_plan :
  forall (P : Type) (resume : P -> input -> outcome P) (mk : mview -> msg) (is_status : val -> bool)
         (susps : list nat) (p : P) (s : list input) ms acc rest p' v i s2,
    plain s = true ->
    lp_split is_status (LPStart (install_msgs mk susps) None) (Send VNone :: s) = (ms, Some (TRet v, acc, rest)) ->
    after resume p (Send VNone :: rest) = Some p' ->
    close_result (resume p' Close) = CloseOk -> ge_input i = true ->
    trace (suspend_wrapper_resume resume mk is_status susps) (suspend_wrapper_init mk susps p) (Send VNone :: s ++ i :: s2)
    = suspend_ref resume mk is_status susps p s ++ [closed_obs i].
Proof. exact @suspend_closed_in_plan. Qed.
Print Assumptions C23_suspend_wrapper_closed_in_plan.

Theorem C23_subs_wrapper_closed_in_plan :
  forall (P : Type) (resume : P -> input -> outcome P) (mk : mview -> msg) (is_status : val -> bool)
         (set_iter : list val -> list val) (subs : list (nat * nat)) (p : P) (s : list input) ms acc rest p' v i s2,
    plain s = true ->
    lp_split is_status (LPStart (subscribe_msgs mk subs) None) (Send VNone :: s) = (ms, Some (TRet v, acc, rest)) ->
    after resume p (Send VNone :: rest) = Some p' ->
    close_result (resume p' Close) = CloseOk -> ge_input i = true ->
    trace (subs_resume resume mk is_status set_iter) (subs_wrapper_init mk subs p) (Send VNone :: s ++ i :: s2)
    = subs_ref resume mk is_status set_iter subs p s ++ [closed_obs i].
Proof. exact @subs_closed_in_plan. Qed.
Print Assumptions C23_subs_wrapper_closed_in_plan.

(* run_wrapper closed / halted while the wrapped plan runs: NO close_run is emitted (closing the run is left to whoever
   closed the plan -- the RunEngine) *)
Theorem C23_run_wrapper_closed_in_plan :
  forall (P : Type) (resume : P -> input -> outcome P) (mk : mview -> msg) (is_status : val -> bool)
         (p : P) uid rest p' i s2,
    plain rest = true -> after resume p (Send VNone :: rest) = Some p' ->
    close_result (resume p' Close) = CloseOk -> ge_input i = true ->
    trace (rw_resume resume mk is_status) (run_wrapper_init p) (Send VNone :: Send uid :: rest ++ i :: s2)
    = OYield (mk VOpen) :: run_ref resume mk is_status p (Send uid :: rest) ++ [closed_obs i].
Proof. exact @run_closed_in_plan. Qed.
Print Assumptions C23_run_wrapper_closed_in_plan.

(* in EVERY state (do-prefix, wrapped plan -- also one that ignores the close --, undo plan) a closed / halted wrapper
   never yields again: no cleanup message ever follows a close *)
Theorem C23_close_never_yields :
  forall (P : Type) (resume : P -> input -> outcome P) (mk : mview -> msg) (is_status : val -> bool)
         (set_iter : list val -> list val) (i : input),
    ge_input i = true ->
    (forall undo x, match sw_resume resume is_status undo (DRun x) i with Yielded _ _ => False | _ => True end) /\
    (forall x, match subs_resume resume mk is_status set_iter (DRun x) i with Yielded _ _ => False | _ => True end) /\
    (forall uid ph, match rw_resume resume mk is_status (RwCont uid ph) i with Yielded _ _ => False | _ => True end).
Proof. exact @wrappers_close_never_yield. Qed.
Print Assumptions C23_close_never_yields.

(* ------------------------------------------------------------------ lazily_stage_wrapper (with fixes/C23-a.diff) *)
From BV Require Import Gen.Mutators Gen.Insert Proofs.Lazily.
From BV Require Gen.TieRelative.

Theorem C23_lazily_stage_trace :
  forall (P : Type) (resume : P -> input -> outcome P) (mk : mview -> msg) (view : msg -> mview) (is_status : val -> bool)
         (root : dev -> dev) (resp_devs : val -> option (list dev)) (p : P) (s : list input),
    plain s = true ->
    trace (lazy_resume resume mk view is_status root resp_devs true) (lazy_init p) (Send VNone :: s)
    = s2_ref (ins_resume resume (lazy_decide mk view root resp_devs true)) ins_store (lp_resume is_status)
             (fw_next (lazy_undo mk)) (IStart p ([], [])) (Send VNone :: s).
Proof. exact @lazy_trace. Qed.
Print Assumptions C23_lazily_stage_trace.

(* [fst st] = devices_staged when the plan ended: everything the stage messages were answered with ([root] for the
   answer None): unstaged last-first, one message per entry *)
Theorem C23_lazily_stage_unstages_all :
  forall (P : Type) (resume : P -> input -> outcome P) (mk : mview -> msg) (view : msg -> mview) (is_status : val -> bool)
         (root : dev -> dev) (resp_devs : val -> option (list dev)) (p : P) (s : list input) ms t st vs rest c,
    plain s = true ->
    split (ins_resume resume (lazy_decide mk view root resp_devs true)) ins_store (IStart p ([], [])) (Send VNone :: s)
      = (ms, Some (t, st, map Send vs ++ rest)) ->
    plain_end t = Some c -> length vs = length (fst st) -> existsb is_status vs = false ->
    trace (lazy_resume resume mk view is_status root resp_devs true) (lazy_init p) (Send VNone :: s)
    = map OYield ms ++ map OYield (map (fun d => mk (VUnstage d G_UNSTAGE)) (rev (fst st))) ++ [compl_obs c].
Proof. exact @lazy_unstages_all. Qed.
Print Assumptions C23_lazily_stage_unstages_all.

(* along every run, at every yielding step: no root has been staged twice, and devices_staged is left alone or
   extended by the answer to ONE stage message, for a root not staged before *)
Theorem C23_lazily_stage_roots_once :
  forall (P : Type) (resume : P -> input -> outcome P) (mk : mview -> msg) (view : msg -> mview)
         (root : dev -> dev) (resp_devs : val -> option (list dev)) (p : P) (s : list input) x i m x',
    let ins := ins_resume resume (lazy_decide mk view root resp_devs true) in
    after ins (IStart p ([], [])) s = Some x -> ins x i = Yielded m x' ->
    NoDup (snd (ins_store x' Close)) /\ lazy_recorded (ins_store x Close) (ins_store x' Close).
Proof. exact @lazy_roots_once. Qed.
Print Assumptions C23_lazily_stage_roots_once.

(* finding C23-a (repaired by fixes/C23-a.diff): the code before the repair ([fixed = false]) stages the root again at
   every message on a component the root's stage() answer does not list, and unstages it as often *)
Import Gen.TieRelative.
Definition la_tbl : list mview := [VCmd 0 1; VCmd 2 1; VStage 0 0; VUnstage 0 101; VWait 101].
Definition la_plan : stmt := SSeq (SYield None 0) (SYield None 1).       (* read, then trigger device 1, a child of root 0 *)
Definition la_script : list input := [Send VNone; Send VNone; Send VNone; Send VNone; Send VNone; Send VNone; Send VNone].
Definition la_run (fixed : bool) : list obs :=
  trace (lazy_resume (cl_resume tie_fuel) (mk_t la_tbl) (view_t la_tbl) is_status_t (root_t [(1, 0)]) (resp_devs_t []) fixed)
        (lazy_init (cl_init la_plan)) la_script.

Theorem C23_a_refuted_before_repair :
  la_run false = [OYield 2; OYield 0; OYield 2; OYield 1; OYield 3; OYield 3; OReturn VNone] /\
  la_run true = [OYield 2; OYield 0; OYield 1; OYield 3; OReturn VNone].
Proof. vm_compute. split; reflexivity. Qed.

(* ------------------------------------------------------------------ monitor_during_wrapper / fly_during_wrapper *)
From BV Require Import Gen.During Proofs.During.

(* The wrappers are two nested instances of plan_mutator (C21's verified machine) with list-inserting processors.
   For EVERY wrapped plan and (this first theorem) EVERY script that only sends (every message succeeds; any length;
   the theorem for all scripts follows below), with enough fuel for the machine's internal loop: the wrapper's trace
   is the two-fold EXPANSION of the wrapped plan -- [after] inserted behind
   every open_run message object the plan yields for the first time, [before] in front of every close_run message
   object it yields for the first time (a message OBJECT yielded again passes bare: finding C23-c). *)
Theorem C23_during_is_expansion :
  forall (P : Type) (resume : P -> input -> outcome P) (view : msg -> mview) (is_status : val -> bool)
         (after before : list msg) (p : P) (s : list input) (fuel : nat),
    Forall (fun a => is_open view a = false) after -> Forall (fun a => is_close view a = false) before ->
    sends_only s = true ->
    trace (during_resume resume view is_status (8 + fuel) after before) (during_init p) (Send VNone :: s)
    = trace (exp_resume (exp_resume resume (ins_after view after)) (ins_before view before)) (EStart (EStart p)) (Send VNone :: s).
Proof. exact @during_is_expansion. Qed.
Print Assumptions C23_during_is_expansion.

(* reading the expansion (any layer: [qres] is the wrapped plan for the open_run layer, the open_run layer for the
   close_run layer).  Before: a message the layer has not seen, with [pre] to insert before it: the inserted messages,
   each answered, then the message itself -- nothing in between, every time.  For the close_run layer [pre] is
   unmonitor of each signal / complete of each flyer, wait, collect of each flyer (C23_during_lists). *)
Theorem C23_expansion_before :
  forall (Q : Type) (qres : Q -> input -> outcome Q) (ins : msg -> option (list msg) * option (list msg))
         q q' seen v m pre post vs,
    qres q (Send v) = Yielded m q' -> mem_nat m seen = false -> ins m = (Some pre, post) -> length vs = length pre ->
    trace (exp_resume qres ins) (EOwn q seen None) (Send v :: map Send vs) = map OYield (pre ++ [m]).
Proof. exact @expansion_before. Qed.
Print Assumptions C23_expansion_before.

(* After: the message is out with [post] to follow: once it is answered the post-messages come one per answer
   (monitor of each signal / kickoff of each flyer, wait), and the plan is then resumed with the answer the message itself got *)
Theorem C23_expansion_after :
  forall (Q : Type) (qres : Q -> input -> outcome Q) (ins : msg -> option (list msg) * option (list msg))
         q seen v a post vs,
    S (length vs) = length (a :: post) ->
    trace (exp_resume qres ins) (EOwn q seen (Some (a :: post))) (Send v :: map Send vs) = map OYield (a :: post).
Proof. exact @expansion_after. Qed.
Print Assumptions C23_expansion_after.

Theorem C23_during_lists :
  forall (mk : mview -> msg) (view : msg -> mview), (forall v, view (mk v) = v) ->
  forall devs,
    (Forall (fun a => is_open view a = false) (monitor_after mk devs) /\ Forall (fun a => is_close view a = false) (monitor_before mk devs)) /\
    (Forall (fun a => is_open view a = false) (fly_after mk devs) /\ Forall (fun a => is_close view a = false) (fly_before mk devs)).
Proof. intros mk view H devs. split; [exact (monitor_lists_clean mk view H devs)|exact (fly_lists_clean mk view H devs)]. Qed.
Print Assumptions C23_during_lists.

(* EVERY script (any input kind, any length): the wrapper is `return (yield from <the two-fold expansion>)`, where the
   expansion [exp_resume] is defined for all inputs (Gen/During.v).  Proved on C21's reference semantics of plan_mutator
   and transported to the plan_mutator machine by C21's simulation (C21_plan_mutator_is_insert_spec's lemma). *)
From BV Require Import Proofs.DuringFull.
Theorem C23_during_is_expansion_full :
  forall (P : Type) (resume : P -> input -> outcome P) (view : msg -> mview) (is_status : val -> bool)
         (after before : list msg) (p : P) (s : list input) (fuel : nat),
    Forall (fun a => is_open view a = false) after -> Forall (fun a => is_close view a = false) before ->
    trace (during_resume resume view is_status (8 + fuel) after before) (during_init p) s
    = trace (d_resume (exp_resume (exp_resume resume (ins_after view after)) (ins_before view before)))
            (DStart (EStart (EStart p))) s.
Proof. exact @during_is_expansion_full. Qed.
Print Assumptions C23_during_is_expansion_full.

(* ... in which an Exception kind thrown at ANY message of a block -- an inserted monitor / kickoff / wait / unmonitor /
   complete / collect message or the plan's own open_run / close_run -- reaches the wrapped plan (the layer below) at
   its original yield, and the rest of the block is dropped (so: a failure among the unmonitor / complete / collect
   messages means the close_run does NOT leave; the plan sees the failure at its close_run) *)
Theorem C23_expansion_throw :
  forall (Q : Type) (qres : Q -> input -> outcome Q) (ins : msg -> option (list msg) * option (list msg)) x q seen e,
    e_host_of x = Some (q, seen) -> is_GeneratorExit e = false -> is_Exception e = true ->
    exp_resume qres ins x (Throw e) = e_host ins seen (qres q (Throw e)).
Proof. exact @expansion_throw. Qed.
Print Assumptions C23_expansion_throw.

(* ... and close() / a GeneratorExit kind closes the wrapped plan and ends the wrapper; nothing is inserted *)
Theorem C23_expansion_close :
  forall (Q : Type) (qres : Q -> input -> outcome Q) (ins : msg -> option (list msg) * option (list msg)) x q seen,
    e_host_of x = Some (q, seen) ->
    exp_resume qres ins x Close = e_close qres q EGeneratorExit /\
    forall e, is_GeneratorExit e = true -> exp_resume qres ins x (Throw e) = e_close qres q e.
Proof. exact @expansion_close. Qed.
Print Assumptions C23_expansion_close.

(* non-vacuity: one run with two monitored signals *)
Definition du_tbl : list mview := [VOpen; VCmd 0 0; VClose None None; VMonitor 0; VMonitor 1; VUnmonitor 0; VUnmonitor 1].
Definition du_plan : stmt := SSeq (SYield (Some 0) 0) (SSeq (SYield None 1) (SSeq (SYield None 2) (SReturn (RVar 0)))).
Example C23_during_nonvacuous :
  let s := [Send (VInt 7); Send VNone; Send VNone; Send VNone; Send VNone; Send VNone; Send VNone] in
  sends_only s = true /\
  trace (during_resume (cl_resume tie_fuel) (view_t du_tbl) is_status_t (8 + 0)
                       (monitor_after (mk_t du_tbl) [0; 1]) (monitor_before (mk_t du_tbl) [0; 1]))
        (during_init (cl_init du_plan)) (Send VNone :: s)
  = [OYield 0; OYield 3; OYield 4; OYield 1; OYield 5; OYield 6; OYield 2; OReturn (VInt 7)].
Proof. vm_compute. split; reflexivity. Qed.

(* Full statement of the property, for reference.  Proved above: every clause, with these qualifications (hence
   no theorem is called C23_full): the trace theorems are for scripts that neither close nor halt the wrapper; the
   monitor_during / fly_during clause is for scripts that only send (each inserted message succeeds) and for message
   objects the wrapped plan yields for the first time (class C23-c); lazily_stage_wrapper is the code with
   fixes/C23-a.diff and answers to its stage messages that are None or a device list (class C23-b). *)
Definition C23_full : Prop :=
  forall (P : Type) (resume : P -> input -> outcome P) (mk : mview -> msg) (view : msg -> mview) (is_status : val -> bool)
         (set_iter : list val -> list val) (root : dev -> dev) (resp_devs : val -> option (list dev)) (fuel : nat)
         (p : P) (s : list input),
    (forall v, view (mk v) = v) ->
    (* every script, including close / PlanHalt at any point, every answer kind, every repeated message object *)
    (forall roots, trace (stage_wrapper_resume resume mk is_status roots) (stage_wrapper_init mk roots p) (Send VNone :: s)
                   = stage_ref resume mk is_status roots p s) /\
    (forall susps, trace (suspend_wrapper_resume resume mk is_status susps) (suspend_wrapper_init mk susps p) (Send VNone :: s)
                   = suspend_ref resume mk is_status susps p s) /\
    (forall subs, trace (subs_resume resume mk is_status set_iter) (subs_wrapper_init mk subs p) (Send VNone :: s)
                  = subs_ref resume mk is_status set_iter subs p s) /\
    trace (rw_resume resume mk is_status) (run_wrapper_init p) (Send VNone :: s) = OYield (mk VOpen) :: run_ref resume mk is_status p s /\
    (forall devs, trace (during_resume resume view is_status (8 + fuel) (monitor_after mk devs) (monitor_before mk devs))
                        (during_init p) (Send VNone :: s)
                  = trace (exp_resume (exp_resume resume (ins_after view (monitor_after mk devs))) (ins_before view (monitor_before mk devs)))
                          (EStart (EStart p)) (Send VNone :: s)).
