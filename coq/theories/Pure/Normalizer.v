(* C35 - executable model of bluesky.callbacks.tiled_writer.RunNormalizer and _ConditionalBackup.

   Python values are modelled with OBJECT IDENTITY where it matters:
   - the caller's documents live in a [store] (a list of objects; the oid is the position);
     every dict / list of an input document is an object, nested ones are reached via [VRef];
   - [copy.copy d] of a stored dict yields a new top-level dict whose entries still hold the
     same [VRef]s (children shared with the caller);
   - [copy.deepcopy d] reads the whole tree out of the store: the result holds no [VRef]
     (a private tree, modelled inline);
   - a mutation through a [VRef] writes the store (the caller sees it); a mutation of an
     inline value is invisible to the caller.
   The three handlers that the repair C35-a touches take their copy function from
   [copy_mode]: [Shallow] is the code before the repair, [Deep] the code after it.
   No proofs in this file. *)
From Coq Require Import String List ZArith Bool Arith.
Import ListNotations.
Open Scope string_scope.
Open Scope list_scope.
Infix "+++" := String.append (at level 60, right associativity).

(* ------------------------------------------------------------------ values *)

Inductive val : Type :=
| VNone
| VBool (b : bool)
| VInt (z : Z)
| VStr (s : string)
| VFlt (s : string)                 (* an opaque float, carried as its hex text *)
| VDict (kv : list (string * val))
| VList (l : list val)
| VRef (o : nat).

Definition store := list val.       (* objects: only VDict / VList entries are meaningful *)

Inductive err : Type :=
| KeyError | ValueError | RuntimeError | TypeError | OutOfFuel | ConsumerError | AttributeError.

Definition err_eqb (a b : err) : bool :=
  match a, b with
  | KeyError, KeyError | ValueError, ValueError | RuntimeError, RuntimeError
  | TypeError, TypeError | OutOfFuel, OutOfFuel | ConsumerError, ConsumerError
  | AttributeError, AttributeError => true
  | _, _ => false
  end.

(* hashable values = atoms; equality of dict keys *)
Definition is_atom (v : val) : bool :=
  match v with VDict _ | VList _ | VRef _ => false | _ => true end.

Definition atom_eqb (a b : val) : bool :=
  match a, b with
  | VNone, VNone => true
  | VBool x, VBool y => Bool.eqb x y
  | VInt x, VInt y => Z.eqb x y
  | VStr x, VStr y => String.eqb x y
  | VFlt x, VFlt y => String.eqb x y
  | _, _ => false
  end.

(* Python truthiness *)
Definition truthy (v : val) : bool :=
  match v with
  | VNone => false
  | VBool b => b
  | VInt z => negb (Z.eqb z 0)
  | VStr s => negb (String.eqb s "")
  | VFlt s => negb (String.eqb s "0x0.0p+0" || String.eqb s "-0x0.0p+0")
  | VDict kv => match kv with [] => false | _ => true end
  | VList l => match l with [] => false | _ => true end
  | VRef _ => true
  end.

(* ------------------------------------------------------------------ ordered dicts *)

Definition dict := list (string * val).

Fixpoint dget (k : string) (d : dict) : option val :=
  match d with
  | [] => None
  | (k', v) :: d' => if String.eqb k k' then Some v else dget k d'
  end.

Definition dhas (k : string) (d : dict) : bool :=
  match dget k d with Some _ => true | None => false end.

(* d[k] = v : in place when present, else appended *)
Fixpoint dset (k : string) (v : val) (d : dict) : dict :=
  match d with
  | [] => [(k, v)]
  | (k', v') :: d' => if String.eqb k k' then (k', v) :: d' else (k', v') :: dset k v d'
  end.

(* del d[k] (a Python dict holds a key at most once) *)
Definition ddel (k : string) (d : dict) : dict := filter (fun p => negb (String.eqb k (fst p))) d.

Definition dpop (k : string) (d : dict) : option val * dict := (dget k d, ddel k d).

Fixpoint mem_str (k : string) (l : list string) : bool :=
  match l with [] => false | x :: l' => String.eqb k x || mem_str k l' end.

Definition add_str (k : string) (l : list string) : list string :=
  if mem_str k l then l else l ++ [k].

(* dicts keyed by hashable values *)
Fixpoint vget (k : val) (d : list (val * val)) : option val :=
  match d with
  | [] => None
  | (k', v) :: d' => if atom_eqb k k' then Some v else vget k d'
  end.
Fixpoint vset (k v : val) (d : list (val * val)) : list (val * val) :=
  match d with
  | [] => [(k, v)]
  | (k', v') :: d' => if atom_eqb k k' then (k', v) :: d' else (k', v') :: vset k v d'
  end.
Fixpoint vdel (k : val) (d : list (val * val)) : list (val * val) :=
  match d with
  | [] => []
  | (k', v') :: d' => if atom_eqb k k' then d' else (k', v') :: vdel k d'
  end.

(* ------------------------------------------------------------------ reading the store *)

(* copy.deepcopy / a snapshot: the tree below [v] with every reference resolved.
   [fuel] bounds the number of references followed on one path; a tree-shaped store of
   n objects needs at most n. *)
Fixpoint readback (fuel : nat) (s : store) : val -> option val :=
  fix rb (v : val) : option val :=
    match v with
    | VRef o =>
        match fuel with
        | O => None
        | S f => match nth_error s o with Some ob => readback f s ob | None => None end
        end
    | VDict kv =>
        let fix go (l : list (string * val)) : option (list (string * val)) :=
          match l with
          | [] => Some []
          | (k, x) :: l' =>
              match rb x, go l' with
              | Some x', Some r => Some ((k, x') :: r)
              | _, _ => None
              end
          end in
        option_map VDict (go kv)
    | VList l =>
        let fix go (l : list val) : option (list val) :=
          match l with
          | [] => Some []
          | x :: l' =>
              match rb x, go l' with
              | Some x', Some r => Some (x' :: r)
              | _, _ => None
              end
          end in
        option_map VList (go l)
    | a => Some a
    end.

(* building the caller's documents: every dict/list becomes an object, children first *)
Fixpoint alloc (s : store) (v : val) : store * val :=
  match v with
  | VDict kv =>
      let fix go (s : store) (l : list (string * val)) : store * list (string * val) :=
        match l with
        | [] => (s, [])
        | (k, x) :: l' =>
            let '(s1, x') := alloc s x in
            let '(s2, r) := go s1 l' in (s2, (k, x') :: r)
        end in
      let '(s', kv') := go s kv in (s' ++ [VDict kv'], VRef (length s'))
  | VList l =>
      let fix go (s : store) (l : list val) : store * list val :=
        match l with
        | [] => (s, [])
        | x :: l' =>
            let '(s1, x') := alloc s x in
            let '(s2, r) := go s1 l' in (s2, x' :: r)
        end in
      let '(s', l') := go s l in (s' ++ [VList l'], VRef (length s'))
  | a => (s, a)
  end.

Fixpoint alloc_all (s : store) (l : list val) : store * list val :=
  match l with
  | [] => (s, [])
  | x :: l' => let '(s1, x') := alloc s x in let '(s2, r) := alloc_all s1 l' in (s2, x' :: r)
  end.

Fixpoint set_nth (s : store) (o : nat) (ob : val) : store :=
  match s, o with
  | [], _ => []
  | _ :: s', O => ob :: s'
  | x :: s', S o' => x :: set_nth s' o' ob
  end.

(* ------------------------------------------------------------------ normalizer state *)

Inductive copy_mode := Shallow | Deep.

Record nstate : Type := {
  next_frame : list ((string * string) * (Z * Z));   (* (desc_name, data_key) -> (carry, index) *)
  datum_cache : list (val * val);                    (* datum_id -> Datum document *)
  ext_refs : list (val * string * val * val);        (* (datum_id, data_key, desc_uid, seq_num) *)
  desc_names : list (val * val);                     (* descriptor uid -> stream name *)
  sres_cache : list (val * val);                     (* resource uid -> converted StreamResource *)
  emitted : list string;                             (* uids of the StreamResources emitted *)
  int_keys : list string;
  ext_keys : list string
}.

Definition ns0 : nstate :=
  {| next_frame := []; datum_cache := []; ext_refs := []; desc_names := []; sres_cache := [];
     emitted := []; int_keys := []; ext_keys := [] |}.

Record mst : Type := {
  ns : nstate;
  st : store;
  out : list (string * val);        (* emitted (name, snapshot at emission) *)
  fail_emit : list nat              (* emission indices at which the subscriber raises *)
}.

Definition M (A : Type) : Type := mst -> mst * (A + err).

Definition ret {A} (a : A) : M A := fun m => (m, inl a).
Definition fail {A} (e : err) : M A := fun m => (m, inr e).
Definition bind {A B} (x : M A) (f : A -> M B) : M B :=
  fun m => match x m with (m', inl a) => f a m' | (m', inr e) => (m', inr e) end.
Notation "x <- c1 ;; c2" := (bind c1 (fun x => c2)) (at level 61, c1 at next level, right associativity).
Notation "c1 ;;; c2" := (bind c1 (fun _ => c2)) (at level 61, right associativity).

Definition lift {A} (r : A + err) : M A := fun m => (m, r).
Definition of_opt {A} (e : err) (o : option A) : M A :=
  match o with Some a => ret a | None => fail e end.

Definition get_ns : M nstate := fun m => (m, inl (ns m)).
Definition put_ns (n : nstate) : M unit :=
  fun m => ({| ns := n; st := st m; out := out m; fail_emit := fail_emit m |}, inl tt).
Definition get_st : M store := fun m => (m, inl (st m)).
Definition put_st (s : store) : M unit :=
  fun m => ({| ns := ns m; st := s; out := out m; fail_emit := fail_emit m |}, inl tt).

Fixpoint forM {A} (l : list A) (f : A -> M unit) : M unit :=
  match l with
  | [] => ret tt
  | x :: l' => f x ;;; forM l' f
  end.

(* error monad for the store-free parts *)
Definition E (A : Type) : Type := (A + err)%type.
Definition ebind {A B} (x : E A) (f : A -> E B) : E B :=
  match x with inl a => f a | inr e => inr e end.
Notation "x <~ c1 ;; c2" := (ebind c1 (fun x => c2)) (at level 61, c1 at next level, right associativity).
Definition eopt {A} (e : err) (o : option A) : E A := match o with Some a => inl a | None => inr e end.

Definition as_dict (v : val) : E dict := match v with VDict kv => inl kv | _ => inr TypeError end.
Definition as_list (v : val) : E (list val) := match v with VList l => inl l | _ => inr TypeError end.
Definition as_str (e : err) (v : val) : E string := match v with VStr s => inl s | _ => inr e end.
Definition egetitem (d : dict) (k : string) : E val := eopt KeyError (dget k d).
Definition hashable (v : val) : E val := if is_atom v then inl v else inr TypeError.

(* ------------------------------------------------------------------ store primitives *)

Definition fuel_of (s : store) : nat := S (length s).

Definition deepcopy (v : val) : M val :=
  s <- get_st ;; of_opt OutOfFuel (readback (fuel_of s) s v).

(* copy.copy : a new top-level object; children (references) are shared *)
Definition shallow (v : val) : M val :=
  match v with
  | VRef o => s <- get_st ;; of_opt TypeError (nth_error s o)
  | _ => ret v
  end.

Definition copy_doc (mode : copy_mode) (v : val) : M val :=
  match mode with Deep => deepcopy v | Shallow => shallow v end.

(* the entries of a dict that is either inline or in the store *)
Definition load_dict (v : val) : M dict :=
  match v with
  | VRef o => s <- get_st ;;
      match nth_error s o with Some (VDict kv) => ret kv | _ => fail TypeError end
  | VDict kv => ret kv
  | _ => fail TypeError
  end.

(* in-place mutation of a dict object: through a reference it writes the store,
   on an inline (private) dict it yields the new value to be kept by the owner *)
Definition mut_dict (v : val) (f : dict -> dict) : M val :=
  match v with
  | VRef o => s <- get_st ;;
      match nth_error s o with
      | Some (VDict kv) => put_st (set_nth s o (VDict (f kv))) ;;; ret (VRef o)
      | _ => fail TypeError
      end
  | VDict kv => ret (VDict (f kv))
  | _ => fail TypeError
  end.

(* emit = schema validation (trusted, not modelled) + dispatcher.process: the subscriber sees
   the document as it is now; it may raise *)
Definition emit (name : string) (v : val) : M unit :=
  snap <- deepcopy v ;;
  fun m =>
    let idx := length (out m) in
    let m' := {| ns := ns m; st := st m; out := out m ++ [(name, snap)]; fail_emit := fail_emit m |} in
    if existsb (Nat.eqb idx) (fail_emit m) then (m', inr ConsumerError) else (m', inl tt).

(* ------------------------------------------------------------------ tables *)

Definition RESERVED_DATA_KEYS : list string := ["time"; "seq_num"].

Definition JSON_TO_NUMPY_DTYPE : list (string * string) :=
  [("number", "<f8"); ("array", "<f8"); ("boolean", "|b1"); ("string", "<U0"); ("integer", "<i8")].

Definition HDF5 : string := "application/x-hdf5".

Definition MIMETYPE_LOOKUP : list (string * string) :=
  [("hdf5", HDF5); ("AD_HDF5_SWMR_STREAM", HDF5); ("AD_HDF5_SWMR_SLICE", HDF5); ("PIL100k_HDF5", HDF5);
   ("XSP3", HDF5); ("XPS3", HDF5); ("XSP3_BULK", HDF5); ("XSP3_STEP", HDF5);
   ("AD_TIFF", "multipart/related;type=image/tiff"); ("AD_HDF5_GERM", HDF5);
   ("PIZZABOX_ENC_FILE_TXT_PD", "text/csv"); ("PANDA", HDF5); ("ROI_HDF5_FLY", HDF5);
   ("ROI_HDF51_FLY", HDF5); ("SIS_HDF51_FLY_STREAM_V1", HDF5); ("MERLIN_FLY_STREAM_V2", HDF5);
   ("MERLIN_HDF5_BULK", HDF5); ("TPX_HDF5", HDF5); ("EIGER2_STREAM", HDF5);
   ("NPY_SEQ", "multipart/related;type=application/x-npy"); ("ZEBRA_HDF51_FLY_STREAM_V1", HDF5)].

Fixpoint slookup (k : string) (t : list (string * string)) : option string :=
  match t with [] => None | (k', v) :: t' => if String.eqb k k' then Some v else slookup k t' end.

Definition mimetype_of (spec : string) : string :=
  match slookup spec MIMETYPE_LOOKUP with Some m => m | None => "application/octet-stream" end.

(* ------------------------------------------------------------------ strings *)

Definition slash : Ascii.ascii := Ascii.Ascii true true true true false true false false.  (* "/" *)

Fixpoint lstrip_slash (s : string) : string :=
  match s with
  | String c s' => if Ascii.eqb c slash then lstrip_slash s' else s
  | EmptyString => EmptyString
  end.

Fixpoint srev_app (s acc : string) : string :=
  match s with EmptyString => acc | String c s' => srev_app s' (String c acc) end.
Definition srev (s : string) : string := srev_app s EmptyString.
Definition strip_slash (s : string) : string := srev (lstrip_slash (srev (lstrip_slash s))).

(* str(Path(a).joinpath(b)) for already stripped, clean a and b (no "//", "." or ".." parts) *)
Definition path_join (a b : string) : string :=
  if String.eqb a "" then (if String.eqb b "" then "." else b)
  else if String.eqb b "" then a else a +++ "/" +++ b.

(* ------------------------------------------------------------------ _convert_resource_to_stream_resource *)

Definition REQUIRED_SRES_KEYS : list string := ["data_key"; "mimetype"; "parameters"; "uid"; "uri"].

Fixpoint first_missing (ks : list string) (d : dict) : bool :=
  match ks with [] => false | k :: ks' => negb (dhas k d) || first_missing ks' d end.

(* the legacy branch; [d] is the handler's own top-level dict *)
Definition convert_legacy (d : dict) : E dict :=
  if dhas "mimetype" d then inl d
  else if first_missing ["spec"; "root"; "resource_path"; "resource_kwargs"] d then inr RuntimeError
  else
    spec <~ egetitem d "spec" ;; let d := ddel "spec" d in
    spec <~ hashable spec ;;
    let mt := match spec with VStr s => mimetype_of s | _ => "application/octet-stream" end in
    let d := dset "mimetype" (VStr mt) d in
    kw <~ egetitem d "resource_kwargs" ;; let d := ddel "resource_kwargs" d in
    let d := dset "parameters" kw d in
    root <~ egetitem d "root" ;; let d := ddel "root" d in
    root <~ as_str AttributeError root ;;
    rp <~ egetitem d "resource_path" ;; let d := ddel "resource_path" d in
    rp <~ as_str AttributeError rp ;;
    let fp := path_join (strip_slash root) (strip_slash rp) in
    inl (dset "uri" (VStr ("file://localhost/" +++ lstrip_slash fp)) d).

Definition hdf5_rename (p : dict) : dict :=
  let '(dv, p1) := dpop "dataset" p in
  let dflt := match dv with Some x => x | None => VStr "" end in
  let '(pv, p2) := dpop "path" p1 in
  dset "dataset" (match pv with Some x => x | None => dflt end) p2.

Definition convert_resource (d : dict) : M dict :=
  d <- lift (convert_legacy d) ;;
  mt <- lift (egetitem d "mimetype") ;;
  d <- (if atom_eqb mt (VStr HDF5) then
          params <- lift (egetitem d "parameters") ;;
          params' <- mut_dict params hdf5_rename ;;
          ret (dset "parameters" params' d)
        else ret d) ;;
  let d := dset "data_key" (match dget "data_key" d with Some x => x | None => VStr "" end) d in
  ret (filter (fun kv => mem_str (fst kv) REQUIRED_SRES_KEYS) d).

(* ------------------------------------------------------------------ _convert_datum_to_stream_datum *)

Definition kstr_eqb (a b : string * string) : bool :=
  String.eqb (fst a) (fst b) && String.eqb (snd a) (snd b).

Fixpoint nf_get (k : string * string) (t : list ((string * string) * (Z * Z))) : Z * Z :=
  match t with
  | [] => (0%Z, 0%Z)
  | (k', v) :: t' => if kstr_eqb k k' then v else nf_get k t'
  end.
Fixpoint nf_set (k : string * string) (v : Z * Z) (t : list ((string * string) * (Z * Z)))
  : list ((string * string) * (Z * Z)) :=
  match t with
  | [] => [(k, v)]
  | (k', v') :: t' => if kstr_eqb k k' then (k', v) :: t' else (k', v') :: nf_set k v t'
  end.

(* the frame bookkeeping: (carry, index) -> frame -> ((carry', index'), (start, stop)) *)
Definition frame_step (ci : Z * Z) (frame : Z) : (Z * Z) * (Z * Z) :=
  let '(carry, index) := ci in
  let start := (carry + index)%Z in
  let index' := (frame + 1)%Z in
  let stop := (carry + index')%Z in
  if (stop <? start)%Z then ((start, index'), (start, (start + index')%Z))
  else ((carry, index'), (start, stop)).

Definition with_next_frame (n : nstate) (t : list ((string * string) * (Z * Z))) : nstate :=
  {| next_frame := t; datum_cache := datum_cache n; ext_refs := ext_refs n; desc_names := desc_names n;
     sres_cache := sres_cache n; emitted := emitted n; int_keys := int_keys n; ext_keys := ext_keys n |}.
Definition with_datum_cache (n : nstate) (c : list (val * val)) : nstate :=
  {| next_frame := next_frame n; datum_cache := c; ext_refs := ext_refs n; desc_names := desc_names n;
     sres_cache := sres_cache n; emitted := emitted n; int_keys := int_keys n; ext_keys := ext_keys n |}.
Definition with_ext_refs (n : nstate) (r : list (val * string * val * val)) : nstate :=
  {| next_frame := next_frame n; datum_cache := datum_cache n; ext_refs := r; desc_names := desc_names n;
     sres_cache := sres_cache n; emitted := emitted n; int_keys := int_keys n; ext_keys := ext_keys n |}.
Definition with_desc_names (n : nstate) (d : list (val * val)) : nstate :=
  {| next_frame := next_frame n; datum_cache := datum_cache n; ext_refs := ext_refs n; desc_names := d;
     sres_cache := sres_cache n; emitted := emitted n; int_keys := int_keys n; ext_keys := ext_keys n |}.
Definition with_sres_cache (n : nstate) (c : list (val * val)) : nstate :=
  {| next_frame := next_frame n; datum_cache := datum_cache n; ext_refs := ext_refs n; desc_names := desc_names n;
     sres_cache := c; emitted := emitted n; int_keys := int_keys n; ext_keys := ext_keys n |}.
Definition with_emitted (n : nstate) (e : list string) : nstate :=
  {| next_frame := next_frame n; datum_cache := datum_cache n; ext_refs := ext_refs n; desc_names := desc_names n;
     sres_cache := sres_cache n; emitted := e; int_keys := int_keys n; ext_keys := ext_keys n |}.
Definition with_keys (n : nstate) (i e : list string) : nstate :=
  {| next_frame := next_frame n; datum_cache := datum_cache n; ext_refs := ext_refs n; desc_names := desc_names n;
     sres_cache := sres_cache n; emitted := emitted n; int_keys := i; ext_keys := e |}.

Definition range_doc (a b : Z) : val := VDict [("start", VInt a); ("stop", VInt b)].

Fixpoint dupdate (d upd : dict) : dict :=
  match upd with [] => d | (k, v) :: u' => dupdate (dset k v d) u' end.

(* returns (StreamResource to emit if any, StreamDatum) *)
Definition convert_datum (datum_doc : val) (data_key : string) (desc_uid seq_num : val) : M (option val * val) :=
  dd <- load_dict datum_doc ;;
  (* datum_kwargs = datum_doc.get("datum_kwargs", {}); frame = datum_kwargs.pop("frame", None) *)
  let kwv := match dget "datum_kwargs" dd with Some x => x | None => VDict [] end in
  kw <- load_dict kwv ;;
  let frame := dget "frame" kw in
  mut_dict kwv (ddel "frame") ;;;
  let kw := ddel "frame" kw in
  rng <- (match frame with
          | None | Some VNone =>
              match seq_num with
              | VInt q => ret ((q - 1)%Z, q)
              | _ => fail TypeError
              end
          | Some (VInt f) =>
              n <- get_ns ;;
              du <- lift (hashable desc_uid) ;;
              dn <- of_opt KeyError (vget du (desc_names n)) ;;
              dn <- lift (as_str TypeError dn) ;;
              let '(ci', r) := frame_step (nf_get (dn, data_key) (next_frame n)) f in
              put_ns (with_next_frame n (nf_set (dn, data_key) ci' (next_frame n))) ;;;
              ret r
          | Some _ => fail TypeError
          end) ;;
  let '(i0, i1) := rng in
  sres_uid <- lift (egetitem dd "resource") ;;
  sres_uid_s <- lift (as_str TypeError sres_uid) ;;
  let new_uid := sres_uid_s +++ "-" +++ data_key in
  n <- get_ns ;;
  sres <- (match vget sres_uid (sres_cache n) with
           | Some cached =>
               if mem_str new_uid (emitted n) then ret None
               else
                 c <- deepcopy cached ;;
                 cd <- lift (as_dict c) ;;
                 let cd := dset "data_key" (VStr data_key) cd in
                 p <- lift (egetitem cd "parameters") ;;
                 pd <- lift (as_dict p) ;;
                 let cd := dset "parameters" (VDict (dupdate pd kw)) cd in
                 ret (Some (VDict (dset "uid" (VStr new_uid) cd)))
           | None => ret None
           end) ;;
  did <- lift (egetitem dd "datum_id") ;;
  ret (sres,
       VDict [("uid", did); ("stream_resource", VStr new_uid); ("descriptor", desc_uid);
              ("indices", range_doc i0 i1); ("seq_nums", range_doc (i0 + 1) (i1 + 1))]).

(* shared tail of event / stop: emit the StreamResource once, then the StreamDatum *)
Definition emit_converted (r : option val * val) : M unit :=
  let '(sres, sdat) := r in
  (match sres with
   | Some sd =>
       d <- lift (as_dict sd) ;;
       uid <- lift (egetitem d "uid") ;;
       uid <- lift (as_str TypeError uid) ;;
       n <- get_ns ;;
       if mem_str uid (emitted n) then ret tt
       else emit "stream_resource" sd ;;;
            n <- get_ns ;; put_ns (with_emitted n (add_str uid (emitted n)))
   | None => ret tt
   end) ;;;
  emit "stream_datum" sdat.

(* self._datum_cache.pop(datum_id, None) *)
Definition pop_datum (datum_id : val) : M (option val) :=
  k <- lift (hashable datum_id) ;;
  n <- get_ns ;;
  match vget k (datum_cache n) with
  | Some d => put_ns (with_datum_cache n (vdel k (datum_cache n))) ;;; ret (Some d)
  | None => ret None
  end.

(* ------------------------------------------------------------------ handlers *)

Definition h_start (doc : val) : M unit := d <- shallow doc ;; emit "start" d.

(* one cached reference to external data, handled when the run stops *)
Definition stop_item (r : val * string * val * val) : M unit :=
  let '(datum_id, data_key, desc_uid, seq_num) := r in
  od <- pop_datum datum_id ;;
  match od with
  | Some dd => if truthy dd then (c <- convert_datum dd data_key desc_uid seq_num ;; emit_converted c)
               else fail RuntimeError
  | None => fail RuntimeError
  end.

Definition h_stop (doc : val) : M unit :=
  d <- shallow doc ;;
  n <- get_ns ;;
  forM (ext_refs n) stop_item ;;;
  emit "stop" d.

(* --- descriptor (works on the private deep copy: no store access after the copy) *)

Definition us (name : string) : string := "_" +++ name.

Fixpoint list_remove_first (x : val) (l : list val) : list val :=
  match l with [] => [] | y :: l' => if atom_eqb x y then l' else y :: list_remove_first x l' end.
Definition list_mem (x : val) (l : list val) : bool := existsb (atom_eqb x) l.

Fixpoint map_vals (f : val -> E val) (d : dict) : E dict :=
  match d with
  | [] => inl []
  | (k, v) :: d' => v' <~ f v ;; r <~ map_vals f d' ;; inl ((k, v') :: r)
  end.

Definition rename_in_object_keys (name : string) (ok : dict) : E dict :=
  map_vals (fun v =>
    l <~ as_list v ;;
    if list_mem (VStr name) l then inl (VList (list_remove_first (VStr name) l ++ [VStr (us name)]))
    else inl v) ok.

Definition desc_rename_one (name : string) (d : dict) : E dict :=
  dks <~ egetitem d "data_keys" ;; dks <~ as_dict dks ;;
  match dget name dks with
  | None => inl d
  | Some spec =>
      if dhas (us name) dks then inr ValueError
      else
        let d := dset "data_keys" (VDict (dset (us name) spec (ddel name dks))) d in
        ok <~ egetitem d "object_keys" ;; ok <~ as_dict ok ;;
        ok' <~ rename_in_object_keys name ok ;;
        inl (dset "object_keys" (VDict ok') d)
  end.

Fixpoint all_lists (l : list val) : bool :=
  match l with [] => true | VList _ :: l' => all_lists l' | _ => false end.

Definition norm_spec (v : val) : E val :=
  s <~ as_dict v ;;
  let '(dd, s) := dpop "dtype_descr" s in
  let '(ds, s) := dpop "dtype_str" s in
  let dd := match dd with Some x => x | None => VList [] end in
  let ds := match ds with Some x => x | None => VNone end in
  ddl <~ as_list dd ;;
  if negb (all_lists ddl) then inr TypeError
  else if truthy dd then inl (VDict (dset "dtype_numpy" dd s))
  else
    let c2 := match dget "dtype_numpy" s with Some x => x | None => ds end in
    if truthy c2 then inl (VDict (dset "dtype_numpy" c2 s))
    else
      dt <~ egetitem s "dtype" ;; dt <~ hashable dt ;;
      match dt with
      | VStr t => match slookup t JSON_TO_NUMPY_DTYPE with
                  | Some n => inl (VDict (dset "dtype_numpy" (VStr n) s))
                  | None => inl (VDict s)
                  end
      | _ => inl (VDict s)
      end.

(* configuration: obj["data_keys"] of every object is looked up before any spec is touched *)
Fixpoint conf_check (c : dict) : E unit :=
  match c with
  | [] => inl tt
  | (_, o) :: c' => od <~ as_dict o ;; dk <~ egetitem od "data_keys" ;; _ <~ as_dict dk ;; conf_check c'
  end.

Definition desc_norm_specs (d : dict) : E dict :=
  conf <~ egetitem d "configuration" ;; conf <~ as_dict conf ;;
  _ <~ conf_check conf ;;
  dks <~ egetitem d "data_keys" ;; dks <~ as_dict dks ;;
  dks' <~ map_vals norm_spec dks ;;
  let d := dset "data_keys" (VDict dks') d in
  conf' <~ map_vals (fun o =>
             od <~ as_dict o ;; dk <~ egetitem od "data_keys" ;; dk <~ as_dict dk ;;
             dk' <~ map_vals norm_spec dk ;;
             inl (VDict (dset "data_keys" (VDict dk') od))) conf ;;
  inl (dset "configuration" (VDict conf') d).

(* doc["data_keys"][key]["object_name"] = obj_name for every key listed in object_keys *)
Fixpoint set_object_names (obj_name : string) (keys : list val) (dks : dict) : E dict :=
  match keys with
  | [] => inl dks
  | k :: ks =>
      k <~ hashable k ;;
      match k with
      | VStr ks' =>
          spec <~ egetitem dks ks' ;; sd <~ as_dict spec ;;
          set_object_names obj_name ks (dset ks' (VDict (dset "object_name" (VStr obj_name) sd)) dks)
      | _ => inr KeyError
      end
  end.

Fixpoint desc_object_names (ok : dict) (dks : dict) : E dict :=
  match ok with
  | [] => inl dks
  | (obj_name, lst) :: ok' =>
      l <~ as_list lst ;; dks' <~ set_object_names obj_name l dks ;; desc_object_names ok' dks'
  end.

Fixpoint split_keys (dks : dict) (i e : list string) : E (list string * list string) :=
  match dks with
  | [] => inl (i, e)
  | (k, spec) :: r =>
      sd <~ as_dict spec ;;
      if dhas "external" sd then split_keys r i (add_str k e) else split_keys r (add_str k i) e
  end.

(* for key in self._ext_keys: if key in data_keys: data_keys[key]["external"] = data_keys[key].pop("external", "") *)
Fixpoint touch_external (e : list string) (dks : dict) : E dict :=
  match e with
  | [] => inl dks
  | k :: e' =>
      match dget k dks with
      | None => touch_external e' dks
      | Some spec =>
          sd <~ as_dict spec ;;
          let x := match dget "external" sd with Some x => x | None => VStr "" end in
          touch_external e' (dset k (VDict (dset "external" x (ddel "external" sd))) dks)
      end
  end.

Definition h_descriptor (doc : val) : M unit :=
  c <- deepcopy doc ;;
  d <- lift (as_dict c) ;;
  d <- lift (desc_rename_one "time" d) ;;
  d <- lift (desc_rename_one "seq_num" d) ;;
  d <- lift (desc_norm_specs d) ;;
  ok <- lift (v <~ egetitem d "object_keys" ;; as_dict v) ;;
  dks <- lift (v <~ egetitem d "data_keys" ;; as_dict v) ;;
  dks <- lift (desc_object_names ok dks) ;;
  n <- get_ns ;;
  ie <- lift (split_keys dks (int_keys n) (ext_keys n)) ;;
  put_ns (with_keys n (fst ie) (snd ie)) ;;;
  dks <- lift (touch_external (snd ie) dks) ;;
  let d := dset "data_keys" (VDict dks) d in
  name <- lift (egetitem d "name") ;;
  uid <- lift (v <~ egetitem d "uid" ;; hashable v) ;;
  n <- get_ns ;;
  put_ns (with_desc_names n (vset uid name (desc_names n))) ;;;
  emit "descriptor" (VDict d).

(* --- event *)

Definition event_rename_one (name : string) (d : dict) : E dict :=
  data <~ egetitem d "data" ;; data <~ as_dict data ;;
  d <~ (match dget name data with
        | None => inl d
        | Some v =>
            let d := dset "data" (VDict (dset (us name) v (ddel name data))) d in
            ts <~ egetitem d "timestamps" ;; ts <~ as_dict ts ;;
            t <~ egetitem ts name ;;
            inl (dset "timestamps" (VDict (dset (us name) t (ddel name ts))) d)
        end) ;;
  fl <~ egetitem d "filled" ;; fl <~ as_dict fl ;;
  match dget name fl with
  | None => inl d
  | Some v => inl (dset "filled" (VDict (dset (us name) v (ddel name fl))) d)
  end.

Definition in_event_keys (i e : list string) (filled : dict) (k : string) : bool :=
  (mem_str k i && truthy (match dget k filled with Some x => x | None => VBool true end))
  || (mem_str k e && truthy (match dget k filled with Some x => x | None => VBool false end)).

(* the pure part of the event handler on the private copy:
   (the Event to emit, the data items to be treated as external references, descriptor, seq_num) *)
Definition event_split (i e : list string) (d : dict) : E (dict * list (string * val) * val * val) :=
  d <~ event_rename_one "time" d ;;
  d <~ event_rename_one "seq_num" d ;;
  let filled := match dget "filled" d with Some x => x | None => VDict [] end in
  let d := ddel "filled" d in
  filled <~ as_dict filled ;;
  data <~ egetitem d "data" ;; data <~ as_dict data ;;
  ts <~ egetitem d "timestamps" ;; ts <~ as_dict ts ;;
  let keep := fun kv : string * val => in_event_keys i e filled (fst kv) in
  let ev := dset "timestamps" (VDict (filter keep ts)) (dset "data" (VDict (filter keep data)) d) in
  let ext := filter (fun kv : string * val => mem_str (fst kv) e && negb (keep kv)) data in
  inl (ev, ext, match dget "descriptor" d with Some x => x | None => VNone end,
       match dget "seq_num" d with Some x => x | None => VNone end).

(* one external reference of an Event ([d] is the Event, for the KeyError on doc["descriptor"] / doc["seq_num"]) *)
Definition ext_item (d : dict) (desc_uid seq_num : val) (kv : string * val) : M unit :=
  let '(data_key, datum_id) := kv in
  od <- pop_datum datum_id ;;
  (if dhas "descriptor" d && dhas "seq_num" d then ret tt else fail KeyError) ;;;
  match od with
  | Some dd =>
      if truthy dd then c <- convert_datum dd data_key desc_uid seq_num ;; emit_converted c
      else n <- get_ns ;; put_ns (with_ext_refs n (ext_refs n ++ [(datum_id, data_key, desc_uid, seq_num)]))
  | None =>
      n <- get_ns ;; put_ns (with_ext_refs n (ext_refs n ++ [(datum_id, data_key, desc_uid, seq_num)]))
  end.

Definition h_event_tree (c : val) : M unit :=
  d <- lift (as_dict c) ;;
  n <- get_ns ;;
  sp <- lift (event_split (int_keys n) (ext_keys n) d) ;;
  let '(ev, ext, desc_uid, seq_num) := sp in
  emit "event" (VDict ev) ;;;
  forM ext (ext_item d desc_uid seq_num).

Definition h_event (doc : val) : M unit := c <- deepcopy doc ;; h_event_tree c.

(* --- resource / stream_resource / stream_datum / datum *)

Definition h_resource (mode : copy_mode) (doc : val) : M unit :=
  c <- copy_doc mode doc ;;
  d <- lift (as_dict c) ;;
  d' <- convert_resource d ;;
  uid <- lift (v <~ egetitem d' "uid" ;; hashable v) ;;
  n <- get_ns ;;
  put_ns (with_sres_cache n (vset uid (VDict d') (sres_cache n))).

Definition h_stream_resource (mode : copy_mode) (doc : val) : M unit :=
  c <- copy_doc mode doc ;;
  d <- lift (as_dict c) ;;
  d' <- convert_resource d ;;
  emit "stream_resource" (VDict d').

Definition h_stream_datum (doc : val) : M unit := d <- shallow doc ;; emit "stream_datum" d.

Definition h_datum_owned (c : val) : M unit :=
  d <- lift (as_dict c) ;;
  id <- lift (v <~ egetitem d "datum_id" ;; hashable v) ;;
  n <- get_ns ;;
  put_ns (with_datum_cache n (vset id c (datum_cache n))).

Definition h_datum (mode : copy_mode) (doc : val) : M unit :=
  c <- copy_doc mode doc ;; h_datum_owned c.

(* --- pages (event_model.unpack_*_page build new dicts from the page's columns) *)

Fixpoint col_heads (cols : list (string * list val)) : option (list (string * val)) :=
  match cols with
  | [] => Some []
  | (k, x :: _) :: r => option_map (cons (k, x)) (col_heads r)
  | (_, []) :: _ => None
  end.
Definition col_tails (cols : list (string * list val)) : list (string * list val) :=
  map (fun c => (fst c, tl (snd c))) cols.

(* zip over the columns: stops at the shortest column; no column => no row *)
Fixpoint transpose (fuel : nat) (cols : list (string * list val)) : list dict :=
  match fuel with
  | O => []
  | S f =>
      match cols with
      | [] => []
      | _ => match col_heads cols with
             | Some row => row :: transpose f (col_tails cols)
             | None => []
             end
      end
  end.

Fixpoint as_cols (d : dict) : E (list (string * list val)) :=
  match d with
  | [] => inl []
  | (k, v) :: r => l <~ as_list v ;; c <~ as_cols r ;; inl ((k, l) :: c)
  end.

Definition transpose_dict (v : val) : E (list dict) :=
  d <~ as_dict v ;; c <~ as_cols d ;;
  inl (transpose (fold_right (fun x m => Nat.max (length (snd x)) m) O c) c).

Definition nth_or {A} (l : list A) (i : nat) (dflt : A) : A := nth i l dflt.

Definition h_datum_page (mode : copy_mode) (doc : val) : M unit :=
  c <- deepcopy doc ;;
  d <- lift (as_dict c) ;;
  res <- lift (egetitem d "resource") ;;
  kws <- lift (v <~ egetitem d "datum_kwargs" ;; transpose_dict v) ;;
  ids <- lift (v <~ egetitem d "datum_id" ;; as_list v) ;;
  let n := Nat.max (length ids) (length kws) in
  forM (seq 0 n) (fun i =>
    h_datum mode (VDict [("datum_id", nth_or ids i (VDict [])); ("datum_kwargs", VDict (nth_or kws i []));
                          ("resource", res)])).

Definition h_event_page (doc : val) : M unit :=
  c <- deepcopy doc ;;
  d <- lift (as_dict c) ;;
  desc <- lift (egetitem d "descriptor") ;;
  datas <- lift (v <~ egetitem d "data" ;; transpose_dict v) ;;
  tss <- lift (v <~ egetitem d "timestamps" ;; transpose_dict v) ;;
  fls <- lift (transpose_dict (match dget "filled" d with Some x => x | None => VDict [] end)) ;;
  uids <- lift (v <~ egetitem d "uid" ;; as_list v) ;;
  times <- lift (v <~ egetitem d "time" ;; as_list v) ;;
  seqs <- lift (v <~ egetitem d "seq_num" ;; as_list v) ;;
  let n := fold_right Nat.max O [length uids; length times; length seqs; length datas; length tss; length fls] in
  forM (seq 0 n) (fun i =>
    h_event (VDict [("descriptor", desc); ("uid", nth_or uids i (VDict [])); ("time", nth_or times i (VDict []));
                         ("seq_num", nth_or seqs i (VDict [])); ("data", VDict (nth_or datas i []));
                         ("timestamps", VDict (nth_or tss i [])); ("filled", VDict (nth_or fls i []))])).

Definition dispatch (mode : copy_mode) (name : string) (doc : val) : M unit :=
  if String.eqb name "start" then h_start doc
  else if String.eqb name "stop" then h_stop doc
  else if String.eqb name "descriptor" then h_descriptor doc
  else if String.eqb name "event" then h_event doc
  else if String.eqb name "event_page" then h_event_page doc
  else if String.eqb name "resource" then h_resource mode doc
  else if String.eqb name "stream_resource" then h_stream_resource mode doc
  else if String.eqb name "stream_datum" then h_stream_datum doc
  else if String.eqb name "datum" then h_datum mode doc
  else if String.eqb name "datum_page" then h_datum_page mode doc
  else fail AttributeError.

(* the caller keeps feeding documents after an exception (as _ConditionalBackup does) *)
Fixpoint run_from (mode : copy_mode) (i : nat) (docs : list (string * val)) (m : mst) (errs : list (nat * err))
  : mst * list (nat * err) :=
  match docs with
  | [] => (m, errs)
  | (name, d) :: r =>
      match dispatch mode name d m with
      | (m', inl _) => run_from mode (S i) r m' errs
      | (m', inr e) => run_from mode (S i) r m' (errs ++ [(i, e)])
      end
  end.

Definition init_mst (s : store) (fe : list nat) : mst := {| ns := ns0; st := s; out := []; fail_emit := fe |}.

Record result : Type := {
  r_out : list (string * val);
  r_errs : list (nat * err);
  r_after : list (option val);          (* the caller's documents after the run *)
  r_int : list string; r_ext : list string;
  r_pending : list val;                 (* datum ids still cached *)
  r_refs : nat                          (* cached references to external data *)
}.

(* [docs] are given as trees; they are placed in a fresh store first *)
Definition run (mode : copy_mode) (fe : list nat) (docs : list (string * val)) : result :=
  let '(s0, refs) := alloc_all [] (map snd docs) in
  let '(m, errs) := run_from mode 0 (combine (map fst docs) refs) (init_mst s0 fe) [] in
  {| r_out := out m; r_errs := errs;
     r_after := map (readback (fuel_of (st m)) (st m)) refs;
     r_int := int_keys (ns m); r_ext := ext_keys (ns m);
     r_pending := map fst (datum_cache (ns m)); r_refs := length (ext_refs (ns m)) |}.

(* ------------------------------------------------------------------ comparison with observations *)

(* equality of trees, dicts compared as maps (key order is not observable in the canonical JSON) *)
Fixpoint val_sim (a b : val) {struct a} : bool :=
  match a, b with
  | VDict k1, VDict k2 =>
      Nat.eqb (length k1) (length k2) &&
      (fix go (l : list (string * val)) : bool :=
         match l with
         | [] => true
         | (k, v) :: l' => match dget k k2 with Some v' => val_sim v v' | None => false end && go l'
         end) k1
  | VList l1, VList l2 =>
      (fix go (l1 l2 : list val) : bool :=
         match l1, l2 with
         | [], [] => true
         | x :: l1', y :: l2' => val_sim x y && go l1' l2'
         | _, _ => false
         end) l1 l2
  | VRef x, VRef y => Nat.eqb x y
  | _, _ => atom_eqb a b
  end.

Fixpoint out_sim (a b : list (string * val)) : bool :=
  match a, b with
  | [], [] => true
  | (n1, v1) :: a', (n2, v2) :: b' => String.eqb n1 n2 && val_sim v1 v2 && out_sim a' b'
  | _, _ => false
  end.

Fixpoint errs_eqb (a b : list (nat * err)) : bool :=
  match a, b with
  | [], [] => true
  | (i, e) :: a', (j, f) :: b' => Nat.eqb i j && err_eqb e f && errs_eqb a' b'
  | _, _ => false
  end.

Fixpoint after_sim (a : list (option val)) (b : list val) : bool :=
  match a, b with
  | [], [] => true
  | Some x :: a', y :: b' => val_sim x y && after_sim a' b'
  | _, _ => false
  end.

Fixpoint subset_str (a b : list string) : bool :=
  match a with [] => true | x :: a' => mem_str x b && subset_str a' b end.
Definition set_eq_str (a b : list string) : bool := subset_str a b && subset_str b a.

Fixpoint atoms_eqb (a b : list val) : bool :=
  match a, b with
  | [], [] => true
  | x :: a', y :: b' => atom_eqb x y && atoms_eqb a' b'
  | _, _ => false
  end.

Definition agrees (r : result) (o_out : list (string * val)) (o_errs : list (nat * err)) (o_after : list val)
           (o_int o_ext : list string) (o_pending : list val) (o_refs : nat) : bool :=
  out_sim (r_out r) o_out && errs_eqb (r_errs r) o_errs && after_sim (r_after r) o_after
  && set_eq_str (r_int r) o_int && set_eq_str (r_ext r) o_ext
  && atoms_eqb (r_pending r) o_pending && Nat.eqb (r_refs r) o_refs.

(* ------------------------------------------------------------------ finding class C35-b *)

(* ids of the frame-carrying datums carried by a document *)
Fixpoint zip_framed (ids fs : list val) : list val :=
  match ids, fs with
  | id :: ids', f :: fs' => (match f with VNone => [] | _ => [id] end) ++ zip_framed ids' fs'
  | _, _ => []
  end.

Definition frame_ids (name : string) (d : val) : list val :=
  match d with
  | VDict kv =>
      if String.eqb name "datum" then
        match dget "datum_kwargs" kv, dget "datum_id" kv with
        | Some (VDict kw), Some id =>
            match dget "frame" kw with Some VNone | None => [] | Some _ => [id] end
        | _, _ => []
        end
      else if String.eqb name "datum_page" then
        match dget "datum_kwargs" kv, dget "datum_id" kv with
        | Some (VDict kw), Some (VList ids) =>
            match dget "frame" kw with Some (VList fs) => zip_framed ids fs | _ => [] end
        | _, _ => []
        end
      else []
  | _ => []
  end.

(* the values found in the data of an event / event_page *)
Definition data_values (name : string) (d : val) : list val :=
  match d with
  | VDict kv =>
      match dget "data" kv with
      | Some (VDict data) =>
          if String.eqb name "event" then map snd data
          else if String.eqb name "event_page" then
            flat_map (fun p => match snd p with VList l => l | _ => [] end) data
          else []
      | _ => []
      end
  | _ => []
  end.

Fixpoint finding_b_from (seen : list val) (docs : list (string * val)) : bool :=
  match docs with
  | [] => false
  | (n, d) :: r =>
      existsb (fun id => existsb (atom_eqb id) seen) (frame_ids n d)
      || finding_b_from (seen ++ data_values n d) r
  end.

(* C35-b: a Datum carrying a "frame" entry arrives after an Event that refers to it *)
Definition finding_C35_b (docs : list (string * val)) : bool := finding_b_from [] docs.

(* the (indices, seq_nums) of the emitted StreamDatum with a given uid *)
Definition zrange (v : option val) : option (Z * Z) :=
  match v with
  | Some (VDict r) => match dget "start" r, dget "stop" r with
                      | Some (VInt a), Some (VInt b) => Some (a, b)
                      | _, _ => None
                      end
  | _ => None
  end.

Fixpoint sdat_ranges (uid : val) (o : list (string * val)) : option ((Z * Z) * (Z * Z)) :=
  match o with
  | [] => None
  | (n, VDict kv) :: o' =>
      if String.eqb n "stream_datum" && (match dget "uid" kv with Some u => atom_eqb u uid | None => false end)
      then match zrange (dget "indices" kv), zrange (dget "seq_nums" kv) with
           | Some i, Some q => Some (i, q)
           | _, _ => None
           end
      else sdat_ranges uid o'
  | _ :: o' => sdat_ranges uid o'
  end.

(* ------------------------------------------------------------------ _ConditionalBackup *)

(* Documents are opaque here.  The primary callback is any state machine that says whether
   it raised; each backup callback likewise (its exceptions are swallowed). *)
Section Backup.
  Variable D : Type.

  (* deque(maxlen).append *)
  Definition dq_append (maxlen : N) (buf : list D) (d : D) : list D :=
    if N.eqb maxlen 0 then []
    else if N.ltb (N.of_nat (length buf)) maxlen then buf ++ [d] else tl buf ++ [d].

  Record cb_state : Type := { cb_buffer : list D; cb_push : bool }.
  Definition cb0 : cb_state := {| cb_buffer := []; cb_push := false |}.

  (* one __call__: [raised] = did the primary raise on this document.
     result: new state, and the calls made to the backups, in order, as (document, backup index) *)
  Definition cb_call (maxlen : N) (nb : nat) (c : cb_state) (d : D) (raised : bool)
    : cb_state * list (D * nat) :=
    let buf := dq_append maxlen (cb_buffer c) d in
    let push := cb_push c || raised in
    if push then ({| cb_buffer := []; cb_push := true |},
                  flat_map (fun x => map (fun b => (x, b)) (seq 0 nb)) buf)
    else ({| cb_buffer := buf; cb_push := false |}, []).

  (* a whole run: [raises i] tells whether the primary raises on the i-th document *)
  Fixpoint cb_run (maxlen : N) (nb : nat) (c : cb_state) (docs : list D) (raises : list bool)
    : cb_state * list (D * nat) :=
    match docs with
    | [] => (c, [])
    | d :: r =>
        let '(c1, l1) := cb_call maxlen nb c d (hd false raises) in
        let '(c2, l2) := cb_run maxlen nb c1 r (tl raises) in
        (c2, l1 ++ l2)
    end.

  Definition received_by (b : nat) (log : list (D * nat)) : list D :=
    map fst (filter (fun x => Nat.eqb (snd x) b) log).
  (* The same machine with the buffer kept newest-first together with its length: what the cases of
     long runs evaluate (appending at the end of a list 25 000 times is quadratic).  It is proved
     equal to [cb_run] (Proofs/Normalizer.v: cb_run_fast_eq). *)
  Record cbf_state : Type := { cbf_rev : list D; cbf_len : N; cbf_push : bool }.
  Definition cbf0 : cbf_state := {| cbf_rev := []; cbf_len := 0%N; cbf_push := false |}.

  Definition dq_append_fast (maxlen : N) (rb : list D) (len : N) (d : D) : list D * N :=
    if N.eqb maxlen 0 then ([], 0%N)
    else if N.ltb len maxlen then (d :: rb, N.succ len) else (d :: removelast rb, len).

  Definition cbf_call (maxlen : N) (nb : nat) (c : cbf_state) (d : D) (raised : bool)
    : cbf_state * list (D * nat) :=
    let '(rb, len) := dq_append_fast maxlen (cbf_rev c) (cbf_len c) d in
    if cbf_push c || raised then ({| cbf_rev := []; cbf_len := 0%N; cbf_push := true |},
                                  flat_map (fun x => map (fun b => (x, b)) (seq 0 nb)) (rev rb))
    else ({| cbf_rev := rb; cbf_len := len; cbf_push := false |}, []).

  Fixpoint cbf_run (maxlen : N) (nb : nat) (c : cbf_state) (docs : list D) (raises : list bool)
    : cbf_state * list (D * nat) :=
    match docs with
    | [] => (c, [])
    | d :: r =>
        let '(c1, l1) := cbf_call maxlen nb c d (hd false raises) in
        let '(c2, l2) := cbf_run maxlen nb c1 r (tl raises) in
        (c2, l1 ++ l2)
    end.
End Backup.

(* document ids for the generated long runs: a, a+1, ... as binary numbers *)
Fixpoint nseq (a : N) (n : nat) : list N :=
  match n with O => [] | S n' => a :: nseq (N.succ a) n' end.
Definition lN_beq : list N -> list N -> bool :=
  fix go (a b : list N) : bool :=
    match a, b with
    | [], [] => true
    | x :: a', y :: b' => N.eqb x y && go a' b'
    | _, _ => false
    end.
