(* Proofs for C16 (descriptors carry the configuration current when they were made; configure re-describes). *)
From BV Require Import Base.Prelude Engine.Bundler Engine.BundlerSpec Engine.BundlerObs Proofs.BundlerFrame Proofs.BundlerC15.
From Coq Require Import ZArith List Bool Lia.
Import ListNotations.

(* ---- value-aware bind rule *)
Lemma rel_bind_val (R : preorder) {A B} (m : M A) (k : A -> M B) (Q : A -> Prop) :
  (forall s s1 a, m s = (s1, Ok a) -> Q a) -> rel R m -> (forall a, Q a -> rel R (k a)) -> rel R (bind m k).
Proof.
  intros HQ Hm Hk s. unfold bind. specialize (Hm s). specialize (HQ s). destruct (m s) as [s1 [a|e]]; cbn in *.
  - eapply pr_trans; [exact Hm | apply Hk; eapply HQ; reflexivity].
  - exact Hm.
Qed.
Lemma rel_iterM_in (R : preorder) {X} (f : X -> M unit) l : (forall x, In x l -> rel R (f x)) -> rel R (iterM f l).
Proof.
  induction l as [|x l IH]; intros Hf; cbn [iterM]; [apply rel_ret|].
  apply rel_bind; [apply Hf; left; reflexivity | intros _; apply IH; intros y Hy; apply Hf; right; exact Hy].
Qed.

Definition is_stop (d : doc) : bool := match d with DStop _ _ _ _ _ => true | _ => false end.
Definition not_descr (d : doc) : bool := match d with DDescr _ => false | _ => true end.
Lemma compose_event_is_event d data f s s1 ev : compose_event d data f s = (s1, Ok ev) -> not_descr ev = true.
Proof. intros H. apply compose_event_ok in H. destruct H as (seq & _ & -> & _). reflexivity. Qed.
Lemma compose_stop_is_stop st r s s1 d : compose_stop st r s = (s1, Ok d) -> not_descr d = true.
Proof. unfold compose_stop, fresh_uid. intros H. minv. reflexivity. Qed.

(* like rel_go, knowing that composed events / stops are not descriptors *)
Ltac rel_go2 tac :=
  lazymatch goal with
  | |- rel _ (bind (compose_event _ _ _) _) =>
      apply (rel_bind_val _ _ _ (fun ev => not_descr ev = true));
      [ intros ? ? ?; apply compose_event_is_event | rel_go2 tac | intros ? ?; rel_go2 tac ]
  | |- rel _ (bind (compose_stop _ _) _) =>
      apply (rel_bind_val _ _ _ (fun ev => not_descr ev = true));
      [ intros ? ? ?; apply compose_stop_is_stop | rel_go2 tac | intros ? ?; rel_go2 tac ]
  | |- rel _ (bind _ _) => apply rel_bind; [ rel_go2 tac | intro; rel_go2 tac ]
  | |- rel _ (ret _) => apply rel_ret
  | |- rel _ (fail _) => apply rel_fail
  | |- rel _ get => apply rel_get
  | |- rel _ (guard _ _) => apply rel_guard
  | |- rel _ (of_opt _ _) => apply rel_of_opt
  | |- rel _ (of_res _) => apply rel_of_res
  | |- rel _ (modify _) => apply rel_modify; intro; tac
  | |- rel _ (iterM _ _) => apply rel_iterM; intro; rel_go2 tac
  | |- rel _ (swallow _) => apply rel_swallow; rel_go2 tac
  | |- rel _ (gather2 _ _) => apply rel_gather2; rel_go2 tac
  | |- rel _ (if ?b then _ else _) => destruct b; rel_go2 tac
  | |- rel _ (match ?x with _ => _ end) => destruct x; rel_go2 tac
  | |- rel _ (let _ := _ in _) => cbv zeta; rel_go2 tac
  | |- rel _ ?m =>
      first [ solve [auto with rel_db]
            | let h := head_of m in unfold h; rel_go2 tac ]
  end.

(* ---- latest_descr *)
Lemma latest_app a b nm :
  latest_descr (a ++ b) nm = match latest_descr b nm with Some d => Some d | None => latest_descr a nm end.
Proof.
  induction a as [|x a IH]; cbn [app latest_descr]; [destruct (latest_descr b nm); reflexivity|].
  rewrite IH. destruct (latest_descr b nm); [reflexivity|]. reflexivity.
Qed.
Lemma latest_snoc_other l x nm : not_descr x = true -> latest_descr (l ++ [x]) nm = latest_descr l nm.
Proof. intros H. rewrite latest_app. destruct x; try discriminate; reflexivity. Qed.
Lemma latest_snoc_descr l d nm :
  latest_descr (l ++ [DDescr d]) nm = if Nat.eqb (de_name d) nm then Some d else latest_descr l nm.
Proof. rewrite latest_app. cbn. destruct (Nat.eqb (de_name d) nm); reflexivity. Qed.

(* the registered descriptor of a stream is the latest descriptor emitted for that name *)
Definition latest_inv (tr : list doc) (s : bstate) : Prop :=
  (forall nm d, dget (b_descriptors s) nm = Some d ->
     Nat.eqb nm 0 = false /\ de_name d = nm /\ In (DDescr d) (tr ++ b_out s) /\
     latest_descr (tr ++ b_out s) nm = Some d) /\
  (forall nm, b_bundle_name s = Some nm -> Nat.eqb nm 0 = false).

Ltac linv_mod :=
  first
    [ inv_untouched
    | (* emit of a non-descriptor *)
      let H := fresh in
      intros [H ?]; split; [|assumption]; intros nm0 d0 Hg; cbn in *; destruct (H nm0 d0 Hg) as (? & ? & Hin & Hl);
      repeat split; try assumption;
      [ rewrite app_assoc; apply in_or_app; left; exact Hin
      | rewrite app_assoc, latest_snoc_other by (assumption || reflexivity); exact Hl ]
    | (* deletion of a descriptor *)
      let H := fresh in
      intros [H ?]; split; [|assumption]; intros nm0 d0 Hg; cbn in *; apply dget_ddel_some in Hg; exact (H nm0 d0 Hg) ].

Definition bn_frame : preorder.
Proof. refine (mkPre (fun s s' => b_bundle_name s' = b_bundle_name s) _ _); [auto | intros a b c H1 H2; congruence]. Defined.
Lemma bnf_prepare_stream nm od : rel bn_frame (prepare_stream nm od).
Proof. unfold prepare_stream. rel_go reflexivity. Qed.

Lemma linv_prepare_stream tr nm od : Nat.eqb nm 0 = false -> rel (inv_pre (latest_inv tr)) (prepare_stream nm od).
Proof.
  intros Hnm s [I J]. pose proof (bnf_prepare_stream nm od s) as Hb.
  destruct (prepare_stream nm od s) as [s' r] eqn:H. apply prepare_stream_spec in H. cbn [fst] in *.
  split; [|intros n0 Hn0; apply J; rewrite <- Hb; exact Hn0].
  destruct r as [d|e].
  - destruct H as (D1 & _ & _ & _ & _ & _ & F1 & F2 & _ & _). intros n d0. rewrite F1, F2, dget_dset.
    destruct (Nat.eqb nm n) eqn:En.
    + apply Nat.eqb_eq in En; subst n. intros Hd; inversion Hd; subst d0.
      split; [exact Hnm|]. split; [exact D1|]. split.
      * rewrite app_assoc. apply in_or_app. right. left. reflexivity.
      * rewrite app_assoc, latest_snoc_descr, D1, Nat.eqb_refl. reflexivity.
    + intros Hg. destruct (I n d0 Hg) as (A1 & A2 & A3 & A4). split; [exact A1|]. split; [exact A2|]. split.
      * rewrite app_assoc. apply in_or_app. left. exact A3.
      * rewrite app_assoc, latest_snoc_descr, D1, En. exact A4.
  - destruct H as [F1 F2]. intros n d0. rewrite F1, F2. apply I.
Qed.
#[export] Hint Resolve linv_prepare_stream : rel_db.

Lemma linv_ensure_all tr E l c : rel (inv_pre (latest_inv tr)) (ensure_cached_all E l c).
Proof. induction l; cbn -[bind ret]; rel_go2 linv_mod. Qed.
Lemma linv_pack_loop tr nm d l acc : rel (inv_pre (latest_inv tr)) (pack_loop nm d l acc).
Proof. revert acc. induction l; intro acc; cbn -[bind ret]; rel_go2 linv_mod. Qed.
Lemma linv_collect_all tr E l i : rel (inv_pre (latest_inv tr)) (collect_all_assets E l i).
Proof. induction l; cbn -[bind ret]; rel_go2 linv_mod. Qed.
#[export] Hint Resolve linv_ensure_all linv_pack_loop linv_collect_all : rel_db.

Lemma linv_create tr kw args : uses_name0 (OCreate kw args) = false -> rel (inv_pre (latest_inv tr)) (create kw args).
Proof.
  intros Hu. unfold uses_name0 in Hu. apply orb_false_iff in Hu. destruct Hu as [Hk Ha].
  unfold create.
  apply rel_bind; [apply rel_get|intro s0]. apply rel_bind; [apply rel_guard|intros _].
  apply rel_bind; [apply rel_modify; intro; linv_mod|intros _].
  apply (rel_bind_val _ _ _ (fun nm => Nat.eqb nm 0 = false)).
  - intros s s1 nm H. destruct kw as [n|].
    + minv. cbn in Hk. exact Hk.
    + destruct args as [|n [|? ?]]; minv. cbn in Ha. rewrite orb_false_r in Ha. rewrite Nat.eqb_sym. exact Ha.
  - destruct kw; [apply rel_ret|]. destruct args as [|? [|? ?]]; (apply rel_ret || apply rel_fail).
  - intros nm Hnm. apply rel_bind.
    + apply rel_modify. intros s [I J]. split; [exact I|]. cbn. intros n0 Hn0. inversion Hn0; subst. exact Hnm.
    + intros _. rel_go2 linv_mod.
Qed.

Lemma linv_monitor tr E o nm a : uses_name0 (OMonitor o nm a) = false -> rel (inv_pre (latest_inv tr)) (monitor E o nm a).
Proof. intros Hu. unfold uses_name0, interruptions_name in Hu. unfold monitor. rel_go2 linv_mod. Qed.

Lemma rel_bind_ret (R : preorder) {A B} (a : A) (k : A -> M B) : rel R (k a) -> rel R (bind (ret a) k).
Proof. intros H s. apply H. Qed.

Lemma rel_bind_fail (R : preorder) {A B} e (k : A -> M B) : rel R (bind (fail e) k).
Proof. intros s. apply pr_refl. Qed.

Lemma linv_declare tr E objs nm c : uses_name0 (ODeclareStream objs nm c) = false ->
  rel (inv_pre (latest_inv tr)) (declare_stream E objs nm c).
Proof.
  intros Hu. unfold declare_stream. destruct nm as [n|]; cbn [of_opt].
  - unfold uses_name0, interruptions_name in Hu. cbn in Hu. apply rel_bind_ret. rel_go2 linv_mod.
  - apply rel_bind_fail.
Qed.

Lemma compose_descriptor_name u nm dk ok cfg s s1 d : compose_descriptor u nm dk ok cfg s = (s1, Ok d) -> de_name d = nm.
Proof. intros H. apply compose_descriptor_ok in H. apply H. Qed.

Lemma linv_open_run tr : rel (inv_pre (latest_inv tr)) open_run.
Proof.
  unfold open_run.
  repeat (apply rel_bind; [rel_go2 linv_mod | intro]).
  match goal with |- rel _ (if ?b then _ else _) => destruct b; [|apply rel_ret] end.
  apply rel_bind; [rel_go2 linv_mod | intro iu].
  apply (rel_bind_val _ _ _ (fun d => de_name d = 0)).
  - intros ? ? ? H. apply compose_descriptor_name in H. exact H.
  - unfold compose_descriptor. rel_go2 linv_mod.
  - intros d Hd. apply rel_bind; [rel_go2 linv_mod | intros _].
    unfold emit. apply rel_modify. intros s [I J]. split; [|exact J].
    intros n d0 Hg. cbn in *. destruct (I n d0 Hg) as (A1 & A2 & A3 & A4). split; [exact A1|]. split; [exact A2|]. split.
    + rewrite app_assoc. apply in_or_app. left. exact A3.
    + rewrite app_assoc, latest_snoc_descr, Hd. rewrite Nat.eqb_sym, A1. exact A4.
Qed.

Lemma dget_in_keys {V} (d : dict V) k : In k (dkeys d) -> exists v, dget d k = Some v.
Proof.
  induction d as [|[k0 v0] d IH]; cbn; [intros []|].
  intros [->|Hin]; [rewrite Nat.eqb_refl; eauto|].
  destruct (Nat.eqb k k0); [eauto | apply IH; exact Hin].
Qed.

Ltac linv_mod2 :=
  first
    [ linv_mod
    | (* the bundle is closed: no bundle name any more *)
      let H := fresh in intros [H ?]; split; [exact H | cbn; intros ? Hd; discriminate Hd] ].

Lemma linv_save tr E : rel (inv_pre (latest_inv tr)) (save E).
Proof.
  intros s [I J]. unfold save. rewrite bind_get_eq, bind_guard_eq.
  destruct (b_bundling s); cbn [fst]; [|split; assumption].
  destruct (b_objs_read s) as [|o0 objs0].
  - cbn. split; [exact I | intros ? Hd; discriminate Hd].
  - rewrite bind_modify_eq, bind_of_opt_eq.
    destruct (b_bundle_name s) as [nm|] eqn:Hn.
    + pose proof (J nm eq_refl) as Hnm.
      match goal with |- latest_inv tr (fst (?m ?s0)) =>
        assert (R : rel (inv_pre (latest_inv tr)) m) by (unfold bundle_descriptor; rel_go2 linv_mod2); apply (R s0) end.
      split; [exact I | cbn; intros ? Hd; discriminate Hd].
    + cbn. split; [exact I | intros ? Hd; discriminate Hd].
Qed.

Lemma linv_configure tr E o v : rel (inv_pre (latest_inv tr)) (configure E o v).
Proof.
  intros s [I J]. unfold configure. rewrite bind_get_eq, bind_guard_eq.
  destruct (negb (b_bundling s)); cbn [fst]; [|split; assumption].
  unfold call. rewrite !bind_modify_eq.
  assert (G : forall s0, latest_inv tr s0 ->
            latest_inv tr (fst (bind get (fun s1 => iterM (fun nm : nat =>
               bind get (fun s2 => bind (of_opt (dget (b_descriptor_objs s2) nm) EKeyError)
                 (fun obj_set => if dmem obj_set o
                                 then bind (modify (fun s3 => set_b_descriptors (ddel (b_descriptors s3) nm) s3))
                                        (fun _ => bind (prepare_stream nm obj_set) (fun _ => ret tt))
                                 else ret tt))) (dkeys (b_descriptors s1))) s0))).
  { intros s0 [I0 J0]. rewrite bind_get_eq.
    apply (rel_iterM_in (inv_pre (latest_inv tr))); [|split; assumption].
    intros nm Hin. apply dget_in_keys in Hin. destruct Hin as (d & Hd). destruct (I0 nm d Hd) as (Hnm & _).
    rel_go2 linv_mod. }
  unfold cache_read_config. destruct (dv_configurable (E o)).
  - unfold call. rewrite bind_bind_eq, !bind_modify_eq. apply G. split; assumption.
  - rewrite bind_modify_eq. apply G. split; assumption.
Qed.

Lemma linv_exec tr E o : uses_name0 o = false -> rel (inv_pre (latest_inv tr)) (exec E o).
Proof.
  intros Hu. destruct o; cbn [exec];
    try (apply linv_create; exact Hu); try (apply linv_monitor; exact Hu); try (apply linv_declare; exact Hu);
    try apply linv_open_run; try apply linv_save; try apply linv_configure;
    rel_go2 linv_mod2.
Qed.

Lemma latest_in l nm d : latest_descr l nm = Some d -> In (DDescr d) l /\ de_name d = nm.
Proof.
  induction l as [|x l IH]; cbn; [discriminate|].
  destruct (latest_descr l nm) as [d'|].
  - intros H; inversion H; subst. destruct (IH eq_refl) as [A B]. split; [right; exact A | exact B].
  - destruct x; try discriminate. destruct (Nat.eqb (de_name d0) nm) eqn:En; [|discriminate].
    intros H; inversion H; subst. split; [left; reflexivity | apply Nat.eqb_eq; exact En].
Qed.

Theorem registered_is_latest E st ri h :
  no_name0 h ->
  forall nm d, dget (b_descriptors (final E (init st ri) h)) nm = Some d ->
  de_name d = nm /\ In (DDescr d) (trace E (init st ri) h) /\ latest_descr (trace E (init st ri) h) nm = Some d.
Proof.
  intros Hn.
  assert (G : latest_inv (trace E (init st ri) h) (clear_buffers (final E (init st ri) h))).
  { induction h as [|o h IH] using rev_ind.
    - split; [intros nm d H; discriminate | intros nm H; discriminate].
    - unfold no_name0 in Hn. rewrite forallb_app in Hn. apply andb_true_iff in Hn. destruct Hn as [Hh Ho].
      cbn in Ho. rewrite andb_true_r in Ho. apply negb_true_iff in Ho.
      specialize (IH Hh). rewrite final_snoc, trace_snoc. unfold step. cbn [fst snd].
      pose proof (linv_exec (trace E (init st ri) h) E o Ho (clear_buffers (final E (init st ri) h)) IH) as I1.
      destruct I1 as [I J]. split; [|exact J].
      intros nm d Hg. destruct (I nm d Hg) as (A1 & A2 & A3 & A4). cbn. rewrite app_nil_r. auto. }
  intros nm d Hg. destruct G as [I _]. destruct (I nm d Hg) as (_ & A2 & A3 & A4).
  cbn in A3, A4. rewrite app_nil_r in A3, A4. auto.
Qed.

(* ---- boolean equalities reflect equality *)
Lemma uid_eqb_eq a b : uid_eqb a b = true <-> a = b.
Proof.
  destruct a, b; cbn; split; intros H; try discriminate; try (apply Nat.eqb_eq in H; subst; reflexivity);
    inversion H; subst; apply Nat.eqb_refl.
Qed.
Lemma ext_eqb_eq a b : ext_eqb a b = true <-> a = b.
Proof. destruct a, b; cbn; split; intros H; try discriminate; reflexivity. Qed.
Lemma option_beq_eq {A} (eqb : A -> A -> bool) : (forall x y, eqb x y = true <-> x = y) ->
  forall a b, option_beq eqb a b = true <-> a = b.
Proof.
  intros H [x|] [y|]; cbn; split; intros E; try discriminate; try reflexivity.
  - apply H in E; subst; reflexivity.
  - inversion E; subst; apply H; reflexivity.
Qed.
Lemma prod_beq_eq {A B} (ea : A -> A -> bool) (eb : B -> B -> bool) :
  (forall x y, ea x y = true <-> x = y) -> (forall x y, eb x y = true <-> x = y) ->
  forall p q, prod_beq ea eb p q = true <-> p = q.
Proof.
  intros Ha Hb [a b] [c d]. unfold prod_beq. cbn. rewrite andb_true_iff, Ha, Hb. split.
  - intros [-> ->]; reflexivity.
  - intros H; inversion H; auto.
Qed.
Lemma dict_beq_eq {V} (eqv : V -> V -> bool) : (forall x y, eqv x y = true <-> x = y) ->
  forall a b, dict_beq eqv a b = true <-> a = b.
Proof. intros H. apply list_beq_eq. apply prod_beq_eq; [apply Nat.eqb_eq | exact H]. Qed.
Lemma descr_beq_eq a b : descr_beq a b = true -> a = b.
Proof.
  unfold descr_beq. rewrite !andb_true_iff. intros (((((H1 & H2) & H3) & H4) & H5) & H6).
  apply uid_eqb_eq in H1, H2. apply Nat.eqb_eq in H3.
  apply (dict_beq_eq _ (prod_beq_eq _ _ (option_beq_eq _ Nat.eqb_eq) ext_eqb_eq)) in H4.
  apply (dict_beq_eq _ (list_beq_eq _ Nat.eqb_eq)) in H5.
  apply (dict_beq_eq _ (option_beq_eq _ Z.eqb_eq)) in H6.
  destruct a, b; cbn in *; subst; reflexivity.
Qed.

(* ---- what a firing monitor emits *)
Definition clos_frame : preorder.
Proof. refine (mkPre (fun s s' => w_closures s' = w_closures s) _ _); [auto | intros a b c H1 H2; congruence]. Defined.

Definition out_only : preorder.
Proof. refine (mkPre (fun s s' => b_out s' = b_out s) _ _); [auto | intros a b c H1 H2; congruence]. Defined.

Lemma run_closure_docs cb r s s' r0 :
  run_closure cb r s = (s', r0) ->
  w_closures s' = w_closures s /\
  exists out, b_out s' = b_out s ++ out /\
    forall x, In x out -> exists u seq data fl o' d,
      x = DEvent u (de_uid d) seq data fl /\ dget (w_closures s) cb = Some (o', d).
Proof.
  intros H.
  assert (F : rel clos_frame (run_closure cb r)) by (unfold run_closure; rel_go ltac:(reflexivity)).
  specialize (F s). rewrite H in F. cbn in F. split; [exact F|].
  unfold run_closure in H. rewrite bind_get_eq, bind_of_opt_eq in H.
  destruct (dget (w_closures s) cb) as [[o' d]|] eqn:Hc.
  2:{ inversion H; subst. exists []. rewrite app_nil_r. split; [reflexivity | intros x []]. }
  unfold bind at 1 in H. cbn [snd] in H.
  destruct (compose_event d (dupdate [] r) [] s) as [s1 [ev|e]] eqn:Hce.
  - apply compose_event_ok in Hce. destruct Hce as (seq & _ & -> & _ & _ & _ & O & _).
    unfold emit, modify in H. inversion H; subst. cbn. rewrite O.
    eexists. split; [reflexivity|]. intros x [<-|[]]. repeat eexists.
  - assert (O : b_out s1 = b_out s).
    { assert (R : rel out_only (compose_event d (dupdate [] r) [])) by (unfold compose_event; rel_go ltac:(reflexivity)).
      specialize (R s). rewrite Hce in R. apply R. }
    inversion H; subst. exists []. rewrite app_nil_r. split; [exact O | intros x []].
Qed.

Lemma mon_event_docs o r : forall l s s' r0,
  iterM (fun oc : obj * nat => if Nat.eqb (fst oc) o then run_closure (snd oc) r else ret tt) l s = (s', r0) ->
  w_closures s' = w_closures s /\
  exists out, b_out s' = b_out s ++ out /\
    forall x, In x out -> exists u seq data fl cb o' d,
      x = DEvent u (de_uid d) seq data fl /\ In (o, cb) l /\ dget (w_closures s) cb = Some (o', d).
Proof.
  induction l as [|[ob cb] l IH]; intros s s' r0 H; cbn [iterM] in H.
  - inversion H; subst. split; [reflexivity|]. exists []. rewrite app_nil_r. split; [reflexivity | intros x []].
  - unfold bind in H. cbn [fst snd] in H.
    destruct (Nat.eqb ob o) eqn:Eo.
    + apply Nat.eqb_eq in Eo. subst ob.
      destruct (run_closure cb r s) as [s1 r1] eqn:H1. apply run_closure_docs in H1.
      destruct H1 as (C1 & out1 & O1 & D1).
      destruct r1 as [[]|e].
      * apply IH in H. destruct H as (C2 & out2 & O2 & D2). split; [congruence|].
        exists (out1 ++ out2). split; [rewrite O2, O1, app_assoc; reflexivity|].
        intros x Hx. apply in_app_or in Hx. destruct Hx as [Hx|Hx].
        -- destruct (D1 x Hx) as (u & seq & data & fl & o' & d & -> & Hc). exists u, seq, data, fl, cb, o', d.
           split; [reflexivity|]. split; [left; reflexivity | exact Hc].
        -- destruct (D2 x Hx) as (u & seq & data & fl & cb' & o' & d & -> & Hin & Hc).
           exists u, seq, data, fl, cb', o', d. split; [reflexivity|]. split; [right; exact Hin | rewrite <- C1; exact Hc].
      * inversion H; subst. split; [exact C1|]. exists out1. split; [exact O1|].
        intros x Hx. destruct (D1 x Hx) as (u & seq & data & fl & o' & d & -> & Hc). exists u, seq, data, fl, cb, o', d.
        split; [reflexivity|]. split; [left; reflexivity | exact Hc].
    + cbn in H. apply IH in H. destruct H as (C2 & out2 & O2 & D2). split; [exact C2|].
      exists out2. split; [exact O2|]. intros x Hx.
      destruct (D2 x Hx) as (u & seq & data & fl & cb' & o' & d & -> & Hin & Hc).
      exists u, seq, data, fl, cb', o', d. split; [reflexivity|]. split; [right; exact Hin | exact Hc].
Qed.

(* outside the finding class C16-a every event of a firing monitor references the latest descriptor of its stream *)
Theorem monitor_events_latest E s tr o r s' docs res :
  stale_fire tr s (OMonEvent o r) = false -> step E s (OMonEvent o r) = (s', docs, res) ->
  forall x, In x docs -> exists u seq data fl d,
    x = DEvent u (de_uid d) seq data fl /\ In (DDescr d) tr /\ latest_descr tr (de_name d) = Some d.
Proof.
  intros Hst Hs. apply step_inv in Hs. destruct Hs as (r0 & He & -> & _).
  cbn [exec] in He. unfold mon_event in He. rewrite bind_get_eq in He.
  apply mon_event_docs in He. destruct He as (_ & out & O & D). cbn in O. subst out.
  intros x Hx. destruct (D x Hx) as (u & seq & data & fl & cb & o' & d & -> & Hin & Hc).
  exists u, seq, data, fl, d. split; [reflexivity|].
  cbn [stale_fire] in Hst. change (w_subs (clear_buffers s)) with (w_subs s) in Hin.
  change (w_closures (clear_buffers s)) with (w_closures s) in Hc.
  assert (Hcb : stale_closure tr s cb = false).
  { destruct (stale_closure tr s cb) eqn:Es; [|reflexivity]. exfalso.
    apply Bool.not_true_iff_false in Hst. apply Hst.
    apply existsb_exists. exists (o, cb). split; [exact Hin|]. cbn. rewrite Nat.eqb_refl, Es. reflexivity. }
  unfold stale_closure in Hcb. rewrite Hc in Hcb. apply negb_false_iff in Hcb.
  destruct (latest_descr tr (de_name d)) as [d'|] eqn:El; [|discriminate]. cbn in Hcb. apply descr_beq_eq in Hcb. subst d'.
  split; [|reflexivity]. apply latest_in in El. apply El.
Qed.

(* ---- C16-a: the unchanged code violates the property inside the class *)
Lemma descr_beq_refl d : descr_beq d d = true.
Proof.
  unfold descr_beq. rewrite !andb_true_iff. repeat split.
  - apply uid_eqb_eq; reflexivity.
  - apply uid_eqb_eq; reflexivity.
  - apply Nat.eqb_refl.
  - apply (dict_beq_eq _ (prod_beq_eq _ _ (option_beq_eq _ Nat.eqb_eq) ext_eqb_eq)); reflexivity.
  - apply (dict_beq_eq _ (list_beq_eq _ Nat.eqb_eq)); reflexivity.
  - apply (dict_beq_eq _ (option_beq_eq _ Z.eqb_eq)); reflexivity.
Qed.

Lemma events_use_latest_reflect rest : forall pre,
  events_use_latest (pre ++ rest) -> events_use_latest_b pre rest = true.
Proof.
  induction rest as [|x rest IH]; intros pre H; [reflexivity|].
  cbn [events_use_latest_b]. apply andb_true_iff. split.
  - destruct x; try reflexivity.
    destruct (H pre u de seq data filled rest eq_refl) as (d & Hin & Hu & Hl).
    apply existsb_exists. exists (DDescr d). split; [exact Hin|].
    rewrite Hu, Hl. cbn. rewrite descr_beq_refl. destruct de; cbn; rewrite Nat.eqb_refl; reflexivity.
  - apply IH. rewrite <- app_assoc. exact H.
Qed.

Definition c16a_devs : dict devspec :=
  [(1, mkDev true true true false false false false false false [(1, ExtNone)] [])].
Definition c16a_hist : list op :=
  [OOpenRun; OMonitor 1 5 false; OConfigure 1 42%Z; OMonEvent 1 [(1, 11%Z)]].

Lemma c16a_refuted :
  exists E st ri h, no_name0 h /\ finding_C16_a E (init st ri) [] h = true /\
                    ~ events_use_latest (trace E (init st ri) h).
Proof.
  exists (env_of c16a_devs), false, false, c16a_hist.
  split; [reflexivity|]. split; [vm_compute; reflexivity|].
  intros H. apply (events_use_latest_reflect _ []) in H.
  assert (F : events_use_latest_b [] (trace (env_of c16a_devs) (init false false) c16a_hist) = false)
    by (vm_compute; reflexivity).
  rewrite F in H. discriminate H.
Qed.
