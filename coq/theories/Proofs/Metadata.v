(* Proofs about Pure/Metadata.v (RunEngine._open_run metadata handling). *)
From Coq Require Import ZArith List Bool Lia ZifyBool NArith.
From BV Require Import Base.Prelude Base.ChainMap Pure.Metadata Proofs.ChainMap.

(* ---------------------------------------------------------------- one open_run *)

Lemma merged_lookup r md' k : lookup k (chain_merge (chain r md')) = first_hit k r md'.
Proof.
  rewrite lookup_chain_merge. unfold chain, first_hit. cbn [chain_lookup].
  destruct (lookup k (call_kw r)); [reflexivity|].
  destruct (lookup k (open_kw r)); [reflexivity|].
  destruct (lookup k (ident r)); [reflexivity|].
  destruct (lookup k md'); reflexivity.
Qed.

Lemma open_run_started h md r md' doc :
  open_run h md r = (md', Started doc) ->
  exists sid merged,
    scan_src h md = Some sid /\ md' = set k_scan_id sid md /\
    validator h merged = true /\ normalizer h merged = Some doc /\
    NoDup (keys merged) /\ forall k, lookup k merged = first_hit k r md'.
Proof.
  unfold open_run. destruct (scan_src h md) as [sid|] eqn:Es; [|discriminate].
  set (md1 := set k_scan_id sid md). set (merged := chain_merge (chain r md1)).
  destruct (validator h merged) eqn:Ev; [|discriminate].
  destruct (normalizer h merged) as [d|] eqn:En; [|discriminate].
  intros [= <- <-]. exists sid, merged. repeat split; auto.
  - apply NoDup_keys_chain_merge.
  - intros k. apply merged_lookup.
Qed.

Lemma open_run_rejected h md r sid :
  scan_src h md = Some sid ->
  validator h (chain_merge (chain r (set k_scan_id sid md))) = false ->
  open_run h md r = (set k_scan_id sid md, RejectedV).
Proof. intros Es Ev. unfold open_run. now rewrite Es, Ev. Qed.

Lemma open_run_md h md r md' out :
  open_run h md r = (md', out) ->
  md' = md \/ exists sid, scan_src h md = Some sid /\ md' = set k_scan_id sid md.
Proof.
  unfold open_run. destruct (scan_src h md) as [sid|] eqn:Es.
  - intros E. right. exists sid. split; [reflexivity|].
    destruct (validator h _); [destruct (normalizer h _)|]; now injection E as <- _.
  - intros [= <- _]. now left.
Qed.

Lemma open_run_frame h md r md' out k :
  open_run h md r = (md', out) -> k <> k_scan_id -> lookup k md' = lookup k md.
Proof.
  intros E Hk. apply open_run_md in E as [-> | (sid & _ & ->)]; [reflexivity|].
  now apply lookup_set_other.
Qed.

(* ---------------------------------------------------------------- messages, calls, histories *)

(* an open_run on a key that is not open registers the key exactly when a RunStart is emitted *)
Lemma do_op_open_flag c md opens key kw st' out :
  key_mem key opens = false ->
  do_op c (md, opens) (Open key kw) = (st', out) ->
  ((exists doc, out = Started doc) /\ snd st' = opens ++ [key]) \/
  ((forall doc, out <> Started doc) /\ snd st' = opens).
Proof.
  intros Hk. cbn. rewrite Hk. destruct (open_run _ md _) as [md' o] eqn:E.
  destruct o; intros [= <- <-]; cbn; try (right; split; [discriminate | reflexivity]).
  left. eauto.
Qed.

Lemma do_op_rejecting_validator c md opens key kw sid :
  let r := {| call_kw := c_kw c; open_kw := kw; plan_type := c_type c; plan_name := c_name c |} in
  key_mem key opens = false ->
  scan_src (c_hooks c) md = Some sid ->
  validator (c_hooks c) (chain_merge (chain r (set k_scan_id sid md))) = false ->
  do_op c (md, opens) (Open key kw) = ((set k_scan_id sid md, opens), RejectedV).
Proof. intros r Hk Es Ev. cbn. rewrite Hk. fold r. now rewrite (open_run_rejected _ _ r sid Es Ev). Qed.

(* open_run with a key that is already open: IllegalMessageSequence, nothing changes
   (in particular no scan_id is consumed) *)
Lemma do_op_open_twice c md opens key kw :
  key_mem key opens = true -> do_op c (md, opens) (Open key kw) = ((md, opens), Illegal).
Proof. intros Hk. cbn. now rewrite Hk. Qed.

Lemma do_op_frame c st o st' out k :
  do_op c st o = (st', out) -> k <> k_scan_id -> lookup k (fst st') = lookup k (fst st).
Proof.
  destruct st as [md opens]. destruct o as [key kw|key]; cbn.
  - destruct (key_mem key opens); [intros [= <- _]; reflexivity|].
    destruct (open_run _ md _) as [md' o] eqn:E. intros E2 Hk.
    assert (fst st' = md') as -> by (destruct o; injection E2 as <- _; reflexivity).
    eapply open_run_frame; eauto.
  - destruct (key_mem key opens); intros [= <- _]; reflexivity.
Qed.

Lemma do_ops_frame c ops st st' obs k :
  do_ops c st ops = (st', obs) -> k <> k_scan_id ->
  lookup k (fst st') = lookup k (fst st) /\
  Forall (fun x : step_obs => lookup k (snd (fst x)) = lookup k (fst st)) obs.
Proof.
  revert st st' obs. induction ops as [|o ops IH]; intros st st' obs E Hk; cbn in E.
  - injection E as <- <-. auto.
  - destruct (do_op c st o) as [st1 out] eqn:E1. destruct (do_ops c st1 ops) as [st2 obs2] eqn:E2.
    injection E as <- <-. pose proof (do_op_frame _ _ _ _ _ _ E1 Hk) as H1.
    destruct (IH _ _ _ E2 Hk) as [H2 H3]. split; [congruence|].
    constructor; [exact H1|]. eapply Forall_impl; [|exact H3]. cbn. intros x Hx. congruence.
Qed.

Lemma do_calls_frame cs md k :
  k <> k_scan_id ->
  lookup k (fst (do_calls md cs)) = lookup k md /\
  Forall (fun x : step_obs => lookup k (snd (fst x)) = lookup k md) (concat (snd (do_calls md cs))).
Proof.
  intros Hk. revert md. induction cs as [|c cs IH]; intros md; cbn; [auto|].
  unfold do_call. destruct (do_ops c (md, []) (c_ops c)) as [[md1 b1] obs1] eqn:E1.
  destruct (do_calls md1 cs) as [md2 os] eqn:E2. cbn.
  destruct (do_ops_frame _ _ _ _ _ _ E1 Hk) as [H1 H2]. cbn in H1, H2.
  specialize (IH md1). rewrite E2 in IH. cbn in IH. destruct IH as [H3 H4].
  split; [congruence|]. apply Forall_app; split; [exact H2|].
  eapply Forall_impl; [|exact H4]. cbn. intros x Hx. congruence.
Qed.

(* ---------------------------------------------------------------- scan_id *)

Lemma ids_from_app s n1 n2 : ids_from s (n1 + n2) = ids_from s n1 ++ ids_from (s + Z.of_nat n1) n2.
Proof.
  revert s. induction n1 as [|n1 IH]; intros s; cbn [ids_from Nat.add app].
  - f_equal. lia.
  - rewrite IH. do 3 f_equal. lia.
Qed.

Definition obs_outcomes (obs : list step_obs) : list outcome := map (fun x => fst (fst x)) obs.
Definition obs_ids (obs : list step_obs) : list (option val) :=
  flat_map (fun x : step_obs => if is_started (fst (fst x)) then [lookup k_scan_id (snd (fst x))] else []) obs.
Definition nstarted (obs : list step_obs) : nat := length (filter is_started (obs_outcomes obs)).

Lemma scan_id_start_set md z : scan_id_start (set k_scan_id (VInt z) md) = Some z.
Proof. unfold scan_id_start. now rewrite lookup_set_same. Qed.

Lemma default_src_ok md s : scan_id_start md = Some s -> default_src md = Some (VInt (s + 1)).
Proof.
  unfold scan_id_start, default_src. destruct (lookup k_scan_id md) as [[z| | |]|]; try discriminate;
    now intros [= <-].
Qed.

(* one message, default source, not rejected *)
Lemma do_op_scan c st o st' out s :
  (forall md, scan_src (c_hooks c) md = default_src md) ->
  do_op c st o = (st', out) -> scan_id_start (fst st) = Some s -> is_rejected out = false ->
  (is_started out = true /\ scan_id_start (fst st') = Some (s + 1)%Z /\ lookup k_scan_id (fst st') = Some (VInt (s + 1))) \/
  (is_started out = false /\ fst st' = fst st).
Proof.
  intros Hd E Hs Hr. destruct st as [md opens]. cbn in Hs. destruct o as [key kw|key]; cbn in E.
  - destruct (key_mem key opens); [injection E as <- <-; right; auto|].
    unfold open_run in E. rewrite Hd, (default_src_ok _ _ Hs) in E.
    destruct (validator _ _).
    + destruct (normalizer _ _).
      * injection E as <- <-. left. cbn. rewrite scan_id_start_set, lookup_set_same. auto.
      * injection E as <- <-. discriminate.
    + injection E as <- <-. discriminate.
  - destruct (key_mem key opens); injection E as <- <-; right; auto.
Qed.

Lemma do_ops_scan c ops st st' obs s :
  (forall md, scan_src (c_hooks c) md = default_src md) ->
  do_ops c st ops = (st', obs) -> scan_id_start (fst st) = Some s ->
  existsb is_rejected (obs_outcomes obs) = false ->
  obs_ids obs = ids_from s (nstarted obs) /\ scan_id_start (fst st') = Some (s + Z.of_nat (nstarted obs))%Z.
Proof.
  intros Hd. revert st st' obs s. induction ops as [|o ops IH]; intros st st' obs s E Hs Hr; cbn in E.
  - injection E as <- <-. split; [reflexivity|]. rewrite Hs. f_equal. cbn. lia.
  - destruct (do_op c st o) as [st1 out] eqn:E1. destruct (do_ops c st1 ops) as [st2 obs2] eqn:E2.
    injection E as <- <-. cbn in Hr. apply orb_false_iff in Hr as [Hr1 Hr2].
    unfold obs_ids, nstarted, obs_outcomes. cbn [map flat_map filter fst snd].
    destruct (do_op_scan _ _ _ _ _ _ Hd E1 Hs Hr1) as [(Hst & Hs1 & Hl) | (Hst & Heq)]; rewrite Hst.
    + destruct (IH _ _ _ _ E2 Hs1 Hr2) as [Hi Hf]. cbn [length app]. split.
      * cbn [ids_from]. rewrite Hl. f_equal. exact Hi.
      * rewrite Hf. f_equal. unfold nstarted, obs_outcomes. lia.
    + assert (Hs1 : scan_id_start (fst st1) = Some s) by (rewrite Heq; exact Hs).
      destruct (IH _ _ _ _ E2 Hs1 Hr2) as [Hi Hf]. cbn [app]. split; [exact Hi | exact Hf].
Qed.

Lemma outcomes_cons o1 os : outcomes (o1 :: os) = obs_outcomes o1 ++ outcomes os.
Proof. unfold outcomes, obs_outcomes. cbn [concat]. apply map_app. Qed.

Lemma opened_ids_cons o1 os : opened_scan_ids (o1 :: os) = obs_ids o1 ++ opened_scan_ids os.
Proof. unfold opened_scan_ids, obs_ids. cbn [concat]. apply flat_map_app. Qed.

Lemma do_calls_scan cs md s :
  all_default_src cs -> scan_id_start md = Some s ->
  existsb is_rejected (outcomes (snd (do_calls md cs))) = false ->
  let r := do_calls md cs in
  let n := length (filter is_started (outcomes (snd r))) in
  opened_scan_ids (snd r) = ids_from s n /\ scan_id_start (fst r) = Some (s + Z.of_nat n)%Z.
Proof.
  revert md s. induction cs as [|c cs IH]; intros md s Hd Hs Hr; cbn.
  - split; [reflexivity|]. rewrite Hs. f_equal. lia.
  - cbn in Hr. unfold do_call in *.
    destruct (do_ops c (md, []) (c_ops c)) as [[md1 b1] obs1] eqn:E1.
    destruct (do_calls md1 cs) as [md2 os] eqn:E2. cbn [fst snd] in *.
    rewrite outcomes_cons in *. rewrite existsb_app in Hr. apply orb_false_iff in Hr as [Hr1 Hr2].
    assert (Hdc : forall md, scan_src (c_hooks c) md = default_src md) by (apply Hd; now left).
    destruct (do_ops_scan _ _ _ _ _ _ Hdc E1 Hs Hr1) as [Hi1 Hf1]. cbn [fst] in Hf1.
    assert (Hd' : all_default_src cs) by (intros c' Hin; apply Hd; now right).
    specialize (IH md1 _ Hd' Hf1). rewrite E2 in IH. cbn [fst snd] in IH.
    destruct (IH Hr2) as [Hi2 Hf2].
    rewrite opened_ids_cons, filter_app, app_length, ids_from_app. split.
    + f_equal; [exact Hi1 | exact Hi2].
    + rewrite Hf2. f_equal. unfold nstarted. lia.
Qed.

Theorem scan_id_consecutive md cs :
  all_default_src cs -> finding_C17_a md cs = false -> scan_ids_consecutive md cs.
Proof.
  intros Hd Hf s0 Hs. unfold finding_C17_a in Hf. exact (do_calls_scan cs md s0 Hd Hs Hf).
Qed.

(* ---------------------------------------------------------------- the refutation *)

Definition witness_hooks : hooks :=
  {| validator := v_forbid 10%N (VInt 1); normalizer := default_normalizer; scan_src := default_src |}.
Definition witness_calls : list call :=
  [{| c_hooks := witness_hooks; c_kw := []; c_type := 11%N; c_name := 12%N;
      c_ops := [Open None [(10%N, VInt 1)]; Open None []; Close None] |}].

Lemma a_refuted :
  exists md cs, all_default_src cs /\ finding_C17_a md cs = true /\ ~ scan_ids_consecutive md cs.
Proof.
  exists [], witness_calls. split; [|split].
  - intros c [<- | []] md. reflexivity.
  - vm_compute. reflexivity.
  - intros H. specialize (H 0%Z eq_refl). cbv zeta in H. destruct H as [H _].
    vm_compute in H. discriminate.
Qed.
