"""Extra engine cases for C12 / C13 (responses and errors reach the right plan at the right yield).
Never edits engine_cases.py; uses its DSL helpers.

Families (tag prefix "resp"):
  * chk     plans whose every message has a distinctive response (uid, status, reading, devs, bool) under pause /
            deferred pause / suspension (with pre/post plans) / abort / stop / halt at every step, several post-pause scripts;
  * cancel  a command suspended in wait / a bundled read / sleep, interrupted by a pause or a suspension at the
            step where the task sits inside the command (finding class C13-a), overlapping suspensions;
  * fault   every device method raising at its n-th call, with plans that ignore / handle / transform / clean up;
  * status  status objects finished by hand, successfully or not, before / at / after the wait on their group,
            with plans that handle, ignore or do not wait at all;
  * reject  a suspension request refused by the state machine while a command is in flight (regression of C13-b);
  * calls   several calls on one engine (plan ids 0, 1, 2), also after an aborted / failed call;
  * real    real bluesky plans (count, trigger_and_read) through the real preprocessors - run for the oracles only;
  * wrap    (oracle only, run by harness/drivers/engine_driver_resp.py) the plan sits under REAL preprocessors
            (stub_wrapper / msg_mutator deleting messages, identity msg_mutator / plan_mutator, baseline_wrapper,
            finalize_wrapper, SupplementalData as engine preprocessor): every yield of the plan itself must receive the
            engine's response to its message, None for a deleted message;
  * crr     (oracle only) RunEngine(call_returns_result=True): plans returning values - normally, after catching a
            device fault, under plan_mutator-based preprocessors - plan_result / run_start_uids / exit_status.
"""
from harness.drivers.engine_cases import m, seq, base, count_msgs, DEVS, BUNDLE


def p_chk():
    return seq(m("stage", 0), m("open_run"), m("checkpoint"), m("set", 1, [1], {"group": "g"}), m("trigger", 2, [], {"group": "g"}),
               m("wait", None, [], {"group": "g"}), *BUNDLE, m("checkpoint"), m("rewindable", None, [None]), m("null"),
               m("close_run"), m("unstage", 0))


def p_wait():
    return seq(m("open_run"), m("checkpoint"), m("set", 1, [1], {"group": "g"}), m("wait", None, [], {"group": "g"}),
               m("null"), m("close_run"))


def p_wait2():
    return seq(m("open_run"), m("checkpoint"), m("set", 1, [1], {"group": "g"}), m("null"), m("checkpoint"),
               m("trigger", 2, [], {"group": "h"}), m("wait", None, [], {"group": "g"}), m("wait", None, [], {"group": "h"}),
               m("close_run"))


def p_nowait():
    return seq(m("open_run"), m("checkpoint"), m("set", 1, [1], {"group": "g"}), m("null"), m("null"), m("checkpoint"),
               m("null"), m("close_run"))


def p_sleep():
    return seq(m("open_run"), m("checkpoint"), m("sleep", None, [0.3]), *BUNDLE, m("close_run"))


def wrap(kind, body, tail):
    """how the plan treats an error raised inside body"""
    if kind == "ignore":
        return seq(body, tail)
    if kind == "handle":
        return seq(["tryexc", body, seq(m("null"))], tail)
    if kind == "transform":
        return seq(["tryexc", body, seq(m("null"), ["raise", "EUser2"])], tail)
    if kind == "cleanup":
        return ["tryfin", body, tail]
    raise ValueError(kind)


def p_fault(kind):
    body = seq(m("stage", 0), m("open_run"), m("checkpoint"), m("set", 1, [1], {"group": "g"}), m("wait", None, [], {"group": "g"}),
               m("trigger", 2, [], {"group": "t"}), m("wait", None, [], {"group": "t"}), *BUNDLE, m("stop", 1))
    return wrap(kind, body, seq(m("close_run"), m("unstage", 0)))


def p_status(kind, waits):
    body = [m("open_run"), m("checkpoint"), m("set", 1, [1], {"group": "g"}), m("null"), m("null")]
    if waits:
        body.append(m("wait", None, [], {"group": "g"}))
    body += [m("checkpoint"), m("null")]
    return wrap(kind, seq(*body), seq(m("null"), m("close_run")))


SCRIPTS = [["resume"], ["abort"], ["resume", "resume"], ["stop"], ["halt"]]


def gen(rng, tier):
    out = []
    thorough = tier == "thorough"
    # ---- chk: every response distinctive, every interruption point
    plan = p_chk()
    n = count_msgs(plan) + 4
    for at in range(1, n + 1):
        for r in ("pause", "defer", "abort", "stop", "halt"):
            scripts = SCRIPTS if (thorough or at % 4 == 1) else SCRIPTS[:1]
            for sc in (scripts if r in ("pause", "defer") else [[]]):
                out.append(base(plan, inject=[{"at": at, "req": r}], script=sc, tag="resp chk %s@%d %s" % (r, at, "+".join(sc))))
        out.append(base(plan, inject=[{"at": at, "req": "suspend", "pre": seq(m("null"), m("set", 2, [1], {"group": None})),
                                       "post": seq(m("null"))}, {"at": at + 5, "req": "release", "sid": 0}],
                        record_interruptions=(at % 2 == 0), tag="resp chk suspend-prepost@%d" % at))
    # ---- cancel: commands interrupted while suspended (manual statuses keep the task inside `wait`)
    for pf, name in ((p_wait, "wait"), (p_wait2, "wait2"), (p_sleep, "sleep")):
        plan = pf()
        n = count_msgs(plan) + 3
        for at in range(3, n + 1):
            fin = [{"at": at + k, "req": "status", "sid": s, "ok": True} for k, s in ((3, 0), (5, 1), (7, 2), (9, 3))]
            out.append(base(plan, status_mode="manual", inject=[{"at": at, "req": "pause"}] + fin, script=["resume"],
                            tag="resp cancel %s pause@%d" % (name, at)))
            out.append(base(plan, status_mode="manual",
                            inject=[{"at": at, "req": "suspend"}, {"at": at + 2, "req": "release", "sid": 0}] + fin,
                            tag="resp cancel %s suspend@%d" % (name, at)))
            if thorough or at % 2 == 1:
                out.append(base(plan, status_mode="manual",
                                inject=[{"at": at, "req": "suspend"}, {"at": at + 3, "req": "suspend"},
                                        {"at": at + 6, "req": "release", "sid": 1}, {"at": at + 8, "req": "release", "sid": 0}] + fin,
                                tag="resp cancel %s suspend2@%d" % (name, at)))
    # ---- fault: each device method raising, plans that ignore / handle / transform / clean up
    for kind in ("ignore", "handle", "transform", "cleanup"):
        plan = p_fault(kind)
        for dev, meth in ((0, "stage"), (1, "set"), (2, "trigger"), (1, "read"), (1, "stop"), (0, "unstage")):
            out.append(base(plan, faults=[[dev, meth, 0, "EDev"]], tag="resp fault %s %d.%s" % (kind, dev, meth)))
        # a fault together with an interruption
        for at in ((3, 6, 9) if not thorough else range(2, 12)):
            out.append(base(plan, faults=[[1, "read", 0, "EDev"]], inject=[{"at": at, "req": "pause"}], script=["resume"],
                            tag="resp fault %s read+pause@%d" % (kind, at)))
            out.append(base(plan, faults=[[2, "trigger", 0, "EDev"]],
                            inject=[{"at": at, "req": "suspend"}, {"at": at + 4, "req": "release", "sid": 0}],
                            tag="resp fault %s trigger+suspend@%d" % (kind, at)))
    # ---- status: failing statuses before / at / after the wait
    for kind in ("ignore", "handle", "transform", "cleanup"):
        for waits in (True, False):
            plan = p_status(kind, waits)
            for at in (range(3, 10) if (thorough or kind in ("ignore", "handle")) else (4, 6, 8)):
                for ok in ((True, False) if kind == "ignore" else (False,)):
                    out.append(base(plan, status_mode="manual", inject=[{"at": at, "req": "status", "sid": 0, "ok": ok}],
                                    tag="resp status %s wait=%s %s@%d" % (kind, waits, ok, at)))
            # failure while paused / while suspended
            out.append(base(plan, status_mode="manual",
                            inject=[{"at": 4, "req": "pause"}, {"at": 5, "req": "status", "sid": 0, "ok": False}], script=["resume"],
                            tag="resp status %s wait=%s fail-while-paused" % (kind, waits)))
            out.append(base(plan, status_mode="manual",
                            inject=[{"at": 4, "req": "suspend"}, {"at": 7, "req": "status", "sid": 0, "ok": False},
                                    {"at": 9, "req": "release", "sid": 0}],
                            tag="resp status %s wait=%s fail-while-suspended" % (kind, waits)))
    # ---- reject: a refused suspension request while a command is in flight
    fin_wait = ["tryfin", seq(m("open_run"), m("checkpoint"), m("set", 1, [1], {"group": "g"}), m("null"), m("null"), m("null")),
                seq(m("wait", None, [], {"group": "g"}), m("close_run"))]
    for r1 in ("abort", "stop", "halt", "pause"):
        for at in (4, 5, 6):
            for d in (1, 2, 3):
                out.append(base(fin_wait, status_mode="manual",
                                inject=[{"at": at, "req": r1}, {"at": at + d, "req": "suspend"},
                                        {"at": at + d + 1, "req": "status", "sid": 0, "ok": True},
                                        {"at": at + d + 6, "req": "release", "sid": 0}],
                                script=["resume"], tag="resp reject %s@%d suspend+%d" % (r1, at, d)))
    # ---- calls: several calls on one engine
    a, b, c = p_wait(), seq(m("open_run"), m("checkpoint"), *BUNDLE, ["raise", "EUser1"]), p_chk()
    out.append(base(None, calls=[a, b, c], tag="resp calls plain"))
    for at in (3, 6, 9, 12):
        out.append(base(None, calls=[c, a, c], inject=[{"at": at, "req": "pause"}], script=["resume"], tag="resp calls pause@%d" % at))
        out.append(base(None, calls=[c, b, a], inject=[{"at": at, "req": "abort"}], tag="resp calls abort@%d" % at))
    for cse in out:
        if cse.get("plan") is None:
            cse.pop("plan", None)
    # ---- real plans through the real preprocessors (the model does not cover all of their messages)
    for spec, name in ((["builtin", "count", [1], 2], "count"), (["builtin", "count", [1, 2], 1], "count2"),
                       (seq(m("open_run"), ["builtin", "trigger_and_read", [1, 2]], m("close_run")), "tar")):
        out.append(base(spec, no_model=True, tag="resp real %s plain" % name))
        for at in ((2, 5, 8, 11) if not thorough else range(1, 16)):
            out.append(base(spec, no_model=True, inject=[{"at": at, "req": "pause"}], script=["resume"], tag="resp real %s pause@%d" % (name, at)))
            out.append(base(spec, no_model=True, inject=[{"at": at, "req": "suspend"}, {"at": at + 3, "req": "release", "sid": 0}],
                            tag="resp real %s suspend@%d" % (name, at)))
            out.append(base(spec, no_model=True, faults=[[1, "trigger", 0, "EDev"]], inject=[{"at": at, "req": "abort"}],
                            tag="resp real %s fault+abort@%d" % (name, at)))
    out += wrapped_cases(tier)
    return out


def p_inner(ret=7):
    """responses are distinctive and the deleted messages come right after a non-None response"""
    return seq(m("read", 1), m("open_run"), m("null"), m("set", 1, [1], {"group": "g"}), m("null"), m("wait", None, [], {"group": "g"}),
               m("close_run"), m("stage", 0), m("read", 2), m("unstage", 0), m("null"), ["ret", ret])


def p_value(kind):
    run = [m("open_run"), m("checkpoint"), *BUNDLE, m("close_run")]
    if kind == "plain":
        return seq(*run, ["ret", 11])
    if kind == "caught":            # the last step fails inside the device; the plan catches it and returns at once
        return seq(*run, ["tryexc", seq(m("set", 1, [1], {"group": None}), ["ret", 12]), ["ret", 13]])
    if kind == "caught-then-yield":
        return seq(*run, ["tryexc", seq(m("set", 1, [1], {"group": None}), ["ret", 12]), seq(m("null"), ["ret", 14])])
    if kind == "norun":
        return seq(m("null"), ["ret", 15])
    raise ValueError(kind)


def wrapped_cases(tier):
    out = []
    thorough = tier == "thorough"

    def add(plan, tag, **kw):
        out.append(base(plan, resp_driver=True, no_model=True, tag="resp " + tag, **kw))
    # ---- wrap: deleting / transparent preprocessors between the engine and the plan
    wraps = [("stub", [["stub"]]), ("del-null", [["delete", ["null"]]]), ("del-run", [["delete", ["open_run", "close_run"]]]),
             ("del-all", [["delete", ["null", "open_run", "close_run", "stage", "unstage"]]]),
             ("msg-id", [["msg_identity"]]), ("plan-id", [["plan_identity"]]), ("stub+plan-id", [["stub"], ["plan_identity"]]),
             ("del+finalize", [["delete", ["null"]], ["finalize"]])]
    plan = p_inner()
    n = count_msgs(plan) + 3
    for name, w in wraps:
        add(plan, "wrap %s plain" % name, wrap=w)
        for at in range(2, n + 1, 2 if thorough else 4):
            add(plan, "wrap %s pause@%d" % (name, at), wrap=w, inject=[{"at": at, "req": "pause"}], script=["resume"])
            add(plan, "wrap %s suspend@%d" % (name, at), wrap=w, inject=[{"at": at, "req": "suspend"}, {"at": at + 3, "req": "release", "sid": 0}])
        add(plan, "wrap %s fault" % name, wrap=w, faults=[[1, "set", 0, "EDev"]])
    # a real run around a stub: baseline wrapper and SupplementalData need an open run
    inrun = seq(m("open_run"), m("checkpoint"), m("read", 1), m("null"), *BUNDLE, m("null"), m("close_run"), ["ret", 3])
    for name, kw in (("baseline", {"wrap": [["delete", ["null"]], ["baseline", [2]]]}),
                     ("supplemental", {"wrap": [["delete", ["null"]]], "preproc": [["supplemental", [2]]]})):
        add(inrun, "wrap %s plain" % name, **kw)
        for at in (3, 6, 9):
            add(inrun, "wrap %s pause@%d" % (name, at), inject=[{"at": at, "req": "pause"}], script=["resume"], **kw)
    # ---- crr: the value RE(...) returns when configured to return results
    envs = [("bare", {}), ("msg-id", {"wrap": [["msg_identity"]]}), ("plan-id", {"wrap": [["plan_identity"]]}),
            ("finalize", {"wrap": [["finalize"]]}), ("pre-plan-id", {"preproc": [["plan_identity"]]}),
            ("pre-msg-id", {"preproc": [["msg_identity"]]}), ("supplemental", {"preproc": [["supplemental", [2]]]}),
            ("baseline", {"wrap": [["baseline", [2]]]})]
    for kind in ("plain", "caught", "caught-then-yield", "norun"):
        for name, kw in envs:
            if kind == "norun" and name in ("supplemental", "baseline"):
                pass
            faults = [[1, "set", 0, "EDev"]] if kind.startswith("caught") else []
            add(p_value(kind), "crr %s %s" % (kind, name), crr=True, faults=faults, **kw)
            if kind == "plain":
                add(p_value(kind), "crr %s %s pause" % (kind, name), crr=True, inject=[{"at": 4, "req": "pause"}], script=["resume"], **kw)
                add(p_value(kind), "crr %s %s abort" % (kind, name), crr=True, inject=[{"at": 4, "req": "abort"}], **kw)
    add(None, "crr calls", crr=True, calls=[p_value("plain"), p_value("caught"), p_value("norun")], faults=[[1, "set", 0, "EDev"]])
    del out[-1]["plan"]
    return out
