(* C09, end to end: a deferred pause request takes effect exactly at the next checkpoint.
   Over whole schedules of the engine model Engine/RE.v, for all plan coalgebras and device oracles.

   phases  A  the request has been accepted (flag set, lifecycle `running`), the task keeps executing messages;
           G  the grace sleep of the checkpoint taken with the flag set (pc = PcCmd KCkptSleep, cache = []);
           H  the hard pause at the end of the grace sleep has been made: `pausing`, task cancelled, asleep;
           Z  the task has parked: `paused`, the blocking call is released.
   Built on Proofs/RE_Small.v (dstep), Proofs/RE_Inv.v and Proofs/RE_ExitE2E.v (reachable-state invariant),
   Proofs/RE_Ctl.v (interruption records never fail), Proofs/RE_Shape.v (observation shapes). *)
From Coq Require Import List String ZArith Bool Arith Lia.
From BV Require Import Engine.RE Proofs.RE_Small Proofs.RE_Inv Proofs.RE_Ctl Proofs.RE_Shape.
From BV Require Proofs.RE_ExitE2E.
Import ListNotations.
(* file-local implicit arguments for the model's functions (the model file itself is untouched) *)
Local Arguments upd {P D}.
Local Arguments set_state_raw {P D}.
Local Arguments set_pc {P D}.
Local Arguments set_must_cancel {P D}.
Local Arguments set_permit {P D}.
Local Arguments set_blocking {P D}.
Local Arguments set_plans {P D}.
Local Arguments set_resps {P D}.
Local Arguments set_cache {P D}.
Local Arguments set_rewindable {P D}.
Local Arguments set_exc_slot {P D}.
Local Arguments set_stashed {P D}.
Local Arguments set_interrupted {P D}.
Local Arguments set_deferred {P D}.
Local Arguments set_exit {P D}.
Local Arguments upd2 {P D}.
Local Arguments set_bundlers {P D}.
Local Arguments set_staged {P D}.
Local Arguments set_moved {P D}.
Local Arguments set_seen {P D}.
Local Arguments set_groups {P D}.
Local Arguments set_statuses {P D}.
Local Arguments set_futs {P D}.
Local Arguments set_uids {P D}.
Local Arguments set_pardon {P D}.
Local Arguments set_dst {P D}.
Local Arguments set_task_set {P D}.
Local Arguments set_ghost {P D}.
Local Arguments interrupt {P D}.
Local Arguments resumable {P D}.
Local Arguments set_state {P D}.
Local Arguments cancel_task {P D}.
Local Arguments map_bundlers {P D}.
Local Arguments record_interruptions {P D}.
Local Arguments reset_checkpoint {P D}.
Local Arguments rewind {P D}.
Local Arguments dcall {P D}.
Local Arguments stop_movables {P D}.
Local Arguments call_pausables {P D}.
Local Arguments get_bundler {P D}.
Local Arguments put_bundler {P D}.
Local Arguments any_bundling {P D}.
Local Arguments add_status {P D}.
Local Arguments request_pause {P D}.
Local Arguments finish_read {P D}.
Local Arguments mark_cached {P D}.
Local Arguments exec_cmd {P D}.
Local Arguments set_main {P D}.
Local Arguments set_mreq {P D}.
Local Arguments set_ers {P D}.
Local Arguments push_frame {P D}.
Local Arguments pop_plan {P D}.
Local Arguments replace_top {P D}.
Local Arguments all_resolved {P D}.
Local Arguments all_released {P D}.
Local Arguments close_runs {P D}.
Local Arguments FUEL {P D}.
Local Arguments req_result {P D}.
Local Arguments clear_call {P D}.
Local Arguments state {P D}.
Local Arguments pc {P D}.
Local Arguments must_cancel {P D}.
Local Arguments permit {P D}.
Local Arguments blocking {P D}.
Local Arguments task_set {P D}.
Local Arguments plans {P D}.
Local Arguments resps {P D}.
Local Arguments cache {P D}.
Local Arguments rewindable {P D}.
Local Arguments exc_slot {P D}.
Local Arguments stashed {P D}.
Local Arguments interrupted {P D}.
Local Arguments deferred {P D}.
Local Arguments exit_status {P D}.
Local Arguments reason {P D}.
Local Arguments bundlers {P D}.
Local Arguments staged {P D}.
Local Arguments moved {P D}.
Local Arguments pausables {P D}.
Local Arguments stageables {P D}.
Local Arguments seen {P D}.
Local Arguments groups {P D}.
Local Arguments statuses {P D}.
Local Arguments failed_seen {P D}.
Local Arguments futs {P D}.
Local Arguments uid_supply {P D}.
Local Arguments run_uids {P D}.
Local Arguments record_intr {P D}.
Local Arguments pardon {P D}.
Local Arguments mreq {P D}.
Local Arguments was_paused {P D}.
Local Arguments main_err {P D}.
Local Arguments exit_reason_set {P D}.
Local Arguments icause {P D}.
Local Arguments late_pause {P D}.
Local Arguments intr_err {P D}.
Local Arguments dst {P D}.
Local Arguments start_sub {P}.
Local Arguments helper_after_pre {P}.
Local Arguments helper_after_post {P}.
Local Arguments helper_set {P}.
Local Arguments helper_rewind_next {P}.
Local Arguments helper_resume {P}.
Local Arguments frame_resume {P}.
Local Arguments exec_start_suspender {P} plan_of {D} dev.
Local Arguments close_frames {P} presume {D}.
Local Arguments finalize {P} presume {D} dev.
Local Arguments drive {P} presume plan_of {D} dev.
Local Arguments task_step {P} presume plan_of {D} dev.
Local Arguments step {P} presume plan_of {D} dev.
Local Arguments run {P} presume plan_of {D} dev.
Local Arguments init {P D}.

Ltac simp_st :=
  cbn [state pc must_cancel permit blocking task_set plans resps cache rewindable
       exc_slot stashed interrupted deferred exit_status reason bundlers staged moved
       pausables stageables seen groups statuses failed_seen futs uid_supply run_uids
       record_intr pardon mreq was_paused main_err exit_reason_set icause late_pause
       intr_err dst
       upd upd2 set_ghost set_main set_mreq set_ers interrupt
       set_state_raw set_pc set_must_cancel set_permit set_blocking set_plans set_resps
       set_cache set_rewindable set_exc_slot set_stashed set_interrupted set_deferred set_exit
       set_bundlers set_staged set_moved set_seen set_groups set_statuses set_futs set_uids
       set_pardon set_dst set_task_set map_bundlers put_bundler push_frame pop_plan
       replace_top] in *.

Lemma allowed_running_pausing : allowed Running Pausing = true. Proof. vm_compute. reflexivity. Qed.
Lemma allowed_pausing_paused : allowed Pausing Paused = true. Proof. vm_compute. reflexivity. Qed.
Lemma allowed_running_running : allowed Running Running = false. Proof. vm_compute. reflexivity. Qed.
Lemma checkpoint_cacheable : cacheable CCheckpoint = true. Proof. vm_compute. reflexivity. Qed.

Section Defer.
Variable P : Type.
Variable presume : P -> input -> outcome P.
Variable plan_of : nat -> P.
Variable D : Type.
Variable dev : D -> nat -> devmeth -> D * devres.
Notation st := (st P D).
Local Notation dstep := (RE_Small.dstep P presume plan_of D dev).

(* ------------------------------------------------------------------ three control fields and who writes them *)
Definition r3 (s : st) := (state s, deferred s, must_cancel s, interrupted s).

Lemma dcall_r3 (s : st) d m s' r o : dcall dev s d m = (s', r, o) -> r3 s' = r3 s.
Proof. unfold dcall. destruct (dev _ _ _). intros H; invc H. reflexivity. Qed.

Lemma dloop_r3 mth l : forall (s0 : st) o0 s1 o1,
  fold_left (fun acc d => let '(s0, os) := acc in
                          let '(s1, _, o) := dcall dev s0 d mth in (s1, os ++ o)) l (s0, o0) = (s1, o1) -> r3 s1 = r3 s0.
Proof.
  induction l as [|d l IH]; intros s0 o0 s1 o1 H; cbn in H.
  - invc H; reflexivity.
  - destruct (dcall dev s0 d mth) as [[sa ra] oa] eqn:E. apply IH in H. apply dcall_r3 in E. congruence.
Qed.

Lemma stop_movables_r3 (s : st) s' o : stop_movables dev s = (s', o) -> r3 s' = r3 s.
Proof. unfold stop_movables. apply dloop_r3. Qed.

Lemma call_pausables_r3 (s : st) m s' e o : call_pausables dev s m = (s', e, o) -> r3 s' = r3 s.
Proof.
  unfold call_pausables.
  assert (G : forall l (s0 : st) e0 o0 s1 e1 o1,
             fold_left (fun acc d =>
               let '(s0, e, os) := acc in
               match e with
               | Some _ => acc
               | None => if mem_nat d (seen s0)
                         then let '(s1, r, o) := dcall dev s0 d m in
                              (s1, match r with DRaise x => Some x | _ => None end, os ++ o)
                         else acc
               end) l (s0, e0, o0) = (s1, e1, o1) -> r3 s1 = r3 s0).
  { induction l as [|d l IH]; intros s0 e0 o0 s1 e1 o1 H; cbn in H.
    - invc H; reflexivity.
    - destruct e0; [eapply IH; eassumption|].
      destruct (mem_nat d (seen s0)); [|eapply IH; eassumption].
      destruct (dcall dev s0 d m) as [[sa ra] oa] eqn:E. apply IH in H. apply dcall_r3 in E. congruence. }
  intros H. eapply G; exact H.
Qed.

Lemma record_interruptions_r3 (s : st) s' o ok : record_interruptions s = (s', o, ok) -> r3 s' = r3 s.
Proof. unfold record_interruptions. destruct (record_intr_list (bundlers s)) as [[bs os] ok0]. intros H; invc H. reflexivity. Qed.

Lemma reset_checkpoint_r3 (s : st) : r3 (reset_checkpoint s) = r3 s.
Proof. unfold reset_checkpoint. destruct (cache s); reflexivity. Qed.

Lemma rewind_r3 (s : st) s1 l : rewind s = (s1, l) -> r3 s1 = r3 s.
Proof. unfold rewind. destruct (cache s); intros H; invc H; [destruct (Nat.eqb (List.length l) 0)|]; reflexivity. Qed.

Lemma finish_read_r3 (s : st) run d z o0 s' c o : finish_read s run d z o0 = (s', c, o) -> r3 s' = r3 s.
Proof. unfold finish_read. repeat bmg; intros H; invc H; reflexivity. Qed.

Lemma finish_read_done (s : st) run d z o0 s' c o : finish_read s run d z o0 = (s', c, o) -> exists r, c = Done r.
Proof. unfold finish_read. repeat bmg; intros H; invc H; eexists; reflexivity. Qed.

Lemma mark_cached_r3 (s : st) run d : r3 (mark_cached s run d) = r3 s.
Proof. unfold mark_cached. destruct (get_bundler s run); reflexivity. Qed.

Lemma exec_cmd_r3 (s : st) m s' c o :
  (forall d, mcmd m <> CPause d) -> exec_cmd dev s m = (s', c, o) -> r3 s' = r3 s.
Proof.
  intros Hnp. unfold exec_cmd. destruct (mcmd m) eqn:Ec; try (exfalso; eapply Hnp; reflexivity);
    repeat bmg; intros H; invc H;
    repeat match goal with
           | Hx : dcall _ _ _ _ = _ |- _ => apply dcall_r3 in Hx
           | Hx : call_pausables _ _ _ = _ |- _ => apply call_pausables_r3 in Hx
           | Hx : finish_read _ _ _ _ _ = _ |- _ => apply finish_read_r3 in Hx
           end;
    rewrite ?reset_checkpoint_r3; unfold r3 in *; cbn in *; rewrite ?reset_checkpoint_r3; try congruence; try reflexivity.
Qed.

Lemma exec_start_suspender_r3 (s : st) sid pre post s' c o :
  exec_start_suspender plan_of dev s sid pre post = (s', c, o) -> r3 s' = r3 s.
Proof.
  unfold exec_start_suspender. repeat bmg; intros H; invc H;
    repeat match goal with
           | Hx : stop_movables _ _ = _ |- _ => apply stop_movables_r3 in Hx
           | Hx : call_pausables _ _ _ = _ |- _ => apply call_pausables_r3 in Hx
           | Hx : record_interruptions _ = _ |- _ => apply record_interruptions_r3 in Hx
           | Hx : rewind _ = _ |- _ => apply rewind_r3 in Hx
           end; unfold r3 in *; cbn in *; congruence.
Qed.

Lemma exec_start_suspender_done (s : st) sid pre post s' c o :
  exec_start_suspender plan_of dev s sid pre post = (s', c, o) -> exists r, c = Done r.
Proof. unfold exec_start_suspender. repeat bmg; intros H; invc H; eexists; reflexivity. Qed.

(* only a checkpoint starts the grace sleep *)
Lemma exec_cmd_grace (s : st) m s' o : exec_cmd dev s m = (s', Susp KCkptSleep, o) -> mcmd m = CCheckpoint.
Proof.
  unfold exec_cmd. destruct (mcmd m) eqn:Ec; try reflexivity; repeat bmg; intros H;
    try (apply finish_read_done in H; destruct H as [r H]); try discriminate H.
Qed.

(* the finally block: the lifecycle goes to idle (or stays, were the move refused); the cancellation mark stays *)
Lemma finalize_r3 (s : st) r pend s' o :
  finalize presume dev s r pend = (s', o) ->
  must_cancel s' = must_cancel s /\ deferred s' = deferred s /\ (state s' = Idle \/ state s' = state s) /\
  interrupted s' = interrupted s.
Proof.
  unfold finalize.
  destruct (stop_movables dev (set_pardon s true)) as [s2 o2] eqn:E2.
  match goal with |- context [fold_left ?f ?l ?a] => destruct (fold_left f l a) as [s3 o3] eqn:E3 end.
  apply stop_movables_r3 in E2. apply dloop_r3 in E3.
  unfold set_state. cbv zeta.
  match goal with |- context [allowed ?a Idle] => destruct (allowed a Idle) end; intros H; invc H;
    unfold r3 in *; cbn in *; repeat split; try congruence; auto; right; congruence.
Qed.

(* a checkpoint outside a bundle: the checkpoint is taken (also after clear_checkpoint); with the flag set the command
   does not return but starts the grace sleep *)
Definition ckpt_state (s : st) : st :=
  reset_checkpoint (match cache s with None => set_cache s (Some []) | Some _ => s end).

Lemma exec_checkpoint (s : st) m :
  mcmd m = CCheckpoint ->
  exec_cmd dev s m =
    if any_bundling s then (s, Done (RExn EIMS), [])
    else (ckpt_state s, if deferred s then Susp KCkptSleep else Done (RVal VNone), []).
Proof.
  intros Hc. unfold exec_cmd, ckpt_state. rewrite Hc. destruct (any_bundling s); [reflexivity|].
  assert (E : deferred (reset_checkpoint (match cache s with None => set_cache s (Some []) | Some _ => s end)) = deferred s).
  { unfold reset_checkpoint. destruct (cache s) eqn:Ec; cbn; rewrite ?Ec; reflexivity. }
  rewrite E. destruct (deferred s); reflexivity.
Qed.

Lemma ckpt_state_cache (s : st) : cache (ckpt_state s) = Some [].
Proof. unfold ckpt_state, reset_checkpoint. destruct (cache s) eqn:E; cbn; rewrite ?E; reflexivity. Qed.

Lemma ckpt_state_same (s : st) : RE_Inv.same P D s (ckpt_state s) /\ r3 (ckpt_state s) = r3 s /\ exc_slot (ckpt_state s) = exc_slot s.
Proof.
  unfold ckpt_state, reset_checkpoint, RE_Inv.same, r3. destruct (cache s) eqn:E; cbn; rewrite ?E; cbn; repeat split; reflexivity.
Qed.

(* ------------------------------------------------------------------ a pending cancellation means the lifecycle has left
   `running`: every cancel_task() is preceded by a move to pausing / suspending / aborting / stopping / halting, and
   the task consumes the cancellation before it brings the lifecycle back to `running` *)
Definition j1 (s : st) : Prop := must_cancel s = true -> state s <> Running.
(* inside a step of the task: ... and is not `suspending` either (the top of the loop turns that into `running`) *)
Definition dj1 (s : st) : Prop := must_cancel s = true -> state s <> Running /\ state s <> Suspending.

Lemma dj1_j1 (s : st) : dj1 s -> j1 s.
Proof. unfold dj1, j1. intros H Hm. apply H, Hm. Qed.

Lemma dj1_r3 (s s' : st) : r3 s' = r3 s -> dj1 s -> dj1 s'.
Proof. unfold r3, dj1. intros H; inversion H as [[A B C E]]. rewrite A, C. auto. Qed.

Lemma j1_r3 (s s' : st) : r3 s' = r3 s -> j1 s -> j1 s'.
Proof. unfold r3, j1. intros H; inversion H as [[A B C E]]. rewrite A, C. auto. Qed.

Lemma request_pause_dj1 (s : st) d s' e o : request_pause s d = (s', e, o) -> dj1 s -> dj1 s'.
Proof.
  intros H Hd. apply RE_Inv.request_pause_spec in H. destruct H as [H|H].
  - destruct H as [[H _] _]. unfold RE_Inv.same in H. unfold dj1 in *.
    destruct H as (A & _ & B & _). rewrite A, B. exact Hd.
  - unfold RE_Inv.pause_acc in H. destruct H as (_ & A & _). unfold dj1. rewrite A. intros _. split; discriminate.
Qed.

Lemma request_pause_j1 (s : st) d s' e o : request_pause s d = (s', e, o) -> j1 s -> j1 s'.
Proof.
  intros H Hd. apply RE_Inv.request_pause_spec in H. destruct H as [H|H].
  - destruct H as [[H _] _]. unfold RE_Inv.same in H. unfold j1 in *.
    destruct H as (A & _ & B & _). rewrite A, B. exact Hd.
  - unfold RE_Inv.pause_acc in H. destruct H as (_ & A & _). unfold j1. rewrite A. intros _. discriminate.
Qed.

Ltac r3_frames :=
  repeat match goal with
         | Hx : stop_movables _ _ = _ |- _ => apply stop_movables_r3 in Hx
         | Hx : call_pausables _ _ _ = _ |- _ => apply call_pausables_r3 in Hx
         | Hx : record_interruptions _ = _ |- _ => apply record_interruptions_r3 in Hx
         | Hx : rewind _ = _ |- _ => apply rewind_r3 in Hx
         | Hx : finish_read _ _ _ _ _ = _ |- _ => apply finish_read_r3 in Hx
         | Hx : dcall _ _ _ _ = _ |- _ => apply dcall_r3 in Hx
         end.
Ltac break_inner :=
  match goal with
  | |- context [match ?x with _ => _ end] =>
      lazymatch x with
      | context [match _ with _ => _ end] => fail
      | _ => destruct x eqn:?
      end
  end.
Ltac norm_some :=
  repeat match goal with
         | Hx : (if ?c then _ else _) = Some _ |- _ => destruct c eqn:?; invc Hx
         | Hx : Some _ = Some _ |- _ => invc Hx
         end.
Ltac r3_open :=
  unfold r3 in *; cbn in *;
  repeat match goal with Hx : (_, _, _, _) = (_, _, _, _) |- _ => inversion Hx; clear Hx end.
Ltac eqb_norm :=
  repeat match goal with
         | Hx : _ && _ = true |- _ => apply andb_true_iff in Hx; destruct Hx
         | Hx : _ || _ = true |- _ => apply orb_true_iff in Hx
         | Hx : negb _ = true |- _ => apply negb_true_iff in Hx
         | Hx : negb _ = false |- _ => apply negb_false_iff in Hx
         | Hx : rstate_eqb _ _ = true |- _ => apply RE_Inv.rstate_eqb_eq in Hx
         | Hx : rstate_eqb _ _ = false |- _ => apply RE_Inv.rstate_eqb_neq in Hx
         end.

(* THE ONLY TWO FACTS this file uses about the `pause` command of a plan are [exec_pause_dj1] (here) and
   [exec_pause_defer_A] (before [dstep_A]); everything else about [exec_cmd] excludes `CPause` by hypothesis *)
Lemma exec_pause_dj1 (s : st) m d s' c o : mcmd m = CPause d -> exec_cmd dev s m = (s', c, o) -> dj1 s -> dj1 s'.
Proof.
  intros Ec Ex Hd. destruct (RE_Inv.exec_cmd_pause _ _ dev _ _ _ _ _ _ Ec Ex) as (e & o' & Hrp & _).
  (* the in-task variant (repair C10-a) only ever restores must_cancel to its previous value *)
  unfold request_pause_in_task in Hrp. destruct (request_pause s d) as [[s1 e1] o1] eqn:E.
  destruct (resumable s); inversion Hrp; subst; clear Hrp.
  - eapply request_pause_dj1; eassumption.
  - apply RE_Inv.request_pause_spec in E. destruct E as [E|E].
    + destruct E as [[E _] _]. unfold RE_Inv.same in E. destruct E as (A & _ & B & _).
      unfold dj1 in *. cbn. rewrite A. exact Hd.
    + unfold RE_Inv.pause_acc in E. destruct E as (_ & A & _). unfold dj1. cbn. rewrite A. intros _. split; discriminate.
Qed.

Lemma dstep_dj1 (s : st) c r0 :
  dj1 s -> dstep s c = r0 ->
  match r0 with inl (s', _, _) => dj1 s' | inr (s', _) => j1 s' end.
Proof.
  intros Hd H. destruct c; cbn [RE_Small.dstep] in H.
  - (* CTop *)
    unfold set_state in H. repeat (bmh H); subst r0;
      repeat match goal with
             | Hx : (if ?c then _ else _) = Some _ |- _ => destruct c eqn:?; invc Hx
             | Hx : Some _ = Some _ |- _ => invc Hx
             end; r3_frames; eqb_norm; unfold dj1, j1 in *; r3_open; intros Hm;
      try (split; discriminate); try discriminate;
      try (match goal with Hy : _ = must_cancel s |- _ => rewrite Hy in Hm end);
      try (destruct (Hd Hm) as [Hn1 Hn2]); try (split; congruence); try congruence.
  - (* CBody *) repeat (bmh H); subst r0; unfold dj1, j1 in *; cbn; auto. intros Hm. apply Hd, Hm.
  - (* CAfterSleep *) repeat (bmh H); subst r0; unfold dj1, j1 in *; cbn; auto.
  - (* CProcess *)
    cbv zeta in H. destruct (process_pre_same P D s m) as (E2 & _). cbv zeta in E2.
    match type of E2 with RE_Inv.same _ _ _ ?x => set (s2 := x) in * end. clearbody s2.
    assert (Hd2 : dj1 s2).
    { unfold RE_Inv.same in E2. destruct E2 as (A & _ & B & _). unfold dj1 in *. rewrite A, B. exact Hd. }
    destruct (match mcmd m with
              | CStartSuspender sid pre post => exec_start_suspender plan_of dev s2 sid pre post
              | _ => exec_cmd dev s2 m
              end) as [[s3 cr] o3] eqn:Ex.
    assert (Hd3 : dj1 s3).
    { destruct (mcmd m) eqn:Ec;
        try (eapply dj1_r3; [eapply exec_cmd_r3; [|exact Ex]; intros d0 Hd0; rewrite Ec in Hd0; discriminate Hd0 | exact Hd2]).
      - eapply exec_pause_dj1; eassumption.
      - eapply dj1_r3; [eapply exec_start_suspender_r3; exact Ex | exact Hd2]. }
    destruct cr; subst r0; [exact Hd3 | apply dj1_j1 in Hd3; unfold j1 in *; cbn; exact Hd3].
  - (* CContinue *) subst r0. destruct popped; unfold dj1 in *; cbn; exact Hd.
  - (* CCancelled *) repeat (bmh H); subst r0; unfold dj1 in *; cbn; auto.
  - (* CExit *) repeat (bmh H); subst r0; unfold dj1, j1 in *; cbn; auto; intros Hm; apply Hd, Hm.
  - (* CFinalize *)
    subst r0. destruct (finalize presume dev s r pending) as [s1 o1] eqn:Ef.
    apply finalize_r3 in Ef. destruct Ef as (A & _ & [B|B] & _); unfold j1, dj1 in *; rewrite A, B; [intros _; discriminate|].
    intros Hm. apply Hd, Hm.
Qed.

Lemma drive_j1 fuel (s : st) c os s' o :
  dj1 s -> drive presume plan_of dev fuel s c os = (s', o) -> j1 s'.
Proof.
  intros Hd H.
  refine (RE_Small.drive_inv P presume plan_of D dev (fun s _ _ => dj1 s) (fun s' _ => j1 s') _ _ _ fuel s c os s' o Hd H).
  - intros s0 c0 os0 s1 c1 o1 A Hs. exact (dstep_dj1 s0 c0 _ A Hs).
  - intros s0 c0 os0 s1 o1 A Hs. exact (dstep_dj1 s0 c0 _ A Hs).
  - intros s0 c0 os0 A. apply dj1_j1 in A. unfold j1 in *. cbn. exact A.
Qed.

Lemma dj1_clear (s : st) : must_cancel s = false -> dj1 s.
Proof. unfold dj1. intros E Hm. congruence. Qed.

Lemma j1_clear (s : st) : must_cancel s = false -> j1 s.
Proof. unfold j1. intros E Hm. congruence. Qed.

Lemma task_step_j1 (s : st) s' o : j1 s -> task_step presume plan_of dev s = (s', o) -> j1 s'.
Proof.
  intros Hj H. rewrite RE_Inv.task_step_tentry in H.
  destruct (RE_Inv.tentry P presume D dev s) as [[[s1 c1] os1]|[s2 o2]] eqn:Et.
  - assert (K : dj1 s1).
    { unfold RE_Inv.tentry in Et. cbv zeta in Et. unfold set_state in Et.
      destruct (pc s) as [| | | | |k|r|r] eqn:Epc; try discriminate Et.
      - repeat (bmh Et); invc Et; norm_some; apply dj1_clear; reflexivity.
      - repeat (bmh Et); invc Et; norm_some; apply dj1_clear; reflexivity.
      - repeat (bmh Et); invc Et; norm_some; apply dj1_clear; reflexivity.
      - repeat (bmh Et); invc Et; norm_some; apply dj1_clear; reflexivity.
      - destruct (must_cancel s); [invc Et; apply dj1_clear; reflexivity|].
        destruct k as [| |sids|fs|rn dd z].
        + invc Et; apply dj1_clear; reflexivity.
        + destruct (request_pause (set_must_cancel s false) false) as [[sx ex] ox] eqn:Erp. invc Et.
          eapply request_pause_dj1; [exact Erp | apply dj1_clear; reflexivity].
        + invc Et; apply dj1_clear; reflexivity.
        + invc Et; apply dj1_clear; reflexivity.
        + destruct (finish_read (mark_cached (set_must_cancel s false) rn dd) rn dd z []) as [[sx cr] ox] eqn:Efr. invc Et.
          eapply dj1_r3; [eapply finish_read_r3; exact Efr|]. eapply dj1_r3; [apply mark_cached_r3|]. apply dj1_clear; reflexivity.
      - destruct (must_cancel s); discriminate Et. }
    eapply drive_j1; eassumption.
  - invc H. unfold RE_Inv.tentry in Et. cbv zeta in Et. unfold set_state in Et.
    destruct (pc s) as [| | | | |k|r|r] eqn:Epc.
    + invc Et. exact Hj.
    + repeat (bmh Et); invc Et; apply j1_clear; reflexivity.
    + repeat (bmh Et); invc Et; apply j1_clear; reflexivity.
    + repeat (bmh Et); discriminate Et.
    + repeat (bmh Et); try discriminate Et; invc Et; exact Hj.
    + destruct (must_cancel s); [discriminate Et|]. destruct k; repeat (bmh Et); discriminate Et.
    + destruct (must_cancel s); invc Et;
        match goal with Ef : finalize presume dev _ _ _ = _ |- _ => apply finalize_r3 in Ef; destruct Ef as (A & _) end;
        apply j1_clear; rewrite A; reflexivity.
    + invc Et. exact Hj.
Qed.

(* every other event *)
Lemma step_j1 (s : st) e s' o : j1 s -> step presume plan_of dev s e = (s', o) -> j1 s'.
Proof.
  intros Hj H. destruct e as [a|a| | |defer|rs| | |sid pre post|sid|sid ok| |]; cbn [step] in H.
  - (* EvMain *)
    destruct a.
    + repeat (bmh H); invc H; [exact Hj | apply j1_clear; reflexivity].
    + repeat (bmh H); invc H; r3_frames; unfold j1 in *; r3_open; try exact Hj; intros Hm Hr; apply Hj; congruence.
    + invc H. exact Hj.
    + invc H. exact Hj.
    + invc H. exact Hj.
  - invc H. exact Hj.
  - invc H. exact Hj.
  - eapply task_step_j1; eassumption.
  - destruct (request_pause s defer) as [[s1 e1] o1] eqn:Erp. unfold req_result in H. invc H.
    apply (request_pause_j1 _ _ _ _ _ Erp) in Hj. destruct (mreq s1); exact Hj.
  - unfold set_state, req_result, cancel_task in H. repeat (bmh H); invc H; norm_some; unfold j1 in *; cbn in *; auto; intros Hm; try discriminate; exact (Hj Hm).
  - unfold set_state, req_result, cancel_task in H. repeat (bmh H); invc H; norm_some; unfold j1 in *; cbn in *; auto; intros Hm; try discriminate; exact (Hj Hm).
  - unfold set_state, req_result, cancel_task in H. repeat (bmh H); invc H; norm_some; unfold j1 in *; cbn in *; auto; intros Hm; try discriminate; exact (Hj Hm).
  - (* EvReqSuspend *)
    cbv zeta in H.
    match type of H with context [if negb (resumable ?x) then _ else _] => set (s0 := x) in * end.
    assert (J0 : j1 s0) by exact Hj. clearbody s0.
    match type of H with context [if negb (resumable s0) then ?a else ?b] =>
      destruct (if negb (resumable s0) then a else b) as [[s3 e3] o3] eqn:E1 end.
    assert (J3 : j1 s3).
    { destruct (negb (resumable s0)); [|invc E1; exact J0].
      unfold set_state in E1. cbn [state set_exc_slot interrupt set_ghost set_interrupted upd] in E1.
      destruct (allowed (state s0) Aborting); invc E1; [|exact J0].
      destruct (rstate_eqb (state s0) Paused); unfold cancel_task, j1; [cbn; discriminate|].
      destruct (pc _); cbn; discriminate. }
    clear E1 J0. unfold req_result in H. destruct e3 as [x|].
    + invc H. destruct (mreq s3); exact J3.
    + destruct (rstate_eqb (state s3) Paused).
      * invc H. destruct (mreq _); exact J3.
      * unfold set_state in H. destruct (allowed (state s3) Suspending).
        -- invc H. unfold cancel_task, j1. destruct (mreq _); destruct (pc _); cbn; discriminate.
        -- invc H. destruct (mreq s3); exact J3.
  - invc H. exact Hj.
  - repeat (bmh H); invc H; exact Hj.
  - invc H. exact Hj.
  - invc H. destruct (pc s) as [| | | | |k|r|r]; try exact Hj. destruct k; try exact Hj.
    eapply j1_r3; [apply mark_cached_r3 | exact Hj].
Qed.

Theorem run_j1 evs : forall (s : st), j1 s -> j1 (fst (run presume plan_of dev s evs)).
Proof.
  apply (RE_Small.run_inv P presume plan_of D dev j1).
  intros s e Hj. destruct (step presume plan_of dev s e) as [s1 o1] eqn:E. cbn. eapply step_j1; eassumption.
Qed.

Lemma j1_init d paus stag rec : j1 (init d paus stag rec).
Proof. apply j1_clear. reflexivity. Qed.

(* ------------------------------------------------------------------ phase A: the request is pending, the task goes on *)
Definition trig (m : msg) : bool := is_checkpoint (mcmd m) || is_pause_now (mcmd m).
Definition clean_ob (x : obs) : bool := match x with OMsg m => negb (trig m) | _ => true end.
(* no checkpoint message, no pause(defer=False) message *)
Definition clean (l : list obs) : bool := forallb clean_ob l.
Definition nost_ob (x : obs) : bool := match x with OState _ _ => false | _ => true end.
(* no lifecycle change *)
Definition nost (l : list obs) : bool := forallb nost_ob l.
(* neither a message nor a plan input nor a lifecycle change *)
Definition still_ob (x : obs) : bool := match x with OMsg _ | OPlanIn _ _ | OState _ _ => false | _ => true end.

(* the only lifecycle change is the return to idle *)
Definition onlyidle_ob (x : obs) : bool := match x with OState _ Idle => true | OState _ _ => false | _ => true end.
Definition onlyidle (l : list obs) : bool := forallb onlyidle_ob l.

Definition R3 (i0 : bool) (s : st) : Prop :=
  state s = Running /\ deferred s = true /\ must_cancel s = false /\ interrupted s = i0.
Definition pcA (p : pcs) : Prop :=
  match p with PcSleep0 | PcFinalSleep _ => True | PcCmd k => k <> KCkptSleep | _ => False end.

Lemma R3_r3 i0 (s s' : st) : r3 s' = r3 s -> R3 i0 s -> R3 i0 s'.
Proof. unfold r3, R3. intros H; inversion H as [[A B C E]]. rewrite A, B, C, E. auto. Qed.

Lemma clean_app a b : clean (a ++ b) = clean a && clean b.
Proof. unfold clean. apply RE_Ctl.forallb_app. Qed.
Lemma nost_app a b : nost (a ++ b) = nost a && nost b.
Proof. unfold nost. apply RE_Ctl.forallb_app. Qed.

Lemma forallb_Forall {A} (Pa : A -> Prop) (f : A -> bool) l : (forall x, Pa x -> f x = true) -> Forall Pa l -> forallb f l = true.
Proof. intros Hf. induction 1 as [|x l Hx _ IH]; cbn; [reflexivity|]. rewrite (Hf x Hx), IH. reflexivity. Qed.

(* documents, device calls, model diagnostics *)
Definition dqb (x : obs) : Prop := match x with ODoc _ | ODev _ _ | OBad _ => True | _ => False end.
Lemma dq_dqb x : dq x -> dqb x. Proof. destruct x; cbn; tauto. Qed.
Lemma dqb_clean l : Forall dqb l -> clean l = true /\ nost l = true.
Proof. intros H. split; (eapply forallb_Forall; [|exact H]); intros x Hx; destruct x; cbn in *; tauto. Qed.
Lemma dq_clean l : Forall dq l -> clean l = true /\ nost l = true.
Proof. intros H. apply dqb_clean. eapply Forall_imp'; [exact dq_dqb | exact H]. Qed.
Lemma finq_clean l : Forall finq l -> clean l = true.
Proof. intros H. eapply forallb_Forall; [|exact H]. intros x Hx; destruct x; cbn in *; tauto. Qed.
Lemma finq_onlyidle l : Forall finq l -> onlyidle l = true.
Proof. intros H. eapply forallb_Forall; [|exact H]. intros x Hx; destruct x; cbn in *; try tauto. destruct b; tauto. Qed.
Lemma onlyidle_app a b : onlyidle (a ++ b) = onlyidle a && onlyidle b.
Proof. unfold onlyidle. apply RE_Ctl.forallb_app. Qed.
Lemma nost_onlyidle l : nost l = true -> onlyidle l = true.
Proof.
  unfold nost, onlyidle. induction l as [|x l IH]; cbn; [reflexivity|]. intros H. apply andb_true_iff in H as [H1 H2].
  rewrite (IH H2). destruct x; try discriminate H1; reflexivity.
Qed.

Lemma exec_cmd_dqb (s : st) m s' c o : (forall d, mcmd m <> CPause d) -> exec_cmd dev s m = (s', c, o) -> Forall dqb o.
Proof.
  intros Hnp. unfold exec_cmd. destruct (mcmd m) eqn:Ec; try (exfalso; eapply Hnp; reflexivity);
    repeat bmg; intros H; invc H;
    repeat match goal with
           | Hx : dcall _ _ _ _ = _ |- _ => apply dcall_dq in Hx
           | Hx : call_pausables _ _ _ = _ |- _ => apply call_pausables_dq in Hx
           | Hx : finish_read _ _ _ _ _ = _ |- _ => apply finish_read_obs in Hx; subst
           end;
    try (eapply Forall_imp'; [exact dq_dqb | eassumption]); try (repeat constructor; fail).
  all: repeat match goal with
              | Hx : (if ?c then _ else _) = _ |- _ => destruct c; invc Hx
              end; repeat constructor.
Qed.

Lemma as_state_r3 (s : st) rest : r3 (as_state P D s rest) = r3 s.
Proof. unfold as_state. cbv zeta. destruct (exc_slot (set_resps s rest)); reflexivity. Qed.

Lemma po_clean po : (po = [] \/ exists pid i', po = [OPlanIn pid i']) -> clean po = true /\ nost po = true.
Proof. intros [->|(pid & i' & ->)]; split; reflexivity. Qed.

(* the ways a step of the task taken in phase A can end *)
Definition trig_end (o : list obs) : Prop :=
  exists a m b, o = a ++ OMsg m :: b /\ clean a = true /\ nost a = true /\
                (is_pause_now (mcmd m) = true \/ (mcmd m = CCheckpoint /\ exists b', b = OResp (RExn EIMS) :: b')).

Inductive a_end (i0 : bool) (s' : st) (o : list obs) : Prop :=
| ae_stay : clean o = true -> nost o = true -> R3 i0 s' -> pcA (pc s') -> a_end i0 s' o
| ae_done r : clean o = true -> onlyidle o = true -> pc s' = PcDone r -> deferred s' = true -> interrupted s' = i0 -> a_end i0 s' o
| ae_ckpt a ck : o = a ++ [OMsg ck; OTask WFuture] -> clean a = true -> nost a = true -> mcmd ck = CCheckpoint ->
                 R3 i0 s' -> pc s' = PcCmd KCkptSleep -> cache s' = Some [] -> a_end i0 s' o
| ae_trig : trig_end o -> a_end i0 s' o
| ae_oof : In (OBad 1) o -> a_end i0 s' o.

Definition a_mid (i0 : bool) (s' : st) (o : list obs) : Prop :=
  trig_end o \/ (clean o = true /\ nost o = true /\ R3 i0 s').

Lemma trig_end_app o o' : trig_end o -> trig_end (o ++ o').
Proof.
  intros (a & m & b & -> & Ca & Na & Hk). exists a, m, (b ++ o'). split; [rewrite <- app_assoc; reflexivity|].
  split; [exact Ca|]. split; [exact Na|]. destruct Hk as [Hk|[Hk (b' & ->)]]; [left; exact Hk|].
  right. split; [exact Hk|]. exists (b' ++ o'). reflexivity.
Qed.

Lemma trig_end_pre a o : clean a = true -> nost a = true -> trig_end o -> trig_end (a ++ o).
Proof.
  intros Ca Na (a1 & m & b & -> & Ca1 & Na1 & Hk). exists (a ++ a1), m, b. split; [rewrite app_assoc; reflexivity|].
  split; [rewrite clean_app, Ca, Ca1; reflexivity|]. split; [rewrite nost_app, Na, Na1; reflexivity | exact Hk].
Qed.

Lemma a_mid_app i0 (s' : st) os o : clean os = true -> nost os = true -> a_mid i0 s' o -> a_mid i0 s' (os ++ o).
Proof.
  intros Co No [H|(C & N & R)]; [left; apply trig_end_pre; assumption|].
  right. rewrite clean_app, nost_app, Co, No, C, N. auto.
Qed.

Lemma a_end_app i0 (s' : st) os o : clean os = true -> nost os = true -> a_end i0 s' o -> a_end i0 s' (os ++ o).
Proof.
  intros Co No [C N R Pc | r C Oi Pc Df In | a ck -> Ca Na Hk R Pc Cc | H | H].
  - apply ae_stay; try assumption; [rewrite clean_app, Co, C | rewrite nost_app, No, N]; reflexivity.
  - eapply ae_done; try eassumption; [rewrite clean_app, Co, C; reflexivity | rewrite onlyidle_app, (nost_onlyidle _ No), Oi; reflexivity].
  - eapply ae_ckpt with (a := os ++ a) (ck := ck); try eassumption;
      [rewrite app_assoc; reflexivity | rewrite clean_app, Co, Ca; reflexivity | rewrite nost_app, No, Na; reflexivity].
  - apply ae_trig, trig_end_pre; assumption.
  - apply ae_oof, in_or_app; right; exact H.
Qed.

(* a pause(defer=True) message on a running engine only sets the flag (second of the two facts about `CPause`) *)
Lemma exec_pause_defer_A i0 (s : st) m s' c o :
  mcmd m = CPause true -> R3 i0 s -> exec_cmd dev s m = (s', c, o) -> R3 i0 s' /\ o = [] /\ exists r, c = Done r.
Proof.
  intros Ec (A1 & A2 & A3 & A4) Ex. unfold exec_cmd in Ex. rewrite Ec in Ex. unfold request_pause_in_task, request_pause in Ex.
  rewrite A1, allowed_running_pausing in Ex. cbn [negb] in Ex.
  assert (Hmc : set_must_cancel (set_deferred s true) (must_cancel s) = set_deferred s true) by (destruct s; reflexivity).
  destruct (resumable s); [|rewrite Hmc in Ex]; invc Ex;
    (split; [repeat split; assumption|]; split; [reflexivity | eexists; reflexivity]).
Qed.

Ltac r3_solve Hr := first [exact Hr | eapply R3_r3; [|exact Hr]; reflexivity].

Lemma dstep_A i0 (s : st) c r0 :
  R3 i0 s -> dstep s c = r0 ->
  match r0 with
  | inl (s', _, o) => a_mid i0 s' o
  | inr (s', o) => a_end i0 s' o
  end.
Proof.
  intros Hr H. pose proof Hr as (Hs & Hdf & Hmc & Hin). destruct c.
  - (* CTop *)
    cbn [RE_Small.dstep] in H. unfold set_state in H. repeat (bmh H); subst r0; norm_some; eqb_norm; try congruence;
      try (right; split; [reflexivity|]; split; [reflexivity|]; exact Hr).
    all: repeat match goal with Hx : _ \/ _ |- _ => destruct Hx end; eqb_norm; congruence.
  - (* CBody *)
    cbn [RE_Small.dstep] in H. repeat (bmh H); subst r0; try (right; split; [reflexivity|]; split; [reflexivity|]; exact Hr).
    apply ae_stay; [reflexivity | reflexivity | r3_solve Hr | exact I].
  - (* CAfterSleep *)
    destruct (resps s) as [|r rest] eqn:Er; [rewrite (dstep_aftersleep_bad P presume plan_of D dev s (or_introl Er)) in H; subst r0; right; split; [reflexivity|]; split; [reflexivity|]; exact Hr|].
    destruct (plans s) as [|top tl] eqn:Ep; [rewrite (dstep_aftersleep_bad P presume plan_of D dev s (or_intror Ep)) in H; subst r0; right; split; [reflexivity|]; split; [reflexivity|]; exact Hr|].
    rewrite (dstep_aftersleep P presume plan_of D dev s r rest top tl Er Ep) in H. cbv zeta in H.
    pose proof (as_state_r3 s rest) as E2.
    destruct (frame_resume presume top (as_input P D (as_state P D s rest) r)) as [ou po] eqn:Ef.
    apply frame_resume_po in Ef.
    assert (Hpo : clean po = true /\ nost po = true).
    { apply po_clean. destruct Ef as [->|(pid & i' & -> & _)]; eauto. }
    destruct Hpo as [Cp Np].
    assert (R2 : R3 i0 (as_state P D s rest)) by (eapply R3_r3; eassumption).
    subst r0. unfold as_post. cbv zeta. repeat break_inner; right; (split; [exact Cp|]); (split; [exact Np|]); r3_solve R2.
  - (* CProcess *)
    cbn [RE_Small.dstep] in H. cbv zeta in H.
    match type of H with
    | context [exec_start_suspender plan_of dev ?x] =>
        assert (B2 : r3 x = r3 s) by (destruct (mobj m); cbn; repeat bmg; reflexivity); set (s2 := x) in *
    end.
    clearbody s2. assert (R2 : R3 i0 s2) by (eapply R3_r3; eassumption).
    destruct (trig m) eqn:Et.
    + (* a checkpoint or a pause(defer=False) message *)
      unfold trig in Et. destruct (is_checkpoint (mcmd m)) eqn:Eck.
      * assert (Ec : mcmd m = CCheckpoint) by (destruct (mcmd m); try discriminate Eck; reflexivity).
        rewrite Ec in H. rewrite (exec_checkpoint s2 m Ec) in H. destruct (any_bundling s2).
        -- subst r0. left. exists [], m, ([] ++ [OResp (RExn EIMS)]). split; [reflexivity|]. split; [reflexivity|]. split; [reflexivity|].
           right. split; [exact Ec|]. exists []. reflexivity.
        -- destruct R2 as (A1 & A2 & A3 & A4). rewrite A2 in H. subst r0.
           destruct (ckpt_state_same s2) as (_ & Ek & _).
           eapply ae_ckpt with (a := []) (ck := m); try reflexivity; try exact Ec.
           ++ eapply R3_r3 with (s := s2); [|repeat split; assumption]. exact Ek.
           ++ cbn. apply ckpt_state_cache.
      * cbn [orb] in Et.
        destruct (match mcmd m with
                  | CStartSuspender sid pre post => exec_start_suspender plan_of dev s2 sid pre post
                  | _ => exec_cmd dev s2 m
                  end) as [[s3 cr] o3] eqn:Ex.
        assert (Ht : trig_end ([OMsg m] ++ o3 ++ match cr with Done r => match mcmd m with CUnknown => [] | _ => [OResp r] end | Susp _ => [OTask WFuture] end)).
        { exists [], m, (o3 ++ match cr with Done r => match mcmd m with CUnknown => [] | _ => [OResp r] end | Susp _ => [OTask WFuture] end).
          split; [reflexivity|]. split; [reflexivity|]. split; [reflexivity|]. left; exact Et. }
        destruct cr; subst r0; [left; exact Ht | apply ae_trig; exact Ht].
    + (* any other message *)
      unfold trig in Et. apply orb_false_iff in Et. destruct Et as [Eck Epn].
      destruct (match mcmd m with
                | CStartSuspender sid pre post => exec_start_suspender plan_of dev s2 sid pre post
                | _ => exec_cmd dev s2 m
                end) as [[s3 cr] o3] eqn:Ex.
      assert (K : R3 i0 s3 /\ clean o3 = true /\ nost o3 = true /\ cr <> Susp KCkptSleep).
      { destruct (mcmd m) eqn:Ec; try discriminate Eck;
          try (assert (Hnp : forall d0, mcmd m <> CPause d0) by (intros d0 Hd0; rewrite Ec in Hd0; discriminate Hd0);
               split; [eapply R3_r3; [eapply exec_cmd_r3; [exact Hnp | exact Ex] | exact R2]|];
               destruct (dqb_clean _ (exec_cmd_dqb _ _ _ _ _ Hnp Ex)) as [Q1 Q2]; split; [exact Q1|]; split; [exact Q2|];
               intros Hk; subst cr; apply exec_cmd_grace in Ex; rewrite Ec in Ex; discriminate Ex).
        - (* pause(defer=True): the flag is set again *)
          match goal with Hx : mcmd m = CPause ?d0 |- _ => destruct d0; [|discriminate Epn] end.
          destruct (exec_pause_defer_A i0 s2 m s3 cr o3 Ec R2 Ex) as (Q1 & -> & r & ->).
          split; [exact Q1|]. split; [reflexivity|]. split; [reflexivity | discriminate].
        - (* `_start_suspender` *)
          split; [eapply R3_r3; [eapply exec_start_suspender_r3; exact Ex | exact R2]|].
          destruct (dq_clean _ (exec_start_suspender_dq _ _ _ _ _ _ _ _ _ _ _ Ex)) as [Q1 Q2]. split; [exact Q1|]. split; [exact Q2|].
          destruct (exec_start_suspender_done _ _ _ _ _ _ _ Ex) as [r ->]. discriminate. }
      destruct K as (R3' & C3 & N3 & Hk).
      assert (Cm : clean_ob (OMsg m) = true) by (cbn; unfold trig; rewrite Eck, Epn; reflexivity).
      destruct cr as [r|k]; subst r0.
      * right. split; [|split; [|exact R3']].
        -- cbn [app]. unfold clean. cbn [forallb]. rewrite Cm. cbn [andb]. fold (clean (o3 ++ match mcmd m with CUnknown => [] | _ => [OResp r] end)).
           rewrite clean_app, C3. destruct (mcmd m); reflexivity.
        -- cbn [app]. unfold nost. cbn [forallb nost_ob andb]. fold (nost (o3 ++ match mcmd m with CUnknown => [] | _ => [OResp r] end)).
           rewrite nost_app, N3. destruct (mcmd m); reflexivity.
      * apply ae_stay.
        -- cbn [app]. unfold clean. cbn [forallb]. rewrite Cm. cbn [andb]. fold (clean (o3 ++ [OTask WFuture])). rewrite clean_app, C3. reflexivity.
        -- cbn [app]. unfold nost. cbn [forallb nost_ob andb]. fold (nost (o3 ++ [OTask WFuture])). rewrite nost_app, N3. reflexivity.
        -- r3_solve R3'.
        -- cbn. intros E. apply Hk. rewrite E. reflexivity.
  - (* CContinue *) cbn [RE_Small.dstep] in H. subst r0. right. split; [reflexivity|]. split; [reflexivity|]. destruct popped; r3_solve Hr.
  - (* CCancelled *)
    cbn [RE_Small.dstep] in H. rewrite Hs in H. repeat (bmh H); subst r0; right; (split; [reflexivity|]); (split; [reflexivity|]); try destruct popped; r3_solve Hr.
  - (* CExit *)
    cbn [RE_Small.dstep] in H. repeat (bmh H); subst r0;
      first [ right; split; [reflexivity|]; split; [reflexivity|]; r3_solve Hr
            | apply ae_stay; [reflexivity | reflexivity | r3_solve Hr | exact I] ].
  - (* CFinalize *)
    cbn [RE_Small.dstep] in H. subst r0. destruct (finalize presume dev s r pending) as [s1 o1] eqn:Ef.
    destruct (finalize_r3 _ _ _ _ _ Ef) as (_ & A & _ & B). pose proof Ef as Hp. apply finalize_pc in Hp. destruct Hp as [r' Hp].
    eapply ae_done; [apply finq_clean; eapply finalize_finq; exact Ef | apply finq_onlyidle; eapply finalize_finq; exact Ef | exact Hp | congruence | congruence].
Qed.

Lemma drive_A i0 fuel (s : st) c os s' o :
  clean os = true -> nost os = true -> R3 i0 s ->
  drive presume plan_of dev fuel s c os = (s', o) -> a_end i0 s' o.
Proof.
  intros Co No Hr H.
  refine (RE_Small.drive_inv P presume plan_of D dev (fun s _ os => a_mid i0 s os) (fun s' o => a_end i0 s' o) _ _ _ fuel s c os s' o _ H).
  - intros s0 c0 os0 s1 c1 o1 [A|(C & N & R)] Hs.
    + left. apply trig_end_app; exact A.
    + pose proof (dstep_A i0 s0 c0 _ R Hs) as K. cbn in K. apply a_mid_app; assumption.
  - intros s0 c0 os0 s1 o1 [A|(C & N & R)] Hs.
    + apply ae_trig, trig_end_app; exact A.
    + pose proof (dstep_A i0 s0 c0 _ R Hs) as K. cbn in K. apply a_end_app; assumption.
  - intros s0 c0 os0 _. apply ae_oof. apply in_or_app; right; left; reflexivity.
  - right. auto.
Qed.

Lemma R3_clear i0 (s : st) : R3 i0 s -> R3 i0 (set_must_cancel s false).
Proof. unfold R3. cbn. intros (A & B & C & E). auto. Qed.

(* one step of the task in phase A *)
Lemma task_step_A i0 (s : st) s' o :
  R3 i0 s -> pcA (pc s) -> task_step presume plan_of dev s = (s', o) -> a_end i0 s' o.
Proof.
  intros Hr Hp H. pose proof Hr as (Hs & Hdf & Hmc & Hin). apply R3_clear in Hr.
  unfold task_step in H. cbv zeta in H. rewrite Hmc in H.
  destruct (pc s) as [| | | | |k|r|r] eqn:Epc; cbn in Hp; try contradiction.
  - eapply drive_A; [| |exact Hr|exact H]; reflexivity.
  - destruct k as [| |sids|fs|rn dd z].
    + eapply drive_A; [| |exact Hr|exact H]; reflexivity.
    + exfalso. apply Hp. reflexivity.
    + eapply drive_A; [| |exact Hr|exact H]; destruct (all_resolved _ _); reflexivity.
    + eapply drive_A; [| |exact Hr|exact H]; destruct (all_released _ _); reflexivity.
    + destruct (finish_read (mark_cached (set_must_cancel s false) rn dd) rn dd z []) as [[sx cr] ox] eqn:Efr.
      pose proof (finish_read_obs _ _ _ _ _ _ _ _ _ _ Efr) as ->.
      eapply drive_A; [| | |exact H]; try reflexivity.
      eapply R3_r3; [eapply finish_read_r3; exact Efr|]. eapply R3_r3; [apply mark_cached_r3 | exact Hr].
  - destruct (finalize_r3 _ _ _ _ _ H) as (_ & A & _ & B). pose proof H as Hq. apply finalize_pc in Hq. destruct Hq as [r' Hq].
    eapply ae_done; [apply finq_clean; eapply finalize_finq; exact H | apply finq_onlyidle; eapply finalize_finq; exact H | exact Hq | |].
    + rewrite A. exact Hdf.
    + rewrite B. exact Hin.
Qed.

(* ------------------------------------------------------------------ the events that cannot disturb the deferred pause *)
Definition calm (e : event) : bool :=
  match e with
  | EvReqPause false | EvReqAbort _ | EvReqStop | EvReqHalt | EvReqSuspend _ _ _ | EvMain (ACall _) => false
  | _ => true
  end.
Definition is_task (e : event) : bool := match e with EvTask => true | _ => false end.
Definition no_task (evs : list event) : bool := forallb (fun e => negb (is_task e)) evs.

(* what a calm event other than a step of the task leaves alone (engine not paused) *)
Definition kept (s s' : st) : Prop :=
  state s' = state s /\ pc s' = pc s /\ must_cancel s' = must_cancel s /\ interrupted s' = interrupted s /\
  cache s' = cache s /\ plans s' = plans s /\ resps s' = resps s /\ stashed s' = stashed s /\
  (permit s = true -> permit s' = true) /\
  (deferred s' = deferred s \/ (deferred s' = true /\ state s = Running)).

Lemma kept_refl (s : st) : kept s s.
Proof. unfold kept. repeat split; auto. Qed.
Lemma kept_trans (a b c : st) : kept a b -> kept b c -> kept a c.
Proof.
  unfold kept. intros (A1 & A2 & A3 & A4 & A5 & A6 & A7 & A8 & A9 & A10) (B1 & B2 & B3 & B4 & B5 & B6 & B7 & B8 & B9 & B10).
  repeat split; try congruence; auto.
  destruct B10 as [B10|[B10 B11]]; [destruct A10 as [A10|[A10 A11]]; [left; congruence | right; split; congruence]|].
  right. split; congruence.
Qed.

Lemma step_calm (s : st) e s' o :
  calm e = true -> is_task e = false -> state s <> Paused -> step presume plan_of dev s e = (s', o) ->
  kept s s' /\ forallb still_ob o = true.
Proof.
  intros Hc Ht Hnp H. destruct e as [a|a| | |defer|rs| | |sid pre post|sid|sid ok| |]; try discriminate Hc; try discriminate Ht;
    cbn [step] in H.
  - destruct a; try discriminate Hc.
    + apply RE_Inv.rstate_eqb_neq in Hnp. rewrite Hnp in H. cbn [negb] in H. invc H. split; [(unfold kept; cbn; repeat split; auto) | reflexivity].
    + invc H. split; [(unfold kept; cbn; repeat split; auto) | reflexivity].
    + invc H. split; [(unfold kept; cbn; repeat split; auto) | reflexivity].
    + invc H. split; [(unfold kept; cbn; repeat split; auto) | reflexivity].
  - invc H. split; [(unfold kept; cbn; repeat split; auto) | reflexivity].
  - invc H. split; [|reflexivity]. unfold kept; cbn; repeat split; auto.
  - destruct defer; [|discriminate Hc]. unfold request_pause, req_result in H.
    destruct (allowed (state s) Pausing) eqn:Ea; cbn [negb] in H; invc H.
    + split; [|reflexivity]. apply allowed_pausing_only_from_running in Ea.
      destruct (mreq _); unfold kept; cbn; repeat split; auto.
    + split; [|reflexivity]. destruct (mreq s); (unfold kept; cbn; repeat split; auto).
  - invc H. split; [(unfold kept; cbn; repeat split; auto) | reflexivity].
  - invc H. split; [|reflexivity]. destruct (negb ok && negb (pardon _)); (unfold kept; cbn; repeat split; auto).
  - invc H. split; [|reflexivity]. unfold kept; cbn; repeat split; auto.
  - invc H. split; [|reflexivity]. destruct (pc s) as [| | | | |k|r|r] eqn:Epc; try apply kept_refl. destruct k; try apply kept_refl.
    unfold mark_cached. destruct (get_bundler s run); unfold kept; cbn; rewrite ?Epc; repeat split; auto.
Qed.

Lemma R3_kept i0 (s s' : st) : kept s s' -> R3 i0 s -> R3 i0 s'.
Proof.
  unfold kept, R3. intros (A1 & A2 & A3 & A4 & _ & _ & _ & _ & _ & A10) (B1 & B2 & B3 & B4).
  repeat split; try congruence. destruct A10 as [A10|[A10 _]]; congruence.
Qed.

(* ------------------------------------------------------------------ closed forms of the interpreter steps used in phases G, H *)
Ltac ev_st := cbn [rstate_eqb sname String.eqb Ascii.eqb Bool.eqb orb andb negb].

Lemma ds_continue (s : st) popped r :
  dstep s (CContinue popped r) = inl (if popped then set_resps s (r :: resps s) else s, CTop, []).
Proof. reflexivity. Qed.

Lemma ds_top_pausing_permit (s : st) l :
  state s = Pausing -> cache s = Some l -> permit s = true -> dstep s CTop = inl (s, CBody, []).
Proof.
  intros H1 H2 H3. cbn [RE_Small.dstep]. unfold resumable. rewrite H1, H2. ev_st. rewrite H3. cbn [negb]. reflexivity.
Qed.

Lemma ds_body (s : st) : List.length (resps s) = List.length (plans s) -> stashed s = None ->
  dstep s CBody = inr (set_pc s PcSleep0, [OTask WSleep0]).
Proof. intros H1 H2. cbn [RE_Small.dstep]. rewrite H1, Nat.eqb_refl, H2. reflexivity. Qed.

Lemma ds_cancelled_pausing (s : st) popped : state s = Pausing ->
  dstep s (CCancelled popped) = inl (set_permit s false, CContinue popped (RVal VNone), []).
Proof. intros H. cbn [RE_Small.dstep]. rewrite H. reflexivity. Qed.

Lemma ds_top_pause (s : st) l s2 o2 s3 e o3 :
  state s = Pausing -> cache s = Some l -> permit s = false ->
  stop_movables dev s = (s2, o2) -> call_pausables dev s2 MPause = (s3, e, o3) ->
  dstep s CTop =
    match e with
    | Some x => inl (s3, CExit (XExn x), [] ++ o2 ++ o3)
    | None => inr (set_pc (set_blocking (set_state_raw s3 Paused) true) PcPaused,
                   [] ++ o2 ++ o3 ++ [OState Pausing Paused] ++ [OTask WFuture])
    end.
Proof.
  intros H1 H2 H3 E2 E3. cbn [RE_Small.dstep]. unfold resumable. rewrite H1, H2. ev_st. rewrite H3. cbn [negb]. rewrite H1. ev_st.
  rewrite E2, E3. destruct e as [x|]; [reflexivity|]. unfold set_state.
  assert (Hs : state s3 = Pausing).
  { apply stop_movables_r3 in E2. apply call_pausables_r3 in E3. unfold r3 in *. congruence. }
  rewrite Hs, allowed_pausing_paused. reflexivity.
Qed.

Lemma fuel_S (s : st) : exists k, FUEL s = S (S (S (S (S (S k))))).
Proof. unfold FUEL. exists (4 * List.length (plans s) + 10). lia. Qed.

(* the hard pause made by the engine itself (end of the grace sleep) or requested from outside *)
Lemma hard_pause_spec (s : st) :
  state s = Running -> bintr_ok (bundlers s) = true -> (pc s = PcSleep0 \/ exists k, pc s = PcCmd k) ->
  exists s1 o1,
    request_pause s false = (s1, None, OState Running Pausing :: o1) /\ Forall dq o1 /\
    state s1 = Pausing /\ deferred s1 = false /\ interrupted s1 = true /\ must_cancel s1 = true /\
    cache s1 = cache s /\ plans s1 = plans s /\ resps s1 = resps s /\ pc s1 = pc s /\ permit s1 = permit s /\
    stashed s1 = stashed s.
Proof.
  intros Hs Hb Hpc. unfold request_pause. rewrite Hs, allowed_running_pausing. cbn [negb].
  assert (Hnf : forall r, pc s <> PcFinalSleep r) by (intros r; destruct Hpc as [-> | [k ->]]; discriminate).
  assert (E1 : match pc (interrupt (set_deferred s false) CzPause) with
               | PcFinalSleep _ => set_ghost (interrupt (set_deferred s false) CzPause)
                                     (icause (interrupt (set_deferred s false) CzPause)) true
                                     (intr_err (interrupt (set_deferred s false) CzPause))
               | _ => interrupt (set_deferred s false) CzPause
               end = interrupt (set_deferred s false) CzPause).
  { cbn [pc interrupt set_ghost set_interrupted set_deferred upd]. destruct (pc s) eqn:E; try reflexivity. exfalso; eapply Hnf; reflexivity. }
  rewrite E1. unfold set_state. cbn [state interrupt set_ghost set_interrupted set_deferred upd]. rewrite Hs, allowed_running_pausing.
  unfold record_interruptions. cbn [bundlers set_state_raw interrupt set_ghost set_interrupted set_deferred upd].
  destruct (record_intr_list_ok _ Hb) as (bs & o0 & E & _ & _). rewrite E.
  pose proof (record_intr_list_dq _ _ _ _ E) as Q0.
  eexists _, o0. split; [reflexivity|]. split; [exact Q0|].
  unfold cancel_task. cbn [pc set_bundlers upd2 set_state_raw interrupt set_ghost set_interrupted set_deferred upd].
  destruct Hpc as [Hp | [k Hp]]; rewrite Hp; cbn; rewrite ?Hp; repeat split.
Qed.

(* phase G -> H: the grace sleep is over, the engine makes the hard pause: `pausing`, flag cleared, call marked
   interrupted, the task cancelled; the checkpoint's response is pushed and the task goes to sleep; nothing is executed *)
Lemma task_step_G (s : st) :
  state s = Running -> pc s = PcCmd KCkptSleep -> must_cancel s = false -> cache s = Some [] ->
  bintr_ok (bundlers s) = true -> permit s = true -> stashed s = None ->
  S (List.length (resps s)) = List.length (plans s) ->
  exists s' o1,
    task_step presume plan_of dev s = (s', (OState Running Pausing :: o1) ++ [OResp (RVal VNone)] ++ [OTask WSleep0]) /\
    Forall dq o1 /\
    state s' = Pausing /\ pc s' = PcSleep0 /\ must_cancel s' = true /\ cache s' = Some [] /\ deferred s' = false /\
    interrupted s' = true /\ plans s' = plans s /\ resps s' = RVal VNone :: resps s.
Proof.
  intros Hs Hpc Hmc Hc Hb Hpm Hsh Hlen.
  destruct (hard_pause_spec (set_must_cancel s false)) as (s1 & o1 & E & Q & A1 & A2 & A3 & A4 & A5 & A6 & A7 & A8 & A9 & A10);
    [exact Hs | exact Hb | right; eexists; exact Hpc|].
  cbn [cache plans resps pc permit stashed set_must_cancel upd] in A5, A6, A7, A8, A9, A10.
  exists (set_pc (set_resps s1 (RVal VNone :: resps s1)) PcSleep0), o1.
  split; [|split; [exact Q|]].
  - unfold task_step. cbv zeta. rewrite Hpc, Hmc, E.
    destruct (fuel_S s1) as [k ->].
    rewrite RE_Small.drive_dstep, ds_continue. cbv iota.
    rewrite RE_Small.drive_dstep, (ds_top_pausing_permit _ []);
      [|cbn; exact A1 | cbn; rewrite A5; exact Hc | cbn; rewrite A9; exact Hpm].
    rewrite RE_Small.drive_dstep, ds_body; [|cbn; rewrite A6, A7, Hlen; reflexivity | cbn; rewrite A10; exact Hsh].
    rewrite !app_nil_r. rewrite <- !app_assoc. reflexivity.
  - cbn. rewrite A5, A6, A7. repeat split; assumption.
Qed.

(* an exit of the loop executes no further message and advances no plan *)
Definition noexec_ob (x : obs) : bool :=
  match x with OMsg _ => false | OPlanIn _ (Send _ | Throw _) => false | _ => true end.
Lemma finq_noexec l : Forall finq l -> forallb noexec_ob l = true.
Proof. intros H. eapply forallb_Forall; [|exact H]. intros x Hx; destruct x; cbn in *; try tauto. destruct i; tauto. Qed.
Lemma dq_noexec l : Forall dq l -> forallb noexec_ob l = true.
Proof. intros H. eapply forallb_Forall; [|exact H]. intros x Hx; destruct x; cbn in *; tauto. Qed.

Lemma drive_exit_noexec fuel (s : st) x os s' o :
  drive presume plan_of dev fuel s (CExit x) os = (s', o) -> exists o', o = os ++ o' /\ forallb noexec_ob o' = true.
Proof.
  intros H. destruct fuel as [|fuel]; [rewrite RE_Small.drive_0 in H; invc H; eexists; split; reflexivity|].
  rewrite RE_Small.drive_dstep in H. cbn [RE_Small.dstep] in H.
  assert (K : forall s1 r pend, drive presume plan_of dev fuel s1 (CFinalize r pend) (os ++ []) = (s', o) ->
              exists o', o = os ++ o' /\ forallb noexec_ob o' = true).
  { intros s1 r pend H1. rewrite app_nil_r in H1.
    destruct fuel as [|fuel']; [rewrite RE_Small.drive_0 in H1; invc H1; eexists; split; reflexivity|].
    rewrite RE_Small.drive_dstep in H1. cbn [RE_Small.dstep] in H1.
    destruct (finalize presume dev s1 r pend) as [sf of] eqn:Ef. invc H1.
    eexists; split; [reflexivity|]. apply finq_noexec. eapply finalize_finq; exact Ef. }
  destruct x as [v|e]; [invc H; eexists; split; reflexivity|].
  destruct e; first [invc H; eexists; split; reflexivity | eapply K; exact H].
Qed.

(* phase H -> Z: the cancelled task parks: devices stopped and paused, lifecycle `paused`, the caller released.
   If a device's pause() hook raises, the task leaves the loop instead; no message is executed in either case *)
Lemma task_step_H (s : st) s2 o2 s3 e o3 :
  state s = Pausing -> pc s = PcSleep0 -> must_cancel s = true -> cache s = Some [] ->
  stop_movables dev (set_permit (set_must_cancel s false) false) = (s2, o2) ->
  call_pausables dev s2 MPause = (s3, e, o3) ->
  (e = None ->
     task_step presume plan_of dev s =
       (set_pc (set_blocking (set_state_raw s3 Paused) true) PcPaused, o2 ++ o3 ++ [OState Pausing Paused] ++ [OTask WFuture])) /\
  forallb noexec_ob (snd (task_step presume plan_of dev s)) = true.
Proof.
  intros Hs Hpc Hmc Hc E2 E3.
  assert (T : task_step presume plan_of dev s =
              match e with
              | Some x => drive presume plan_of dev (S (S (S (4 * List.length (plans s) + 10)))) s3 (CExit (XExn x)) (([] ++ []) ++ [] ++ o2 ++ o3)
              | None => (set_pc (set_blocking (set_state_raw s3 Paused) true) PcPaused,
                         ([] ++ []) ++ [] ++ o2 ++ o3 ++ [OState Pausing Paused] ++ [OTask WFuture])
              end).
  { unfold task_step. cbv zeta. rewrite Hpc, Hmc.
    replace (FUEL (set_must_cancel s false)) with (S (S (S (S (S (S (4 * List.length (plans s) + 10))))))) by (unfold FUEL; cbn; lia).
    rewrite RE_Small.drive_dstep, ds_cancelled_pausing by exact Hs.
    rewrite RE_Small.drive_dstep, ds_continue. cbv iota.
    rewrite RE_Small.drive_dstep, (ds_top_pause _ [] s2 o2 s3 e o3); [|exact Hs | exact Hc | reflexivity | exact E2 | exact E3].
    destruct e; reflexivity. }
  pose proof E2 as Q2. apply stop_movables_dq in Q2. pose proof E3 as Q3. apply call_pausables_dq in Q3.
  split.
  - intros ->. rewrite T. reflexivity.
  - rewrite T. destruct e as [x|].
    + destruct (drive presume plan_of dev _ s3 (CExit (XExn x)) _) as [sf of] eqn:Ed.
      apply drive_exit_noexec in Ed. destruct Ed as (o' & -> & Q). cbn [snd app].
      rewrite RE_Ctl.forallb_app, RE_Ctl.forallb_app, Q, (dq_noexec _ Q2), (dq_noexec _ Q3). reflexivity.
    + cbn [snd app]. rewrite RE_Ctl.forallb_app, RE_Ctl.forallb_app, (dq_noexec _ Q2), (dq_noexec _ Q3). reflexivity.
Qed.

(* ------------------------------------------------------------------ whole schedules *)
Local Notation Good := (RE_ExitE2E.Good P D).
Local Notation nobad := (RE_ExitE2E.nobad P presume plan_of D dev).
Local Notation runE := (run presume plan_of dev).
Local Notation stepE := (step presume plan_of dev).

Lemma run_cons (s : st) e evs :
  runE s (e :: evs) = (fst (runE (fst (stepE s e)) evs), snd (stepE s e) ++ snd (runE (fst (stepE s e)) evs)).
Proof. exact (RE_ExitE2E.run_cons P presume plan_of D dev s e evs). Qed.
Lemma run_app_eq (s : st) a b :
  runE s (a ++ b) = (fst (runE (fst (runE s a)) b), snd (runE s a) ++ snd (runE (fst (runE s a)) b)).
Proof. exact (RE_ExitE2E.run_app_eq P presume plan_of D dev s a b). Qed.

(* what the reachable-state invariant says at a suspended command *)
Lemma good_cmd (s : st) k : Good s -> pc s = PcCmd k ->
  permit s = true /\ stashed s = None /\ S (List.length (resps s)) = List.length (plans s).
Proof.
  intros [HI _] Hp. destruct HI as (_ & _ & _ & I4 & I5 & I6 & _). unfold RE_Inv.stack_a in I4. rewrite Hp in *. auto.
Qed.
Lemma good_pc (s : st) : Good s -> RE_Inv.pc_state_ok (pc s) (state s) = true.
Proof. intros [HI _]. apply HI. Qed.

(* calm events while the task does not run *)
Lemma run_quiet evs : forall (s : st),
  forallb calm evs = true -> no_task evs = true -> state s <> Paused ->
  kept s (fst (runE s evs)) /\ forallb still_ob (snd (runE s evs)) = true.
Proof.
  induction evs as [|e evs IH]; intros s Hc Hn Hp; [split; [apply kept_refl | reflexivity]|].
  cbn [forallb] in Hc. apply andb_true_iff in Hc as [Hc1 Hc2].
  unfold no_task in Hn. cbn [forallb] in Hn. apply andb_true_iff in Hn as [Hn1 Hn2]. apply negb_true_iff in Hn1.
  rewrite run_cons. cbn [fst snd]. destruct (stepE s e) as [s1 o1] eqn:E. cbn [fst snd].
  destruct (step_calm _ _ _ _ Hc1 Hn1 Hp E) as [K Q].
  assert (Hp1 : state s1 <> Paused) by (destruct K as (K1 & _); rewrite K1; exact Hp).
  destruct (IH s1 Hc2 Hn2 Hp1) as [K2 Q2]. split; [eapply kept_trans; eassumption|].
  rewrite RE_Ctl.forallb_app, Q, Q2. reflexivity.
Qed.

(* the task has finished with the flag still set *)
Definition Dead (i0 : bool) (s : st) : Prop :=
  (exists r, pc s = PcDone r) /\ state s = Idle /\ deferred s = true /\ interrupted s = i0.

Lemma step_dead i0 (s : st) e : calm e = true -> Dead i0 s ->
  Dead i0 (fst (stepE s e)) /\ forallb still_ob (snd (stepE s e)) = true.
Proof.
  intros Hc ([r Hp] & Hs & Hd & Hi). destruct (is_task e) eqn:Et.
  - destruct e; try discriminate Et. cbn [step]. unfold task_step. rewrite Hp. cbn [fst snd].
    split; [|reflexivity]. repeat split; try assumption. exists r; exact Hp.
  - destruct (stepE s e) as [s1 o1] eqn:E. cbn [fst snd].
    assert (Hnp : state s <> Paused) by (rewrite Hs; discriminate).
    destruct (step_calm _ _ _ _ Hc Et Hnp E) as [(K1 & K2 & _ & K4 & _ & _ & _ & _ & _ & K10) Q]. split; [|exact Q].
    repeat split; try congruence; [exists r; congruence|]. destruct K10 as [K10|[K10 _]]; congruence.
Qed.

Lemma run_dead i0 evs : forall (s : st), forallb calm evs = true -> Dead i0 s ->
  Dead i0 (fst (runE s evs)) /\ forallb still_ob (snd (runE s evs)) = true.
Proof.
  induction evs as [|e evs IH]; intros s Hc Hd; [split; [exact Hd | reflexivity]|].
  cbn [forallb] in Hc. apply andb_true_iff in Hc as [Hc1 Hc2].
  rewrite run_cons. cbn [fst snd]. destruct (step_dead i0 s e Hc1 Hd) as [D1 Q1].
  destruct (IH _ Hc2 D1) as [D2 Q2]. split; [exact D2|]. rewrite RE_Ctl.forallb_app, Q1, Q2. reflexivity.
Qed.

Lemma still_facts l : forallb still_ob l = true -> clean l = true /\ nost l = true /\ onlyidle l = true /\ forallb noexec_ob l = true.
Proof.
  induction l as [|x l IH]; cbn; [auto|]. intros H. apply andb_true_iff in H as [H1 H2]. destruct (IH H2) as (A & B & C & E).
  unfold clean, nost, onlyidle in *. cbn [forallb]. rewrite A, B, C, E. destruct x; try discriminate H1; repeat split; reflexivity.
Qed.

Lemma trig_end_dirty o : trig_end o -> clean o = false.
Proof.
  intros (a & m & b & -> & _ & _ & Hk). rewrite clean_app. unfold clean at 2. cbn [forallb clean_ob]. unfold trig.
  destruct Hk as [Hk|[Hk _]]; [rewrite Hk, orb_true_r | rewrite Hk]; cbn; apply andb_false_r.
Qed.
Lemma ckpt_dirty a ck b : mcmd ck = CCheckpoint -> clean (a ++ OMsg ck :: b) = false.
Proof. intros Hk. rewrite clean_app. unfold clean at 2. cbn [forallb clean_ob]. unfold trig. rewrite Hk. cbn. apply andb_false_r. Qed.

(* phase A over a calm schedule: as long as no checkpoint / pause(defer=False) message shows up, the engine stays in
   phase A with no lifecycle change at all, or the plan ends and the task finishes with the flag still set *)
Definition PhA (i0 : bool) (s : st) : Prop := R3 i0 s /\ pcA (pc s).

Lemma run_A i0 evs : forall (s : st),
  forallb calm evs = true -> Good s -> nobad s evs -> PhA i0 s -> clean (snd (runE s evs)) = true ->
  (PhA i0 (fst (runE s evs)) /\ nost (snd (runE s evs)) = true) \/
  (Dead i0 (fst (runE s evs)) /\ onlyidle (snd (runE s evs)) = true).
Proof.
  induction evs as [|e evs IH]; intros s Hc HG Hb [Hr Hp] Hcl; [left; split; [split; assumption | reflexivity]|].
  cbn [forallb] in Hc. apply andb_true_iff in Hc as [Hc1 Hc2].
  apply RE_ExitE2E.nobad_cons in Hb as [Hb1 Hb2]. pose proof (RE_ExitE2E.Good_step P presume plan_of D dev s e HG Hb1) as HG1.
  rewrite run_cons in *. cbn [fst snd] in *. rewrite clean_app in Hcl. apply andb_true_iff in Hcl as [Cl1 Cl2].
  destruct (stepE s e) as [s1 o1] eqn:E. cbn [fst snd] in *.
  assert (Hstay : PhA i0 s1 -> nost o1 = true ->
                  (PhA i0 (fst (runE s1 evs)) /\ nost (o1 ++ snd (runE s1 evs)) = true) \/
                  (Dead i0 (fst (runE s1 evs)) /\ onlyidle (o1 ++ snd (runE s1 evs)) = true)).
  { intros HA N1. destruct (IH s1 Hc2 HG1 Hb2 HA Cl2) as [[A N]|[A N]]; [left | right]; (split; [exact A|]).
    - rewrite nost_app, N1, N. reflexivity.
    - rewrite onlyidle_app, (nost_onlyidle _ N1), N. reflexivity. }
  destruct (is_task e) eqn:Et.
  - destruct e; try discriminate Et. cbn [step] in E.
    destruct (task_step_A i0 s s1 o1 Hr Hp E) as [C N R Pc | r C Oi Pc Df In | a ck Eo Ca Na Hk R Pc Cc | H | H].
    + apply Hstay; [split; assumption | exact N].
    + right. assert (D1 : Dead i0 s1).
      { repeat split; try assumption; [exists r; exact Pc|].
        destruct (RE_Inv.inv_done_is_idle P D True s1 r (proj1 HG1) Pc) as [A _]. exact A. }
      destruct (run_dead i0 evs s1 Hc2 D1) as [D2 Q2]. split; [exact D2|].
      destruct (still_facts _ Q2) as (_ & _ & Q3 & _). rewrite onlyidle_app, Oi, Q3. reflexivity.
    + exfalso. subst o1. rewrite (ckpt_dirty a ck [OTask WFuture] Hk) in Cl1. discriminate Cl1.
    + exfalso. rewrite (trig_end_dirty _ H) in Cl1. discriminate Cl1.
    + exfalso. exact (Hb1 H).
  - assert (Hnp : state s <> Paused) by (destruct Hr as (A & _); rewrite A; discriminate).
    destruct (step_calm _ _ _ _ Hc1 Et Hnp E) as [K Q]. destruct (still_facts _ Q) as (_ & N1 & _ & _).
    apply Hstay; [|exact N1]. split; [eapply R3_kept; eassumption|]. destruct K as (_ & K2 & _). rewrite K2. exact Hp.
Qed.

(* the first checkpoint / pause(defer=False) message of an observation list is unique *)
Lemma first_trig a : forall a' m m' b b',
  a ++ OMsg m :: b = a' ++ OMsg m' :: b' -> clean a = true -> clean a' = true -> trig m = true -> trig m' = true ->
  a = a' /\ m = m' /\ b = b'.
Proof.
  induction a as [|x a IH]; intros a' m m' b b' E Ca Ca' Tm Tm'.
  - destruct a' as [|x' a']; cbn in E.
    + inversion E; subst. auto.
    + inversion E; subst x'. unfold clean in Ca'. cbn in Ca'. rewrite Tm in Ca'. discriminate Ca'.
  - destruct a' as [|x' a']; cbn in E.
    + inversion E; subst x. unfold clean in Ca. cbn in Ca. rewrite Tm' in Ca. discriminate Ca.
    + inversion E; subst x'. unfold clean in Ca, Ca'. cbn in Ca, Ca'.
      apply andb_true_iff in Ca as [_ Ca]. apply andb_true_iff in Ca' as [_ Ca'].
      destruct (IH a' m m' b b' H1 Ca Ca' Tm Tm') as (-> & -> & ->). auto.
Qed.

(* the accepted request *)
Lemma defer_request_step (s : st) : allowed (state s) Pausing = true ->
  exists s', stepE s (EvReqPause true) = (s', [OReq true]) /\ kept s s' /\ deferred s' = true.
Proof.
  intros Ha. cbn [step]. unfold request_pause. rewrite Ha. cbn [negb]. unfold req_result.
  eexists. split; [reflexivity|]. apply allowed_pausing_only_from_running in Ha.
  destruct (mreq _); (split; [|reflexivity]); unfold kept; cbn; repeat split; auto.
Qed.

(* resume() on an engine paused with an empty message cache: the replay plan that is pushed is empty *)
Lemma resume_replays_nothing (s : st) :
  state s = Paused -> cache s = Some [] -> bintr_ok (bundlers s) = true ->
  plans (fst (stepE s (EvMain AResume))) = FList [] :: plans s /\ cache (fst (stepE s (EvMain AResume))) = Some [] /\
  state (fst (stepE s (EvMain AResume))) = Paused /\ Forall dq (snd (stepE s (EvMain AResume))).
Proof.
  intros Hs Hc Hb. cbn [step]. rewrite Hs. ev_st.
  match goal with |- context [record_interruptions ?x] => destruct (record_interruptions x) as [[s2 o2] ok] eqn:E2 end.
  pose proof E2 as Q2. apply record_interruptions_dq in Q2.
  pose proof E2 as K2. apply RE_Inv.record_interruptions_same in K2. destruct K2 as [K2 C2]. unfold RE_Inv.same in K2.
  destruct K2 as (S1 & _ & _ & _ & _ & S6 & _).
  assert (Hok : ok = true).
  { unfold record_interruptions in E2. cbn [bundlers set_main set_interrupted upd] in E2.
    destruct (record_intr_list_ok _ Hb) as (bs & o0 & E & _ & _). rewrite E in E2. invc E2. reflexivity. }
  subst ok. cbn [negb]. cbn [cache plans state set_main set_interrupted upd] in C2, S1, S6.
  rewrite C2, Hc. unfold rewind. rewrite C2, Hc. cbn [List.length Nat.eqb].
  match goal with |- context [call_pausables dev ?x MResume] => destruct (call_pausables dev x MResume) as [[s5 e5] o5] eqn:E5 end.
  pose proof E5 as Q5. apply call_pausables_dq in Q5.
  apply RE_Inv.call_pausables_same in E5. destruct E5 as [[[K5 C5] _] _]. unfold RE_Inv.same in K5.
  destruct K5 as (T1 & _ & _ & _ & _ & T6 & _). cbn in C5, T1, T6.
  destruct e5; cbn [fst snd]; cbn; rewrite ?C5, ?T1, ?T6, ?S1, ?S6, ?Hs; repeat split; try reflexivity;
    apply Forall_app; split; assumption.
Qed.

Lemma flist_nil_silent i : exists o, frame_resume presume (@FList P []) i = (o, []) /\ forall m f, o <> Yielded m f.
Proof. destruct i; cbn; eexists; split; try reflexivity; intros m f; discriminate. Qed.

Section Sched.
Variables (d : D) (paus stag : list nat) (rec : bool).
Let s_i : st := init d paus stag rec.

Lemma reach_facts evs : nobad s_i evs ->
  Good (fst (runE s_i evs)) /\ bintr_ok (bundlers (fst (runE s_i evs))) = true /\ j1 (fst (runE s_i evs)).
Proof.
  intros Hb. split; [apply (RE_ExitE2E.Good_run P presume plan_of D dev); [apply RE_ExitE2E.Good_init | exact Hb]|].
  split; [apply (reachable_bintr_ok P presume plan_of D dev) | apply run_j1, j1_init].
Qed.

Local Notation is_call := RE_ExitE2E.is_call.

(* the state in which the request is accepted *)
Lemma accept_facts evs0 :
  let s0 := fst (runE s_i evs0) in
  nobad s_i evs0 -> allowed (state s0) Pausing = true -> pc s0 <> PcCmd KCkptSleep ->
  exists sr, stepE s0 (EvReqPause true) = (sr, [OReq true]) /\ PhA (interrupted s0) sr.
Proof.
  intros s0 Hb Ha Hnk. destruct (reach_facts evs0 Hb) as (HG & _ & Hj). fold s0 in HG, Hj.
  destruct (defer_request_step s0 Ha) as (sr & E & K & Df). exists sr. split; [exact E|].
  apply allowed_pausing_only_from_running in Ha.
  pose proof (good_pc s0 HG) as Hpc. rewrite Ha in Hpc.
  destruct K as (K1 & K2 & K3 & K4 & _). split.
  - repeat split; try congruence. rewrite K3. destruct (must_cancel s0) eqn:Em; [|reflexivity]. exfalso. exact (Hj Em Ha).
  - rewrite K2. destruct (pc s0) as [| | | | |k|r|r]; try discriminate Hpc; cbn; auto. intros ->. apply Hnk. reflexivity.
Qed.

(* (1) the deferred pause takes effect exactly at the next checkpoint *)
Theorem deferred_pause_end_to_end evs0 evsA evsG evsH :
  let s0 := fst (runE s_i evs0) in
  let sr := fst (stepE s0 (EvReqPause true)) in
  let sA := fst (runE sr evsA) in
  let oA := snd (runE sr evsA) in
  let sK := fst (stepE sA EvTask) in
  let oK := snd (stepE sA EvTask) in
  let sG := fst (runE sK evsG) in
  let sP := fst (stepE sG EvTask) in
  let sH := fst (runE sP evsH) in
  let sZ := fst (stepE sH EvTask) in
  nobad s_i (evs0 ++ EvReqPause true :: evsA ++ EvTask :: evsG ++ EvTask :: evsH ++ [EvTask]) ->
  allowed (state s0) Pausing = true -> pc s0 <> PcCmd KCkptSleep ->
  forallb calm evsA = true -> forallb calm evsG = true -> no_task evsG = true ->
  forallb calm evsH = true -> no_task evsH = true ->
  clean oA = true ->
  forall a ck b, oK = a ++ OMsg ck :: b -> clean a = true -> mcmd ck = CCheckpoint ->
  (forall b', b <> OResp (RExn EIMS) :: b') ->
  (* the request only sets the flag *)
  snd (stepE s0 (EvReqPause true)) = [OReq true] /\
  (* up to the checkpoint: running, flag pending, nothing cancelled, no lifecycle change *)
  (forall p q, evsA = p ++ q ->
     state (fst (runE sr p)) = Running /\ deferred (fst (runE sr p)) = true /\ must_cancel (fst (runE sr p)) = false) /\
  nost oA = true /\ nost a = true /\
  (* the checkpoint is taken and its command starts the grace sleep *)
  b = [OTask WFuture] /\ state sK = Running /\ pc sK = PcCmd KCkptSleep /\ cache sK = Some [] /\ deferred sK = true /\
  (* nothing happens during the grace sleep; at its end the engine makes the hard pause *)
  forallb still_ob (snd (runE sK evsG)) = true /\
  (exists o1, snd (stepE sG EvTask) = (OState Running Pausing :: o1) ++ [OResp (RVal VNone)] ++ [OTask WSleep0] /\ Forall dq o1) /\
  state sP = Pausing /\ deferred sP = false /\ interrupted sP = true /\ cache sP = Some [] /\
  forallb still_ob (snd (runE sP evsH)) = true /\
  (* the cancelled task parks: no message is executed, no plan advanced *)
  forallb noexec_ob (snd (stepE sH EvTask)) = true /\
  ((exists x, RE_Inv.hook_raises D dev MPause x) \/
   (state sZ = Paused /\ pc sZ = PcPaused /\ blocking sZ = true /\ cache sZ = Some [] /\ deferred sZ = false /\
    interrupted sZ = true /\
    (exists o23, snd (stepE sH EvTask) = o23 ++ [OState Pausing Paused] ++ [OTask WFuture] /\ Forall dq o23) /\
    (forall act, is_call act = true ->
       snd (stepE sZ (EvMainDone act)) =
         [OOut (match main_err sZ with Some e => OutRaise e | None => OutInterrupted end) Paused false true]) /\
    plans (fst (stepE sZ (EvMain AResume))) = FList [] :: plans sZ /\
    Forall dq (snd (stepE sZ (EvMain AResume))))).
Proof.
  intros s0 sr sA oA sK oK sG sP sH sZ Hb Ha Hnk HcA HcG HnG HcH HnH HclA a ck b EoK Ca Hck Hne.
  (* reachable-state facts at every cut of the schedule *)
  assert (B0 : nobad s_i evs0) by (apply RE_ExitE2E.nobad_app in Hb; apply Hb).
  assert (F : forall evs1 evs2, evs0 ++ EvReqPause true :: evsA ++ EvTask :: evsG ++ EvTask :: evsH ++ [EvTask] = evs1 ++ evs2 ->
              nobad s_i evs1 /\ nobad (fst (runE s_i evs1)) evs2).
  { intros evs1 evs2 E. rewrite E in Hb. apply RE_ExitE2E.nobad_app in Hb. exact Hb. }
  destruct (accept_facts evs0 B0 Ha Hnk) as (sr' & Er & HA). fold s0 in Er, HA.
  assert (Esr : sr = sr') by (unfold sr; rewrite Er; reflexivity).
  set (i0 := interrupted s0) in *.
  (* the run up to sr, sA, sK, sG, sP, sH as runs from s_i *)
  assert (Rr : fst (runE s_i (evs0 ++ [EvReqPause true])) = sr).
  { rewrite run_app_eq. cbn [fst]. rewrite run_cons. reflexivity. }
  assert (RA : fst (runE s_i ((evs0 ++ [EvReqPause true]) ++ evsA)) = sA) by (rewrite run_app_eq; cbn [fst]; rewrite Rr; reflexivity).
  assert (RK : fst (runE s_i (((evs0 ++ [EvReqPause true]) ++ evsA) ++ [EvTask])) = sK).
  { rewrite run_app_eq. cbn [fst]. rewrite RA, run_cons. reflexivity. }
  assert (RG : fst (runE s_i ((((evs0 ++ [EvReqPause true]) ++ evsA) ++ [EvTask]) ++ evsG)) = sG) by (rewrite run_app_eq; cbn [fst]; rewrite RK; reflexivity).
  assert (RP : fst (runE s_i (((((evs0 ++ [EvReqPause true]) ++ evsA) ++ [EvTask]) ++ evsG) ++ [EvTask])) = sP).
  { rewrite run_app_eq. cbn [fst]. rewrite RG, run_cons. reflexivity. }
  assert (RH : fst (runE s_i ((((((evs0 ++ [EvReqPause true]) ++ evsA) ++ [EvTask]) ++ evsG) ++ [EvTask]) ++ evsH)) = sH) by (rewrite run_app_eq; cbn [fst]; rewrite RP; reflexivity).
  destruct (F (evs0 ++ [EvReqPause true]) (evsA ++ EvTask :: evsG ++ EvTask :: evsH ++ [EvTask])) as [Br BrA];
    [rewrite <- app_assoc; reflexivity|]. rewrite Rr in BrA.
  destruct (F ((evs0 ++ [EvReqPause true]) ++ evsA) (EvTask :: evsG ++ EvTask :: evsH ++ [EvTask])) as [BA BAK];
    [rewrite <- !app_assoc; reflexivity|]. rewrite RA in BAK.
  destruct (F ((((evs0 ++ [EvReqPause true]) ++ evsA) ++ [EvTask]) ++ evsG) (EvTask :: evsH ++ [EvTask])) as [BG _];
    [rewrite <- !app_assoc; reflexivity|].
  destruct (F ((((((evs0 ++ [EvReqPause true]) ++ evsA) ++ [EvTask]) ++ evsG) ++ [EvTask]) ++ evsH) [EvTask]) as [BH _];
    [rewrite <- !app_assoc; reflexivity|].
  destruct (reach_facts _ Br) as (Gr & _ & _). rewrite Rr in Gr.
  destruct (reach_facts _ BA) as (GA & _ & _). rewrite RA in GA.
  destruct (reach_facts _ BG) as (GG & BoG & _). rewrite RG in GG, BoG.
  destruct (reach_facts _ BH) as (GH & BoH & _). rewrite RH in GH, BoH.
  apply RE_ExitE2E.nobad_app in BrA as [BrA _]. apply RE_ExitE2E.nobad_cons in BAK as [BK _].
  rewrite <- Esr in HA.
  (* phase A *)
  assert (NotDead : forall sx, Dead i0 sx -> snd (stepE sx EvTask) = oK -> False).
  { intros sx ([r Hp] & _) E. cbn [step] in E. unfold task_step in E. rewrite Hp in E. cbn [snd] in E.
    rewrite EoK in E. destruct a as [|x a]; [discriminate E|]. inversion E as [[E1 E2]]. destruct a; discriminate E2. }
  destruct (run_A i0 evsA sr HcA Gr BrA HA HclA) as [[HAA NA]|[DA _]]; [|exfalso; exact (NotDead sA DA eq_refl)].
  fold sA in HAA. fold oA in NA. destruct HAA as [RA3 PA].
  (* the step that processes the checkpoint *)
  assert (Tck : trig ck = true) by (unfold trig; rewrite Hck; reflexivity).
  assert (EK : stepE sA EvTask = (sK, oK)) by (unfold sK, oK; destruct (stepE sA EvTask); reflexivity).
  cbn [step] in EK.
  assert (KK : nost a = true /\ b = [OTask WFuture] /\ R3 i0 sK /\ pc sK = PcCmd KCkptSleep /\ cache sK = Some []).
  { destruct (task_step_A i0 sA sK oK RA3 PA EK) as [C N R Pc | r C Oi Pc Df In | a' ck' Eo Ca' Na' Hk' R Pc Cc | H | H].
    - exfalso. rewrite EoK, (ckpt_dirty a ck b Hck) in C. discriminate C.
    - exfalso. rewrite EoK, (ckpt_dirty a ck b Hck) in C. discriminate C.
    - rewrite EoK in Eo. assert (Tck' : trig ck' = true) by (unfold trig; rewrite Hk'; reflexivity).
      destruct (first_trig a a' ck ck' b [OTask WFuture] Eo Ca Ca' Tck Tck') as (-> & -> & ->). auto.
    - exfalso. destruct H as (a' & m & b' & Eo & Ca' & Na' & Hk'). rewrite EoK in Eo.
      assert (Tm : trig m = true).
      { unfold trig. destruct Hk' as [Hk'|[Hk' _]]; [rewrite Hk'; apply orb_true_r | rewrite Hk'; reflexivity]. }
      destruct (first_trig a a' ck m b b' Eo Ca Ca' Tck Tm) as (-> & -> & ->).
      destruct Hk' as [Hk'|[_ (b'' & ->)]]; [rewrite Hck in Hk'; discriminate Hk' | exact (Hne b'' eq_refl)].
    - exfalso. apply BK. unfold oK in H. exact H. }
  destruct KK as (Na & Eb & (K1 & K2 & K3 & K4) & KPc & KC).
  (* every prefix of the schedule between the request and the checkpoint *)
  assert (Pref : forall p q, evsA = p ++ q ->
            state (fst (runE sr p)) = Running /\ deferred (fst (runE sr p)) = true /\ must_cancel (fst (runE sr p)) = false).
  { intros p q Epq. subst evsA. rewrite forallb_app in HcA. apply andb_true_iff in HcA as [Hcp Hcq].
    pose proof BrA as BrA'. apply RE_ExitE2E.nobad_app in BrA' as [Bp _].
    unfold oA in HclA. rewrite run_app_eq in HclA. cbn [snd] in HclA. rewrite clean_app in HclA. apply andb_true_iff in HclA as [Clp _].
    destruct (run_A i0 p sr Hcp Gr Bp HA Clp) as [[[(X1 & X2 & X3 & _) _] _]|[Dp _]]; [auto|].
    exfalso. destruct (run_dead i0 q _ Hcq Dp) as [Dq _]. apply (NotDead sA); [|reflexivity].
    unfold sA. rewrite run_app_eq. exact Dq. }
  (* the grace sleep *)
  assert (HnpK : state sK <> Paused) by (rewrite K1; discriminate).
  destruct (run_quiet evsG sK HcG HnG HnpK) as [(G1 & G2 & G3 & G4 & G5 & _ & _ & _ & _ & G10) QG]. fold sG in G1, G2, G3, G4, G5, G10.
  destruct (good_cmd sG KCkptSleep GG) as (Gp & Gs & Gl); [congruence|].
  destruct (task_step_G sG) as (sP' & o1 & EP & Q1 & P1 & P2 & P3 & P4 & P5 & P6 & P7 & P8); try congruence.
  assert (EsP : sP = sP') by (unfold sP; cbn [step]; rewrite EP; reflexivity).
  rewrite <- EsP in *.
  (* cancelled, asleep *)
  assert (HnpP : state sP <> Paused) by (rewrite P1; discriminate).
  destruct (run_quiet evsH sP HcH HnH HnpP) as [(H1 & H2 & H3 & H4 & H5 & _ & _ & _ & _ & H10) QH]. fold sH in H1, H2, H3, H4, H5, H10.
  assert (DfH : deferred sH = false) by (destruct H10 as [H10|[_ H10]]; congruence).
  (* the parking step *)
  destruct (stop_movables dev (set_permit (set_must_cancel sH false) false)) as [s2 o2] eqn:E2.
  destruct (call_pausables dev s2 MPause) as [[s3 e] o3] eqn:E3.
  destruct (task_step_H sH s2 o2 s3 e o3) as [TZ NZ]; try congruence.
  split; [rewrite Er; reflexivity|]. split; [exact Pref|]. split; [exact NA|]. split; [exact Na|].
  split; [exact Eb|]. split; [exact K1|]. split; [exact KPc|]. split; [exact KC|]. split; [exact K2|].
  split; [exact QG|]. split; [exists o1; split; [cbn [step]; rewrite EP; reflexivity | exact Q1]|].
  split; [exact P1|]. split; [exact P5|]. split; [exact P6|]. split; [exact P4|]. split; [exact QH|].
  split; [exact NZ|].
  destruct e as [x|].
  - left. exists x. apply RE_Inv.call_pausables_same in E3. destruct E3 as [_ Hh]. apply Hh. reflexivity.
  - right. specialize (TZ eq_refl).
    assert (EsZ : sZ = set_pc (set_blocking (set_state_raw s3 Paused) true) PcPaused) by (unfold sZ; cbn [step]; rewrite TZ; reflexivity).
    pose proof E2 as R2. apply stop_movables_r3 in R2. pose proof E3 as R3'. apply call_pausables_r3 in R3'.
    pose proof E2 as S2. apply RE_Inv.stop_movables_same in S2. destruct S2 as [[_ S2] Sb2].
    pose proof E3 as S3. apply RE_Inv.call_pausables_same in S3. destruct S3 as [[[_ S3] Sb3] _].
    cbn [cache bundlers set_permit set_must_cancel upd] in S2, Sb2.
    unfold r3 in R2, R3'. cbn [state deferred must_cancel interrupted set_permit set_must_cancel upd] in R2.
    assert (XY : deferred s3 = deferred sH /\ interrupted s3 = interrupted sH) by (split; congruence).
    destruct XY as [XY1 XY2].
    assert (Cz : cache sZ = Some []) by (rewrite EsZ; cbn; congruence).
    assert (Bz : bintr_ok (bundlers sZ) = true) by (rewrite EsZ; cbn [bundlers set_pc set_blocking set_state_raw upd]; rewrite Sb3, Sb2; exact BoH).
    assert (Sz : state sZ = Paused) by (rewrite EsZ; reflexivity).
    assert (Dz : deferred sZ = false) by (rewrite EsZ; cbn; congruence).
    assert (Iz : interrupted sZ = true) by (rewrite EsZ; cbn; congruence).
    assert (Pz : pc sZ = PcPaused) by (rewrite EsZ; reflexivity).
    split; [exact Sz|]. split; [exact Pz|]. split; [rewrite EsZ; reflexivity|]. split; [exact Cz|].
    split; [exact Dz|]. split; [exact Iz|].
    split.
    { exists (o2 ++ o3). split; [cbn [step]; rewrite TZ; cbn [snd]; rewrite <- app_assoc; reflexivity|].
      apply Forall_app. split; [eapply stop_movables_dq; exact E2 | eapply call_pausables_dq; exact E3]. }
    split.
    { intros act Hact. rewrite (RE_ExitE2E.maindone_call P presume plan_of D dev sZ act Hact).
      unfold resumable. rewrite Pz, Iz, Sz, Dz, Cz. destruct (main_err sZ); reflexivity. }
    destruct (resume_replays_nothing sZ Sz Cz Bz) as (W1 & _ & _ & W4). split; assumption.
Qed.

(* (2) no checkpoint follows: the plan completes, the call is not interrupted by the request, the flag is reported as
   pending and stays set until the next call starts, which clears it (`_clear_call_cache`) *)
Theorem deferred_pause_stays_pending evs0 evsA evsC res :
  let s0 := fst (runE s_i evs0) in
  let sr := fst (stepE s0 (EvReqPause true)) in
  let sA := fst (runE sr evsA) in
  let oA := snd (runE sr evsA) in
  let sC := fst (runE sA evsC) in
  nobad s_i (evs0 ++ EvReqPause true :: evsA) ->
  allowed (state s0) Pausing = true -> pc s0 <> PcCmd KCkptSleep ->
  forallb calm evsA = true -> clean oA = true -> pc sA = PcDone res ->
  forallb calm evsC = true ->
  onlyidle oA = true /\
  state sA = Idle /\ deferred sA = true /\ interrupted sA = interrupted s0 /\
  (forall act, is_call act = true ->
     snd (stepE sA (EvMainDone act)) =
       [OOut (match main_err sA with
              | Some e => OutRaise e
              | None => match res with
                        | TRaise ECancelled => if interrupted s0 then OutInterrupted else OutReturn (run_uids sA)
                        | TRaise e => OutRaise e
                        | TReturn _ => if interrupted s0 then OutInterrupted else OutReturn (run_uids sA)
                        end
              end) Idle true (resumable sA)]) /\
  deferred sC = true /\ state sC = Idle /\ forallb still_ob (snd (runE sA evsC)) = true /\
  (forall pid, deferred (fst (stepE sC (EvMain (ACall pid)))) = false /\
               pc (fst (stepE sC (EvMain (ACall pid)))) = PcNotStarted /\
               interrupted (fst (stepE sC (EvMain (ACall pid)))) = false).
Proof.
  intros s0 sr sA oA sC Hb Ha Hnk HcA HclA Hpc HcC.
  assert (B0 : nobad s_i evs0) by (apply RE_ExitE2E.nobad_app in Hb; apply Hb).
  destruct (accept_facts evs0 B0 Ha Hnk) as (sr' & Er & HA). fold s0 in Er, HA.
  assert (Esr : sr = sr') by (unfold sr; rewrite Er; reflexivity). rewrite <- Esr in HA.
  set (i0 := interrupted s0) in *.
  assert (Rr : fst (runE s_i (evs0 ++ [EvReqPause true])) = sr).
  { rewrite run_app_eq. cbn [fst]. rewrite run_cons. reflexivity. }
  assert (Hb' : nobad s_i ((evs0 ++ [EvReqPause true]) ++ evsA)) by (rewrite <- app_assoc; exact Hb).
  apply RE_ExitE2E.nobad_app in Hb' as [Br BrA]. rewrite Rr in BrA.
  destruct (reach_facts _ Br) as (Gr & _ & _). rewrite Rr in Gr.
  destruct (run_A i0 evsA sr HcA Gr BrA HA HclA) as [[[_ PA] _]|[DA OA]].
  { exfalso. fold sA in PA. rewrite Hpc in PA. exact PA. }
  fold sA in DA. fold oA in OA. pose proof DA as (_ & D2 & D3 & D4).
  destruct (run_dead i0 evsC sA HcC DA) as [DC QC]. fold sC in DC. destruct DC as (_ & C2 & C3 & _).
  split; [exact OA|]. split; [exact D2|]. split; [exact D3|]. split; [exact D4|].
  split.
  { intros act Hact. rewrite (RE_ExitE2E.maindone_call P presume plan_of D dev sA act Hact).
    rewrite Hpc, D2, D3, D4. destruct (main_err sA); [reflexivity|]. destruct res as [v|e]; [reflexivity|]. destruct e; reflexivity. }
  split; [exact C3|]. split; [exact C2|]. split; [exact QC|].
  intros pid. cbn [step]. rewrite C2. ev_st. cbn. auto.
Qed.

(* (3) C09-a: the checkpoint may follow clear_checkpoint (no checkpoint in effect when it is reached): the deferred
   pause still pauses there -- the lifecycle goes running -> pausing -> paused with the cache re-created empty *)
Corollary deferred_pause_after_clear_checkpoint evs0 evsA evsG evsH :
  let s0 := fst (runE s_i evs0) in
  let sr := fst (stepE s0 (EvReqPause true)) in
  let sA := fst (runE sr evsA) in
  let oA := snd (runE sr evsA) in
  let sK := fst (stepE sA EvTask) in
  let oK := snd (stepE sA EvTask) in
  let sG := fst (runE sK evsG) in
  let sP := fst (stepE sG EvTask) in
  let sH := fst (runE sP evsH) in
  let sZ := fst (stepE sH EvTask) in
  nobad s_i (evs0 ++ EvReqPause true :: evsA ++ EvTask :: evsG ++ EvTask :: evsH ++ [EvTask]) ->
  allowed (state s0) Pausing = true -> pc s0 <> PcCmd KCkptSleep ->
  forallb calm evsA = true -> forallb calm evsG = true -> no_task evsG = true ->
  forallb calm evsH = true -> no_task evsH = true ->
  clean oA = true ->
  cache sA = None ->
  forall a ck b, oK = a ++ OMsg ck :: b -> clean a = true -> mcmd ck = CCheckpoint ->
  (forall b', b <> OResp (RExn EIMS) :: b') ->
  cache sK = Some [] /\ state sP = Pausing /\
  ((exists x, RE_Inv.hook_raises D dev MPause x) \/
   (state sZ = Paused /\ cache sZ = Some [] /\
    exists o23, snd (stepE sH EvTask) = o23 ++ [OState Pausing Paused] ++ [OTask WFuture] /\ Forall dq o23)).
Proof.
  intros s0 sr sA oA sK oK sG sP sH sZ Hb Ha Hnk HcA HcG HnG HcH HnH HclA _ a ck b EoK Ca Hck Hne.
  destruct (deferred_pause_end_to_end evs0 evsA evsG evsH Hb Ha Hnk HcA HcG HnG HcH HnH HclA a ck b EoK Ca Hck Hne)
    as (_ & _ & _ & _ & _ & _ & _ & T8 & _ & _ & _ & T12 & _ & _ & _ & _ & _ & T18).
  split; [exact T8|]. split; [exact T12|].
  destruct T18 as [T|(U1 & _ & _ & U4 & _ & _ & U7 & _)]; [left; exact T | right]. split; [exact U1|]. split; [exact U4 | exact U7].
Qed.
End Sched.
End Defer.
