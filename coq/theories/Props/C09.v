(* C09 - a deferred pause takes effect exactly at the next checkpoint.

   Model: Engine/RE.v (all plan coalgebras, device oracles, schedules).  The specification is the monitor [mon] of
   Proofs/RE_Ctl.v (a function of the trace only): [mdef] becomes true when a deferred request is accepted (request
   coroutine while the lifecycle allows pausing, or a pause(defer=True) message), and false only when the engine
   starts pausing or a new call starts; [mcause] says when a move to `pausing` is justified.
   Proved for ALL schedules: the engine's flag is [mdef]; every move to `pausing` has a cause (hard request,
   pause(defer=False) message, end of the grace sleep of a checkpoint taken with the flag set) -- so a deferred
   request by itself never pauses; step level: the request only sets the flag, a checkpoint with the flag set takes
   the checkpoint (cache := []) and starts the grace sleep, whose end performs the hard pause.
   FIXED defect C09-a (fixes/C09-a.diff; the model follows the repaired code): an explicit checkpoint used NOT to
   re-establish resumability after clear_checkpoint, so a deferred pause reaching such a checkpoint aborted the plan
   (FailedPause) instead of pausing there.  [C09_checkpoint_honours_deferred] now states that the cache is Some []
   after ANY checkpoint outside a bundle; the former witness is the regression example [C09_regression_C09a].
   Partial: "no later message is executed before the engine is paused" is NOT a theorem for arbitrary schedules
   (an abort/stop/halt/suspension may land during the grace sleep); it is checked by the implementation-side
   oracle on the corpus.  Wall-clock: the 0.5 s grace sleep is an await point of the model, its length is not modelled. *)
From Coq Require Import List.
From BV Require Import Engine.RE Engine.REInst Proofs.RE_Ctl Proofs.RE_Replay Proofs.RE_Hold Proofs.RE_CtlExamples.
Import ListNotations.

(* after ANY schedule: deferred_pause_requested is what the trace specification says.  In particular (definition of
   [mon]) it stays true from the accepted request until the engine starts pausing or the next call starts, and what
   RE() / resume() report (OOut .. deferred ..) is that flag *)
Theorem C09_deferred_is_trace_spec :
  forall (P : Type) (presume : P -> input -> outcome P) (plan_of : nat -> P) (D : Type) (dev : D -> nat -> devmeth -> D * devres)
         (d : D) (paus stag : list nat) (rec : bool) (evs : list event),
    deferred P D (fst (run P presume plan_of D dev (init P D d paus stag rec) evs)) =
    mdef (mon_run mon0 (trace P presume plan_of D dev (init P D d paus stag rec) evs)).
Proof. exact deferred_is_trace_spec. Qed.
Print Assumptions C09_deferred_is_trace_spec.

(* the deferred request only sets the flag *)
Theorem C09_defer_request_only_sets_flag :
  forall (P : Type) (presume : P -> input -> outcome P) (plan_of : nat -> P) (D : Type) (dev : D -> nat -> devmeth -> D * devres)
         (s s' : st P D) (o : list obs),
    allowed (state P D s) Pausing = true ->
    step P presume plan_of D dev s (EvReqPause true) = (s', o) ->
    o = [OReq true] /\ deferred P D s' = true /\ state P D s' = state P D s /\ pc P D s' = pc P D s /\
    must_cancel P D s' = must_cancel P D s /\ permit P D s' = permit P D s /\ interrupted P D s' = interrupted P D s /\
    plans P D s' = plans P D s /\ resps P D s' = resps P D s /\ cache P D s' = cache P D s.
Proof. exact defer_request_only_sets_flag. Qed.
Print Assumptions C09_defer_request_only_sets_flag.

(* a checkpoint outside a bundle takes the checkpoint -- also after clear_checkpoint --, so a resume replays nothing;
   with the flag set it starts the grace sleep instead of returning *)
Theorem C09_checkpoint_honours_deferred :
  forall (P D : Type) (dev : D -> nat -> devmeth -> D * devres) (s : st P D) (x : msg),
    mcmd x = CCheckpoint -> any_bundling P D s = false ->
    exists s1,
      exec_cmd P D dev s x = (s1, if deferred P D s then Susp KCkptSleep else Done (RVal VNone), []) /\
      cache P D s1 = Some [] /\ deferred P D s1 = deferred P D s /\ state P D s1 = state P D s /\
      rewindable P D s1 = rewindable P D s /\ plans P D s1 = plans P D s /\ resps P D s1 = resps P D s.
Proof. exact checkpoint_honours_deferred. Qed.
Print Assumptions C09_checkpoint_honours_deferred.

(* the end of the grace sleep is a hard pause: flag cleared, lifecycle -> pausing, call marked interrupted, task cancelled *)
Theorem C09_grace_sleep_then_pause :
  forall (P : Type) (presume : P -> input -> outcome P) (plan_of : nat -> P) (D : Type) (dev : D -> nat -> devmeth -> D * devres)
         (s : st P D),
    pc P D s = PcCmd KCkptSleep -> must_cancel P D s = false -> allowed (state P D s) Pausing = true ->
    bintr_ok (bundlers P D s) = true ->
    exists s1 o1,
      request_pause P D (set_must_cancel P D s false) false = (s1, None, OState (state P D s) Pausing :: o1) /\
      state P D s1 = Pausing /\ deferred P D s1 = false /\ interrupted P D s1 = true /\ must_cancel P D s1 = true /\
      cache P D s1 = cache P D s /\
      task_step P presume plan_of D dev s =
        drive P presume plan_of D dev (FUEL P D s1) s1 (CContinue true (RVal VNone))
              ((OState (state P D s) Pausing :: o1) ++ [OResp (RVal VNone)]).
Proof. exact grace_sleep_then_pause. Qed.
Print Assumptions C09_grace_sleep_then_pause.

(* in EVERY run, whenever the engine starts pausing the specification knows why ([mcause], see RE_Ctl.v):
   hard pause request / pause(defer=False) message / end of a deferred checkpoint's grace sleep *)
Theorem C09_pausing_has_a_cause :
  forall (P : Type) (presume : P -> input -> outcome P) (plan_of : nat -> P) (D : Type) (dev : D -> nat -> devmeth -> D * devres)
         (d : D) (paus stag : list nat) (rec : bool) (evs : list event) (l1 : list titem) (a : rstate) (l2 : list titem),
    trace P presume plan_of D dev (init P D d paus stag rec) evs = l1 ++ TObs (OState a Pausing) :: l2 ->
    mcause (mon_run mon0 l1) = true.
Proof. exact pausing_needs_cause. Qed.
Print Assumptions C09_pausing_has_a_cause.

(* pausing with a checkpoint in effect reaches `paused` at the top of the loop (devices
   stopped, then paused; the caller is woken; the task waits for the run permit) *)
Theorem C09_pausing_with_checkpoint_pauses :
  forall (P : Type) (presume : P -> input -> outcome P) (plan_of : nat -> P) (D : Type) (dev : D -> nat -> devmeth -> D * devres)
         (fuel : nat) (s : st P D) (os : list obs) (l : list msg) (s2 : st P D) (o2 : list obs) (s3 : st P D) (o3 : list obs),
    state P D s = Pausing -> cache P D s = Some l -> permit P D s = false ->
    stop_movables P D dev s = (s2, o2) -> call_pausables P D dev s2 MPause = (s3, None, o3) ->
    drive P presume plan_of D dev (S fuel) s CTop os =
    (set_pc P D (set_blocking P D (set_state_raw P D s3 Paused) true) PcPaused,
     os ++ [] ++ o2 ++ o3 ++ [OState Pausing Paused] ++ [OTask WFuture]).
Proof. exact pausing_with_checkpoint_pauses. Qed.
Print Assumptions C09_pausing_with_checkpoint_pauses.

(* the full statement (not proved as one theorem: see header) *)
Definition C09_full : Prop :=
  forall (P : Type) (presume : P -> input -> outcome P) (plan_of : nat -> P) (D : Type) (dev : D -> nat -> devmeth -> D * devres)
         (d : D) (paus stag : list nat) (rec : bool) (evs1 evs2 : list event),
    let s1 := fst (run P presume plan_of D dev (init P D d paus stag rec) (evs1 ++ [EvReqPause true])) in
    deferred P D s1 = true ->
    Forall (fun e => e = EvTask) evs2 ->
    let o := snd (run P presume plan_of D dev s1 evs2) in
    (forall x, In x o -> match x with OBad _ => False | _ => True end) ->
    forall a b ck, o = a ++ OMsg ck :: b -> mcmd ck = CCheckpoint ->
      (forall x, In x a -> match x with OMsg y => mcmd y <> CCheckpoint | _ => True end) ->
      (forall x, In x a -> match x with OState _ Pausing => False | _ => True end) /\
      (forall c e, b = c ++ OState Pausing Paused :: e -> forall x, In x c -> match x with OMsg _ => False | _ => True end).

Example C09_nonvacuous :
  deferred TP nat (fst (irun ex_defer_tapes ex_defer_ledger ex_defer_paus ex_defer_stag ex_defer_rec (firstn 6 ex_defer_evs))) = true /\
  state TP nat (fst (irun ex_defer_tapes ex_defer_ledger ex_defer_paus ex_defer_stag ex_defer_rec (firstn 6 ex_defer_evs))) = Running /\
  In (OOut OutInterrupted Paused false true) (snd (irun ex_defer_tapes ex_defer_ledger ex_defer_paus ex_defer_stag ex_defer_rec ex_defer_evs)) /\
  mok (mon_run mon0 (itrace ex_defer_tapes ex_defer_ledger ex_defer_paus ex_defer_stag ex_defer_rec ex_defer_evs)) = true /\
  In (TObs (OState Running Pausing)) (itrace ex_defer_tapes ex_defer_ledger ex_defer_paus ex_defer_stag ex_defer_rec ex_defer_evs).
Proof. exact c09_deferred_takes_effect_at_checkpoint. Qed.
Example C09_regression_C09a :
  check ex_c09a_tapes ex_c09a_ledger ex_c09a_paus ex_c09a_stag ex_c09a_rec ex_c09a_evs ex_c09a_obs = true /\
  In (EvReqPause true) ex_c09a_evs /\
  In (OMsg {| mid := Some 2; mcmd := CClearCheckpoint; mobj := None; mrun := 0 |})
     (snd (irun ex_c09a_tapes ex_c09a_ledger ex_c09a_paus ex_c09a_stag ex_c09a_rec ex_c09a_evs)) /\
  In (OOut OutInterrupted Paused false true) (snd (irun ex_c09a_tapes ex_c09a_ledger ex_c09a_paus ex_c09a_stag ex_c09a_rec ex_c09a_evs)) /\
  In (OOut (OutReturn [0]) Idle false true) (snd (irun ex_c09a_tapes ex_c09a_ledger ex_c09a_paus ex_c09a_stag ex_c09a_rec ex_c09a_evs)) /\
  forallb (fun x => match x with OPlanIn _ (Throw _) => false | _ => true end)
          (snd (irun ex_c09a_tapes ex_c09a_ledger ex_c09a_paus ex_c09a_stag ex_c09a_rec ex_c09a_evs)) = true.
Proof. exact c09_checkpoint_after_clear_pauses. Qed.
Example C09_nonvacuous_pending :
  In (OOut (OutReturn [0]) Idle true true)
     (snd (irun ex_defer_late_tapes ex_defer_late_ledger ex_defer_late_paus ex_defer_late_stag ex_defer_late_rec ex_defer_late_evs)).
Proof. exact c09_no_checkpoint_left_reports_pending. Qed.
