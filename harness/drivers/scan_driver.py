"""Drive bluesky plans as plain generators with fake devices (no RunEngine).

`drive_scan(plan, det, motor, response, readback, cap)` answers every `read` message from
the given functions and records every commanded position (`set` messages on the motor)."""


class FakeDev:
    parent = None

    def __init__(self, name):
        self.name = name
        self.hints = {"fields": [name]}

    def __repr__(self):
        return "FakeDev(%r)" % self.name

    # bluesky's protocol checks (Readable / Movable / Triggerable) are runtime_checkable:
    # the methods must exist, the generator driver never calls them
    def read(self):
        raise AssertionError("devices are never called by the generator driver")

    def describe(self):
        raise AssertionError

    def trigger(self):
        raise AssertionError

    def set(self, value):
        raise AssertionError

    def read_configuration(self):
        return {}

    def describe_configuration(self):
        return {}


def drive_scan(plan, det, motor, response, readback, cap):
    """response(k, x) -> detector value of the k-th reading (k = 0, 1, ...), x = last commanded position;
    readback(k, x) -> value the motor reports at its k-th reading when last commanded to x.
    Returns (positions, outcome, nreads) with outcome in
      "returned" | "cap" (a (cap+1)-th detector reading was requested: stopped by the driver; the
      position of that unfinished visit is not reported) | exception class name."""
    positions = []
    cur = None
    kdet = kmot = 0
    outcome = "returned"
    send = None
    try:
        while True:
            msg = plan.send(send)
            send = None
            if msg.command == "set" and msg.obj is motor:
                cur = msg.args[0]
                positions.append(cur)
            elif msg.command == "read":
                if msg.obj is det:
                    if kdet >= cap:
                        outcome = "cap"
                        positions.pop()
                        plan.close()
                        break
                    send = {det.name: {"value": response(kdet, cur), "timestamp": 0.0}}
                    kdet += 1
                elif msg.obj is motor:
                    send = {motor.name: {"value": readback(kmot, cur), "timestamp": 0.0}}
                    kmot += 1
    except StopIteration:
        pass
    except Exception as e:  # noqa: BLE001 - the class is the observation
        outcome = type(e).__name__
    return positions, outcome, kdet
