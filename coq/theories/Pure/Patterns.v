(* Model of bluesky.plan_patterns (src/bluesky/plan_patterns.py):
   inner_product, inner_list_product, outer_product, outer_list_product,
   classify_outer_product_args_pattern + chunk_outer_product_args (both argument patterns),
   with cycler `+` / `*` at list level (a cycler = list of points, a point = list of (motor id, value)
   in key order) and toolz.partition dropping an incomplete tail.
   None = the call raises (ValueError/TypeError).   Generic over the numeric operations.
   The outer products go through the label-level Snake.snake_cyclers followed by a per-axis value
   lookup (np.tile/np.repeat/[::-1]/concatenate only rearrange the values they are given).
   No proofs in this file. *)
From BV Require Import Base.Prelude Base.OrdFieldS Pure.Snake Pure.Linspace.

Section Patterns.
  Context {F : Type} (ops : Ops F).

  Inductive arg : Type :=
  | AMot (m : nat)            (* a movable+readable object, by harness id *)
  | AVal (x : F)              (* a number *)
  | ANum (n : nat)            (* an integer count *)
  | ABool (b : bool)
  | AList (l : list F).       (* a position list *)

  Definition is_movable (a : arg) : bool := match a with AMot _ => true | _ => false end.

  Definition point : Type := list (nat * F).
  Definition cyc : Type := list point.

  (* ---- toolz.partition(n, seq): full tuples only *)
  Fixpoint part2 (l : list arg) : list (arg * arg) :=
    match l with a :: b :: r => (a, b) :: part2 r | _ => [] end.
  Fixpoint part3 (l : list arg) : list (arg * arg * arg) :=
    match l with a :: b :: c :: r => (a, b, c) :: part3 r | _ => [] end.
  Fixpoint part5 (l : list arg) : list (arg * arg * arg * arg * arg) :=
    match l with a :: b :: c :: d :: e :: r => (a, b, c, d, e) :: part5 r | _ => [] end.
  (* pattern 1 after  args.insert(5n-1, False) for n = 1..len/4  then partition(5) *)
  Fixpoint part4_false (l : list arg) : list (arg * arg * arg * arg * arg) :=
    match l with a :: b :: c :: d :: r => (a, b, c, d, ABool false) :: part4_false r | _ => [] end.

  Fixpoint all_some {A} (l : list (option A)) : option (list A) :=
    match l with
    | [] => Some []
    | None :: _ => None
    | Some x :: r => match all_some r with Some r' => Some (x :: r') | None => None end
    end.

  Fixpoint nodupb (l : list nat) : bool :=
    match l with [] => true | x :: r => negb (existsb (Nat.eqb x) r) && nodupb r end.

  (* ---- cycler `+` over columns: equal lengths, disjoint keys, at least one column *)
  Definition zip_values (motors : list nat) (cols : list (list F)) : option cyc :=
    match cols with
    | [] => None                                               (* reduce() of empty sequence *)
    | c0 :: _ =>
      if negb (nodupb motors) then None                        (* overlapping keys *)
      else if negb (forallb (fun c => length c =? length c0) cols) then None   (* unequal lengths *)
      else if (1 <? length cols) && (length c0 =? 0) then None   (* cycler + on an empty cycler: StopIteration *)
      else Some (map (fun t => combine motors (map (fun c => nth t c (o_zero ops)) cols))
                     (seq 0 (length c0)))
    end.

  (* ---- classify_outer_product_args_pattern *)
  Inductive pattern := P1 | P2.

  Definition in_pos_movable (p : pattern) (n : nat) : bool :=
    match p with
    | P1 => n mod 4 =? 0                                        (* range(0, len, 4) *)
    | P2 => (n =? 0) || ((4 <=? n) && ((n - 4) mod 5 =? 0))     (* [0] + range(4, len, 5) *)
    end.

  Definition verify_motor_locations (args : list arg) (p : pattern) : bool :=
    forallb (fun ne => Bool.eqb (is_movable (snd ne)) (in_pos_movable p (fst ne)))
            (combine (seq 0 (length args)) args).

  Definition classify (args : list arg) : option pattern :=
    let n := length args in
    let div4 := n mod 4 =? 0 in
    let div5 := (4 <? n) && ((n - 4) mod 5 =? 0) in
    if negb div4 && negb div5 then None
    else if div4 && negb div5 then (if verify_motor_locations args P1 then Some P1 else None)
    else if negb div4 && div5 then (if verify_motor_locations args P2 then Some P2 else None)
    else if verify_motor_locations args P1 then Some P1
    else if verify_motor_locations args P2 then Some P2 else None.

  (* ---- chunk_outer_product_args (pattern known) *)
  Definition chunk (p : pattern) (args : list arg) : list (arg * arg * arg * arg * arg) :=
    match p with
    | P1 => part4_false args
    | P2 => match args with
            | a :: b :: c :: d :: r => (a, b, c, d, ABool false) :: part5 r     (* args.insert(4, False) *)
            | _ => []
            end
    end.

  Record axis := mkAxis { ax_motor : nat; ax_start : F; ax_stop : F; ax_num : nat; ax_snake : bool }.

  Definition to_axis (c : arg * arg * arg * arg * arg) : option axis :=
    match c with
    | (AMot m, AVal s, AVal e, ANum n, ABool b) => Some (mkAxis m s e n b)
    | _ => None
    end.

  Definition outer_product_axes (args : list arg) : option (list axis) :=
    match classify args with
    | None => None
    | Some p => all_some (map to_axis (chunk p args))
    end.

  (* ---- snake_cyclers on value columns = label grid + lookup *)
  Definition lookup_point (motors : list nat) (cols : list (list F)) (labels : list nat) : point :=
    map (fun mcl => (fst (fst mcl), nth (snd mcl) (snd (fst mcl)) (o_zero ops)))
        (combine (combine motors cols) labels).

  Definition snake_values (motors : list nat) (cols : list (list F)) (flags : list bool) : option cyc :=
    if negb (nodupb motors) then None                               (* overlapping keys in + or * *)
    else if (1 <? length cols) && existsb (fun c => length c =? 0) cols
    then None                                     (* composing an empty cycler with + or * : StopIteration *)
    else match snake_cyclers (map (@length F) cols) flags with
         | None => None
         | Some grid => Some (map (lookup_point motors cols) grid)
         end.

  Definition outer_product_of_axes (axes : list axis) : option cyc :=
    snake_values (map ax_motor axes)
                 (map (fun a => linspace ops (ax_start a) (ax_stop a) (ax_num a)) axes)
                 (map ax_snake axes).

  Definition outer_product (args : list arg) : option cyc :=
    match outer_product_axes args with
    | None => None
    | Some axes => outer_product_of_axes axes
    end.

  (* ---- outer_list_product *)
  Inductive snake_axes := SANone | SAFalse | SATrue | SAList (ms : list nat).

  Definition to_list_axis (c : arg * arg) : option (nat * list F) :=
    match c with (AMot m, AList l) => Some (m, l) | _ => None end.

  (* the `snaking` list built by the loop: k = number of motors seen so far *)
  Definition list_flag (sa : snake_axes) (k : nat) (m : nat) : bool :=
    match sa with
    | SANone | SAFalse => false
    | SAList [] => false                                       (* `not snake_axes` *)
    | SAList ms => existsb (Nat.eqb m) ms
    | SATrue => negb (k =? 0)
    end.

  Definition list_flags (sa : snake_axes) (motors : list nat) : list bool :=
    map (fun km => list_flag sa (fst km) (snd km)) (combine (seq 0 (length motors)) motors).

  Definition outer_list_product (args : list arg) (sa : snake_axes) : option cyc :=
    match all_some (map to_list_axis (part2 args)) with
    | None => None
    | Some axes => snake_values (map fst axes) (map snd axes) (list_flags sa (map fst axes))
    end.

  (* ---- inner_product / inner_list_product *)
  Definition to_inner_axis (c : arg * arg * arg) : option (nat * F * F) :=
    match c with (AMot m, AVal s, AVal e) => Some (m, s, e) | _ => None end.

  Definition inner_product (num : nat) (args : list arg) : option cyc :=
    if negb (length args mod 3 =? 0) then None
    else match all_some (map to_inner_axis (part3 args)) with
         | None => None
         | Some axes => zip_values (map (fun a => fst (fst a)) axes)
                                   (map (fun a => linspace ops (snd (fst a)) (snd a) num) axes)
         end.

  Definition inner_list_product (args : list arg) : option cyc :=
    if negb (length args mod 2 =? 0) then None
    else match all_some (map to_list_axis (part2 args)) with
         | None => None
         | Some axes => zip_values (map fst axes) (map snd axes)
         end.
End Patterns.

Arguments AMot {F}. Arguments AVal {F}. Arguments ANum {F}. Arguments ABool {F}. Arguments AList {F}.

(* label-level views used by the C26 correspondence: which index grid the outer products run through *)
Definition outer_product_labels {F} (args : list (@arg F)) : option (list (list nat)) :=
  match outer_product_axes args with
  | None => None
  | Some axes =>
    if negb (nodupb (map (@ax_motor F) axes)) then None
    else snake_cyclers (map (@ax_num F) axes) (map (@ax_snake F) axes)
  end.

Definition outer_list_product_labels {F} (args : list (@arg F)) (sa : snake_axes) : option (list (list nat)) :=
  match all_some (map to_list_axis (part2 args)) with
  | None => None
  | Some axes =>
    if negb (nodupb (map fst axes)) then None
    else snake_cyclers (map (fun a => length (snd a)) axes) (list_flags sa (map fst axes))
  end.
