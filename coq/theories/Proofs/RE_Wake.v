(* C11 / C09 / C10: when is the caller of RE() / resume() woken up?  The blocking event is set only when the engine
   becomes paused or the `_run` task ends -- never by a request, never while a suspension is being served.
   For all plans, devices and task steps of Engine/RE.v. *)
From Coq Require Import List String ZArith Bool Arith Lia.
From BV Require Import Engine.RE Proofs.RE_Ctl Proofs.RE_Replay Proofs.RE_Susp.
Import ListNotations.

Definition wake_obs (x : obs) : Prop :=
  match x with OState _ Paused | OTask WReturn | OTask (WRaise _) => True | _ => False end.
Definition wakes (o : list obs) : Prop := exists x, In x o /\ wake_obs x.

Lemma wakes_app_l a b : wakes a -> wakes (a ++ b).
Proof. intros (x & H1 & H2). exists x. split; [apply in_or_app; left; exact H1 | exact H2]. Qed.
Lemma wakes_app_r a b : wakes b -> wakes (a ++ b).
Proof. intros (x & H1 & H2). exists x. split; [apply in_or_app; right; exact H1 | exact H2]. Qed.

Section Engine.
Variable P : Type.
Variable presume : P -> input -> outcome P.
Variable plan_of : nat -> P.
Variable D : Type.
Variable dev : D -> nat -> devmeth -> D * devres.
Notation st := (st P D).
Notation blk := (blocking P D).

Lemma dcall_blk (s : st) d mth s' r o : dcall P D dev s d mth = (s', r, o) -> blk s' = blk s.
Proof. unfold dcall. destruct (dev _ _ _). intros H; inv H. reflexivity. Qed.

Lemma stop_movables_blk (s : st) s' o : stop_movables P D dev s = (s', o) -> blk s' = blk s.
Proof. intros H. apply stop_movables_dst in H. destruct H as [-> | [d' ->]]; reflexivity. Qed.

Lemma call_pausables_blk (s : st) mth s' e o : call_pausables P D dev s mth = (s', e, o) -> blk s' = blk s.
Proof.
  unfold call_pausables.
  assert (G : forall l (s0 : st) e0 o0 s1 e1 o1,
             fold_left (fun acc d =>
               let '(s0, e, os) := acc in
               match e with
               | Some _ => acc
               | None => if mem_nat d (seen P D s0)
                         then let '(s1, r, o) := dcall P D dev s0 d mth in
                              (s1, match r with DRaise x => Some x | _ => None end, os ++ o)
                         else acc
               end) l (s0, e0, o0) = (s1, e1, o1) -> blk s1 = blk s0).
  { induction l as [|d l IH]; intros s0 e0 o0 s1 e1 o1 H; cbn in H.
    - inv H. reflexivity.
    - destruct e0; [eapply IH; eassumption|]. destruct (mem_nat d (seen P D s0)); [|eapply IH; eassumption].
      destruct (dcall P D dev s0 d mth) as [[sa ra] oa] eqn:E. apply IH in H. apply dcall_blk in E. congruence. }
  intros H. apply G in H. exact H.
Qed.

Lemma record_interruptions_blk (s : st) s' o ok : record_interruptions P D s = (s', o, ok) -> blk s' = blk s.
Proof. unfold record_interruptions. destruct (record_intr_list (bundlers P D s)) as [[bs os] ok0]. intros H; inv H. reflexivity. Qed.

Lemma request_pause_blk (s : st) d s' e o : request_pause P D s d = (s', e, o) -> blk s' = blk s.
Proof.
  unfold request_pause. destruct (negb (allowed (state P D s) Pausing)); [intros H; inv H; reflexivity|].
  destruct d; [intros H; inv H; reflexivity|].
  match goal with |- context [set_state P D ?sx Pausing] => set (s1 := sx) end.
  assert (B1 : blk s1 = blk s) by (unfold s1; destruct (pc P D (interrupt P D (set_deferred P D s false) CzPause)); reflexivity).
  unfold set_state. destruct (allowed (state P D s1) Pausing); [|intros H; inv H; exact B1].
  destruct (record_interruptions P D (set_state_raw P D s1 Pausing)) as [[s3 o2] ok] eqn:E. apply record_interruptions_blk in E. cbn in E.
  destruct ok; intros H; inv H; [|cbn; congruence]. unfold cancel_task. destruct (pc P D s3); cbn; congruence.
Qed.

Lemma request_pause_in_task_blk (s : st) d s' e o : request_pause_in_task P D s d = (s', e, o) -> blk s' = blk s.
Proof.
  unfold request_pause_in_task. destruct (request_pause P D s d) as [[s1 e1] o1] eqn:E.
  apply request_pause_blk in E. intros H; inv H. destruct (resumable P D s); exact E.
Qed.

Lemma reset_checkpoint_blk (s : st) : blk (reset_checkpoint P D s) = blk s.
Proof. unfold reset_checkpoint. destruct (cache P D s); reflexivity. Qed.

Lemma finish_read_blk (s : st) run d z o0 s' c o : finish_read P D s run d z o0 = (s', c, o) -> blk s' = blk s.
Proof. unfold finish_read. repeat break_match; intros H; inv H; reflexivity. Qed.

Lemma rewind_blk (s : st) s1 l : rewind P D s = (s1, l) -> blk s1 = blk s.
Proof. unfold rewind. destruct (cache P D s); intros H; inv H; [destruct (Nat.eqb (List.length l) 0)|]; reflexivity. Qed.

Lemma exec_cmd_blk (s : st) m s' c o : exec_cmd P D dev s m = (s', c, o) -> blk s' = blk s.
Proof.
  unfold exec_cmd. destruct (mcmd m);
    repeat break_match; intros H; inv H;
    repeat match goal with
           | H : dcall _ _ _ _ _ _ = _ |- _ => apply dcall_blk in H
           | H : call_pausables _ _ _ _ _ = _ |- _ => apply call_pausables_blk in H
           | H : request_pause _ _ _ _ = _ |- _ => apply request_pause_blk in H
           | H : request_pause_in_task _ _ _ _ = _ |- _ => apply request_pause_in_task_blk in H
           | H : finish_read _ _ _ _ _ _ _ = _ |- _ => apply finish_read_blk in H
           end;
    rewrite ?reset_checkpoint_blk; cbn in *; rewrite ?reset_checkpoint_blk; try congruence; try reflexivity.
Qed.

Lemma exec_start_suspender_blk (s : st) sid pre post s' c o :
  exec_start_suspender P plan_of D dev s sid pre post = (s', c, o) -> blk s' = blk s.
Proof.
  unfold exec_start_suspender. repeat break_match; intros H; inv H;
    repeat match goal with
           | H : stop_movables _ _ _ _ = _ |- _ => apply stop_movables_blk in H
           | H : call_pausables _ _ _ _ _ = _ |- _ => apply call_pausables_blk in H
           | H : record_interruptions _ _ _ = _ |- _ => apply record_interruptions_blk in H
           | H : rewind _ _ _ = _ |- _ => apply rewind_blk in H
           end; cbn in *; congruence.
Qed.

Lemma wake_task_end t : wake_obs (OTask match t with TReturn _ => WReturn | TRaise e => WRaise e end).
Proof. destruct t; exact I. Qed.

Lemma finalize_wakes (s : st) r pend s' o : finalize P presume D dev s r pend = (s', o) -> wakes o.
Proof.
  unfold finalize.
  destruct (stop_movables P D dev (set_pardon P D s true)) as [s2 o2].
  match goal with |- context [fold_left ?f ?l ?a] => destruct (fold_left f l a) as [s3 o3] end.
  match goal with |- context [set_state P D ?sx Idle] => destruct (set_state P D sx Idle) as [[s6 o6]|] end;
    intros H; inv H; repeat (apply wakes_app_r); eexists; (split; [left; reflexivity | first [apply wake_task_end | exact I]]).
Qed.

(* the `_run` loop: the blocking event is left alone unless the engine pauses or the task ends *)
Lemma drive_wakes fuel : forall (s : st) c os s' o,
  drive P presume plan_of D dev fuel s c os = (s', o) -> blk s' = blk s \/ wakes o.
Proof.
  induction fuel as [|fuel IH]; intros s c os s' o H; cbn [drive] in H.
  - inv H. left; reflexivity.
  - assert (K : forall s1 c1 x, blk s1 = blk s -> drive P presume plan_of D dev fuel s1 c1 x = (s', o) -> blk s' = blk s \/ wakes o).
    { intros s1 c1 x Hb H1. apply IH in H1. destruct H1 as [H1 | H1]; [left; congruence | right; exact H1]. }
    destruct c.
    + (* CTop *)
      repeat (bm_hyp H);
        repeat match goal with
               | Hx : (if ?c then set_state _ _ _ _ else Some (_, _)) = Some _ |- _ => destruct c; [|inv Hx]
               | Hx : stop_movables _ _ _ _ = _ |- _ => apply stop_movables_blk in Hx
               | Hx : call_pausables _ _ _ _ _ = _ |- _ => apply call_pausables_blk in Hx
               | Hx : set_state _ _ ?sx _ = Some _ |- _ =>
                   unfold set_state in Hx; destruct (allowed (state P D sx) _); [inv Hx | discriminate Hx]
               end;
        try (eapply K; [|exact H]; cbn in *; congruence).
      all: try (inv H; right; match goal with |- context [OState ?a Paused] => exists (OState a Paused) end;
                split; [repeat first [apply in_eq | apply in_cons | (apply in_or_app; right)] | exact I]).
    + repeat (bm_hyp H); try (eapply K; [|exact H]; reflexivity). inv H. left; reflexivity.
    + repeat (bm_hyp H); try (eapply K; [|exact H]; reflexivity).
    + (* CProcess *)
      match type of H with
      | context [exec_start_suspender P plan_of D dev ?s2] =>
          assert (B2 : blk s2 = blk s)
            by (destruct (mobj m); cbn; repeat break_match; reflexivity);
          destruct (match mcmd m with
                    | CStartSuspender sid pre post => exec_start_suspender P plan_of D dev s2 sid pre post
                    | _ => exec_cmd P D dev s2 m
                    end) as [[s3 cr] o3] eqn:Epr
      end.
      assert (B3 : blk s3 = blk s).
      { rewrite <- B2. destruct (mcmd m); first [eapply exec_cmd_blk; exact Epr | eapply exec_start_suspender_blk; exact Epr]. }
      destruct cr; [eapply K; [|exact H]; exact B3 | inv H; left; exact B3].
    + eapply K; [|exact H]. destruct popped; reflexivity.
    + repeat (bm_hyp H); try (eapply K; [|exact H]; reflexivity).
    + repeat (bm_hyp H); try (eapply K; [|exact H]; reflexivity); try (inv H; left; reflexivity).
    + destruct (finalize P presume D dev s r pending) as [s1 o1] eqn:Ef. inv H. right. apply wakes_app_r. eapply finalize_wakes; eassumption.
Qed.

Lemma mark_cached_blk (s : st) run d : blk (mark_cached P D s run d) = blk s.
Proof. unfold mark_cached. destruct (get_bundler P D s run); reflexivity. Qed.

(* one step of the `_run` task *)
Theorem task_step_wakes (s : st) s' o :
  task_step P presume plan_of D dev s = (s', o) -> blk s' = blk s \/ wakes o.
Proof.
  unfold task_step. intros H.
  assert (K : forall fuel s1 c1 x, blk s1 = blk s -> drive P presume plan_of D dev fuel s1 c1 x = (s', o) -> blk s' = blk s \/ wakes o).
  { intros fuel s1 c1 x Hb H1. apply drive_wakes in H1. destruct H1 as [H1 | H1]; [left; congruence | right; exact H1]. }
  repeat (bm_hyp H);
    repeat match goal with
           | Hx : (if ?c then set_state _ _ _ _ else Some (_, _)) = Some _ |- _ => destruct c; [|inv Hx]
           | Hx : request_pause _ _ _ _ = _ |- _ => apply request_pause_blk in Hx
           | Hx : finish_read _ _ _ _ _ _ _ = _ |- _ => apply finish_read_blk in Hx
           | Hx : set_state _ _ ?sx _ = Some _ |- _ =>
               unfold set_state in Hx; destruct (allowed (state P D sx) _); [inv Hx | discriminate Hx]
           end;
    try (eapply K; [|exact H]; rewrite ?mark_cached_blk in *; cbn in *; congruence);
    try (inv H; left; reflexivity);
    try (right; eapply finalize_wakes; exact H);
    try (inv H; right; eexists; split; [left; reflexivity | exact I]).
Qed.

(* requests never wake the caller *)
Theorem requests_do_not_wake (s : st) e s' o :
  match e with EvReqPause _ | EvReqAbort _ | EvReqStop | EvReqHalt | EvRelease _ | EvStatus _ _ | EvCacheDone => True | _ => False end ->
  step P presume plan_of D dev s e = (s', o) -> blk s' = blk s.
Proof.
  intros He H. destruct e; try contradiction; cbn [step] in H.
  - destruct (request_pause P D s defer) as [[s1 e1] o1] eqn:Er. apply request_pause_blk in Er.
    unfold req_result in H. inv H. destruct (mreq P D s1); cbn; congruence.
  - unfold req_result, set_state, cancel_task in H. repeat (bm_hyp H);
      repeat match goal with Hx : (if ?c then Some _ else None) = Some _ |- _ => destruct c; inv Hx end; inv H; cbn; reflexivity.
  - unfold req_result, set_state, cancel_task in H. repeat (bm_hyp H);
      repeat match goal with Hx : (if ?c then Some _ else None) = Some _ |- _ => destruct c; inv Hx end; inv H; cbn; reflexivity.
  - unfold req_result, set_state, cancel_task in H. repeat (bm_hyp H);
      repeat match goal with Hx : (if ?c then Some _ else None) = Some _ |- _ => destruct c; inv Hx end; inv H; cbn; reflexivity.
  - inv H. reflexivity.
  - inv H. destruct (negb ok && negb (pardon P D _)); reflexivity.
  - inv H. repeat break_match; try reflexivity. unfold mark_cached. repeat break_match; reflexivity.
Qed.

End Engine.
