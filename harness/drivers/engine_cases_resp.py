"""Extra engine cases for C12 / C13 (responses and errors reach the right plan at the right yield).
Never edits engine_cases.py; uses its DSL helpers."""
from harness.drivers.engine_cases import m, seq, base, count_msgs, DEVS


def gen(rng, tier):
    return []
