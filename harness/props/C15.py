"""C15 - events contain exactly the readings bundled between create and save (RunBundler create/read/save/drop
and the engine-side checkpoint/configure guards)."""
from harness.drivers import bundler_cases as bc
from harness.drivers import bundler_driver as bd
from harness.drivers import bundler_oracles as bo
from harness.drivers import bundler_terms as bt

ID = "C15"
PROP_FILE = "Props/C15.v"
THEOREMS = ["C15_save_emits_bundle", "C15_create_opens_empty_bundle", "C15_read_appends",
            "C15_bundle_untouched_by_other_ops", "C15_bundle_invariant", "C15_read_collision_rejected",
            "C15_guards", "C15_drop_and_empty_save_emit_nothing"]
COQ_IMPORTS = bt.imports()
PARALLEL = False    # the driver owns one RunEngine (loop thread) per process; cases are cheap
MODELLED = (
    "bluesky.bundlers.RunBundler is modelled op by op in coq/theories/Engine/Bundler.v (state record mirroring its "
    "attributes; partial effects of exceptions kept); RunEngine._checkpoint/_configure are modelled as guard + "
    "reset_checkpoint_state / guard + obj.configure + RunBundler.configure. event_model's compose_descriptor / "
    "compose_event / compose_stop are modelled behaviourally (shared counters, stream/data-key check, poison pill); "
    "JSON-schema validation is left to event_model (its failures are outside the model's vocabulary and excluded). "
    "asyncio.gather is modelled as 'all members run, first exception in order wins' (the members never suspend). "
    "Devices are the harness's fake devices: static describe()/protocols = environment E, readings and asset "
    "documents are op payloads. Old-style flyer paths (describe_collect without declare_stream, collect()/"
    "collect_pages()) answer EUnmodelled. Documents are abstract records; uids compared by first appearance.")
RULE = ("corpus; exhaustive: every op sequence of length <= 3 (quick; plus 300 sampled of length 4) / <= 4 (thorough; plus 3000 sampled of length 5..7) over {create, read o1, read o2, "
        "read o3 (keys overlap o2), save, drop, checkpoint, configure o1} after open_run; random walks (profiles bundle/"
        "mixed, 6..28 ops, 8% arbitrary ops, 30% random device universes, strict pre-declare 15%, both create forms); "
        "malformed stream (35% arbitrary ops: bad readings, ops before open_run, wrong protocols, bad asset docs). "
        "Every case: full per-op comparison (documents, device calls, error kind) of model vs real RunBundler. "
        "non-trivial = a save that emitted an event; distinct by op list")

ALPHABET = [("create", 1, ()), ("read", 1, ((1, 11),), ()), ("read", 2, ((2, 22), (3, 33)), ()),
            ("read", 3, ((3, 44),), ()), ("save",), ("drop",), ("checkpoint",), ("configure", 1, 7)]


def cases(rng, tier):
    out = []
    maxlen = 3 if tier == "quick" else 4
    for ops in bc.enum_sequences(ALPHABET, maxlen):
        out.append(bc.mk(bc.DEVS[:3], ops, tag="enum"))
    # a seeded sample of the next lengths
    for _ in range(300 if tier == "quick" else 3000):
        k = 4 if tier == "quick" else rng.randint(5, 7)
        out.append(bc.mk(bc.DEVS[:3], [["open_run"]] + [bc._thaw(rng.choice(ALPHABET)) for _ in range(k)], tag="enum+"))
    n = 180 if tier == "quick" else 3000
    out += bc.random_cases(rng, n, "bundle")
    out += bc.random_cases(rng, n // 3, "mixed")
    out += bc.random_cases(rng, n // 3, "bundle", wild=0.35, tag="malformed")
    return out


def impl(case):
    return bd.run_case(case)


def coq_term(case, obs):
    return bt.agrees_term(case, obs)


def oracle(case, obs):
    return bo.c15(case, obs)


def finding(case, obs):
    return None


def nontrivial(case, obs):
    return any(op[0] == "save" and any(d[0] == "event" for d in o["docs"]) for op, o in zip(case["ops"], obs))


def describe(case):
    n = len(case["ops"])
    return "%s len=%s" % (case.get("tag", "corpus"), "<=5" if n <= 5 else "6-15" if n <= 15 else ">15")
