(* C33 -- 0MQ publishing delivers documents intact and filters by prefix.
   Model: Pure/Framing.v (Publisher.__call__ framing, RemoteDispatcher._poll with fix C33-a).
   doc/ser/deser are arbitrary: the only fact used about the codec is deser (ser d) = Some d. *)
From BV Require Import Base.Prelude Pure.Framing Proofs.Framing.
From Coq Require Import NArith.
Local Open Scope N_scope.

(* framing: any payload bytes (spaces included) come back unchanged when the prefix and the
   name are space-free; and parse accepts nothing but frames *)
Theorem C33_parse_frame : forall p n payload,
  ~ In 32 p -> ~ In 32 n -> parse (frame p n payload) = Some (p, n, payload).
Proof. exact parse_frame. Qed.
Print Assumptions C33_parse_frame.

Theorem C33_parse_sound : forall m p n payload,
  parse m = Some (p, n, payload) -> m = frame p n payload /\ ~ In 32 p /\ ~ In 32 n.
Proof. exact parse_sound. Qed.
Print Assumptions C33_parse_sound.

(* non-strict dispatcher with prefix q on any interleaving of published documents (any
   space-free prefixes, any document names) and frames malformed for q: it delivers exactly
   the documents whose publisher prefix is q (all when q is empty), in order, equal, and is
   still running *)
Theorem C33_delivery : forall (doc : Type) (ser : doc -> bytes) (deser : bytes -> option doc),
  (forall d, deser (ser d) = Some d) ->
  forall q items, Forall (item_ok doc deser q) items ->
    poll doc deser false q (wire doc ser [] items) = (expected doc q items, Running).
Proof. exact poll_nonstrict. Qed.
Print Assumptions C33_delivery.

(* strict or not makes no difference while every frame comes from a Publisher *)
Theorem C33_delivery_published_only : forall (doc : Type) (ser : doc -> bytes) (deser : bytes -> option doc),
  (forall d, deser (ser d) = Some d) ->
  forall strict q items, Forall (item_ok doc deser q) items -> Forall (is_pub doc) items ->
    poll doc deser strict q (wire doc ser [] items) = (expected doc q items, Running).
Proof. exact poll_pubs. Qed.
Print Assumptions C33_delivery_published_only.

(* strict: the first malformed frame raises; it and everything after it deliver nothing *)
Theorem C33_strict_raises : forall (doc : Type) (ser : doc -> bytes) (deser : bytes -> option doc),
  (forall d, deser (ser d) = Some d) ->
  forall q items m rest,
    Forall (item_ok doc deser q) items -> Forall (is_pub doc) items -> malformedb doc deser q m = true ->
    poll doc deser true q (wire doc ser [] (items ++ Junk m :: rest))
    = (expected doc q items, Raised (cause_of doc deser q m)).
Proof. exact poll_strict_raises. Qed.
Print Assumptions C33_strict_raises.

(* what malformed means, on the frame: fewer than two spaces, or undecodable name, or (when
   the prefix is ours) undeserialisable payload or a name that is no document name;
   such a frame is never delivered, and every other frame is delivered or someone else's *)
Theorem C33_malformed_dropped : forall (doc : Type) (deser : bytes -> option doc) q m,
  malformedb doc deser q m = true -> handle doc deser q m = Bad (cause_of doc deser q m).
Proof. exact handle_malformed. Qed.
Print Assumptions C33_malformed_dropped.

Theorem C33_split_fails_iff : forall m, parse m = None <-> (count_sp m < 2)%nat.
Proof. exact parse_none_iff. Qed.
Print Assumptions C33_split_fails_iff.

(* no hypothesis on the frames at all: the non-strict loop never stops and delivers exactly
   the frames that split, decode, match the prefix, deserialise and name a document type *)
Theorem C33_nonstrict_total : forall (doc : Type) (deser : bytes -> option doc) q frames,
  poll doc deser false q frames = (deliverable doc deser q frames, Running).
Proof. exact poll_nonstrict_any. Qed.
Print Assumptions C33_nonstrict_total.

(* ---- non-vacuity: a concrete codec whose payloads contain spaces, two publishers, junk ---- *)
Definition ex_ser (d : N) : bytes := [d; 32; d].
Definition ex_deser (b : bytes) : option N :=
  match b with [x; 32; y] => if N.eqb x y then Some x else None | _ => None end.
Definition n_start : bytes := [115;116;97;114;116].
Definition n_event : bytes := [101;118;101;110;116].
Definition n_stop : bytes := [115;116;111;112].
Definition ex_items : list (item N) :=
  [ Pub [65] n_start 1; Junk [1; 2]; Pub [66; 255] n_stop 2; Junk [65; 32; 255; 32; 7; 32; 7];
    Junk (frame [65] [110;111] (ex_ser 3)); Junk (frame [65] n_event [9]); Pub [65] n_event 32 ].

Example C33_delivery_nonvacuous :
  (forall d, ex_deser (ex_ser d) = Some d) /\
  Forall (item_ok N ex_deser [65]) ex_items /\
  expected N [65] ex_items = [(n_start, 1); (n_event, 32)] /\
  expected N [] ex_items = [(n_start, 1); (n_stop, 2); (n_event, 32)].
Proof.
  split; [intros d; cbn; now rewrite N.eqb_refl|].
  split; [|split; reflexivity].
  unfold ex_items. repeat (apply Forall_cons; [cbn [item_ok] | ]); try apply Forall_nil;
    try (vm_compute; reflexivity);
    (split; [vm_compute; reflexivity | apply known_name_in; vm_compute; reflexivity]).
Qed.

Example C33_strict_nonvacuous :
  malformedb N ex_deser [65] (frame [65] [110;111] (ex_ser 3)) = true /\
  cause_of N ex_deser [65] (frame [65] [110;111] (ex_ser 3)) = CUnknown /\
  poll N ex_deser true [65] (wire N ex_ser [] ex_items) = ([(n_start, 1)], Raised CSplit).
Proof. vm_compute. repeat split; reflexivity. Qed.
