(* Model of bluesky.plan_stubs.repeat (src/bluesky/plan_stubs.py, `repeat` / `repeated_plan`)
   as a state machine over a minimal plan coalgebra (defined here; independent of Gen/Coalg.v).

   The inner plan is ANY coalgebra  resume : P -> input -> outcome  (so: any generator, of any
   length, terminating or not, reacting to sent values and thrown exceptions); `plan()` is an
   arbitrary function  mk : nat -> P  of the call index.  The clock is an oracle
   now : nat -> Q  indexed by the number of messages the consumer has processed so far (the plan
   itself takes no time; time passes while the consumer handles a message).  Delays are a scalar,
   a sized iterable (list/tuple/ndarray) or a lazy stream (generator; possibly infinite).
   No proofs in this file. *)
From Coq Require Import ZArith QArith List Bool.
Import ListNotations.

Section Repeat.
  Variables M V E P : Type.            (* inner messages, sent/returned values, exceptions, plan states *)
  Variable vnone : V.                  (* the None that `yield from` first sends *)

  Inductive input := Send (v : V) | Throw (e : E).
  Inductive outcome := Yielded (m : M) (p' : P) | Returned (v : V) | Raised (e : E).

  Variable resume : P -> input -> outcome.
  Variable mk : nat -> P.              (* the generator returned by the k-th call of plan() *)
  Variable now : nat -> Q.             (* time.time() after n processed messages *)

  (* result of one next(delay): None = StopIteration, Some None = the entry None *)
  Inductive delays :=
  | DScalar (d : option Q)
  | DSized (l : list (option Q))
  | DLazy (f : nat -> option (option Q)).

  Definition delay_at (ds : delays) (i : nat) : option (option Q) :=
    match ds with
    | DScalar d => Some d                 (* itertools.repeat(delay) *)
    | DSized l => nth_error l i           (* iter(list) *)
    | DLazy f => f i
    end.

  Variable num : option Z.             (* None = itertools.count() *)
  Variable ds : delays.

  (* `if num and num - 1 > num_delays: raise ValueError`  (only when len(delay) works) *)
  Definition sized_too_short : bool :=
    match ds, num with
    | DSized l, Some z => negb (z =? 0)%Z && (Z.of_nat (length l) <? z - 1)%Z
    | _, _ => false
    end.

  (* `for i in iterator` still has an element *)
  Definition in_range (i : nat) : bool :=
    match num with None => true | Some z => (Z.of_nat i <? z)%Z end.

  Inductive rmsg := RCheckpoint | RInner (m : M) | RSleep (d : Q).

  Inductive phase :=
  | PStart                                   (* generator created, not started *)
  | PCheck (i : nat) (t0 : Q)                (* suspended at `yield Msg("checkpoint")` of iteration i *)
  | PInner (i : nat) (t0 : Q) (p : P)        (* suspended inside `yield from plan()` *)
  | PSleep (i : nat).                        (* suspended at `yield Msg("sleep", None, d)` *)

  Record rstate := mkR { ph : phase; nmsg : nat }.     (* nmsg: messages yielded so far *)

  (* what happens, in order (EInst is not a message: it marks the call of plan()) *)
  Inductive ev :=
  | ECheckpoint (i : nat)
  | EInst (i : nat)
  | EMsg (i : nat) (m : M)
  | ESleep (i : nat) (d : Q).

  Inductive rout :=
  | RYield (m : rmsg) (s : rstate)
  | RReturn                                  (* repeat returns (None) *)
  | RValueError                              (* repeat's own ValueError about the delays *)
  | RRaise (e : E).                          (* an exception of the inner plan / thrown in by the consumer *)

  (* top of the for loop:  now = time.time(); yield Msg("checkpoint") *)
  Definition start_iter (i n : nat) : list ev * rout :=
    if in_range i then ([ECheckpoint i], RYield RCheckpoint (mkR (PCheck i (now n)) (S n)))
    else ([], RReturn).

  (* the remaining time of a requested delay: sleep iff it is positive *)
  Definition remaining (d t0 t1 : Q) : Q := d - (t1 - t0).

  (* after `yield from plan()` of iteration i has returned *)
  Definition after_inner (i : nat) (t0 : Q) (n : nat) : list ev * rout :=
    match delay_at ds i with
    | None =>                                (* StopIteration *)
        match num with
        | None => ([], RReturn)
        | Some z => if (Z.of_nat i + 1 =? z)%Z then ([], RReturn) else ([], RValueError)
        end
    | Some None => start_iter (S i) n
    | Some (Some d) =>
        let d' := remaining d t0 (now n) in
        if Qlt_le_dec 0 d'
        then ([ESleep i d'], RYield (RSleep d') (mkR (PSleep i) (S n)))
        else start_iter (S i) n
    end.

  Definition step_inner (i : nat) (t0 : Q) (n : nat) (p : P) (x : input) : list ev * rout :=
    match resume p x with
    | Yielded m p' => ([EMsg i m], RYield (RInner m) (mkR (PInner i t0 p') (S n)))
    | Returned _ => after_inner i t0 n
    | Raised e => ([], RRaise e)
    end.

  Definition rresume (s : rstate) (x : input) : list ev * rout :=
    match ph s with
    | PStart =>
        match x with
        | Throw e => ([], RRaise e)
        | Send _ => if sized_too_short then ([], RValueError) else start_iter 0 (nmsg s)
        end
    | PCheck i t0 =>
        match x with
        | Throw e => ([], RRaise e)
        | Send _ => let r := step_inner i t0 (nmsg s) (mk i) (Send vnone) in (EInst i :: fst r, snd r)
        end
    | PInner i t0 p => step_inner i t0 (nmsg s) p x
    | PSleep i =>
        match x with
        | Throw e => ([], RRaise e)
        | Send _ => start_iter (S i) (nmsg s)
        end
    end.

  Inductive final := FRunning (s : rstate) | FReturned | FValueError | FRaised (e : E).

  (* drive the generator with a list of inputs; the trace and how far it got *)
  Fixpoint run (s : rstate) (xs : list input) : list ev * final :=
    match xs with
    | [] => ([], FRunning s)
    | x :: xs' =>
        let r := rresume s x in
        match snd r with
        | RYield _ s' => let r' := run s' xs' in (fst r ++ fst r', snd r')
        | RReturn => (fst r, FReturned)
        | RValueError => (fst r, FValueError)
        | RRaise e => (fst r, FRaised e)
        end
    end.

  Definition init : rstate := mkR PStart 0.

  (* ---------------------------------------------------------------- the documented behaviour *)
  (* events of one complete repetition *)
  Definition block (i : nat) (msgs : list M) (sl : option Q) : list ev :=
    ECheckpoint i :: EInst i :: map (EMsg i) msgs ++ match sl with Some d => [ESleep i d] | None => [] end.

  (* the sleep after repetition i that started at message count n and passed |msgs| messages *)
  Definition sleep_of (i n len : nat) : option Q :=
    match delay_at ds i with
    | Some (Some d) =>
        let d' := remaining d (now n) (now (n + 1 + len)) in
        if Qlt_le_dec 0 d' then Some d' else None
    | _ => None
    end.

  Definition block_len (i n len : nat) : nat :=
    n + 1 + len + match sleep_of i n len with Some _ => 1 | None => 0 end.

  (* complete repetitions i, i+1, ... with the given inner message lists, starting at count n *)
  Fixpoint spec_blocks (i n : nat) (msgss : list (list M)) : list ev :=
    match msgss with
    | [] => []
    | msgs :: rest =>
        block i msgs (sleep_of i n (length msgs)) ++ spec_blocks (S i) (block_len i n (length msgs)) rest
    end.

  Fixpoint spec_count (i n : nat) (msgss : list (list M)) : nat :=
    match msgss with
    | [] => n
    | msgs :: rest => spec_count (S i) (block_len i n (length msgs)) rest
    end.

  Definition inst_count (tr : list ev) : nat :=
    length (filter (fun e => match e with EInst _ => true | _ => false end) tr).

  (* every call of plan() comes immediately after a checkpoint of the same repetition, and every
     checkpoint is either the last event so far or immediately followed by that call *)
  Fixpoint paired (tr : list ev) : Prop :=
    match tr with
    | [] => True
    | ECheckpoint i :: rest =>
        match rest with
        | [] => True
        | EInst j :: rest' => i = j /\ paired rest'
        | _ => False
        end
    | EInst _ :: _ => False
    | _ :: rest => paired rest
    end.


  (* ---------------------------------------------------------------- how a run can end *)
  (* the first k delays exist and the first k iterations are within range(num) *)
  Definition supplied (k : nat) : Prop :=
    forall j, (j < k)%nat -> delay_at ds j <> None /\ in_range j = true.

  Definition partial_block (i : nat) (tl : list ev) : Prop :=
    tl = [] \/ tl = [ECheckpoint i] \/ exists msgs, tl = ECheckpoint i :: EInst i :: map (EMsg i) msgs.

  (* the for loop ran out of range(num), or next(delay) raised StopIteration in the last allowed
     iteration (i + 1 == num) or with num = None *)
  Definition returned_ok (msgss : list (list M)) : Prop :=
    (supplied (length msgss) /\ in_range (length msgss) = false) \/
    (exists k, length msgss = S k /\ supplied k /\ in_range k = true /\ delay_at ds k = None /\
               (num = None \/ num = Some (Z.of_nat (S k)))).

  (* the delays ran out right after repetition k+1 although num asks for more *)
  Definition valerr_ok (msgss : list (list M)) : Prop :=
    exists k z, length msgss = S k /\ supplied k /\ in_range k = true /\ delay_at ds k = None /\
                num = Some z /\ (Z.of_nat (S k) < z)%Z.

  Definition shape (tr : list ev) (f : final) : Prop :=
    match f with
    | FReturned => exists msgss, tr = spec_blocks 0 0 msgss /\ returned_ok msgss
    | FValueError =>
        (tr = [] /\ sized_too_short = true) \/
        (exists msgss, tr = spec_blocks 0 0 msgss /\ valerr_ok msgss)
    | FRunning _ | FRaised _ =>
        exists msgss tl, tr = spec_blocks 0 0 msgss ++ tl /\ partial_block (length msgss) tl /\
                         supplied (length msgss) /\ (tl <> [] -> in_range (length msgss) = true)
    end.


  (* the inner plan in state p returns after at most L further messages, whatever it is sent *)
  Fixpoint returns_within (L : nat) (p : P) : Prop :=
    match L with
    | O => forall v, match resume p (Send v) with Returned _ => True | _ => False end
    | S L' => forall v, match resume p (Send v) with
                        | Returned _ => True
                        | Yielded _ p' => returns_within L' p'
                        | Raised _ => False
                        end
    end.

  (* delays never run out before num repetitions are done *)
  Definition enough_delays : Prop :=
    forall z, num = Some z -> forall i, (Z.of_nat i + 1 < z)%Z -> delay_at ds i <> None.
End Repeat.

Arguments Send {V E}. Arguments Throw {V E}.
Arguments Yielded {M V E P}. Arguments Returned {M V E P}. Arguments Raised {M V E P}.
Arguments ECheckpoint {M}. Arguments EInst {M}. Arguments EMsg {M}. Arguments ESleep {M}.
Arguments RYield {M E P}. Arguments RReturn {M E P}. Arguments RValueError {M E P}. Arguments RRaise {M E P}.
Arguments PStart {P}. Arguments PCheck {P}. Arguments PInner {P}. Arguments PSleep {P}.
Arguments mkR {P}. Arguments ph {P}. Arguments nmsg {P}.
Arguments RCheckpoint {M}. Arguments RInner {M}. Arguments RSleep {M}.
Arguments FRunning {E P}. Arguments FReturned {E P}. Arguments FValueError {E P}. Arguments FRaised {E P}.

(* ---------------------------------------------------------------------------------------
   Concrete inner plans used by the correspondence (harness/props/C28.py runs the same scripts
   as Python generators): the k-th instantiation yields the messages (k, j, v) for j < s_len,
   v being the last value it was sent, then returns k or raises EUser e; a thrown exception is
   either swallowed at the yield (try/except around it) or propagates.                       *)
Record script := mkScript { s_len : nat; s_raise : option nat; s_swallow : bool }.
Definition splan : Type := (nat * nat * nat * script)%type.          (* k, next j, last sent, script *)
Definition smsg : Type := (nat * nat * nat)%type.

Definition s_advance (p : splan) (v : nat) : outcome smsg nat nat splan :=
  let '(k, j, _, sc) := p in
  if (j <? s_len sc)%nat then Yielded (k, j, v) (k, S j, v, sc)
  else match s_raise sc with Some e => Raised e | None => Returned k end.

Definition s_resume (p : splan) (x : input nat nat) : outcome smsg nat nat splan :=
  let '(_, _, _, sc) := p in
  match x with
  | Send v => s_advance p v
  | Throw e => if s_swallow sc then s_advance p 0%nat else Raised e
  end.

Definition s_mk (scripts : list script) (dflt : script) (k : nat) : splan :=
  (k, 0%nat, 0%nat, nth k scripts dflt).

Definition srun (scripts : list script) (dflt : script) (now : nat -> Q) (num : option Z) (ds : delays)
                (xs : list (input nat nat)) : list (ev smsg) * final nat splan :=
  run smsg nat nat splan 0%nat s_resume (s_mk scripts dflt) now num ds (init splan) xs.

Definition sev_beq (a b : ev smsg) : bool :=
  match a, b with
  | ECheckpoint i, ECheckpoint i' => Nat.eqb i i'
  | EInst i, EInst i' => Nat.eqb i i'
  | EMsg i (k, j, v), EMsg i' (k', j', v') => Nat.eqb i i' && Nat.eqb k k' && Nat.eqb j j' && Nat.eqb v v'
  | ESleep i d, ESleep i' d' => Nat.eqb i i' && Qeq_bool d d'
  | _, _ => false
  end.

Fixpoint sevs_beq (a b : list (ev smsg)) : bool :=
  match a, b with
  | [], [] => true
  | x :: a', y :: b' => sev_beq x y && sevs_beq a' b'
  | _, _ => false
  end.

(* how the run ended: 0 still running, 1 returned, 2 repeat's ValueError, 3+e raised EUser e *)
Definition final_code (f : final nat splan) : nat :=
  match f with FRunning _ => 0 | FReturned => 1 | FValueError => 2 | FRaised e => 3 + e end%nat.

Definition srun_beq (r : list (ev smsg) * final nat splan) (evs : list (ev smsg)) (code : nat) : bool :=
  sevs_beq (fst r) evs && Nat.eqb (final_code (snd r)) code.
