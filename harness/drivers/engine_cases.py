"""Case generation for the engine family (shared by C01..C14, C40 ...).

A case = {"plan"/"calls", "inject", "script", "devs", "faults", "status_mode", "record_interruptions"}.
Small-scope enumeration first (template plans x every run-step index x every request kind x
post-pause decisions), then seeded random plans/schedules; one rng drives every choice.
"""


def m(cmd, obj=None, args=None, kw=None, run=None):
    return ["m", cmd, obj, args or [], kw or {}, run]


def seq(*xs):
    return ["seq"] + list(xs)


# devices: 0 stageable, 1 plain, 2 pausable, 3 stageable
DEVS = [["stage"], [], ["pause"], ["stage"]]

BUNDLE = [m("create", None, [], {"name": "primary"}), m("read", 1), m("save")]


def t_simple():
    return seq(m("open_run"), m("checkpoint"), m("null"), m("null"), m("close_run"))


def t_bundle():
    return seq(m("open_run"), m("checkpoint"), *BUNDLE, m("checkpoint"), *BUNDLE, m("close_run"))


def t_stage_move():
    return seq(m("stage", 0), m("open_run"), m("checkpoint"), m("set", 1, [1], {"group": "g"}), m("wait", None, [], {"group": "g"}),
               m("trigger", 2, [], {"group": "t"}), m("wait", None, [], {"group": "t"}), *BUNDLE, m("close_run"), m("unstage", 0))


def t_noresume():
    return seq(m("open_run"), m("checkpoint"), m("null"), m("clear_checkpoint"), m("null"), m("null"), m("checkpoint"), m("null"), m("close_run"))


def t_finally():
    return ["tryfin", seq(m("open_run"), m("checkpoint"), m("null"), m("set", 1, [1], {"group": "g"}), m("null")),
            seq(m("null"), m("close_run"))]


def t_except():
    return seq(m("open_run"), ["tryexc", seq(m("checkpoint"), m("null"), m("null")), seq(m("null"))], m("null"), m("close_run"))


def t_sleep():
    return seq(m("open_run"), m("checkpoint"), m("sleep", None, [0.2]), m("null"), m("close_run"))


def t_two_runs():
    return seq(m("open_run"), m("checkpoint"), *BUNDLE, m("close_run"), m("null"), m("open_run"), m("checkpoint"), *BUNDLE, m("close_run"))


def t_keys():
    A, B = "a", "b"
    return seq(m("open_run", run=A), m("open_run", run=B), m("checkpoint"),
               m("create", None, [], {"name": "primary"}, run=A), m("read", 1, run=A), m("save", run=A),
               m("create", None, [], {"name": "primary"}, run=B), m("read", 2, run=B), m("save", run=B),
               m("close_run", run=A), m("null"), m("close_run", run=B))


def t_norun():
    return seq(m("checkpoint"), m("null"), m("null"), m("null"))


def t_rewindable():
    return seq(m("open_run"), m("checkpoint"), m("null"), m("rewindable", None, [False]), m("null"), m("null"),
               m("rewindable", None, [True]), m("null"), m("close_run"))


def t_pausemsg():
    return seq(m("open_run"), m("checkpoint"), m("null"), m("pause"), m("null"), m("close_run"))


def t_defer():
    return seq(m("open_run"), m("null"), m("checkpoint"), m("null"), m("null"), m("checkpoint"), m("null"), m("close_run"))


def t_leftopen():
    return seq(m("stage", 0), m("open_run"), m("checkpoint"), m("set", 1, [1], {"group": None}), *BUNDLE, m("null"))


def t_raise():
    return seq(m("open_run"), m("checkpoint"), m("null"), ["raise", "EUser1"])


def t_unknown():
    return seq(m("open_run"), m("checkpoint"), m("unknown_cmd"), m("null"), m("close_run"))


TEMPLATES = [t_simple, t_bundle, t_stage_move, t_noresume, t_finally, t_except, t_sleep, t_two_runs, t_keys,
             t_norun, t_rewindable, t_pausemsg, t_defer, t_leftopen, t_raise, t_unknown]

REQS = ["pause", "defer", "suspend", "abort", "stop", "halt"]
SCRIPTS = [["resume"], ["abort"], ["stop"], ["halt"], ["resume", "resume"], ["resume", "abort"]]


def count_msgs(spec):
    if spec[0] == "m":
        return 1
    if spec[0] in ("seq",):
        return sum(count_msgs(s) for s in spec[1:])
    if spec[0] in ("tryfin", "tryexc"):
        return count_msgs(spec[1]) + count_msgs(spec[2])
    return 0


def base(plan, **kw):
    c = {"plan": plan, "devs": DEVS, "inject": [], "script": []}
    c.update(kw)
    return c


def enumerate_cases(tier):
    out = []
    templates = TEMPLATES
    for ti, t in enumerate(templates):
        plan = t()
        n = count_msgs(plan) + 4
        out.append(base(plan, tag="t%d plain" % ti))
        for at in range(1, n + 1):
            for r in REQS:
                if r == "suspend":
                    out.append(base(plan, inject=[{"at": at, "req": "suspend"}, {"at": at + 3, "req": "release", "sid": 0}],
                                    tag="t%d suspend@%d" % (ti, at)))
                elif r in ("pause", "defer"):
                    scripts = SCRIPTS if (tier == "thorough" or at % 3 == 1) else SCRIPTS[:2]
                    for sc in scripts:
                        out.append(base(plan, inject=[{"at": at, "req": r}], script=sc, tag="t%d %s@%d %s" % (ti, r, at, "+".join(sc))))
                else:
                    out.append(base(plan, inject=[{"at": at, "req": r}], tag="t%d %s@%d" % (ti, r, at)))
    # two requests (a window of steps), on a few templates
    for ti in (0, 1, 3, 4):
        plan = templates[ti]()
        n = count_msgs(plan) + 3
        step = 1 if tier == "thorough" else 2
        for a in range(1, n + 1, step):
            for b in range(a, min(a + 3, n + 1)):
                for r1 in REQS:
                    for r2 in REQS:
                        inj = []
                        for k, (at, r) in enumerate(((a, r1), (b, r2))):
                            if r == "suspend":
                                inj.append({"at": at, "req": "suspend"})
                                inj.append({"at": at + 4 + k, "req": "release", "sid": sum(1 for x in inj if x["req"] == "suspend") - 1})
                            else:
                                inj.append({"at": at, "req": r})
                        out.append(base(plan, inject=inj, script=["resume"], tag="t%d %s@%d+%s@%d" % (ti, r1, a, r2, b)))
    # suspension with pre/post plans and interruption recording
    for ti in (0, 1, 2):
        plan = templates[ti]()
        n = count_msgs(plan) + 3
        for at in range(1, n + 1):
            out.append(base(plan, inject=[{"at": at, "req": "suspend", "pre": seq(m("null"), m("null")), "post": seq(m("null")), "just": "why"},
                                          {"at": at + 6, "req": "release", "sid": 0}],
                            record_interruptions=True, tag="t%d suspend-prepost@%d" % (ti, at)))
            out.append(base(plan, inject=[{"at": at, "req": "pause"}], script=["resume"], record_interruptions=True,
                            tag="t%d pause-rec@%d" % (ti, at)))
    # device faults at every device call of the device templates
    for ti in (2, 4, 13):
        plan = templates[ti]()
        for dev, meth in ((0, "stage"), (1, "set"), (2, "trigger"), (1, "read"), (0, "unstage"), (1, "stop")):
            out.append(base(plan, faults=[[dev, meth, 0, "EDev"]], tag="t%d fault %d.%s" % (ti, dev, meth)))
    # histories of two calls on one engine: what call 1 leaves behind (a cleared checkpoint, an abort, a failure,
    # a pending deferred pause, statuses) must not leak into call 2
    firsts = [seq(m("open_run"), m("checkpoint"), m("null"), m("clear_checkpoint"), m("null"), m("close_run")),
              seq(m("open_run"), m("checkpoint"), m("null"), ["raise", "EUser1"]),
              seq(m("open_run"), m("checkpoint"), m("pause", None, [], {"defer": True}), m("null"), m("close_run")),
              seq(m("stage", 0), m("open_run"), m("checkpoint"), m("set", 1, [1], {"group": "g"}), m("null"))]
    second = seq(m("open_run"), m("null"), m("null"), m("checkpoint"), m("null"), m("close_run"))
    for fi, first in enumerate(firsts):
        n1 = count_msgs(first) + 3
        out.append({"calls": [first, second], "devs": DEVS, "inject": [], "script": [], "tag": "c2.%d plain" % fi})
        for at in range(n1, n1 + count_msgs(second) + 4):
            for r in ("pause", "suspend", "defer", "abort"):
                inj = [{"at": at, "req": r}] + ([{"at": at + 3, "req": "release", "sid": 0}] if r == "suspend" else [])
                out.append({"calls": [first, second], "devs": DEVS, "inject": inj, "script": ["resume"],
                            "tag": "c2.%d %s@%d" % (fi, r, at)})
    # statuses finished by hand, successfully or not
    for ti in (2, 4):
        plan = templates[ti]()
        for ok in (True, False):
            for at in range(3, 9):
                out.append(base(plan, status_mode="manual",
                                inject=[{"at": at, "req": "status", "sid": 0, "ok": ok}, {"at": at + 2, "req": "status", "sid": 1, "ok": True}],
                                tag="t%d status %s@%d" % (ti, ok, at)))
    return out


CMDS = ["null", "null", "checkpoint", "checkpoint", "sleep", "bundle", "bundle", "set", "trigger", "wait", "stage", "unstage",
        "clear_checkpoint", "rewindable_off", "rewindable_on", "pause", "defer", "unknown", "drop_bundle", "close_open"]


def random_plan(rng, size):
    body = [m("open_run"), m("checkpoint")]
    for _ in range(size):
        c = rng.choice(CMDS)
        if c == "bundle":
            body += [m("create", None, [], {"name": rng.choice(["primary", "primary", "other"])}), m("read", rng.choice([1, 2])), m("save")]
        elif c == "drop_bundle":
            body += [m("create", None, [], {"name": "primary"}), m("read", 1), m("drop")]
        elif c == "sleep":
            body.append(m("sleep", None, [0.1]))
        elif c == "set":
            body.append(m("set", rng.choice([1, 2]), [1], {"group": rng.choice(["g", "h"])}))
        elif c == "trigger":
            body.append(m("trigger", rng.choice([1, 2]), [], {"group": rng.choice(["g", "h"])}))
        elif c == "wait":
            body.append(m("wait", None, [], {"group": rng.choice(["g", "h"])}))
        elif c in ("stage", "unstage"):
            body.append(m(c, rng.choice([0, 3, 1])))
        elif c == "rewindable_off":
            body.append(m("rewindable", None, [False]))
        elif c == "rewindable_on":
            body.append(m("rewindable", None, [True]))
        elif c == "pause":
            body.append(m("pause"))
        elif c == "defer":
            # both argument forms of the message: Msg('pause', defer=True) and the positional Msg('pause', None, True)
            body.append(m("pause", None, [], {"defer": True}) if len(body) % 2 else m("pause", None, [True], {}))
        elif c == "unknown":
            body.append(m("unknown_cmd"))
        elif c == "close_open":
            body += [m("close_run"), m("open_run")]
        else:
            body.append(m(c))
    if rng.random() < 0.8:
        body.append(m("close_run"))
    plan = seq(*body)
    r = rng.random()
    if r < 0.25:
        k = rng.randint(2, len(body))
        plan = ["tryfin", seq(*body[:k]), seq(m("null"), *body[k:])] if body[k:] else ["tryfin", seq(*body), seq(m("null"))]
    elif r < 0.4:
        k = rng.randint(2, len(body))
        plan = seq(["tryexc", seq(*body[:k]), seq(m("null"))], *body[k:])
    elif r < 0.5:
        k = rng.randint(2, len(body))
        plan = seq(*(body[:k] + [["raise", rng.choice(["EUser1", "EUser2"])]]))
    return plan


def random_case(rng):
    size = rng.choice([2, 4, 6, 8, 12])
    plan = random_plan(rng, size)
    n = count_msgs(plan) + 4
    inj = []
    nsusp = 0
    for _ in range(rng.choice([0, 1, 1, 2, 2, 3])):
        at = rng.randint(1, n + 4)
        r = rng.choice(REQS)
        if r == "suspend":
            e = {"at": at, "req": "suspend"}
            if rng.random() < 0.3:
                e["pre"] = seq(m("null"))
            if rng.random() < 0.3:
                e["post"] = seq(m("null"), m("null"))
            inj.append(e)
            inj.append({"at": at + rng.randint(1, 6), "req": "release", "sid": nsusp})
            nsusp += 1
        else:
            inj.append({"at": at, "req": r})
    c = base(plan, inject=inj, script=[rng.choice(["resume", "resume", "resume", "abort", "stop", "halt"]) for _ in range(rng.randint(0, 3))],
             record_interruptions=rng.random() < 0.3, tag="random")
    if rng.random() < 0.2:
        c["faults"] = [[rng.choice([0, 1, 2, 3]), rng.choice(["read", "set", "trigger", "stage", "unstage", "stop"]), rng.choice([0, 1]), "EDev"]]
    if rng.random() < 0.25:
        c["status_mode"] = "manual"
        for sid in range(3):
            inj.append({"at": rng.randint(2, n + 2), "req": "status", "sid": sid, "ok": rng.random() < 0.7})
    return c


def gen(rng, tier):
    cases = enumerate_cases(tier)
    nrand = 600 if tier == "quick" else 12000
    cases += [random_case(rng) for _ in range(nrand)]
    return cases
