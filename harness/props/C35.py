"""C35 - document normalization never alters its inputs and loses nothing; the conditional
backup hands every document to the backups exactly once, in order, once the primary failed.

Three kinds of cases:
  norm    a document stream through the real RunNormalizer (recording subscriber that snapshots
          every emitted document and may raise at chosen emission indices)
  backup  the real _ConditionalBackup around scripted primary/backup doubles
  chain   _ConditionalBackup(RunNormalizer + failing subscriber, [recorders]): the primary is the
          real normalizer, failing at each index; the backups must receive the caller's
          documents unaltered
  writer  the real TiledWriter(client double raising at its k-th call, backup_directory=tmp, batch_size=b):
          the JSON-lines backup must hold the run, each document once, in order, as the caller sent it
          (end-to-end; oracle only, not sent to Coq)
"""
import copy
import itertools
import json
import os

ID = "C35"
PROP_FILE = "Props/C35.v"
THEOREMS = ["C35_a_inputs_never_modified", "C35_a_inputs_read_back_unchanged", "C35_b_reachable_states",
            "C35_b_event_internal_values_kept", "C35_b_event_handler", "C35_b_external_reference",
            "C35_b_cached_reference_at_stop", "C35_b_stop_handler", "C35_b_full", "C35_b_ranges_ignore_arrival_order",
            "C35_c_backup_exactly_once_in_order",
            "C35_c_default_buffer_covers_the_run"]
_COQ_BASE = "From BV Require Import Pure.Normalizer Pure.NormalizerSpec.\nFrom BVgen Require TiledTables.\nFrom Coq Require Import String ZArith List.\nOpen Scope string_scope."
COQ_IMPORTS = _COQ_BASE      # coq_term appends the table of interned string literals (see cstr)
MODELLED = ("RunNormalizer's handlers and _ConditionalBackup are transcribed by hand (Pure/Normalizer.v): Python dicts/lists "
            "as objects in a store with identity, copy.copy = new top-level object sharing children, copy.deepcopy = private "
            "tree. Trusted/unmodelled: event_model.schema_validators (re-run by the oracle on every emitted document), "
            "user `patches` (none installed), pathlib normalisation beyond clean path segments, the Dispatcher.")
RULE = ("norm: small-scope product of {resource+datum, resource+datum_page, current stream_resource+stream_datum, legacy-form "
        "stream_resource} x spec {hdf5, tiff, unknown} x hdf5 parameter {path, dataset, both, none} x frames {none, per event, "
        "multi, reset} x every early/late arrival pattern of the datums of 1..3 events x event|event_page x reserved key names, "
        "then seeded random streams (two streams, several external keys, filled flags), then a malformed stream (dropped "
        "required keys, missing datum, rename collision, unknown document name, subscriber raising at each emission index); "
        "backup: all raise patterns of primary for <=5 documents x maxlen {0,1,2,3,big} x 1..2 backups (+ random longer); "
        "chain: the real normalizer as primary failing at each emission index; writer: the real TiledWriter with a JSONL "
        "backup directory on a recording client double failing at each of its first calls x batch sizes; longrun: a DEFAULT-"
        "constructed _ConditionalBackup and the chain TiledWriter builds itself (default batch size and buffer) on runs of "
        "12 002 / 25 000 tiny documents with the primary failing after more than BATCH_SIZE documents and at stop (the default "
        "maxlen is re-read from the source: coq/gen/TiledTables.v, and compared with the introspected signature). Non-trivial = at least one external reference "
        "converted, or a primary failure with a non-empty buffer.")
# development knob: VERIF_C35_MODE=Shallow compares against the model of the code before the repair C35-a
MODE = os.environ.get("VERIF_C35_MODE", "Deep")
PARALLEL = False     # per-case cost is a few ms; importing tiled once (~15 s) dominates



def _smaller_shards():
    """The cases of this property are large literals (whole document streams) and coqc spends its time
    reading them, not evaluating: use shards of 64 cases instead of 300 so that all cores are used.
    Only the shard size of this property's own cases files is changed."""
    from harness import core
    if getattr(core.eval_cases_in_coq, "_c35_tuned", False):
        return
    orig = core.eval_cases_in_coq

    def tuned(tag, imports, terms, shard=300, timeout=600):
        return orig(tag, imports, terms, shard=64 if tag.startswith(ID) else shard, timeout=timeout)

    tuned._c35_tuned = True
    core.eval_cases_in_coq = tuned


_smaller_shards()

# ----------------------------------------------------------------------------- generation

HDF5_SPEC, TIFF_SPEC, UNK_SPEC = "AD_HDF5_SWMR_STREAM", "AD_TIFF", "MY_OWN_SPEC"
MIME = {HDF5_SPEC: "application/x-hdf5", TIFF_SPEC: "multipart/related;type=image/tiff", UNK_SPEC: "application/octet-stream"}


def hparams(kind):
    d = {"frame_per_point": 1}
    if kind in ("path", "both"):
        d["path"] = "/entry/data/data"
    if kind in ("dataset", "both"):
        d["dataset"] = "/entry/other"
    return d


def descriptor(uid, name, ext_keys, reserved, extra_int=(), run="run-1"):
    dk = {"x": {"dtype": "number", "shape": [], "source": "PV:x"}}
    for k in extra_int:
        dk[k] = {"dtype": "integer", "shape": [], "source": "PV:" + k, "dtype_numpy": "<i8"}
    if reserved:
        dk["time"] = {"dtype": "number", "shape": [], "source": "PV:t", "dtype_str": "<f4"}
        dk["seq_num"] = {"dtype": "array", "shape": [2], "source": "PV:s", "dtype_descr": [["a", "<i4"], ["b", "<f8"]]}
    for k in ext_keys:
        dk[k] = {"dtype": "array", "shape": [2, 3], "source": "PV:" + k, "external": "FILESTORE:"}
    return {"uid": uid, "run_start": run, "time": 2.25, "name": name, "data_keys": dk,
            "object_keys": {"det": list(dk.keys())},
            "configuration": {"det": {"data": {"c": 1}, "timestamps": {"c": 0.5},
                                      "data_keys": {"c": {"dtype": "string", "shape": [], "source": "PV:c"}}}},
            "hints": {"det": {"fields": ["x"]}}}


def event(uid, desc, seq, ext, reserved, filled_true=(), extra_int=()):
    data = {"x": seq * 1.5}
    for k in extra_int:
        data[k] = seq * 7
    if reserved:
        data["time"] = 0.125 * seq
        data["seq_num"] = [seq, 2.5]
    for k, v in ext.items():
        data[k] = v
    ts = {k: 10.0 + seq for k in data}
    filled = {k: (k in filled_true) for k in ext}
    if reserved and seq % 2:
        filled.update({"time": True, "seq_num": True})      # reserved names in the nested `filled` dict too
    return {"uid": uid, "descriptor": desc, "time": 3.0 + seq, "seq_num": seq, "data": data, "timestamps": ts, "filled": filled}


def pack_events(evs):
    keys = list(evs[0]["data"].keys())
    return {"descriptor": evs[0]["descriptor"], "uid": [e["uid"] for e in evs], "time": [e["time"] for e in evs],
            "seq_num": [e["seq_num"] for e in evs],
            "data": {k: [e["data"][k] for e in evs] for k in keys},
            "timestamps": {k: [e["timestamps"][k] for e in evs] for k in keys},
            "filled": {k: [e["filled"].get(k, True) for e in evs] for k in evs[0]["filled"]}}


START = {"uid": "run-1", "time": 1.5, "scan_id": 3, "md": {"a": [1, {"b": 2.25}], "s": "t"}}
STOP = {"uid": "stop-1", "run_start": "run-1", "time": 9.5, "exit_status": "success", "reason": "", "num_events": {"primary": 2}}


def frames_for(kind, n):
    if kind == "none":
        return [None] * n
    if kind == "seq":
        return list(range(n))
    if kind == "multi":
        return [2 * i + 1 for i in range(n)]
    if kind == "reset":          # second resource restarts at 0
        return [i % 2 for i in range(n)]
    raise ValueError(kind)


def legacy_run(form, spec, hp, frames, order, page, reserved, two_keys=False):
    """order: tuple of 'e' (datum before its event) / 'l' (datum after all events)."""
    n = len(order)
    keys = ["img", "img2"] if two_keys else ["img"]
    docs = [["start", copy.deepcopy(START)], ["descriptor", descriptor("d-1", "primary", keys, reserved)]]
    res = {"uid": "res-1", "spec": spec, "root": "/data/raw", "resource_path": "sub/f.h5", "resource_kwargs": hparams(hp),
           "path_semantics": "posix", "run_start": "run-1"}
    docs.append(["resource", res])
    fr = frames_for(frames, n)

    def datum(i, key):
        kw = {"point_number": i}
        if fr[i] is not None:
            kw["frame"] = fr[i]
        return {"datum_id": "res-1/%s%d" % (key, i), "resource": "res-1", "datum_kwargs": kw}

    def datum_docs(idx):
        ds = [datum(i, k) for i in idx for k in keys]
        if not ds:
            return []
        if form == "res_page":
            kwkeys = list(ds[0]["datum_kwargs"].keys())
            if all(list(d["datum_kwargs"].keys()) == kwkeys for d in ds):
                return [["datum_page", {"resource": "res-1", "datum_id": [d["datum_id"] for d in ds],
                                        "datum_kwargs": {k: [d["datum_kwargs"][k] for d in ds] for k in kwkeys}}]]
        return [["datum", d] for d in ds]

    evs = []
    late = [i for i in range(n) if order[i] == "l"]
    for i in range(n):
        ev = event("ev-%d" % (i + 1), "d-1", i + 1, {k: "res-1/%s%d" % (k, i) for k in keys}, reserved)
        if order[i] == "e":
            if page and evs:
                docs.append(["event_page", pack_events(evs)])
                evs = []
            docs += datum_docs([i])
        if page:
            evs.append(ev)
        else:
            docs.append(["event", ev])
    if evs:
        docs.append(["event_page", pack_events(evs)])
    docs += datum_docs(late)
    docs.append(["stop", copy.deepcopy(STOP)])
    return docs


def current_run(form, spec, hp, n, reserved, page):
    docs = [["start", copy.deepcopy(START)]]
    d = descriptor("d-1", "primary", [], reserved)
    d["data_keys"]["img"] = {"dtype": "array", "shape": [2, 3], "source": "PV:img", "external": "STREAM:"}
    d["object_keys"]["det"].append("img")
    docs.append(["descriptor", d])
    if form == "sres_cur":
        sres = {"uid": "sr-1", "data_key": "img", "mimetype": MIME[spec], "uri": "file://localhost/data/raw/f.h5",
                "parameters": dict(hparams(hp), chunk_shape=[1, 2]), "run_start": "run-1"}
    else:
        sres = {"uid": "sr-1", "data_key": "img", "spec": spec, "root": "/data/raw/", "resource_path": "/sub/f.h5",
                "resource_kwargs": hparams(hp), "run_start": "run-1"}
    docs.append(["stream_resource", sres])
    evs = []
    for i in range(n):
        docs.append(["stream_datum", {"uid": "sr-1/%d" % i, "stream_resource": "sr-1", "descriptor": "d-1",
                                      "indices": {"start": i, "stop": i + 1}, "seq_nums": {"start": i + 1, "stop": i + 2}}])
        ev = event("ev-%d" % (i + 1), "d-1", i + 1, {}, reserved)
        if page:
            evs.append(ev)
        else:
            docs.append(["event", ev])
    if evs:
        docs.append(["event_page", pack_events(evs)])
    docs.append(["stop", copy.deepcopy(STOP)])
    return docs


def random_run(rng):
    """Two streams, several resources and external keys, random arrival order of datums."""
    docs = [["start", copy.deepcopy(START)]]
    nres = rng.randint(1, 2)
    streams = [("d-1", "primary", ["img"] + (["img2"] if rng.random() < 0.4 else []))]
    if rng.random() < 0.5:
        streams.append(("d-2", "baseline", ["cam"] if rng.random() < 0.7 else []))
    reserved = rng.random() < 0.3
    for uid, name, ext in streams:
        docs.append(["descriptor", descriptor(uid, name, ext, reserved and name == "primary",
                                              extra_int=["n_" + name] if rng.random() < 0.5 else [])])
    specs = [rng.choice([HDF5_SPEC, TIFF_SPEC, UNK_SPEC, "XSP3", "NPY_SEQ"]) for _ in range(nres)]
    for r in range(nres):
        docs.append(["resource", {"uid": "res-%d" % r, "spec": specs[r], "root": rng.choice(["/data/raw", "data/", "/", ""]),
                                  "resource_path": rng.choice(["sub/f.h5", "/f.h5", "f.h5/"]),
                                  "resource_kwargs": hparams(rng.choice(["path", "dataset", "both", "none"])),
                                  "path_semantics": "posix", "run_start": "run-1"}])
    use_frames = rng.random() < 0.5
    pending = []        # datum docs not yet emitted
    body = []
    counters = {uid: 0 for uid, _, _ in streams}
    nev = rng.randint(1, 5)
    for j in range(nev):
        uid, name, ext = rng.choice(streams)
        counters[uid] += 1
        seq = counters[uid]
        refs = {}
        filled_true = []
        for k in ext:
            did = "%s/%s/%d" % (uid, k, seq)
            if rng.random() < 0.12:
                filled_true.append(k)
                refs[k] = [[1, 2, 3], [4, 5, 6]]            # already filled: the value is the data
                continue
            refs[k] = did
            kw = {"point_number": seq}
            if use_frames and rng.random() < 0.85:
                kw["frame"] = seq - 1 if rng.random() < 0.8 else rng.randint(0, 6)
            dd = {"datum_id": did, "resource": "res-%d" % rng.randrange(nres), "datum_kwargs": kw}
            if rng.random() < 0.1:
                del dd["datum_kwargs"]
            if rng.random() < 0.7:
                body.append(["datum", dd])
            else:
                pending.append(["datum", dd])
        desc = [d for n_, d in docs if n_ == "descriptor" and d["uid"] == uid][0]
        extra = [k for k in desc["data_keys"] if k.startswith("n_")]
        body.append(["event", event("ev-%s-%d" % (uid, seq), uid, seq, refs, reserved and name == "primary",
                                    filled_true=filled_true, extra_int=extra)])
        if pending and rng.random() < 0.3:
            body.append(pending.pop(0))
    docs += body + pending
    docs.append(["stop", copy.deepcopy(STOP)])
    return docs


def malformed(rng, base):
    """One defect injected into a valid stream."""
    docs = copy.deepcopy(base)
    kind = rng.choice(["dropkey", "dropkey", "dropkey", "nodatum", "collision", "unknown_name", "no_desc", "dup_event"])
    if kind == "dropkey":
        i = rng.randrange(len(docs))
        name, d = docs[i]
        cands = [k for k in d if k not in ("hints",)]
        if cands:
            del d[rng.choice(cands)]
    elif kind == "nodatum":
        idx = [i for i, (n, _) in enumerate(docs) if n in ("datum", "datum_page")]
        if idx:
            del docs[rng.choice(idx)]
    elif kind == "collision":
        for n, d in docs:
            if n == "descriptor" and "time" in d["data_keys"]:
                d["data_keys"]["_time"] = {"dtype": "number", "shape": [], "source": "PV:u"}
    elif kind == "unknown_name":
        docs.insert(rng.randrange(1, len(docs)), ["bulk_stuff", {"uid": "zz"}])
    elif kind == "no_desc":
        docs = [x for x in docs if x[0] != "descriptor"]
    elif kind == "dup_event":
        idx = [i for i, (n, _) in enumerate(docs) if n == "event"]
        if idx:
            i = rng.choice(idx)
            docs.insert(i + 1, copy.deepcopy(docs[i]))
    return docs


def cases(rng, tier):
    out = []
    quick = tier == "quick"
    # --- norm: small-scope product
    forms = ["res_datum", "res_page"]
    specs = [HDF5_SPEC, TIFF_SPEC, UNK_SPEC]
    hps = ["path", "dataset", "both", "none"]
    frs = ["none", "seq", "multi", "reset"]
    orders = [o for n in (1, 2, 3) for o in itertools.product("el", repeat=n)]
    combos = []
    for form, spec, hp, fr, order, page, reserved in itertools.product(forms, specs, hps, frs, orders, (False, True), (False, True)):
        combos.append((form, spec, hp, fr, order, page, reserved))
    if quick:
        # every value of every factor, every pair (spec,hp), (fr,order), (form,order,page): a covering sample
        keep = []
        seen = set()
        rng2 = __import__("random").Random(35)
        rng2.shuffle(combos)
        for c in combos:
            form, spec, hp, fr, order, page, reserved = c
            tags = {("sh", spec, hp), ("fo", fr, order), ("fop", form, order, page), ("rs", reserved, spec, fr)}
            if not tags <= seen:
                seen |= tags
                keep.append(c)
        combos = sorted(keep, key=repr)
    for form, spec, hp, fr, order, page, reserved in combos:
        out.append({"kind": "norm", "tag": "legacy/%s/%s/%s/%s" % (form, fr, "".join(order), "page" if page else "ev"),
                    "docs": legacy_run(form, spec, hp, fr, order, page, reserved), "fail_emit": []})
    for spec, hp, fr in itertools.product(specs, hps, ["none", "seq"]):
        out.append({"kind": "norm", "tag": "legacy/two_keys", "docs": legacy_run("res_datum", spec, hp, fr, ("e", "l"), False, False, True),
                    "fail_emit": []})
    for form, spec, hp, n, reserved, page in itertools.product(["sres_cur", "sres_legacy"], specs, hps, (1, 2), (False, True), (False, True)):
        if quick and (n == 1 or (reserved != page)):
            continue
        out.append({"kind": "norm", "tag": "current/%s" % form, "docs": current_run(form, spec, hp, n, reserved, page), "fail_emit": []})
    # --- norm: the literal tables of the source, entry by entry (the model holds its own copy of them)
    from bluesky.callbacks import tiled_writer as tw
    for spec in sorted(tw.MIMETYPE_LOOKUP.keys()) + ["NOT_IN_THE_TABLE"]:
        out.append({"kind": "norm", "tag": "table/spec", "docs": legacy_run("res_datum", spec, "path", "none", ("e",), False, False),
                    "fail_emit": []})
    for dt in sorted(tw.JSON_TO_NUMPY_DTYPE.keys()):
        docs = legacy_run("res_datum", TIFF_SPEC, "none", "none", ("e",), False, False)
        docs[1][1]["data_keys"]["x"]["dtype"] = dt
        docs[1][1]["configuration"]["det"]["data_keys"]["c"]["dtype"] = dt
        out.append({"kind": "norm", "tag": "table/dtype", "docs": docs, "fail_emit": []})
    for rk in list(tw.RESERVED_DATA_KEYS) + ["uid", "descriptor", "data"]:
        docs = legacy_run("res_datum", TIFF_SPEC, "none", "none", ("e", "e"), False, False)
        docs[1][1]["data_keys"][rk] = {"dtype": "number", "shape": [], "source": "PV:r"}
        docs[1][1]["object_keys"]["det"].append(rk)
        for n, d in docs:
            if n == "event":
                d["data"][rk] = 0.5
                d["timestamps"][rk] = 11.5
        out.append({"kind": "norm", "tag": "table/reserved", "docs": docs, "fail_emit": []})
    # --- norm: random streams
    nrand = 100 if quick else 2500
    for _ in range(nrand):
        out.append({"kind": "norm", "tag": "random", "docs": random_run(rng), "fail_emit": []})
    # --- norm: malformed stream and failing subscriber
    nmal = 100 if quick else 1500
    for _ in range(nmal):
        base = random_run(rng) if rng.random() < 0.6 else legacy_run(rng.choice(forms), rng.choice(specs), rng.choice(hps),
                                                                     rng.choice(frs), rng.choice(orders), rng.random() < 0.3, rng.random() < 0.3)
        out.append({"kind": "norm", "tag": "malformed", "docs": malformed(rng, base), "fail_emit": []})
    base = legacy_run("res_datum", HDF5_SPEC, "path", "seq", ("e", "l"), False, False)
    for j in range(9):
        out.append({"kind": "norm", "tag": "subscriber_raises", "docs": copy.deepcopy(base), "fail_emit": [j]})
    for _ in range(20 if quick else 300):
        docs = random_run(rng)
        out.append({"kind": "norm", "tag": "subscriber_raises", "docs": docs,
                    "fail_emit": sorted(set(rng.randrange(0, 2 * len(docs)) for _ in range(rng.randint(1, 2))))})
    # --- backup: exhaustive small scope
    big = 1000000
    for n in range(0, 6 if quick else 8):
        for raises in itertools.product([False, True], repeat=n):
            for maxlen in ([0, 1, 2, 3, big] if n <= 4 or not quick else [2, big]):
                for nb in (1, 2):
                    if quick and nb == 2 and n > 3:
                        continue
                    out.append({"kind": "backup", "n": n, "raises": list(raises), "maxlen": maxlen, "nb": nb,
                                "bfail": []})
    for _ in range(40 if quick else 600):
        n = rng.randint(3, 30)
        first = rng.randrange(n)
        raises = [(i == first) or (i > first and rng.random() < 0.2) for i in range(n)]
        nb = rng.randint(1, 3)
        out.append({"kind": "backup", "n": n, "raises": raises, "maxlen": rng.choice([big, big, n, max(1, first), first + 1, 2]),
                    "nb": nb, "bfail": sorted(set((rng.randrange(nb), rng.randrange(n)) for _ in range(rng.randint(0, 3))))})
    # --- chain: the real normalizer as the failing primary
    chain_bases = [legacy_run("res_datum", HDF5_SPEC, "path", "seq", ("e", "l"), False, False),
                   legacy_run("res_page", TIFF_SPEC, "none", "none", ("e", "e"), True, True),
                   current_run("sres_cur", HDF5_SPEC, "path", 2, False, False)]
    for b in chain_bases:
        for j in range(0, 10):
            out.append({"kind": "chain", "docs": copy.deepcopy(b), "fail_emit": [j], "nb": 2})
    for _ in range(15 if quick else 300):
        docs = random_run(rng)
        out.append({"kind": "chain", "docs": docs, "fail_emit": [rng.randrange(0, len(docs) + 3)], "nb": rng.randint(1, 2)})
    # --- long runs on a DEFAULT-constructed _ConditionalBackup (no maxlen argument) and on the callback chain that
    #     TiledWriter builds itself: the primary first fails after more documents than one batch (BATCH_SIZE rows)
    #     / at the stop document of a 25 000-document run.  Tiny documents; the model is run in Coq on the same
    #     lengths with generated inputs (seq / repeat), not on a literal.
    for n, f in ((25000, 12000), (25000, 24999)) + (() if quick else ((25000, 0), (25000, 20001), (12002, 10001))):
        out.append({"kind": "longrun", "via": "direct", "n": n, "fail": f, "nb": 1 if f != 12000 else 2})
    for n, calls in ((12002, [3]), (25000, list(range(5, 40)))) + (() if quick else ((25000, [3]), (25000, [4]))):
        out.append({"kind": "longrun", "via": "tiledwriter", "n": n, "fail_calls": calls})
    # --- writer: the real TiledWriter (RunRouter + RunNormalizer + _RunWriter) on a recording client double that
    #     raises at its k-th call, with a JSON-lines backup directory (end-to-end; oracle only)
    try:
        import harness.drivers.tiled_double  # noqa: F401
        have_double = True
    except ImportError:
        have_double = False
    if have_double:
        wbases = [legacy_run("res_datum", HDF5_SPEC, "path", "seq", ("e", "e"), False, False),
                  legacy_run("res_page", HDF5_SPEC, "dataset", "none", ("e", "e"), True, True),
                  current_run("sres_cur", HDF5_SPEC, "path", 2, False, False)]
        for b in wbases:
            for k in ([None] + list(range(0, 8 if quick else 14))):
                for bs in ((1, 3) if quick else (0, 1, 2, 3, 10000)):
                    out.append({"kind": "writer", "docs": copy.deepcopy(b), "fail_at": [] if k is None else [k], "batch": bs})
        for _ in range(10 if quick else 300):
            # RunRouter itself (event_model) refuses an Event that arrives before its Datum: datums first here
            docs = datums_first(random_run(rng))
            for n, d in docs:
                if n == "datum":
                    d.setdefault("datum_kwargs", {})      # event_model.pack_datum_page needs it
            out.append({"kind": "writer", "docs": docs, "fail_at": [rng.randrange(0, 12)], "batch": rng.choice([0, 1, 2, 5, 10000])})
    return out


# ----------------------------------------------------------------------------- implementation side

def tag(x):
    """JSON-able exact image of a Python value (floats as hex text)."""
    if isinstance(x, bool) or x is None or isinstance(x, (int, str)):
        return x
    if isinstance(x, float):
        return {"$f": x.hex()}
    if isinstance(x, dict):
        return {str(k): tag(v) for k, v in x.items()}
    if isinstance(x, (list, tuple)):
        return [tag(v) for v in x]
    return {"$repr": type(x).__name__}


ERRS = {"KeyError": "KeyError", "ValueError": "ValueError", "RuntimeError": "RuntimeError", "TypeError": "TypeError",
        "AttributeError": "AttributeError", "ConsumerError": "ConsumerError"}


class ConsumerError(Exception):
    pass


def classify(e):
    n = type(e).__name__
    if n == "ValidationError":
        return "ValidationError"
    return ERRS.get(n, "Other:" + n)


def run_normalizer(docs, fail_emit):
    from bluesky.callbacks.tiled_writer import RunNormalizer
    nz = RunNormalizer()
    out = []

    def sub(name, doc):
        out.append([name, tag(doc)])
        if len(out) - 1 in fail_emit:
            raise ConsumerError("subscriber")

    nz.subscribe(sub)
    errs = []
    for i, (name, doc) in enumerate(docs):
        try:
            nz(name, doc)
        except Exception as e:  # noqa: BLE001 - every exception class is part of the observation
            errs.append([i, classify(e)])
    return nz, out, errs


def impl(case):
    import warnings
    import logging
    logging.disable(logging.CRITICAL)
    warnings.simplefilter("ignore")
    kind = case["kind"]
    if kind == "norm":
        docs = [(n, copy.deepcopy(d)) for n, d in case["docs"]]
        before = [tag(d) for _, d in docs]
        nz, out, errs = run_normalizer(docs, set(case["fail_emit"]))
        canon = None
        if not errs and not case["fail_emit"]:
            _, cout, cerr = run_normalizer([(n, copy.deepcopy(d)) for n, d in datums_first(case["docs"])], set())
            canon = {"out": [[n, d] for n, d in cout if n == "stream_datum"], "errs": cerr}
        return {"out": out, "errs": errs, "before": before, "after": [tag(d) for _, d in docs], "canon": canon,
                "int": sorted(nz._int_keys), "ext": sorted(nz._ext_keys),
                "pending": [tag(k) for k in nz._datum_cache.keys()], "refs": len(nz._ext_ref_cache)}
    if kind == "backup":
        from bluesky.callbacks.tiled_writer import _ConditionalBackup
        n, raises, nb = case["n"], case["raises"], case["nb"]
        docs = [{"i": i} for i in range(n)]
        ident = {id(d): i for i, d in enumerate(docs)}
        plog, blog = [], []
        bfail = {tuple(x) for x in case["bfail"]}

        def primary(name, doc):
            plog.append(ident[id(doc)])
            if raises[ident[id(doc)]]:
                raise RuntimeError("primary")

        def mk(b):
            def bcb(name, doc):
                blog.append([ident.get(id(doc), -1), b, name])
                if (b, ident.get(id(doc), -1)) in bfail:
                    raise RuntimeError("backup")
            return bcb

        cb = _ConditionalBackup(primary, [mk(b) for b in range(nb)], maxlen=case["maxlen"])
        esc = []
        for i, d in enumerate(docs):
            try:
                cb("doc%d" % i, d)
            except Exception as e:  # noqa: BLE001
                esc.append([i, classify(e)])
        return {"plog": plog, "blog": blog, "escaped": esc, "buffer": [ident[id(d)] for _, d in cb._buffer],
                "push": bool(cb._push_to_backup)}
    if kind == "chain":
        from bluesky.callbacks.tiled_writer import RunNormalizer, _ConditionalBackup
        docs = [(n, copy.deepcopy(d)) for n, d in case["docs"]]
        before = [tag(d) for _, d in docs]
        ident = {id(d): i for i, (_, d) in enumerate(docs)}
        nz = RunNormalizer()
        count = [0]
        fail = set(case["fail_emit"])

        def sub(name, doc):
            count[0] += 1
            if count[0] - 1 in fail:
                raise ConsumerError("writer")

        nz.subscribe(sub)
        blog = []

        def mk(b):
            def bcb(name, doc):
                blog.append([ident.get(id(doc), -1), b, name, tag(doc)])
            return bcb

        cb = _ConditionalBackup(nz, [mk(b) for b in range(case["nb"])])
        esc = []
        for i, (name, d) in enumerate(docs):
            try:
                cb(name, d)
            except Exception as e:  # noqa: BLE001
                esc.append([i, classify(e)])
        return {"blog": blog, "escaped": esc, "before": before, "after": [tag(d) for _, d in docs],
                "buffer": [ident[id(d)] for _, d in cb._buffer], "push": bool(cb._push_to_backup)}
    if kind == "writer":
        import glob
        import shutil
        import tempfile
        from bluesky.callbacks.tiled_writer import TiledWriter
        from harness.drivers.tiled_double import ClientDouble
        docs = [(n, copy.deepcopy(d)) for n, d in case["docs"]]
        before = [tag(d) for _, d in docs]
        tmp = tempfile.mkdtemp(prefix="c35w")
        try:
            client = ClientDouble(fail_at=set(case["fail_at"]))
            tw = TiledWriter(client, backup_directory=tmp, batch_size=case["batch"])
            esc = []
            for i, (name, d) in enumerate(docs):
                try:
                    tw(name, d)
                except Exception as e:  # noqa: BLE001
                    esc.append([i, classify(e)])
            files = sorted(glob.glob(tmp + "/*.jsonl"))
            backup = []
            for f in files:
                for line in open(f):
                    rec = json.loads(line)
                    backup.append([rec["name"], tag(rec["doc"])])
            return {"backup": backup, "nfiles": len(files), "escaped": esc, "before": before,
                    "after": [tag(d) for _, d in docs], "ncalls": client.ncalls,
                    "injected": any(k < client.ncalls for k in case["fail_at"])}
        finally:
            shutil.rmtree(tmp, ignore_errors=True)
    if kind == "longrun":
        import inspect
        from bluesky.callbacks import tiled_writer as tw_mod
        default_maxlen = inspect.signature(tw_mod._ConditionalBackup.__init__).parameters["maxlen"].default
        n = case["n"]

        def tiny(i):
            if i == 0:
                return "start", {"uid": "run-L", "time": 0.0}
            if i == 1:
                return "descriptor", {"uid": "d-L", "run_start": "run-L", "time": 0.0, "name": "primary",
                                      "data_keys": {"x": {"dtype": "integer", "shape": [], "source": "s"}},
                                      "object_keys": {}, "configuration": {}, "hints": {}}
            if i == n - 1:
                return "stop", {"uid": "stop-L", "run_start": "run-L", "time": 1.0, "exit_status": "success"}
            return "event", {"uid": "e%d" % i, "descriptor": "d-L", "time": 0.5, "seq_num": i - 1,
                             "data": {"x": i}, "timestamps": {"x": 0.5}, "filled": {}}

        def summarize(ids):
            """ids of the documents a backup received, in order -> (count, first, contiguous increasing?)"""
            ok = all(b == a + 1 for a, b in zip(ids, ids[1:]))
            return {"count": len(ids), "first": ids[0] if ids else -1, "contiguous": ok}

        if case["via"] == "direct":
            received = [[] for _ in range(case["nb"])]

            def primary(name, doc):
                if doc["i"] == case["fail"]:
                    raise RuntimeError("primary")

            cb = tw_mod._ConditionalBackup(      # default-constructed: no maxlen argument
                primary, [(lambda b: (lambda name, doc: received[b].append(doc["i"])))(b) for b in range(case["nb"])])
            esc = 0
            for i in range(n):
                try:
                    cb("doc", {"i": i})
                except Exception:  # noqa: BLE001
                    esc += 1
            return {"default_maxlen": default_maxlen, "maxlen": cb._buffer.maxlen, "first_failure": case["fail"], "escaped": esc,
                    "backups": [summarize(r) for r in received]}
        # via TiledWriter: its own _factory builds _ConditionalBackup(RunNormalizer?/_RunWriter, [JSONLinesWriter])
        import glob
        import shutil
        import tempfile
        from harness.drivers.tiled_double import ClientDouble
        tmp = tempfile.mkdtemp(prefix="c35L")
        try:
            client = ClientDouble(fail_at=set(case["fail_calls"]))
            tw = tw_mod.TiledWriter(client, normalizer=None, backup_directory=tmp)     # default batch size, default buffer
            first_failure, esc = None, 0
            lo = min(case["fail_calls"])
            for i in range(n):
                name, doc = tiny(i)
                try:
                    tw(name, doc)
                except Exception:  # noqa: BLE001
                    esc += 1
                if first_failure is None and client.ncalls > lo:
                    first_failure = i
            ids = []
            index = {"run-L": 0, "d-L": 1, "stop-L": n - 1}
            for f in sorted(glob.glob(tmp + "/*.jsonl")):
                for line in open(f):
                    rec = json.loads(line)
                    u = rec["doc"]["uid"]
                    for x in (u if isinstance(u, list) else [u]):
                        ids.append(index[x] if x in index else int(x[1:]))
            return {"default_maxlen": default_maxlen, "maxlen": None, "first_failure": first_failure, "escaped": esc,
                    "backups": [summarize(ids)]}
        finally:
            shutil.rmtree(tmp, ignore_errors=True)
    raise ValueError(kind)



# ----------------------------------------------------------------------------- mirrors of Coq predicates

def datums_first(docs):
    """mirror of NormalizerSpec.datums_first"""
    k = next((i for i, (n, _) in enumerate(docs) if n in ("event", "event_page")), len(docs))
    pre, post = docs[:k], docs[k:]
    isd = lambda nd: nd[0] in ("datum", "datum_page")  # noqa: E731
    return [nd for nd in pre if not isd(nd)] + [nd for nd in docs if isd(nd)] + [nd for nd in post if not isd(nd)]


def _atom_eq(a, b):
    return type(a) is type(b) and a == b and not isinstance(a, (dict, list))


def finding_b(docs):
    """mirror of Normalizer.finding_C35_b: a frame-carrying datum arrives after an event that refers to it"""
    seen = []
    for name, d in docs:
        ids = []
        if isinstance(d, dict):
            kw, did = d.get("datum_kwargs"), d.get("datum_id")
            if name == "datum" and isinstance(kw, dict) and "datum_id" in d:
                if kw.get("frame") is not None:
                    ids = [did]
            elif name == "datum_page" and isinstance(kw, dict) and isinstance(did, list):
                fs = kw.get("frame")
                if isinstance(fs, list):
                    ids = [i for i, f in zip(did, fs) if f is not None]
        if any(_atom_eq(i, x) for i in ids for x in seen):
            return True
        if isinstance(d, dict) and isinstance(d.get("data"), dict):
            if name == "event":
                seen += list(d["data"].values())
            elif name == "event_page":
                for v in d["data"].values():
                    if isinstance(v, list):
                        seen += v
    return False


def _truthy(v):
    return bool(v)


def b_holds_py(case, obs, skip_order=False):
    """mirror of NormalizerSpec.b_holds_b on the implementation's observation (runs without errors only)"""
    docs = case["docs"]
    evs = []
    for name, d in docs:
        if not isinstance(d, dict):
            continue
        if name == "event":
            evs.append(d)
        elif name == "event_page":
            uids = d.get("uid") if isinstance(d.get("uid"), list) else []
            seqs = d.get("seq_num") if isinstance(d.get("seq_num"), list) else []
            data = d.get("data", {}) if isinstance(d.get("data", {}), dict) else {}
            fl = d.get("filled", {}) if isinstance(d.get("filled", {}), dict) else {}
            for j in range(len(uids)):
                evs.append({"uid": uids[j], "descriptor": d.get("descriptor"), "seq_num": seqs[j] if j < len(seqs) else None,
                            "data": {k: v[j] for k, v in data.items()}, "filled": {k: v[j] for k, v in fl.items()}})
    out = [(n, untag(d)) for n, d in obs["out"]]
    if [d.get("uid") for n, d in out if n == "event"] != [e.get("uid") for e in evs]:
        return "events out %s, events in %s" % ([d.get("uid") for n, d in out if n == "event"], [e.get("uid") for e in evs])
    descs = []
    for name, d in docs:
        if name == "descriptor" and isinstance(d, dict):
            descs.append((d.get("uid"), d.get("data_keys", {}) if isinstance(d.get("data_keys", {}), dict) else {}))
    isext = lambda spec: isinstance(spec, dict) and "external" in spec  # noqa: E731
    exts = [k for _, dk in descs for k, sp in dk.items() if isext(sp)]
    ints = [k for _, dk in descs for k, sp in dk.items() if not isext(sp)]
    if any(k in ints for k in exts):
        return None
    exp = []
    for e in evs:
        dk = next((dk for u, dk in descs if _atom_eq(u, e.get("descriptor"))), None)
        if dk is None:
            continue
        fl = e.get("filled", {}) if isinstance(e.get("filled", {}), dict) else {}
        data = e.get("data", {}) if isinstance(e.get("data", {}), dict) else {}
        for k, v in data.items():
            if k in dk and isext(dk[k]) and not _truthy(fl.get(k, False)):
                exp.append((e, k, v))
    passthrough = [d.get("uid") for n, d in docs if n == "stream_datum" and isinstance(d, dict)]
    conv = [d.get("uid") for n, d in out if n == "stream_datum" and not any(_atom_eq(d.get("uid"), p) for p in passthrough)]
    ids = [v for _, _, v in exp]
    cnt = lambda u, l: sum(1 for x in l if _atom_eq(u, x))  # noqa: E731
    if len(ids) != len(conv) or any(cnt(u, ids) != cnt(u, conv) for u in ids):
        return "datum ids referred to by events %s, stream datums made %s" % (ids, conv)
    frames = []
    for name, d in docs:
        if not isinstance(d, dict):
            continue
        kw = d.get("datum_kwargs", {}) if isinstance(d.get("datum_kwargs", {}), dict) else {}
        if name == "datum":
            frames.append((d.get("datum_id"), kw.get("frame")))
        elif name == "datum_page" and isinstance(d.get("datum_id"), list):
            fs = kw.get("frame") if isinstance(kw.get("frame"), list) else []
            for j, i in enumerate(d["datum_id"]):
                frames.append((i, fs[j] if j < len(fs) else None))

    def ranges(uid, o):
        for n, d in o:
            if n == "stream_datum" and _atom_eq(d.get("uid"), uid):
                try:
                    return (d["indices"]["start"], d["indices"]["stop"], d["seq_nums"]["start"], d["seq_nums"]["stop"])
                except (KeyError, TypeError):
                    return None
        return None

    cout = [(n, untag(d)) for n, d in (obs["canon"] or {"out": []})["out"]]
    for e, k, v in exp:
        r = ranges(v, out)
        if r is None:
            return "no stream datum for %s" % (v,)
        i0, i1, q0, q1 = r
        if (q0, q1) != (i0 + 1, i1 + 1):
            return "stream datum %s: seq_nums [%s,%s) are not indices [%s,%s) + 1" % (v, q0, q1, i0, i1)
        fr = next((f for i, f in frames if _atom_eq(i, v)), None)
        if fr is None:
            q = e.get("seq_num")
            if not (isinstance(q, int) and not isinstance(q, bool) and (i0, i1) == (q - 1, q)):
                return "stream datum %s of the event with seq_num %s has indices [%s,%s)" % (v, q, i0, i1)
        if not skip_order and ranges(v, cout) != r:
            return ("stream datum %s of the event with seq_num %s: ranges %s depend on the arrival order "
                    "(datums first: %s)" % (v, e.get("seq_num"), r, ranges(v, cout)))
    return None

# ----------------------------------------------------------------------------- rendering to Coq

_STRINGS = {}


def cstr(s):
    """String literals are by far the most expensive thing for coqc to read, and the same few keys
    occur thousands of times: every distinct string is defined once in the header of the cases
    files (COQ_IMPORTS) and referred to by name."""
    global COQ_IMPORTS
    assert isinstance(s, str) and all(32 <= ord(ch) < 127 for ch in s), s
    if s not in _STRINGS:
        _STRINGS[s] = "str_%d" % len(_STRINGS)
        COQ_IMPORTS = _COQ_BASE + "\n" + "\n".join(
            'Definition %s : string := "%s".' % (n, t.replace('"', '""')) for t, n in _STRINGS.items())
    return _STRINGS[s]


def cval(x):
    if x is None:
        return "VNone"
    if isinstance(x, bool):
        return "(VBool %s)" % ("true" if x else "false")
    if isinstance(x, int):
        return "(VInt (%d)%%Z)" % x
    if isinstance(x, float):
        return "(VFlt %s)" % cstr(x.hex())
    if isinstance(x, str):
        return "(VStr %s)" % cstr(x)
    if isinstance(x, dict):
        if set(x.keys()) == {"$f"}:
            return "(VFlt %s)" % cstr(x["$f"])
        return "(VDict [%s])" % "; ".join("(%s, %s)" % (cstr(k), cval(v)) for k, v in sorted(x.items()))
    if isinstance(x, list):
        return "(VList [%s])" % "; ".join(cval(v) for v in x)
    raise TypeError(type(x))


def cval_in(x):
    """input documents keep their key order (it decides processing order)"""
    if isinstance(x, dict):
        return "(VDict [%s])" % "; ".join("(%s, %s)" % (cstr(k), cval_in(v)) for k, v in x.items())
    if isinstance(x, list):
        return "(VList [%s])" % "; ".join(cval_in(v) for v in x)
    return cval(x)


def cdocs(docs):
    return "[%s]" % "; ".join("(%s, %s)" % (cstr(n), cval_in(d)) for n, d in docs)


def cerrs(errs):
    return "[%s]" % "; ".join("(%d, %s)" % (i, e) for i, e in errs)


def cbool(b):
    return "true" if b else "false"


def clist(xs, f=str):
    return "[%s]" % "; ".join(f(x) for x in xs)


def coq_term(case, obs):
    kind = case["kind"]
    if kind == "norm":
        if any(e not in ERRS for _, e in obs["errs"]):
            return None          # schema validation raised: outside the modelled fragment
        fmt = "(let docs := %s in agrees (run " + MODE + " %s docs) [%s] %s %s %s %s %s %d && Bool.eqb (finding_C35_b docs) %s"
        t = (fmt % (
            cdocs(case["docs"]), clist(case["fail_emit"]),
            "; ".join("(%s, %s)" % (cstr(n), cval(d)) for n, d in obs["out"]),
            cerrs(obs["errs"]), clist(obs["after"], cval), clist(obs["int"], cstr), clist(obs["ext"], cstr),
            clist(obs["pending"], cval), obs["refs"], cbool(finding_b(case["docs"]))))
        if obs["canon"] is not None and MODE == "Deep":
            # the boolean form of the run-level statement (b) must give the same verdict on the model
            # as its mirror gives on the implementation's observation
            t += " && Bool.eqb (b_holds_b docs) %s" % cbool(b_holds_py(case, obs) is None)
        return t + ")"
    if kind == "backup":
        if case["bfail"] and False:
            return None
        # the log of calls to the backups, the primary's log, the final buffer and flag
        exp_log = clist([(d, b) for d, b, _ in obs["blog"]], lambda p: "(%d, %d)" % p)
        return ("(let '(c, log) := cb_run nat (%d)%%N %d (cb0 nat) (seq 0 %d) %s in "
                "list_beq (prod_beq Nat.eqb Nat.eqb) log %s && lnat_beq (cb_buffer nat c) %s && Bool.eqb (cb_push nat c) %s "
                "&& lnat_beq (seq 0 %d) %s)" % (
                    case["maxlen"], case["nb"], case["n"], clist(case["raises"], cbool), exp_log,
                    clist(obs["buffer"]), cbool(obs["push"]), case["n"], clist(obs["plog"])))
    if kind == "longrun":
        if obs["first_failure"] is None:
            return None
        n, f, nb = case["n"], obs["first_failure"], len(obs["backups"])
        # cbf_run is the model's _ConditionalBackup with the buffer kept newest-first (proved equal to cb_run:
        # Proofs/Normalizer.v cb_run_fast_eq); documents are the numbers 0..n-1, the primary raises at document f
        per = " && ".join(
            "lN_beq (received_by N %d log) (nseq %d%%N (N.to_nat %d%%N))" % (b, max(r["first"], 0), r["count"] if r["contiguous"] else 0)
            for b, r in enumerate(obs["backups"]))
        return ("(N.eqb TiledTables.cb_default_maxlen %d%%N && "
                "(let log := snd (cbf_run N TiledTables.cb_default_maxlen %d (cbf0 N) (nseq 0%%N (N.to_nat %d%%N)) "
                "(repeat false (N.to_nat %d%%N) ++ (true :: nil))) in %s))" % (obs["default_maxlen"], nb, n, f, per))
    if kind == "chain":
        exp_log = clist([(d, b) for d, b, _, _ in obs["blog"]], lambda p: "(%d, %d)" % p)
        n = len(case["docs"])
        fmt = ("(let r := run " + MODE + " %s %s in let raises := map (fun i => existsb (fun e => Nat.eqb (fst e) i) (r_errs r)) (seq 0 %d) in "
                "let '(c, log) := cb_run nat 1000000%%N %d (cb0 nat) (seq 0 %d) raises in "
                "list_beq (prod_beq Nat.eqb Nat.eqb) log %s && lnat_beq (cb_buffer nat c) %s && Bool.eqb (cb_push nat c) %s "
                "&& after_sim (r_after r) %s)")
        return fmt % (clist(case["fail_emit"]), cdocs(case["docs"]), n, case["nb"], n, exp_log,
                      clist(obs["buffer"]), cbool(obs["push"]), clist(obs["after"], cval))
    return None


# ----------------------------------------------------------------------------- oracle (the property, on the observation)

def untag(x):
    if isinstance(x, dict):
        if set(x.keys()) == {"$f"}:
            return float.fromhex(x["$f"])
        return {k: untag(v) for k, v in x.items()}
    if isinstance(x, list):
        return [untag(v) for v in x]
    return x


def _expand_events(docs):
    """input events in arrival order (pages unpacked), with the index of the carrying document"""
    evs = []
    for i, (name, d) in enumerate(docs):
        if name == "event":
            evs.append((i, d))
        elif name == "event_page":
            try:
                n = len(d["uid"])
                for j in range(n):
                    evs.append((i, {"uid": d["uid"][j], "descriptor": d["descriptor"], "seq_num": d["seq_num"][j],
                                    "time": d["time"][j], "data": {k: v[j] for k, v in d["data"].items()},
                                    "timestamps": {k: v[j] for k, v in d["timestamps"].items()},
                                    "filled": {k: v[j] for k, v in d.get("filled", {}).items()}}))
            except (KeyError, IndexError, TypeError):
                pass
    return evs


def _datums(docs):
    ds = {}
    for name, d in docs:
        try:
            if name == "datum":
                ds[d["datum_id"]] = d
            elif name == "datum_page":
                kws = d["datum_kwargs"]
                for j, did in enumerate(d["datum_id"]):
                    ds[did] = {"datum_id": did, "resource": d["resource"], "datum_kwargs": {k: v[j] for k, v in kws.items()}}
        except (KeyError, IndexError, TypeError):
            pass
    return ds


RESERVED = {"time": "_time", "seq_num": "_seq_num"}


def oracle_norm(case, obs, skip_order=False):
    # (a) the caller's documents are untouched, nested dictionaries included
    if obs["after"] != obs["before"]:
        for i, (a, b) in enumerate(zip(obs["after"], obs["before"])):
            if a != b:
                return "input document %d (%s) was modified by RunNormalizer: %s -> %s" % (
                    i, case["docs"][i][0], json.dumps(b, sort_keys=True)[:300], json.dumps(a, sort_keys=True)[:300])
    # emitted documents are schema-valid (event_model's own validators, re-run here)
    from event_model import schema_validators, DocumentNames
    for name, d in obs["out"]:
        try:
            schema_validators[getattr(DocumentNames, name)].validate(untag(d))
        except Exception as e:  # noqa: BLE001
            return "emitted %s document is not schema-valid: %s" % (name, str(e)[:200])
    docs = case["docs"]
    failed_docs = {i for i, _ in obs["errs"]}
    # (b) internal values: one emitted event per input event whose carrying document was processed without error
    descs = {}
    for i, (name, d) in enumerate(docs):
        if name == "descriptor" and isinstance(d.get("data_keys"), dict) and "uid" in d and i not in failed_docs:
            descs[d["uid"]] = d
    out_events = [d for n, d in obs["out"] if n == "event"]
    in_events = _expand_events(docs)
    ok_events = [(i, e) for i, e in in_events if i not in failed_docs]
    if not failed_docs and not case["fail_emit"]:
        if len(out_events) != len(in_events):
            return "%d events received, %d emitted" % (len(in_events), len(out_events))
    by_uid = {}
    for d in out_events:
        by_uid.setdefault(d.get("uid"), []).append(d)
    for i, e in ok_events:
        if not (isinstance(e, dict) and all(k in e for k in ("uid", "descriptor", "data", "timestamps", "seq_num"))):
            continue
        if not failed_docs and not case["fail_emit"]:
            n_in = sum(1 for _, x in in_events if isinstance(x, dict) and x.get("uid") == e["uid"])
            if len(by_uid.get(e["uid"], [])) != n_in:
                return "event %s received %d times, emitted %d times" % (e["uid"], n_in, len(by_uid.get(e["uid"], [])))
        desc = descs.get(e["descriptor"])
        if desc is None or not by_uid.get(e["uid"]):
            continue
        em = by_uid[e["uid"]][0]
        for k, v in e["data"].items():
            spec = desc["data_keys"].get(k)
            if not isinstance(spec, dict) or "external" in spec:
                continue
            if e.get("filled", {}).get(k, True) is False:
                continue
            k2 = RESERVED.get(k, k)
            if k2 not in em["data"] or em["data"][k2] != tag(v):
                return "internal value %s=%r of event %s is missing from the emitted event" % (k, v, e["uid"])
            if em["timestamps"].get(k2) != tag(e["timestamps"].get(k)):
                return "timestamp of %s of event %s is missing from the emitted event" % (k, e["uid"])
    # (b) over the whole run, incl. independence of the arrival order (mirror of b_holds_b)
    if obs.get("canon") is not None:
        why = b_holds_py(case, obs, skip_order)
        if why:
            return why
    # (b) external references: every (event, unfilled external key) whose datum is in the stream -> exactly one stream datum
    if not failed_docs and not case["fail_emit"]:
        datums = _datums(docs)
        passthrough = {d["uid"] for n, d in docs if n == "stream_datum" and "uid" in d}
        sdat = [d for n, d in obs["out"] if n == "stream_datum" and d.get("uid") not in passthrough]
        expected = []
        for i, e in in_events:
            desc = descs.get(e.get("descriptor")) if isinstance(e, dict) else None
            if desc is None or "data" not in e or "seq_num" not in e:
                continue
            for k, v in e["data"].items():
                spec = desc["data_keys"].get(k)
                if isinstance(spec, dict) and "external" in spec and not e.get("filled", {}).get(k, False):
                    expected.append((e, k, v))
        ext_all = set()
        for d in descs.values():
            ext_all |= {k for k, s in d["data_keys"].items() if isinstance(s, dict) and "external" in s}
        int_all = set()
        for d in descs.values():
            int_all |= {k for k, s in d["data_keys"].items() if isinstance(s, dict) and "external" not in s}
        if not (ext_all & int_all):
            if sorted(str(v) for _, _, v in expected) != sorted(str(d["uid"]) for d in sdat):
                return "external references %s but stream datums %s" % (sorted(str(v) for _, _, v in expected), sorted(str(d["uid"]) for d in sdat))
            for e, k, v in expected:
                sd = [d for d in sdat if d["uid"] == v]
                if len(sd) != 1:
                    continue
                sd = sd[0]
                if sd["descriptor"] != e["descriptor"]:
                    return "stream datum %s has descriptor %s, event has %s" % (v, sd["descriptor"], e["descriptor"])
                i0, i1 = sd["indices"]["start"], sd["indices"]["stop"]
                if (sd["seq_nums"]["start"], sd["seq_nums"]["stop"]) != (i0 + 1, i1 + 1):
                    return "stream datum %s: seq_nums %s do not match indices %s" % (v, sd["seq_nums"], sd["indices"])
                frame = datums.get(v, {}).get("datum_kwargs", {}).get("frame")
                if frame is None and (i0, i1) != (e["seq_num"] - 1, e["seq_num"]):
                    return "stream datum %s of event seq_num %d has indices [%d,%d)" % (v, e["seq_num"], i0, i1)
    return None


def oracle_backup(case, obs):
    n, raises, nb = case["n"], case["raises"], case["nb"]
    if obs["escaped"]:
        return "an exception escaped _ConditionalBackup: %s" % obs["escaped"]
    if obs["plog"] != list(range(n)):
        return "primary received %s" % obs["plog"]
    first = next((i for i, r in enumerate(raises) if r), None)
    for b in range(nb):
        got = [d for d, bb, _ in obs["blog"] if bb == b]
        m = case["maxlen"]
        if first is None or m == 0:
            exp = []            # nothing to hand over / a zero-length buffer keeps nothing
        else:
            # every document, unless the bounded buffer (deque(maxlen)) had already dropped the oldest ones
            exp = list(range(max(0, first + 1 - m), n))
        if got != exp:
            return "backup %d received documents %s, expected %s (primary first failed at %s, maxlen %d)" % (b, got, exp, first, case["maxlen"])
        names = [nm for d, bb, nm in obs["blog"] if bb == b]
        if names != ["doc%d" % d for d in got]:
            return "backup %d received wrong names" % b
    return None


def oracle_chain(case, obs):
    if obs["escaped"]:
        return "an exception escaped _ConditionalBackup: %s" % obs["escaped"]
    n = len(case["docs"])
    for b in range(case["nb"]):
        got = [(d, doc) for d, bb, _, doc in obs["blog"] if bb == b]
        if not obs["push"]:
            if got:
                return "backup called without a primary failure"
            continue
        if [d for d, _ in got] != list(range(n)):
            return "backup %d received documents %s after the primary failed, expected each of 0..%d once in order" % (b, [d for d, _ in got], n - 1)
        for d, doc in got:
            if doc != obs["before"][d]:
                return ("backup %d received document %d (%s) altered by the primary: %s instead of %s" % (
                    b, d, case["docs"][d][0], json.dumps(doc, sort_keys=True)[:200], json.dumps(obs["before"][d], sort_keys=True)[:200]))
    if obs["after"] != obs["before"]:
        return "input documents were modified"
    return None


def oracle_writer(case, obs):
    if obs["escaped"]:
        return "an exception escaped TiledWriter with a backup directory: %s" % obs["escaped"]
    if obs["after"] != obs["before"]:
        return "TiledWriter modified the caller's documents"
    def unpack(recs):
        # RunRouter hands events / datums on as one-row pages: compare document by document after unpacking
        import event_model
        res = []
        for n, d in recs:
            d = untag(d)
            if n == "event_page":
                res += [["event", tag(dict(e))] for e in event_model.unpack_event_page(d)]
            elif n == "datum_page":
                res += [["datum", tag(dict(e))] for e in event_model.unpack_datum_page(d)]
            else:
                res.append([n, tag(d)])
        return res

    expected = unpack([[n, b] for (n, _), b in zip(case["docs"], obs["before"])])
    obs = dict(obs, backup=unpack(obs["backup"]))
    if obs["backup"] == []:
        if obs["injected"]:
            return "the client failed at call %s but nothing was written to the backup directory" % case["fail_at"]
        return None
    # the primary failed (injected fault or its own error): the backup must hold the run, each document once, in order
    if obs["backup"] != expected:
        return ("backup file holds %d documents %s, the run has %d %s (or a document differs from what the caller sent)" % (
            len(obs["backup"]), [n for n, _ in obs["backup"]][:12], len(expected), [n for n, _ in expected][:12]))
    return None


def oracle_longrun(case, obs):
    n = case["n"]
    if obs["escaped"]:
        return "%d exceptions escaped the conditional backup" % obs["escaped"]
    if obs["first_failure"] is None:
        return "harness: the injected client fault was never reached"
    for b, r in enumerate(obs["backups"]):
        if not (r["count"] == n and r["first"] == 0 and r["contiguous"]):
            return ("the primary first failed at document %d of a %d-document run; backup %d received %d documents starting with "
                    "document %d%s: the beginning of the run is lost (default buffer maxlen = %s)" % (
                        obs["first_failure"], n, b, r["count"], r["first"], "" if r["contiguous"] else ", not in order",
                        obs["default_maxlen"]))
    return None


def oracle(case, obs):
    return {"longrun": oracle_longrun, "norm": oracle_norm, "backup": oracle_backup, "chain": oracle_chain, "writer": oracle_writer}[case["kind"]](case, obs)


def finding(case, obs):
    """C35-b: a frame-carrying datum arrives after an event that refers to it (mirror of finding_C35_b);
    only failures of the order-independence / range part of (b) belong to it"""
    if case["kind"] == "norm" and finding_b(case["docs"]) and oracle_norm(case, obs, skip_order=True) is None:
        return "b"
    return None


def nontrivial(case, obs):
    if case["kind"] == "norm":
        return any(n == "stream_datum" for n, _ in obs["out"]) and not obs["errs"]
    if case["kind"] == "backup":
        return any(case["raises"][1:]) and case["n"] > 1
    if case["kind"] == "writer":
        return len(obs["backup"]) > 1
    if case["kind"] == "longrun":
        return True
    return bool(obs["push"]) and len(obs["blog"]) > 1


def describe(case):
    if case["kind"] == "norm":
        t = case.get("tag", "norm")
        return "norm:" + "/".join(t.split("/")[:3])
    if case["kind"] == "backup":
        return "backup:n=%d,nb=%d,maxlen=%s" % (min(case["n"], 6), case["nb"], "big" if case["maxlen"] > 100 else case["maxlen"])
    if case["kind"] == "longrun":
        return "longrun:%s,n=%d" % (case["via"], case["n"])
    if case["kind"] == "writer":
        return "writer:batch=%s,%s" % (case["batch"], "fault" if case["fail_at"] else "nofault")
    return "chain:nb=%d" % case["nb"]


def model_search(rng, tier):
    """When a proof or the correspondence is broken and the oracle found nothing: look for a document
    stream on which the MODEL violates the boolean restatement (inputs read back unchanged; b_holds_b
    outside the finding class), evaluated in Coq."""
    from harness import core
    cs = [c for c in cases(rng, "quick") if c["kind"] == "norm" and not c["fail_emit"]][:400]
    terms = []
    for c in cs:
        terms.append("(let docs := %s in let r := run Deep [] docs in after_sim (r_after r) (map snd docs) && "
                     "(negb (match r_errs r with nil => true | _ => false end) || finding_C35_b docs || b_holds_b docs))" % cdocs(c["docs"]))
    ok, bad, log = core.eval_cases_in_coq(ID + "search", COQ_IMPORTS, terms)
    if ok and bad:
        return {"case": cs[bad[0]], "why": "the model itself alters its inputs or loses a value / a datum on this stream"}
    return None
